/-!
# Model of `internal/targets` (loader.go, config.go): target descriptions and inheritance resolution

Mirrors, branch by branch, the Go code of `/repo/internal/targets`:

* `Config`            — `config.go` `type Config struct` : every field, in declaration order.  Go's zero value is the
                        "unset" marker of the loader (`""` for strings, `false` for the bool, `len = 0` for slices), so
                        the fields are `String` / `Bool` / `List String` exactly as in Go (an `Option` would have to
                        identify `some ""` with `none` again: `"cpu": ""` in a child does *not* override the parent).
* `RawConfig`         — `Inherits []string` + embedded `Config`.
* `FS`                — the targets directory: a finite map file name → (`bad` = unreadable as JSON | `good raw`).
* `loadRaw`           — `Loader.LoadRaw` (missing file / parse failure / sets `Name`).  The loader's cache of raw
                        configs is not modelled: the directory does not change during a load, so a cached value is
                        the value a fresh read returns (the correspondence check loads in several orders on one
                        `Loader` to confirm that the cache has no observable effect).
* `mergeConfig`       — `Loader.mergeConfig`, one equation per Go `if` statement (each statement touches one field).
* `load`              — `Loader.Load` + `Loader.resolveInheritance`.  The Go code is plainly recursive with **no
                        visited set**; `fuel` is the number of nested `Load` frames the goroutine stack can hold.
                        Running out of fuel is `Outcome.diverge` (in Go: "fatal error: stack overflow"), *not* an error
                        value: a cyclic `inherits` diverges for every fuel (Props/C18 `resolve_total_counterexample`).
* `loadV`             — the same loader with the visited *path* of `fixes/C18-1.diff` (a name that is already on the
                        current inheritance path is reported as an error).

Core Lean only.
-/
namespace LlgoVerif.Targets

/-- `type Config struct` (config.go), all fields in declaration order. -/
structure Config where
  name : String := ""
  llvmTarget : String := ""
  cpu : String := ""
  features : String := ""
  buildTags : List String := []
  goos : String := ""
  goarch : String := ""
  libc : String := ""
  rtLib : String := ""
  linker : String := ""
  linkerScript : String := ""
  cFlags : List String := []
  ldFlags : List String := []
  extraFiles : List String := []
  codeModel : String := ""
  targetABI : String := ""
  relocationModel : String := ""
  binaryFormat : String := ""
  uf2FamilyID : String := ""
  flashMethod : String := ""
  flashCommand : String := ""
  flash1200BpsReset : String := ""
  serial : String := ""
  serialPort : List String := []
  msdVolumeName : List String := []
  msdFirmwareName : String := ""
  rp2040BootPatch : Bool := false
  emulator : String := ""
  gdb : List String := []
  openOCDInterface : String := ""
  openOCDTransport : String := ""
  openOCDTarget : String := ""
  deriving DecidableEq, Repr, Inhabited

/-- `func (l *Loader) mergeConfig(dst, src *Config)`: "Non-empty values in source override those in
    destination"; slices are appended.  `Name` is never touched. Listed in the order of the Go statements. -/
def mergeConfig (dst src : Config) : Config :=
  { name := dst.name
    llvmTarget := if src.llvmTarget ≠ "" then src.llvmTarget else dst.llvmTarget
    cpu := if src.cpu ≠ "" then src.cpu else dst.cpu
    features := if src.features ≠ "" then src.features else dst.features
    goos := if src.goos ≠ "" then src.goos else dst.goos
    goarch := if src.goarch ≠ "" then src.goarch else dst.goarch
    libc := if src.libc ≠ "" then src.libc else dst.libc
    rtLib := if src.rtLib ≠ "" then src.rtLib else dst.rtLib
    linker := if src.linker ≠ "" then src.linker else dst.linker
    linkerScript := if src.linkerScript ≠ "" then src.linkerScript else dst.linkerScript
    codeModel := if src.codeModel ≠ "" then src.codeModel else dst.codeModel
    targetABI := if src.targetABI ≠ "" then src.targetABI else dst.targetABI
    relocationModel := if src.relocationModel ≠ "" then src.relocationModel else dst.relocationModel
    binaryFormat := if src.binaryFormat ≠ "" then src.binaryFormat else dst.binaryFormat
    flashCommand := if src.flashCommand ≠ "" then src.flashCommand else dst.flashCommand
    flashMethod := if src.flashMethod ≠ "" then src.flashMethod else dst.flashMethod
    flash1200BpsReset := if src.flash1200BpsReset ≠ "" then src.flash1200BpsReset else dst.flash1200BpsReset
    serial := if src.serial ≠ "" then src.serial else dst.serial
    msdFirmwareName := if src.msdFirmwareName ≠ "" then src.msdFirmwareName else dst.msdFirmwareName
    uf2FamilyID := if src.uf2FamilyID ≠ "" then src.uf2FamilyID else dst.uf2FamilyID
    rp2040BootPatch := if src.rp2040BootPatch then src.rp2040BootPatch else dst.rp2040BootPatch
    emulator := if src.emulator ≠ "" then src.emulator else dst.emulator
    openOCDInterface := if src.openOCDInterface ≠ "" then src.openOCDInterface else dst.openOCDInterface
    openOCDTransport := if src.openOCDTransport ≠ "" then src.openOCDTransport else dst.openOCDTransport
    openOCDTarget := if src.openOCDTarget ≠ "" then src.openOCDTarget else dst.openOCDTarget
    buildTags := if src.buildTags.length > 0 then dst.buildTags ++ src.buildTags else dst.buildTags
    cFlags := if src.cFlags.length > 0 then dst.cFlags ++ src.cFlags else dst.cFlags
    ldFlags := if src.ldFlags.length > 0 then dst.ldFlags ++ src.ldFlags else dst.ldFlags
    extraFiles := if src.extraFiles.length > 0 then dst.extraFiles ++ src.extraFiles else dst.extraFiles
    serialPort := if src.serialPort.length > 0 then dst.serialPort ++ src.serialPort else dst.serialPort
    msdVolumeName := if src.msdVolumeName.length > 0 then dst.msdVolumeName ++ src.msdVolumeName else dst.msdVolumeName
    gdb := if src.gdb.length > 0 then dst.gdb ++ src.gdb else dst.gdb
  }

/-- the 23 `string` settings -/
inductive SField where
  | llvmTarget | cpu | features | goos | goarch | libc | rtLib | linker | linkerScript | codeModel | targetABI | relocationModel | binaryFormat | uf2FamilyID | flashMethod | flashCommand | flash1200BpsReset | serial | msdFirmwareName | emulator | openOCDInterface | openOCDTransport | openOCDTarget
  deriving DecidableEq, Repr

/-- the 7 `[]string` settings -/
inductive LField where
  | buildTags | cFlags | ldFlags | extraFiles | serialPort | msdVolumeName | gdb
  deriving DecidableEq, Repr

def SField.all : List SField :=
  [.llvmTarget, .cpu, .features, .goos, .goarch, .libc, .rtLib, .linker, .linkerScript, .codeModel, .targetABI, .relocationModel, .binaryFormat, .uf2FamilyID, .flashMethod, .flashCommand, .flash1200BpsReset, .serial, .msdFirmwareName, .emulator, .openOCDInterface, .openOCDTransport, .openOCDTarget]

def LField.all : List LField :=
  [.buildTags, .cFlags, .ldFlags, .extraFiles, .serialPort, .msdVolumeName, .gdb]

def SField.goName : SField → String
  | .llvmTarget => "LLVMTarget"
  | .cpu => "CPU"
  | .features => "Features"
  | .goos => "GOOS"
  | .goarch => "GOARCH"
  | .libc => "Libc"
  | .rtLib => "RTLib"
  | .linker => "Linker"
  | .linkerScript => "LinkerScript"
  | .codeModel => "CodeModel"
  | .targetABI => "TargetABI"
  | .relocationModel => "RelocationModel"
  | .binaryFormat => "BinaryFormat"
  | .uf2FamilyID => "UF2FamilyID"
  | .flashMethod => "FlashMethod"
  | .flashCommand => "FlashCommand"
  | .flash1200BpsReset => "Flash1200BpsReset"
  | .serial => "Serial"
  | .msdFirmwareName => "MSDFirmwareName"
  | .emulator => "Emulator"
  | .openOCDInterface => "OpenOCDInterface"
  | .openOCDTransport => "OpenOCDTransport"
  | .openOCDTarget => "OpenOCDTarget"

def LField.goName : LField → String
  | .buildTags => "BuildTags"
  | .cFlags => "CFlags"
  | .ldFlags => "LDFlags"
  | .extraFiles => "ExtraFiles"
  | .serialPort => "SerialPort"
  | .msdVolumeName => "MSDVolumeName"
  | .gdb => "GDB"

def Config.str (c : Config) : SField → String
  | .llvmTarget => c.llvmTarget
  | .cpu => c.cpu
  | .features => c.features
  | .goos => c.goos
  | .goarch => c.goarch
  | .libc => c.libc
  | .rtLib => c.rtLib
  | .linker => c.linker
  | .linkerScript => c.linkerScript
  | .codeModel => c.codeModel
  | .targetABI => c.targetABI
  | .relocationModel => c.relocationModel
  | .binaryFormat => c.binaryFormat
  | .uf2FamilyID => c.uf2FamilyID
  | .flashMethod => c.flashMethod
  | .flashCommand => c.flashCommand
  | .flash1200BpsReset => c.flash1200BpsReset
  | .serial => c.serial
  | .msdFirmwareName => c.msdFirmwareName
  | .emulator => c.emulator
  | .openOCDInterface => c.openOCDInterface
  | .openOCDTransport => c.openOCDTransport
  | .openOCDTarget => c.openOCDTarget

def Config.list (c : Config) : LField → List String
  | .buildTags => c.buildTags
  | .cFlags => c.cFlags
  | .ldFlags => c.ldFlags
  | .extraFiles => c.extraFiles
  | .serialPort => c.serialPort
  | .msdVolumeName => c.msdVolumeName
  | .gdb => c.gdb

/-- a configuration given field-wise (used by the specification) -/
def Config.build (name : String) (s : SField → String) (b : Bool) (l : LField → List String) : Config :=
  { name := name
    llvmTarget := s .llvmTarget
    cpu := s .cpu
    features := s .features
    buildTags := l .buildTags
    goos := s .goos
    goarch := s .goarch
    libc := s .libc
    rtLib := s .rtLib
    linker := s .linker
    linkerScript := s .linkerScript
    cFlags := l .cFlags
    ldFlags := l .ldFlags
    extraFiles := l .extraFiles
    codeModel := s .codeModel
    targetABI := s .targetABI
    relocationModel := s .relocationModel
    binaryFormat := s .binaryFormat
    uf2FamilyID := s .uf2FamilyID
    flashMethod := s .flashMethod
    flashCommand := s .flashCommand
    flash1200BpsReset := s .flash1200BpsReset
    serial := s .serial
    serialPort := l .serialPort
    msdVolumeName := l .msdVolumeName
    msdFirmwareName := s .msdFirmwareName
    rp2040BootPatch := b
    emulator := s .emulator
    gdb := l .gdb
    openOCDInterface := s .openOCDInterface
    openOCDTransport := s .openOCDTransport
    openOCDTarget := s .openOCDTarget
  }


/-- `type RawConfig struct { Inherits []string; Config }` -/
structure RawConfig where
  inherits : List String := []
  config : Config := {}
  deriving DecidableEq, Repr, Inhabited

/-- `func (rc *RawConfig) HasInheritance() bool { return len(rc.Inherits) > 0 }` -/
def RawConfig.hasInheritance (rc : RawConfig) : Bool := rc.inherits.length > 0

/-- One file `<name>.json` of the targets directory, as far as `LoadRaw` can tell:
    `bad` = `json.Unmarshal` fails, `good raw` = the decoded value. -/
inductive Entry where
  | bad
  | good (raw : RawConfig)
  deriving DecidableEq, Repr

/-- The targets directory: finite map name → file (association list, first binding wins). -/
abbrev FS := List (String × Entry)

/-- Error *classes* (the texts of the Go errors are not modelled). -/
inductive Err where
  | missing (name : String)   -- os.ReadFile failed
  | parse (name : String)     -- json.Unmarshal failed
  | cycle (name : String)     -- only produced by `loadV` (the repaired loader)
  deriving DecidableEq, Repr

/-- Result of a (possibly non-terminating) computation bounded by fuel. -/
inductive Outcome (α : Type) where
  | ok (a : α)
  | error (e : Err)
  | diverge            -- fuel exhausted: the real code overflows the goroutine stack
  deriving DecidableEq, Repr

def Outcome.map {α β : Type} (f : α → β) : Outcome α → Outcome β
  | .ok a => .ok (f a)
  | .error e => .error e
  | .diverge => .diverge

/-- `Loader.LoadRaw`: read + parse + `config.Name = name`. -/
def loadRaw (fs : FS) (name : String) : Except Err RawConfig :=
  match fs.lookup name with
  | none => .error (.missing name)
  | some .bad => .error (.parse name)
  | some (.good raw) => .ok { raw with config := { raw.config with name := name } }

/-- The `for _, parentName := range raw.GetInherits()` loop of `resolveInheritance`;
    `ld` is the recursive call `l.Load`. The first failing parent ends the loop. -/
def mergeParents (ld : String → Outcome Config) : List String → Config → Outcome Config
  | [], result => .ok result
  | p :: ps, result =>
    match ld p with
    | .ok parent => mergeParents ld ps (mergeConfig result parent)
    | .error e => .error e
    | .diverge => .diverge

/-- `Loader.Load` (= `LoadRaw` then `resolveInheritance`). `fuel` bounds the nesting depth of `Load`. -/
def load (fs : FS) : Nat → String → Outcome Config
  | 0, _ => .diverge
  | fuel + 1, name =>
    match loadRaw fs name with
    | .error e => .error e
    | .ok raw =>
      if !raw.hasInheritance then
        .ok raw.config                                   -- "No inheritance, return as-is"
      else
        match mergeParents (load fs fuel) raw.inherits { name := raw.config.name } with
        | .ok result => .ok (mergeConfig result raw.config)   -- "Finally, apply current config on top"
        | .error e => .error e
        | .diverge => .diverge

/-- `Load` with the visited path of `fixes/C18-1.diff`: a name already on the current inheritance path is an
    error instead of another recursion. -/
def loadV (fs : FS) : Nat → List String → String → Outcome Config
  | 0, _, _ => .diverge
  | fuel + 1, path, name =>
    if name ∈ path then .error (.cycle name) else
    match loadRaw fs name with
    | .error e => .error e
    | .ok raw =>
      if !raw.hasInheritance then
        .ok raw.config
      else
        match mergeParents (loadV fs fuel (name :: path)) raw.inherits { name := raw.config.name } with
        | .ok result => .ok (mergeConfig result raw.config)
        | .error e => .error e
        | .diverge => .diverge

/-- Decidable acyclicity test: depth-first walk over *all* parents with the current path; `false` when a name
    repeats on its own path.  (`fs.length + 1` frames always suffice: Lemmas `acyclic_of_ranked`.) -/
def acyclicFrom (fs : FS) : Nat → List String → String → Bool
  | 0, _, _ => false
  | fuel + 1, path, name =>
    if name ∈ path then false else
    match loadRaw fs name with
    | .error _ => true
    | .ok raw => raw.inherits.all (fun p => acyclicFrom fs fuel (name :: path) p)

def acyclic (fs : FS) (name : String) : Bool := acyclicFrom fs (fs.length + 1) [] name

/-- Go names and Go types of the fields this model has (compared with the regenerated
    `Gen/C18Fields.lean` in Props/C18). -/
def modelFields : List (String × String) :=
  ("Name", "string") :: (SField.all.map fun f => (f.goName, "string"))
    ++ [("RP2040BootPatch", "bool")] ++ (LField.all.map fun f => (f.goName, "[]string"))

end LlgoVerif.Targets
