import LlgoVerif.Lemmas.CoreGo
import LlgoVerif.Lemmas.OrderFix
import LlgoVerif.Lemmas.Blocks
import LlgoVerif.Lemmas.IfaceEq
import LlgoVerif.Lemmas.StrRange
import LlgoVerif.Lemmas.TypeCvt
import LlgoVerif.Model.EfaceEq
/-!
# C01 — compiled programs behave as the Go language specifies (core language)

What is and is not a theorem here.  The property itself ("for every program of the fragment, the executable llgo
produces behaves like the reference semantics") would be compiler correctness; it is NOT proved.  It is checked by
translation validation: generated programs are run through llgo (-O0, -O2, 1–4 packages), through the reference Go
toolchain and through the reference evaluator `CoreGo.run` (checks/c01.py).  The theorems below are

* about the ORACLE: the fuel-indexed evaluator has at most one finished result per program, whatever the fuel
  (`eval_fuel_mono`, `eval_deterministic`, `run_fuel_mono`, `run_deterministic`) — "the" reference output exists;
* about one self-contained COMPILER COMPONENT, the operand-order fix-up of `internal/build/ssa_order_fix.go`
  (`fixOrder_safe` and its parts), for all blocks;
* about three more pieces of llgo whose logic is self-contained (added when seeded changes C01-4/5/6 were studied):
  the Go-type → raw-type lowering `ssa/type_cvt.go` (`lowering_lossless`, `lowering_keeps_method_sets`, …), the run-time
  equality of interface values `EfaceEqual` / `nilinterequal` (`efaceEqual_refines`, `efaceEqual_self`, …, and what the
  reference semantics says about `x == x`: `iface_eq_self`), and `for range` over a string (`range_string_spec`,
  `range_string_invalid_lead`).
-/
namespace LlgoVerif.C01
open LlgoVerif.CoreGo LlgoVerif.OrderFix LlgoVerif.Blocks LlgoVerif.TypeCvt LlgoVerif.EfaceEq

/-! ## the reference evaluator -/

/-- more fuel never changes a finished result: for every task (expression, statement, loop, call), state and fuel -/
theorem eval_fuel_mono (P : Program) {n m : Nat} (h : n ≤ m) (t : Task) (s : State) (r : RawRes) :
    eval P n t s = some r → eval P m t s = some r :=
  eval_le_extends P h t s r

/-- two finished evaluations of the same task from the same state agree, whatever fuel each was given -/
theorem eval_deterministic (P : Program) (n m : Nat) (t : Task) (s : State) (r₁ r₂ : RawRes)
    (h₁ : eval P n t s = some r₁) (h₂ : eval P m t s = some r₂) : r₁ = r₂ := by
  have a := eval_fuel_mono P (Nat.le_max_left n m) t s r₁ h₁
  have b := eval_fuel_mono P (Nat.le_max_right n m) t s r₂ h₂
  rw [a] at b
  injection b

/-- whole programs: output and termination kind do not depend on the fuel once the run finishes -/
theorem run_fuel_mono (P : Program) {n m : Nat} (h : n ≤ m) (o : Except String Outcome) :
    run P n = some o → run P m = some o := by
  unfold run
  intro hn
  cases hr : eval P n (initTask P) {} with
  | none => simp [hr] at hn
  | some r =>
    rw [eval_fuel_mono P h _ _ r hr]
    rw [hr] at hn
    exact hn

theorem run_deterministic (P : Program) (n m : Nat) (o₁ o₂ : Except String Outcome)
    (h₁ : run P n = some o₁) (h₂ : run P m = some o₂) : o₁ = o₂ := by
  have a := run_fuel_mono P (Nat.le_max_left n m) o₁ h₁
  have b := run_fuel_mono P (Nat.le_max_right n m) o₂ h₂
  rw [a] at b
  injection b

/-- out of fuel is the only way not to finish: with no fuel nothing finishes (the hypotheses above are not vacuous:
    see the `example`s below, which finish) -/
theorem eval_zero (P : Program) (t : Task) (s : State) : eval P 0 t s = none := rfl

/-- `func main() { if int8(100)+int8(100) < int8(0) { println("ok") } }` prints `ok` and terminates normally -/
def demo : Program :=
  { types := #[], methods := [], rbodies := #[], globals := [], main := 0,
    funcs := #[{ name := "main", params := [], results := [], resultInit := [],
                 body := [.ite [] (.bin .lt (.bin .add (.intLit .i8 100) (.intLit .i8 100)) (.intLit .i8 0))
                            [.print true [.strLit [111, 107]]] []] }] }

def finished (r : Option (Except String Outcome)) : Option Outcome :=
  match r with
  | some (.ok o) => some o
  | _ => none

example : finished (run demo 10) = some ⟨#[111, 107, 10], .normal⟩ := by decide
example : run demo 3 = none := by decide

/-! ## the operand-order fix-up pass (`fixSSAOrderBlock`) -/

/-- instructions with a side effect: calls, stores, other effects, the return -/
def sideEffect (i : Instr) : Bool :=
  match i.kind with
  | .call _ | .store _ | .effect | .ret => true
  | _ => false

/-- the pass only performs permitted moves: each move delays a load of a local alloc that is a result of the block's
    `Return` past instructions that neither store through that alloc nor use the loaded value -/
theorem fixOrder_moves (b : List Instr) : Steps (retResults b) b (fixBlock b) := fixBlock_steps b

/-- the output is a permutation of the block -/
theorem fixOrder_perm (b : List Instr) : (fixBlock b).Perm b := (fixBlock_steps b).perm

/-- only the designated loads move: with them removed, the block is unchanged -/
theorem fixOrder_others_fixed (b : List Instr) :
    (fixBlock b).filter (fun i => !designated (retResults b) i) = b.filter (fun i => !designated (retResults b) i) :=
  (fixBlock_steps b).filter_eq _ (by intro i h; simp [h])

/-- no two side-effecting instructions change their relative order -/
theorem fixOrder_effects (b : List Instr) : (fixBlock b).filter sideEffect = b.filter sideEffect :=
  (fixBlock_steps b).filter_eq _ (by
    intro i h
    unfold designated at h
    unfold sideEffect
    split at h <;> simp_all)

/-- every value is still defined before it is used (in particular every moved load still precedes its use) -/
theorem fixOrder_def_before_use (b : List Instr) (h : DefBeforeUse b) : DefBeforeUse (fixBlock b) :=
  (fixBlock_steps b).defBeforeUse h

/-- all of the above, for ALL blocks -/
theorem fixOrder_safe (b : List Instr) :
    (fixBlock b).Perm b ∧
    (fixBlock b).filter (fun i => !designated (retResults b) i) = b.filter (fun i => !designated (retResults b) i) ∧
    (fixBlock b).filter sideEffect = b.filter sideEffect ∧
    (DefBeforeUse b → DefBeforeUse (fixBlock b)) ∧
    Steps (retResults b) b (fixBlock b) :=
  ⟨fixOrder_perm b, fixOrder_others_fixed b, fixOrder_effects b, fixOrder_def_before_use b, fixOrder_moves b⟩

/-- `var o T; return o, o.mutate()`: go/ssa emits  t1 = *o ; t2 = call mutate(o) ; return t1, t2.  The pass delays t1. -/
def demoBlock : List Instr :=
  [⟨0, .pure, []⟩, ⟨1, .load 0, [0]⟩, ⟨2, .call [0], [0]⟩, ⟨3, .ret, [1, 2]⟩]

example : (fixBlock demoBlock).map (·.id) = [0, 2, 1, 3] := by decide
example : DefBeforeUse demoBlock := by unfold DefBeforeUse demoBlock; decide
/-- a store to the alloc between load and return blocks the move -/
example : fixBlock [⟨0, .pure, []⟩, ⟨1, .load 0, [0]⟩, ⟨2, .call [0], [0]⟩, ⟨4, .store [0], [0]⟩, ⟨3, .ret, [1, 2]⟩]
    = [⟨0, .pure, []⟩, ⟨1, .load 0, [0]⟩, ⟨2, .call [0], [0]⟩, ⟨4, .store [0], [0]⟩, ⟨3, .ret, [1, 2]⟩] := by decide

/-! ## `cl/blocks` : block kinds and compilation order (validated output, see Model/Blocks.lean)

`blocks.Infos` itself is not modelled; what IS proved: the executable reachability closure decides paths, the blocks the
specification calls *always* are visited exactly once by every complete execution path, and every output the validator
`checkInfos` accepts (the check runs it on the REAL output for every generated function) has a compilation order that is a
permutation of the blocks, marks exactly the blocks lying on a cycle as *loop*, and marks only such once-visited blocks
as *always*. -/

/-- the executable reachability answer is the truth: `b` is reachable from `a` by a non-empty path iff it says so -/
theorem blocks_reach_spec (g : CFG) (a b : Nat) (r : Bool) (h : reaches? g a b = some r) : r = true ↔ Reach g a b :=
  reaches_spec h

/-- a block the specification calls *always* (the entry nothing jumps back to; the unique exit) is visited exactly once
    by every complete execution path of a well-formed graph -/
theorem blocks_always_once (g : CFG) (hwf : wellFormed g = true) (b : Nat) (h : alwaysSpec g b = true) :
    AlwaysOnce g b :=
  always_once (wf_of_wellFormed hwf) h

/-- soundness of the validator, for every graph and every claimed output -/
theorem blocks_check_sound (g : CFG) (infos : List Info) (h : checkInfos g infos = true) :
    (orderOf infos (g.length + 1) 0).Perm (List.range g.length) ∧
    ∀ b, b < g.length → ∃ i, infos[b]? = some i ∧
      (i.kind = .loop ↔ Reach g b b) ∧ (i.kind = .always → AlwaysOnce g b) := by
  obtain ⟨hwf, _, hperm, hk⟩ := check_parts h
  refine ⟨List.isPerm_iff.mp hperm, ?_⟩
  intro b hb
  obtain ⟨i, k, hi, hs, hik⟩ := kinds_of_check hk hb
  refine ⟨i, hi, ?_, ?_⟩
  · rw [hik]; exact specKind_loop hs
  · intro ha
    rw [hik] at ha
    subst ha
    exact always_once (wf_of_wellFormed hwf) (specKind_always hs)

/-- `for i := 0; i < n; i++ { … }; return` : entry 0 → header 1 → body 2 → 1, header → exit 3 -/
def loopCFG : CFG := [⟨[1], 0⟩, ⟨[2, 3], 2⟩, ⟨[1], 1⟩, ⟨[], 1⟩]

example : checkInfos loopCFG [⟨.always, some 1⟩, ⟨.loop, some 2⟩, ⟨.loop, some 3⟩, ⟨.always, none⟩] = true := by decide
/-- calling the loop body *cond* is rejected -/
example : checkInfos loopCFG [⟨.always, some 1⟩, ⟨.loop, some 2⟩, ⟨.cond, some 3⟩, ⟨.always, none⟩] = false := by decide
/-- an order that skips a block is rejected -/
example : checkInfos loopCFG [⟨.always, some 1⟩, ⟨.loop, some 3⟩, ⟨.loop, some 3⟩, ⟨.always, none⟩] = false := by decide

/-! ## `==` on interface values in the reference semantics -/

/-- an interface value compared with itself (`x == x`, or with a copy `y := x`): a run-time panic iff the dynamic value
    is not comparable (a slice, a func, or a struct / array / interface around one); otherwise `true` iff no NaN takes
    part in the comparison — for EVERY dynamic type and value -/
theorem iface_eq_self (t : Ty) (v : Val) :
    binop .eq (.iface (some (t, v))) (.iface (some (t, v))) =
      if Val.uncomparable v then .error (rtPanic "comparing uncomparable type") else .ok (.bool (!Val.hasNaN v)) := by
  cases h : Val.uncomparable v with
  | true => simp [binop, h]
  | false => simp [binop, h, beq_self v h]

theorem iface_ne_self (t : Ty) (v : Val) :
    binop .ne (.iface (some (t, v))) (.iface (some (t, v))) =
      if Val.uncomparable v then .error (rtPanic "comparing uncomparable type") else .ok (.bool (Val.hasNaN v)) := by
  cases h : Val.uncomparable v with
  | true => simp [binop, h]
  | false => simp [binop, h, beq_self v h]

/-- NaN is not equal to itself, however deep it sits: in the interface, in a struct, in an array inside it -/
example : binop .eq (.iface (some (.float, .float 0x7ff8000000000001))) (.iface (some (.float, .float 0x7ff8000000000001)))
    = .ok (.bool false) := by
  have h : SoftFloat.isNaN SoftFloat.f64 0x7ff8000000000001 = true := by decide
  rw [iface_eq_self]; simp [Val.uncomparable, Val.hasNaN, h]
example : (Val.struct [.int .int 1, .arr [.float 0x3ff8000000000000, .float 0x7ff8000000000001]]).hasNaN = true := by decide
example : Val.uncomparable (.struct [.int .int 1, .slice none 0 0 0]) = true := by decide

/-! ## run-time equality of interface values (`EfaceEqual`, `nilinterequal` / `efaceeq`) -/

/-- **`EfaceEqual` implements Go's interface comparison**: for all operands, whenever the descriptor of the left
    operand is as the compiler owes it (`DescOK`), the routine answers — value, or panic — what the specification says -/
theorem efaceEqual_refines {α : Type} (R : ValRepr α) (equal : EqFn) (v u : Eface)
    (h : ∀ d, v.typ = some d → DescOK R equal d) : efaceEqual equal v u = specEq R v u := by
  unfold efaceEqual specEq
  cases hv : v.typ with
  | none => cases u.typ <;> rfl
  | some tv =>
    cases hu : u.typ with
    | none => rfl
    | some tu =>
      have ok := h tv hv
      simp only
      by_cases ht : tv.tid ≠ tu.tid
      · simp [ht]
      · simp only [ht, if_false]
        cases he : tv.hasEqual with
        | false => simp [ok.uncomparable he]
        | true =>
          cases hd : tv.direct with
          | true => simp [ok.direct he hd]
          | false => simp [ok.indirect he hd]

/-- the `Equal` function of `interface{}` descriptors is the same comparison (one descriptor per type identity) -/
theorem nilInterEqual_eq_efaceEqual (equal : EqFn) (v u : Eface) :
    nilInterEqual equal v u = efaceEqual equal v u := by
  unfold nilInterEqual efaceEqual efaceeq
  cases hv : v.typ with
  | none => cases hu : u.typ <;> simp
  | some tv =>
    cases hu : u.typ with
    | none => simp
    | some tu =>
      by_cases ht : tv.tid = tu.tid
      · simp [ht]
      · simp [ht]

/-- an interface value compared with ITSELF: the answer is Go's `x == x` on the dynamic value — in particular not
    `true` when that is `false` (NaN inside) and not a value at all when the dynamic type is not comparable -/
theorem efaceEqual_self {α : Type} (R : ValRepr α) (equal : EqFn) (d : Desc) (w : Nat) (h : DescOK R equal d) :
    efaceEqual equal ⟨some d, w⟩ ⟨some d, w⟩ = R.veq d.tid (R.val d.tid w) (R.val d.tid w) := by
  rw [efaceEqual_refines R equal _ _ (by intro d' hd; simp at hd; subst hd; exact h)]
  simp [specEq]

/-- float64 boxed behind a pointer: the value is the bit pattern stored at the data word, `==` is IEEE equality -/
def f64Repr (mem : Nat → Nat) : ValRepr Nat :=
  { val := fun _ p => mem p, veq := fun _ a b => .ok (SoftFloat.cmp SoftFloat.f64 a b == .eq) }

def f64Desc : Desc := ⟨2, true, false⟩

def f64Equal (mem : Nat → Nat) : EqFn := fun _ p q => .ok (SoftFloat.cmp SoftFloat.f64 (mem p) (mem q) == .eq)

theorem f64Desc_ok (mem : Nat → Nat) : DescOK (f64Repr mem) (f64Equal mem) f64Desc :=
  ⟨by intro h; simp [f64Desc] at h, by intro _ h; simp [f64Desc] at h, by intro _ _ p q; rfl⟩

/-- the hypotheses are satisfiable, and "same data word ⇒ equal" is FALSE: an interface holding NaN is not equal to
    itself although both operands are one box -/
theorem efaceEqual_self_nan :
    efaceEqual (f64Equal (fun _ => 0x7ff8000000000001)) ⟨some f64Desc, 16⟩ ⟨some f64Desc, 16⟩ = .ok false := by
  rw [efaceEqual_self (f64Repr _) _ _ _ (f64Desc_ok _)]
  show Except.ok (SoftFloat.cmp SoftFloat.f64 0x7ff8000000000001 0x7ff8000000000001 == .eq) = .ok false
  have : (SoftFloat.cmp SoftFloat.f64 0x7ff8000000000001 0x7ff8000000000001 == SoftFloat.Cmp.eq) = false := by decide
  rw [this]

/-- … and a value of an uncomparable dynamic type compared with itself panics -/
theorem efaceEqual_self_uncomparable (equal : EqFn) (tid w : Nat) (direct : Bool) :
    efaceEqual equal ⟨some ⟨tid, false, direct⟩, w⟩ ⟨some ⟨tid, false, direct⟩, w⟩ = .error () := by
  simp [efaceEqual]


/-- the reference semantics' `==` as a value representation of the run-time model -/
def coreRepr (val : Nat → Nat → Val) : ValRepr Val :=
  { val := val, veq := fun _ a b => if Val.uncomparable a then .error () else .ok (Val.beq a b) }

/-- the interface value an `eface` denotes -/
def boxOf (tyOf : Nat → Ty) (val : Nat → Nat → Val) (e : Eface) : Val :=
  .iface (e.typ.map (fun d => (tyOf d.tid, val d.tid e.data)))

/-- the two levels meet: what the evaluator computes for `a == b` on interface values is the specification the
    run-time routine is proved against (`specEq`), for every denotation of descriptors (injective on identities) and
    data words -/
theorem coreGo_iface_eq_is_specEq (tyOf : Nat → Ty) (hinj : ∀ a b, tyOf a = tyOf b → a = b) (val : Nat → Nat → Val)
    (v u : Eface) :
    binop .eq (boxOf tyOf val v) (boxOf tyOf val u) =
      (match specEq (coreRepr val) v u with
       | .ok b => .ok (.bool b)
       | .error _ => .error (rtPanic "comparing uncomparable type")) := by
  unfold boxOf specEq coreRepr
  cases hv : v.typ with
  | none => cases hu : u.typ <;> simp [binop, Val.beq]
  | some tv =>
    cases hu : u.typ with
    | none => simp [binop, Val.beq]
    | some tu =>
      by_cases ht : tv.tid = tu.tid
      · cases hc : Val.uncomparable (val tu.tid v.data) <;> simp [binop, ht, hc]
      · have hty : tyOf tv.tid ≠ tyOf tu.tid := fun h => ht (hinj _ _ h)
        simp [binop, ht, hty]

/-! ## `for i, r := range s` over a string -/

/-- the evaluator's iteration is the enumeration the specification demands (left-to-right decoding, byte offsets), it is
    the only such enumeration, and its runes are `[]rune(s)` — through C05's theorems about `StringIterNext` -/
theorem range_string_spec (s : List Nat) :
    Slice.Enumerates 0 s (runesOf s.length 0 s) ∧ (∀ l, Slice.Enumerates 0 s l → l = runesOf s.length 0 s) ∧
    (runesOf s.length 0 s).map (·.2) = Utf8.toRunes s := by
  rw [runesOf_iterAll]
  exact ⟨Slice.iter_spec' s, fun _ hl => Slice.Enumerates.unique hl (Slice.iter_spec' s), Slice.iterAll_runes s⟩

/-- a byte that cannot start a well-formed encoding — a stray continuation byte `80..BF` (in particular `80` itself),
    the overlong leads `C0`/`C1`, `F5..FF` — is ONE rune U+FFFD of width 1 at its own index, whatever follows -/
theorem range_string_invalid_lead (fuel i b : Nat) (t : List Nat) (h : (0x80 ≤ b ∧ b < 0xC2) ∨ 0xF5 ≤ b) :
    runesOf (fuel + 1) i (b :: t) = (i, 0xFFFD) :: runesOf fuel (i + 1) t :=
  runesOf_invalid_lead fuel i b t h

/-- an ASCII byte is itself -/
theorem range_string_ascii (fuel i b : Nat) (t : List Nat) (h : b < 0x80) :
    runesOf (fuel + 1) i (b :: t) = (i, b) :: runesOf fuel (i + 1) t :=
  runesOf_ascii fuel i b t h

/-- "a\x80b": the stray continuation byte is U+FFFD (65533) at index 1, not rune 128 -/
example : runesOf 3 0 [0x61, 0x80, 0x62] = [(0, 0x61), (1, 0xFFFD), (2, 0x62)] := by decide
example : (0x80 ≤ 0x80 ∧ 0x80 < 0xC2) ∨ 0xF5 ≤ 0x80 := by decide

/-! ## the Go-type → raw-type lowering (`ssa/type_cvt.go`) -/

/-- **lossless**: whatever `cvtType` returns for a source type reads back (`unlower`: closure structs → func types, raw
    twins → their declarations) as exactly that source type — field names, order, embedded flags, tags, array lengths,
    channel directions, variadic-ness included; an unchanged answer (`cvt = false`) is the type itself -/
theorem lowering_lossless (D : Decls) (hD : SrcDecls D) (fuel : Nat) (t : GTy) (m : Memo) (r : (GTy × Bool) × Memo)
    (hs : isSrc t = true) (hm : MemoOK D m) (h : cvt D fuel t m = some r) :
    unlower r.1.1 = t ∧ (r.1.2 = false → r.1.1 = t) ∧ MemoOK D r.2 := by
  obtain ⟨a, b, _, _, c⟩ := cvt_ok hD fuel t m r hs hm h
  exact ⟨a, b, c⟩

/-- the lowering is injective on source types: two source types with the same lowered type are the same type (for
    any fuels and memo tables) — nothing the type identity depends on is dropped -/
theorem lowering_injective (D : Decls) (hD : SrcDecls D) (f₁ f₂ : Nat) (t₁ t₂ : GTy) (m₁ m₂ : Memo)
    (r₁ r₂ : (GTy × Bool) × Memo) (h₁s : isSrc t₁ = true) (h₂s : isSrc t₂ = true) (hm₁ : MemoOK D m₁) (hm₂ : MemoOK D m₂)
    (h₁ : cvt D f₁ t₁ m₁ = some r₁) (h₂ : cvt D f₂ t₂ m₂ = some r₂) (he : r₁.1.1 = r₂.1.1) : t₁ = t₂ := by
  have a := (cvt_ok hD f₁ t₁ m₁ r₁ h₁s hm₁ h₁).1
  have b := (cvt_ok hD f₂ t₂ m₂ r₂ h₂s hm₂ h₂).1
  rw [← a, ← b, he]

/-- a lowered struct has the fields of the source struct: same number and order, same names, embedded flags, tags and
    (up to the raw twin) the same embedded type heads -/
theorem lowering_keeps_fields (D : Decls) (hD : SrcDecls D) (fuel : Nat) (t : GTy) (m : Memo) (r : (GTy × Bool) × Memo)
    (hs : isSrc t = true) (hm : MemoOK D m) (h : cvt D fuel t m = some r) :
    (fieldsOf (some r.1.1)).map key = (fieldsOf (some t)).map key :=
  (cvt_ok hD fuel t m r hs hm h).2.2.1

/-- **method sets survive the lowering**: after any conversion, membership of a method name in the method set of a
    named type or of the pointer to it (promotion through embedded `T` / `*T` fields at every depth, shallowest-depth
    rule, pointer-receiver rule) is the same whether it is computed from the raw twins — as `abiUncommonMethodSet`
    does — or from the source declarations -/
theorem lowering_keeps_method_sets (D : Decls) (hD : SrcDecls D) (fuel : Nat) (t : GTy) (m : Memo) (r : (GTy × Bool) × Memo)
    (hs : isSrc t = true) (hm : MemoOK D m) (h : cvt D fuel t m = some r)
    (depth id : Nat) (raw addr : Bool) (n : String) :
    inMethodSet (rawUniv D r.2) depth id raw addr n = inMethodSet (srcUniv D) depth id false addr n := by
  have hm' := (cvt_ok hD fuel t m r hs hm h).2.2.2.2
  unfold inMethodSet
  rw [selectAt_raw hm' id raw false addr n depth 0]

/-- the same for an unnamed struct type: what its embedded fields promote at every depth -/
theorem lowering_keeps_promoted (D : Decls) (hD : SrcDecls D) (fuel : Nat) (t : GTy) (m : Memo) (r : (GTy × Bool) × Memo)
    (hs : isSrc t = true) (hm : MemoOK D m) (h : cvt D fuel t m = some r) (d : Nat) (addr : Bool) :
    embEntries (levelNames (rawUniv D r.2) d) addr (fieldsOf (some r.1.1))
      = embEntries (levelNames (srcUniv D) d) addr (fieldsOf (some t)) := by
  obtain ⟨_, _, hk, _, hm'⟩ := cvt_ok hD fuel t m r hs hm h
  exact embEntries_congr (fun i r₁ r₂ a => levelNames_raw hm' d i r₁ r₂ a) addr _ _ hk

/-- `type Base struct { N int; Fn func(int) int }` with methods `Ma` (value) and `Mb` (pointer);
    `type Outer struct { Base; Tag int }` -/
def demoDecls : Decls
  | 0 => some ⟨.struct [.mk "N" (.basic "int") false "", .mk "Fn" (.sig [.basic "int"] [.basic "int"] false) false ""],
               [("Ma", false), ("Mb", true)]⟩
  | 1 => some ⟨.struct [.mk "Base" (.named 0 false) true "", .mk "Tag" (.basic "int") false "json:\"t\""], []⟩
  | _ => none

theorem demoDecls_src : SrcDecls demoDecls := by
  intro id d h
  match id with
  | 0 => simp [demoDecls] at h; subst h; decide
  | 1 => simp [demoDecls] at h; subst h; decide
  | n+2 => simp [demoDecls] at h

/-- the hypotheses are satisfiable and the conversion does something: `Outer` gets a raw twin whose underlying struct
    still embeds (the raw twin of) `Base` and keeps the tag; `Ma` is promoted to `Outer`, `Mb` only to `*Outer` -/
example : (cvt demoDecls 10 (.named 1 false) []).map (fun r => (r.1.2, (lookup r.2 1).map (fun o => o.map keys), (lookup r.2 0).map (fun o => o.map keys))) =
    some (true, some (some [("Base", true, "", .named 0 false), ("Tag", false, "json:\"t\"", .other)]),
                some (some [("N", false, "", .other), ("Fn", false, "", .other)])) := by rfl
example : inMethodSet (srcUniv demoDecls) 4 1 false false "Ma" = true ∧ inMethodSet (srcUniv demoDecls) 4 1 false false "Mb" = false
    ∧ inMethodSet (srcUniv demoDecls) 4 1 false true "Mb" = true := by decide


end LlgoVerif.C01
