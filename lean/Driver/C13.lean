import LlgoVerif.Util
import LlgoVerif.Model.Cache
/-! Line-protocol driver for C13 (stateful: the model's cache lives across lines).

    `cfg <contentHash 0|1> <ccflagsEnv 0|1>` → `ok`   selects the variant of the fingerprint code (default: `Cfg.fixed`)
    `use <opt> <ccrest>`                 → `ok <CCFLAGS list>`                    (crosscompile export)
    `key G=… P=… P=…`                    → `ok <hexid>!<canonical manifest>!<hash of the full fingerprint> …`
    `rel G=… P=… P=…`                    → `ok <hexid>!<hash of the relevant inputs> …`
    `build <force> <cacheOn> G=… P=… …`  → `ok <hexid>:<hit|miss>:<fresh|stale>:<hash of the relevant inputs>:<fingerprint> …`   (model's `buildProg` on the state)
    `clean`                              → `ok`
    `meta <rt> <py> <link args> [<archive bytes>]` → `ok hit=true <rt> <py> <link args> [<archive bytes>]`   (`loadArtifact (storeArtifact a)`)
    `abitypes <hexname>:<0|1>,…`         → `ok <names in emission order>`   (`abiTypeNames`; the list is the symbol table as `range` delivered it + the filter's verdict)
    Strings are hex of bytes (`-` = empty), lists are `,`-separated (`.` = empty).  See harness/c13/main.go. -/
open LlgoVerif LlgoVerif.Util LlgoVerif.Cache

def unhexS (h : String) : Option String :=
  (unhex h).map fun bs => String.ofList (bs.map fun b => Char.ofNat b.toNat)

def hexS (s : String) : String := hex (s.toList.map fun c => UInt8.ofNat c.toNat)

def unhexB (h : String) : Option Bytes := (unhex h).map fun bs => bs.map (·.toNat)

def hexB (b : Bytes) : String := hex (b.map UInt8.ofNat)

def unlist (s : String) : Option (List String) :=
  if s = "." then some [] else (s.splitOn ",").mapM unhexS

def hexList (l : List String) : String := if l.isEmpty then "." else ",".intercalate (l.map hexS)

def unkv (s : String) : Option (List (String × String)) :=
  if s = "." then some [] else
  (s.splitOn ",").mapM fun kv => match kv.splitOn "=" with
    | [k, v] => do pure ((← unhexS k), (← unhexS v))
    | _ => none

def parseInt (s : String) : Option Int :=
  if s.startsWith "-" then (s.drop 1).toString.toNat?.map fun n => -(n : Int) else s.toNat?.map fun n => (n : Int)

def unfile (s : String) : Option SrcFile :=
  match s.splitOn ":" with
  | p :: c :: m :: o :: rest => do
    let path ← unhexS p
    let content ← unhexB c
    let mtime ← parseInt m
    let overlay ← if o = "~" then some none else (unhexB o).map some
    let tag ← match rest with
      | [t, pol] => if t = "~" then some none else (unhexS t).map fun t => some (t, pol == "1")
      | _ => some none
    pure { file := { path, content, mtime, overlay }, tag }
  | _ => none

def unfiles (s : String) : Option (List SrcFile) :=
  if s = "." || s = "!" then some [] else (s.splitOn ",").mapM unfile

def optOf : Nat → Option OptLevel
  | 0 => some .O0 | 1 => some .O1 | 2 => some .O2 | 3 => some .O3 | 4 => some .Os | 5 => some .Oz | _ => none

def parseG (s : String) : Option Global :=
  match s.splitOn ";" with
  | [goos, goarch, target, tabi, triple, abi, opt, tags, chash, llvmver, gover, llgover, cc, ccrest, cflags, ldflags,
     linker, extra, env] => do
    pure { goos := ← unhexS goos, goarch := ← unhexS goarch, target := ← unhexS target, targetABI := ← unhexS tabi,
           llvmTriple := ← unhexS triple, abiMode := ← abi.toNat?, opt := ← (opt.toNat?).bind optOf, tags := ← unhexS tags,
           compilerHash := ← unhexS chash, llvmVersion := ← unhexS llvmver, goVersion := ← unhexS gover,
           llgoVersion := ← unhexS llgover, cc := ← unhexS cc, ccflagsRest := ← unlist ccrest, cflags := ← unlist cflags,
           ldflags := ← unlist ldflags, linker := ← unhexS linker, extraFiles := (← unfiles extra).map (·.file),
           env := ← unkv env }
  | _ => none

/-- n normal, d `LLGoPackage = "decl"`, l `"link"`, x `"link: …"`, p `"py.<mod>"`, i `"noinit"` -/
def kindOf : String → Option PkgKind
  | "n" => some .normal | "d" => some .declOnly | "l" => some .linkIR | "x" => some .linkExtern | "p" => some .pyModule
  | "i" => some .noInit | _ => none

def parseP (s : String) : Option (PkgData × List String) :=
  match s.splitOn ";" with
  | [id, path, name, kind, _modkind, modver, gof, alt, oth, side, emb, rw, deps] => do
    pure ({ id := ← unhexS id, path := ← unhexS path, name := ← unhexS name, kind := ← kindOf kind, modVersion := ← unhexS modver,
            goFiles := ← unfiles gof, altFiles := (← unfiles alt).map (·.file), otherFiles := (← unfiles oth).map (·.file),
            sideFiles := (← unfiles side).map (·.file), embedFiles := (← unfiles emb).map (·.file),
            rewriteVars := ← unkv rw }, ← unlist deps)
  | _ => none

/-- packages arrive dependencies first; unfold the DAG into one tree per package -/
def mkTrees (ps : List (PkgData × List String)) : List PkgT :=
  let acc := ps.foldl (fun (acc : List (String × PkgT)) p =>
    let deps := p.2.filterMap fun i =>
      if i == p.1.id then some (PkgT.mk p.1 []) else (acc.find? (·.1 == i)).map (·.2)
    acc ++ [(p.1.id, PkgT.mk p.1 deps)]) []
  acc.map (·.2)

def parseProg (toks : List String) : Option (Global × List PkgT) :=
  match toks with
  | g :: ps =>
    if !g.startsWith "G=" then none else do
    let g ← parseG (g.drop 2).toString
    let ps ← ps.mapM fun p => if p.startsWith "P=" then parseP (p.drop 2).toString else none
    pure (g, mkTrees ps)
  | _ => none

/-! canonical rendering — must agree with `verifCanon` in harness/c13/overlay/zz_verif_c13.go.txt -/

def hb' (c : Bytes) : String := "#" ++ hexB c

def rDigests (l : List (FileDigest String)) : String :=
  if l.isEmpty then "." else ",".intercalate (l.map fun d =>
    hexS d.path ++ "/" ++ toString d.size ++ "/" ++ toString d.mtime ++ "/" ++ (d.sha256.getD "~") ++ "/"
      ++ (d.overlayHash.getD "~"))

def rMap (m : List (String × String)) : String :=
  if m.isEmpty then "." else ",".intercalate (m.map fun kv => hexS kv.1 ++ ":" ++ hexS kv.2)

def renderWith (depFp : DepEntry String → String) (m : Manifest String) : String :=
  "env[GOOS=" ++ hexS m.env.goos ++ ";GOARCH=" ++ hexS m.env.goarch ++ ";GO_VERSION=" ++ hexS m.env.goVersion
    ++ ";LLGO_VERSION=" ++ hexS m.env.llgoVersion ++ ";LLGO_COMPILER_HASH=" ++ hexS m.env.compilerHash
    ++ ";LLVM_TRIPLE=" ++ hexS m.env.llvmTriple ++ ";LLVM_VERSION=" ++ hexS m.env.llvmVersion
    ++ ";VARS=" ++ rMap m.env.vars ++ "]"
  ++ "+common[ABI_MODE=" ++ hexS (toString m.common.abiMode) ++ ";BUILD_TAGS=" ++ hexList m.common.buildTags
    ++ ";TARGET=" ++ hexS m.common.target ++ ";TARGET_ABI=" ++ hexS m.common.targetABI ++ ";CC=" ++ hexS m.common.cc
    ++ ";CCFLAGS=" ++ hexList m.common.ccflags ++ ";CFLAGS=" ++ hexList m.common.cflags
    ++ ";LDFLAGS=" ++ hexList m.common.ldflags ++ ";LINKER=" ++ hexS m.common.linker
    ++ ";EXTRA_FILES=" ++ rDigests m.common.extraFiles ++ "]"
  ++ "+pkg[pkg_path=" ++ hexS m.pkg.pkgPath ++ ";pkg_id=" ++ hexS m.pkg.pkgID ++ ";go_files=" ++ rDigests m.pkg.goFiles
    ++ ";alt_go_files=" ++ rDigests m.pkg.altGoFiles ++ ";other_files=" ++ rDigests m.pkg.otherFiles
    ++ ";rewrite_vars=" ++ rMap m.pkg.rewriteVars ++ "]"
  ++ "+deps[" ++ (if m.deps.isEmpty then "." else ",".intercalate (m.deps.map fun d =>
      hexS d.id ++ ":" ++ hexS d.version ++ ":" ++ depFp d)) ++ "]"

/-- the driver's instance of `fp`: the full rendering (dependency fingerprints spelled out), hashed to 64 bits -/
def fp' (m : Manifest String) : String :=
  toString (hash (renderWith (fun d => d.fingerprint.getD "~") m))

def canon (m : Manifest String) : String :=
  renderWith (fun d => match d.fingerprint with | some _ => "@" ++ hexS d.id | none => "~") m

def relHash (r : Rel) : String := toString (hash (toString (repr r)))

structure St where
  cfg : Cfg := Cfg.fixed
  cache : CacheMap String Rel := []

def handle (st : St) (line : String) : St × String :=
  match fields line with
  | ["cfg", a, b] => ({ st with cfg := { contentHash := a == "1", ccflagsEnv := b == "1" } }, "ok")
  | ["use", opt, rest] =>
    match (opt.toNat?).bind optOf, unlist rest with
    | some o, some r => (st, "ok " ++ hexList (exportCCFlags { opt := o, ccflagsRest := r }))
    | _, _ => (st, "bad-op")
  | "key" :: toks =>
    match parseProg toks with
    | some (g, ts) => (st, "ok " ++ " ".intercalate (ts.map fun t =>
        let m := key st.cfg hb' fp' g t
        hexS t.data.id ++ "!" ++ canon m ++ "!" ++ fp' m))
    | none => (st, "bad-op")
  | "rel" :: toks =>
    match parseProg toks with
    | some (g, ts) => (st, "ok " ++ " ".intercalate (ts.map fun t => hexS t.data.id ++ "!" ++ relHash (relevant g t)))
    | none => (st, "bad-op")
  | "build" :: force :: cacheOn :: toks =>
    match parseProg toks with
    | some (g, ts) =>
      let o : BuildOpts := { force := force = "1", cacheOn := cacheOn = "1" }
      -- the model's buildProg, one package at a time so that hit/miss and fresh/stale can be reported
      let r := ts.foldl (fun (acc : CacheMap String Rel × List String) t =>
        let k := fp' (key st.cfg hb' fp' g t)
        let hit := o.cacheOn && !o.force && cachedKind t.data && (lookup acc.1 k).isSome
        let b := buildPkg st.cfg hb' fp' (fun r => r) (fun r => r) (fun r => r) o g acc.1 t
        let fresh := relHash b.2 == relHash (relevant g t)
        (b.1, acc.2 ++ [hexS t.data.id ++ ":" ++ (if hit then "hit" else "miss") ++ ":" ++ (if fresh then "fresh" else "stale") ++ ":" ++ relHash (relevant g t) ++ ":" ++ k]))
        (st.cache, [])
      ({ st with cache := r.1 }, "ok " ++ " ".intercalate r.2)
    | none => (st, "bad-op")
  | ["clean"] => ({ st with cache := [] }, "ok")
  | "meta" :: rt :: py :: args :: rest =>
    let ar : Option (Option Bytes) := match rest with
      | [] => some none
      | [a] => (unhexB a).map some
      | _ => none
    match unlist args, ar with
    | some l, some ar =>
      let a : Artifact Bytes := { archive := ar.getD [], md := { linkArgs := l, needRt := rt == "1", needPyInit := py == "1" } }
      let r := loadArtifact (storeArtifact a)
      let bit := fun (b : Bool) => if b then "1" else "0"
      (st, "ok hit=true " ++ bit r.md.needRt ++ " " ++ bit r.md.needPyInit ++ " " ++ hexList r.md.linkArgs
        ++ (if ar.isSome then " " ++ (if r.archive.isEmpty then "-" else hexB r.archive) else ""))
    | _, _ => (st, "bad-op")
  | ["abitypes", syms] =>
    let parsed : Option (List (String × Bool)) :=
      if syms = "." then some [] else (syms.splitOn ",").mapM fun t => match t.splitOn ":" with
        | [h, b] => (unhexS h).map fun n => (n, b == "1")
        | _ => none
    match parsed with
    | some l =>
      let filter := fun n => match l.find? (·.1 == n) with | some x => x.2 | none => false
      (st, "ok " ++ hexList (abiTypeNames filter (l.map fun x => (x.1, ""))))
    | none => (st, "bad-op")
  | _ => (st, "bad-op")

def main : IO Unit := lineLoopSt ({} : St) handle
