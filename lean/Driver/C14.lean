/-! placeholder driver (property C14 not built yet) -/
def main : IO Unit := IO.println "bad-op"
