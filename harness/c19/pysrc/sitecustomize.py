"""Loaded by `site` during Py_Initialize (first entry of PYTHONPATH): reports every import request that reaches
builtins.__import__ for the generated modules.  PyImport_ImportModule -> PyImport_Import -> builtins.__import__."""
import builtins
import os
import sys

_names = set(os.environ.get("C19_MODULES", "").split(","))
_orig = builtins.__import__


def _hook(name, globals=None, locals=None, fromlist=(), level=0):
    if name in _names and level == 0:
        sys.stderr.write("PYIMPORT %s\n" % name)
        sys.stderr.flush()
    return _orig(name, globals, locals, fromlist, level)


if os.environ.get("C19_HOOK") == "1":
    builtins.__import__ = _hook
    sys.stderr.write("HOOK ready\n")
    sys.stderr.flush()
