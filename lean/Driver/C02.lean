import LlgoVerif.Util
import LlgoVerif.Spec.GoArith
import LlgoVerif.Spec.GoFloat
import LlgoVerif.Model.GoComplex
/-! Line-protocol driver for C02: evaluates the Go specification (`Spec/GoArith.lean`).
    request: `<cls> <s:0|1> <w> <s2> <w2> <c> <x> <y>`  (x, y: decimal bit patterns; c: constant operand or 0)
    answer : decimal bit pattern of the result (w or w2 bits) | `panic divzero` | `panic negshift` -/
open LlgoVerif LlgoVerif.Util

def showE {w : Nat} (e : Except GoArith.Panic (BitVec w)) : String :=
  match e with
  | .ok v => toString v.toNat
  | .error .divZero => "panic"
  | .error .negShift => "panic"

def b2s (b : Bool) : String := if b then "1" else "0"

/-- shifts use the evaluation-safe forms (proved equal to the mathematical ones in Lemmas/Arith.lean) -/
def shlSafe (sy : Bool) (x : BitVec w) (y : BitVec u) : Except GoArith.Panic (BitVec w) :=
  if GoArith.val sy y < 0 then .error .negShift else .ok (GoArith.shlE x (GoArith.val sy y).toNat)
def shrSafe (sx sy : Bool) (x : BitVec w) (y : BitVec u) : Except GoArith.Panic (BitVec w) :=
  if GoArith.val sy y < 0 then .error .negShift else .ok (GoArith.shrE sx x (GoArith.val sy y).toNat)

def evalOp (cls : String) (s : Bool) (w : Nat) (s2 : Bool) (w2 : Nat) (c : Int) (xn yn : Nat) : String :=
  let x := BitVec.ofNat w xn
  let y := BitVec.ofNat w yn
  let yc := BitVec.ofInt w c
  match cls with
  | "add" => toString (GoArith.add s x y).toNat
  | "sub" => toString (GoArith.sub s x y).toNat
  | "mul" => toString (GoArith.mul s x y).toNat
  | "quo" => showE (GoArith.quo s x y)
  | "rem" => showE (GoArith.rem s x y)
  | "and" => toString (x &&& y).toNat
  | "or" => toString (x ||| y).toNat
  | "xor" => toString (x ^^^ y).toNat
  | "andnot" => toString (x &&& ~~~y).toNat
  | "neg" => toString (GoArith.neg s x).toNat
  | "not" => toString (~~~x).toNat
  | "eq" => b2s (GoArith.eq s x y)
  | "ne" => b2s (!GoArith.eq s x y)
  | "lt" => b2s (GoArith.lt s x y)
  | "le" => b2s (GoArith.le s x y)
  | "gt" => b2s (GoArith.lt s y x)
  | "ge" => b2s (GoArith.le s y x)
  | "shl" => showE (shlSafe s2 x (BitVec.ofNat w2 yn))
  | "shr" => showE (shrSafe s s2 x (BitVec.ofNat w2 yn))
  | "conv" => toString (GoArith.conv s w2 x).toNat
  | "quoc" => showE (GoArith.quo s x yc)
  | "remc" => showE (GoArith.rem s x yc)
  | "quox" => showE (GoArith.quo s yc y)
  | "remx" => showE (GoArith.rem s yc y)
  | "shlc" => toString (GoArith.shlE x c.toNat).toNat
  | "shrc" => toString (GoArith.shrE s x c.toNat).toNat
  | _ => "bad-op"

/-- float requests: `<cls> <s> <w> <s2> <w2> 0 <x> <y>`; `w` is the float width except for `i2f` (integer width `w`,
    float width `w2`); `f2i`: float width `w`, integer `s2`/`w2`, answer `impl` where Go leaves the result open -/
def evalF (cls : String) (s : Bool) (w : Nat) (s2 : Bool) (w2 : Nat) (xn yn : Nat) : String :=
  let x := BitVec.ofNat w xn
  let y := BitVec.ofNat w yn
  match cls with
  | "fadd" => toString (GoFloat.add x y).toNat
  | "fsub" => toString (GoFloat.sub x y).toNat
  | "fmul" => toString (GoFloat.mul x y).toNat
  | "fquo" => toString (GoFloat.quo x y).toNat
  | "fneg" => toString (GoFloat.neg x).toNat
  | "feq" => b2s (GoFloat.eq x y)
  | "fne" => b2s (GoFloat.ne x y)
  | "flt" => b2s (GoFloat.lt x y)
  | "fle" => b2s (GoFloat.le x y)
  | "fgt" => b2s (GoFloat.gt x y)
  | "fge" => b2s (GoFloat.ge x y)
  | "i2f" => toString (GoFloat.ofInt s w2 x).toNat
  | "f2i" => match GoFloat.toInt s2 w2 x with
             | some v => toString v.toNat
             | none => "impl"
  | "fconv" => toString (GoFloat.conv w2 x).toNat
  | _ => "bad-op"

def showP (p : Nat × Nat) : String := toString p.1 ++ " " ++ toString p.2

/-- complex requests: `<cls> <w> <w2> <a> <b> <c> <d>` (component width `w`; `w2` only for `cconv`) -/
def evalC (cls : String) (w w2 : Nat) (a b c d : Nat) : String :=
  let F := SoftFloat.Fmt.ofWidth w
  match cls with
  | "cadd" => showP (GoComplex.cadd F a b c d)
  | "csub" => showP (GoComplex.csub F a b c d)
  | "cmul" => showP (GoComplex.cmul F a b c d)
  | "cquo" => showP (GoComplex.cquo F a b c d)
  | "cneg" => showP (GoComplex.cneg F a b)
  | "ceq" => b2s (GoComplex.ceq F a b c d)
  | "cne" => b2s (!GoComplex.ceq F a b c d)
  | "cconv" => showP (GoComplex.cconv F (SoftFloat.Fmt.ofWidth w2) a b)
  | _ => "bad-op"

def isFloatCls (cls : String) : Bool :=
  cls.startsWith "f" || cls == "i2f"

def handle (line : String) : String :=
  match fields line with
  | [cls, w, w2, a, b, c, d] =>
    match w.toNat?, w2.toNat?, a.toNat?, b.toNat?, c.toNat?, d.toNat? with
    | some w, some w2, some a, some b, some c, some d => evalC cls w w2 a b c d
    | _, _, _, _, _, _ => "bad-op"
  | [cls, s, w, s2, w2, c, x, y] =>
    match w.toNat?, w2.toNat?, c.toInt?, x.toNat?, y.toNat? with
    | some w, some w2, some c, some x, some y =>
      if isFloatCls cls then evalF cls (s == "1") w (s2 == "1") w2 x y
      else evalOp cls (s == "1") w (s2 == "1") w2 c x y
    | _, _, _, _, _ => "bad-op"
  | _ => "bad-op"

def main : IO Unit := lineLoop handle
