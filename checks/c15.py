"""C15 — reflect and fmt describe values and types as Go does: the COMPILER-EMITTED half only.

What reflect reads is what the compiler wrote: type strings, kinds, flags, method tables (order, exported count), field
tables (names, tags, embedding, order).  The run-time libraries (runtime/internal/lib/reflect, fmt) cannot be built or run
in this sandbox (every program importing reflect/fmt fails to build with llgo here, DESIGN.md §9) and are NOT covered.

Lean: Model/TypeStr.lean (ssa/abi/type.go Str/…/TFlag/Kind, ssa/abitype.go table builders), Props/C15.lean.
Tie (B): harness/c15 imports the REAL ssa/abi and describes generated go/types values; the compiled model must agree.
Spec oracle: the same generated source, compiled by the reference `go build`, dumps reflect.Type.String()/Kind()/NumMethod()/
Method(i)/Field(i) — "as Go does" is judged against that.
Tie (A): the same package compiled by llgo (-O0 -gen-llfiles); the emitted descriptor constants are read back from the IR
(vlib/irdesc.py) and compared symbol by symbol with what the harness/model say ssa/abitype.go emits.
Run-time readers (runtime_tie): every emitted descriptor is rebuilt in native memory with the layout the IR declares
(vlib/irlayout.py, harness/c15/native) and read by the REAL runtime/abi (Uncommon, NumMethod, ExportedMethods, IsExported) and
runtime/internal/runtime (DirectIfaceData, IfacePtrData; native copy); judged against the reference reflect (NumMethod, Method(i),
PkgPath, Field(i).PkgPath) and the receiver-word rule; Model/TypeDesc.lean (where the uncommon part sits per kind, which kinds are
direct-iface, StructType.PkgPath_) is compared with both sites.
PtrToThis_ (ir_tie): for every pointer descriptor *T emitted in the module, T's PtrToThis_ must lead to it (defined pointer types
Z15P<k> of 24 element shapes included) — llgo's reflect synthesises a second *T when it is nil; Go: PointerTo(T) is the type of &v.
Field lookup (fbn_tie): (*structType).FieldByNameFunc / FieldByName of runtime/internal/lib/reflect are extracted verbatim from the working
tree, compiled natively with the working tree's runtime/abi (harness/c15/fbn) and run on llgo-layout descriptors of generated struct
embedding graphs (chains, shadowing, diamonds of any depth, cycles through pointers); judged against the reference reflect on the same types.
e2e (e2e_tie): the compiled program itself (println only) calls methods of defined types of every kind through interfaces; its text
must be the reference build's.
"""
import json
import os
import re

from vlib.common import *
from vlib import typegen as tg
from vlib import irdesc

sh = run

KINDS = ["invalid", "bool", "int", "int8", "int16", "int32", "int64", "uint", "uint8", "uint16", "uint32", "uint64", "uintptr", "float32",
         "float64", "complex64", "complex128", "array", "chan", "func", "interface", "map", "ptr", "slice", "string", "struct", "unsafe.Pointer"]

CORPUS = [
    "int", "byte", "rune", "unsafe.Pointer", "error", "any", "*int", "**int", "***p.T", "[]byte", "[3]*int", "map[string]int", "map[*int]string",
    "map[p.Ptr]int", "chan int", "chan<- int", "<-chan int", "chan (<-chan int)", "chan<- (chan int)", "<-chan (chan int)", "chan (chan<- int)",
    "func()", "func(int) string", "func(int, ...string) (int, error)", "func(...*int)", "func(func(int) string) func()",
    "struct{}", "struct{ A int }", 'struct{ A int "x:1" }', 'struct{ A int `json:"a,omitempty"`; b string "k" }', "struct{ p.T }", "struct{ *p.T; q.U }",
    "struct{ a int; B *p.T }", "struct{ _ int }", "interface{}", "interface{ M() int }", "interface{ M() int; k() }", "interface{ p.K }", "interface{ p.Ka; q.Kb }",
    "p.T", "*p.T", "p.E", "p.Ptr", "*p.Ptr", "**p.Ptr", "[]p.Ptr", "p.Fn", "p.Sl", "p.Mp", "p.I", "p.J", "p.K", "p.Mix", "p.MixT", "*p.MixT", "p.UniT", "*p.UniT", "p.Uni", "p.Ch", "p.Em", "*p.Em",
    "p.AT", "p.AI", "struct{ p.AT }", "p.G[int]", "p.G[*int]", "p.G[p.T]", "p.G[q.T]", "p.G[[]p.T]", "p.G[map[string]*q.T]", "p.G[p.G[int]]", "p.H[string, p.Ptr]", "*p.G[string]",
    "p.G[interface{ M() int }]", "p.G[any]", "p.G[error]", "p.G[chan (<-chan int)]", "p.G[map[*int]bool]", "T", "*T", "G[T]", "G[q.T]", "Mix", "MixT", "Ptr", "*Ptr",
    'struct{ F func(); A int `json:"a"` }', 'struct{ A int "x:1"; F func(int) string; b string "k" }', 'struct{ A int "x:1"; G [2]func() }',
    "struct{ _ [0]func(); x int }", "[2]struct{ _ [0]func(); x int }", "struct{ F struct{ _ [0]func(); x int }; G int }", "struct{ x int; _ [0]func() }",
    "struct{ lo, hi uint32; _ [0]uint64 }", "struct{ _ [0]func(); b bool }", "struct{ b bool; _ [0]complex128 }", "struct{ _ [0]*int; b uint8 }",
    "struct{ _ int; x int }", "struct{ _ string }", "struct{ _ []int }", "struct{ _ func() }", "struct{ _ map[int]int; a int }", "struct{ _ struct{}; a int8 }",
    "struct{ _ [0]struct{ _ []int } }", "[0]func()", "[0]uint64", "[3]struct{ a uint8; _ [0]uint32 }", "struct{ _ [0][]byte; _ [0]uint64; c uint16 }",
    "map[struct{ _ [0]uint64; k uint8 }]int", "*struct{ _ [0]func() }", "struct{ _ interface{}; _ chan int }", "struct{ a uint8; _ uint64 }",
    "[2][]map[string]*p.G[byte]", "map[[2]p.E]chan<- func(...p.S) error", "p.G[func(int)]", "p.G[struct{ A int }]",
]


# ------------------------------------------------------------------------------------------------ C15's own shapes
# (added to the universe of vlib/typegen.py; every name carries the prefix z15 / Z15 / w15 / W15)

PRELUDE_C15 = """
// ---- C15: non-exported names that reach a struct only through EMBEDDING (value, pointer, interface, alias)
type z15base struct{ id int }
type z15count int
type z15ab = z15base
type Z15AB = z15base
type z15ub = T
type z15str interface{ String() string }
type Z15SrvV struct {
	z15base
	Addr string
}
type Z15SrvP struct {
	*z15base
	Addr string
}
type Z15SrvE struct {
	error
	Code int
}
type Z15SrvA struct {
	z15ab
	X int
}
type Z15SrvC struct {
	z15count
	Name string
}
type Z15SrvI struct {
	z15str
	Name string
}
type Z15Open struct {
	T
	Addr string
}
type Z15Mixed struct {
	z15base
	Addr string
	n    int
}
"""

NAMED_STRUCT_SHAPES = ["Z15SrvV", "Z15SrvP", "Z15SrvE", "Z15SrvA", "Z15SrvC", "Z15SrvI", "Z15Open", "Z15Mixed"]

# defined types over every kind that can carry methods: (underlying, a value, an int computed from the receiver `v`)
DEF_KINDS = [
    ("chan int", "make(chan int, 3)", "cap(v)"),
    ("chan<- string", "make(chan string, 4)", "cap(v)"),
    ("<-chan *T", "make(chan *T, 5)", "cap(v)"),
    ("[]int", "[]int{7, 8}", "len(v)*10 + v[0]"),
    ("map[string]int", 'map[string]int{"a": 1, "b": 2}', "len(v)"),
    ("func(int) int", "func(x int) int { return x + 40 }", "v(2)"),
    ("[2]int", "[2]int{4, 5}", "v[0]*10 + v[1]"),
    # stored IN the interface data word (directIfaceType): one-element arrays / one-field structs of pointer-shaped types
    ("[1]*z15node", "[1]*z15node{z15n}", "v[0].id"),
    ("[1]chan int", "[1]chan int{make(chan int, 6)}", "cap(v[0])"),
    ("[1]map[string]int", '[1]map[string]int{{"a": 1}}', "len(v[0])"),
    ("[1]unsafe.Pointer", "[1]unsafe.Pointer{unsafe.Pointer(z15n)}", "(*z15node)(v[0]).id"),
    ("[1][1]*z15node", "[1][1]*z15node{{z15n}}", "v[0][0].id"),
    ("[1]struct{ p *z15node }", "[1]struct{ p *z15node }{{z15n}}", "v[0].p.id"),
    ("struct{ p *z15node }", "struct{ p *z15node }{z15n}", "v.p.id"),
    ("struct{ a [1]*z15node }", "struct{ a [1]*z15node }{[1]*z15node{z15n}}", "v.a[0].id"),
    ("struct{ c chan int }", "struct{ c chan int }{make(chan int, 9)}", "cap(v.c)"),
    ("struct{ u unsafe.Pointer }", "struct{ u unsafe.Pointer }{unsafe.Pointer(z15n)}", "(*z15node)(v.u).id"),
    ("struct{ m map[string]int }", 'struct{ m map[string]int }{map[string]int{"x": 1, "y": 2, "z": 3}}', "len(v.m)"),
    # boxed
    ("[1]func() int", "[1]func() int{func() int { return 33 }}", "v[0]()"),
    ("string", '"hello"', "len(v)"),
    ("float64", "6.5", "int(v * 2)"),
    ("int", "21", "int(v)"),
    ("uintptr", "22", "int(v)"),
    ("bool", "true", "z15b2i(bool(v))"),
    ("complex128", "complex(3, 4)", "int(real(v)) + int(imag(v))"),
    ("struct{ A, B int8 }", "struct{ A, B int8 }{2, 6}", "int(v.A)*10 + int(v.B)"),
    ("[2]*z15node", "[2]*z15node{z15n, z15n.next}", "v[0].id*10 + v[1].id"),
    ("[0]*z15node", "[0]*z15node{}", "len(v) + 70"),
    ("struct{ _ struct{}; p *z15node }", "struct{ _ struct{}; p *z15node }{p: z15n}", "v.p.id"),
    ("[1]int", "[1]int{19}", "v[0]"),
]
# method sets: 0 none, 1 one value-receiver method, 2 one pointer-receiver method, 3 value + non-exported value + pointer
DEF_MSETS = [0, 1, 2, 3]


# element types of the defined pointer types Z15P<k> (package main)
DEF_PTR_ELEMS = ["int", "string", "[]int", "z15node", "struct{ a int }", "*int", "Z15P0", "map[string]int", "func()", "chan int", "any", "[2]int",
                 "p.T", "q.U", "z15IDer", "Z15D0_1", "float64", "[0]int", "struct{}", "**p.T", "p.Ptr", "unsafe.Pointer", "error", "[]Z15P3"]


def def_name(k, m):
    return "Z15D%d_%d" % (k, m)


def main_shapes(witness):
    """-> Go source for package main only: the defined types, their methods and z15Run() that calls them through interfaces"""
    out = ["""
// ---- C15: defined types of every kind with methods; values are converted to interfaces and their methods called
type z15node struct {
	next *z15node
	id   int
}

var z15n = &z15node{&z15node{nil, 8}, 7}

type z15IDer interface{ ID() int }
type z15Closer interface{ Close() }

func z15b2i(b bool) int {
	if b {
		return 1
	}
	return 0
}
"""]
    run = []
    for k, (under, val, idx) in enumerate(DEF_KINDS):
        for m in DEF_MSETS:
            nm = def_name(k, m)
            out.append("type %s %s" % (nm, under))
            if m in (1, 3):
                out.append("func (v %s) ID() int { return %s }" % (nm, idx))
            if m == 3:
                out.append("func (v %s) k() int { return (%s) + 1000 }" % (nm, idx))
                out.append("func (p *%s) Ptr() int { v := *p; return (%s) + 2000 }" % (nm, idx))
            if m == 2:
                out.append("func (p *%s) Set() int { v := *p; return (%s) + 3000 }" % (nm, idx))
            body = ["\t{", "\t\tv := %s(%s)" % (nm, val), "\t\tvar a any = v"]
            if m in (1, 3):
                body += ["\t\tvar i z15IDer = v", '\t\tprintln("e2e %s static", i.ID())' % nm,
                         "\t\tj, ok := a.(z15IDer)", '\t\tprintln("e2e %s assert", ok)' % nm,
                         "\t\tif ok {", '\t\t\tprintln("e2e %s dynamic", j.ID())' % nm, "\t\t}",
                         "\t\tf := i.ID", '\t\tprintln("e2e %s methodvalue", f())' % nm,
                         "\t\tswitch x := a.(type) {", "\t\tcase z15Closer:", '\t\t\tprintln("e2e %s switch closer", x != nil)' % nm,
                         "\t\tcase z15IDer:", '\t\t\tprintln("e2e %s switch", x.ID())' % nm, "\t\tdefault:", '\t\t\tprintln("e2e %s switch none")' % nm, "\t\t}"]
            else:
                body += ["\t\t_, ok := a.(z15IDer)", '\t\tprintln("e2e %s assert", ok)' % nm]
            if m == 3:
                body += ["\t\tkk, ok2 := a.(interface{ k() int })", '\t\tprintln("e2e %s assert-k", ok2)' % nm, "\t\tif ok2 {", '\t\t\tprintln("e2e %s k", kk.k())' % nm, "\t\t}",
                         "\t\t_, ok3 := a.(interface{ Ptr() int })", '\t\tprintln("e2e %s value-has-Ptr", ok3)' % nm,
                         "\t\tvar pa any = &v", "\t\tpp, ok4 := pa.(interface{ Ptr() int })", '\t\tprintln("e2e %s assert-ptr", ok4)' % nm,
                         "\t\tif ok4 {", '\t\t\tprintln("e2e %s Ptr", pp.Ptr())' % nm, "\t\t}",
                         "\t\tpi, ok5 := pa.(z15IDer)", '\t\tprintln("e2e %s ptr-assert", ok5)' % nm, "\t\tif ok5 {", '\t\t\tprintln("e2e %s ptr-ID", pi.ID())' % nm, "\t\t}"]
            if m == 2:
                body += ["\t\tvar pa any = &v", "\t\tpp, ok4 := pa.(interface{ Set() int })", '\t\tprintln("e2e %s assert-ptr", ok4)' % nm,
                         "\t\tif ok4 {", '\t\t\tprintln("e2e %s Set", pp.Set())' % nm, "\t\t}"]
            body.append("\t}")
            run.append((k, m, "\n".join(body)))
    # ---- DEFINED POINTER types (type P *T) of every element shape: &v keeps *P alive, so the module holds the descriptors of
    # both P and *P and P's PtrToThis_ must lead to *P (ir_tie, "reflect-ir:ptrtothis"); an alias of a pointer type for contrast
    out.append("type Z15PA = *z15node")
    keep = ["&z15pa"]
    out.append("var z15pa Z15PA")
    for k, under in enumerate(DEF_PTR_ELEMS):
        out.append("type Z15P%d *%s" % (k, under))
        out.append("var z15p%d Z15P%d" % (k, k))
        keep.append("&z15p%d" % k)
    out.append("var z15pKeep = []any{%s}" % ", ".join(keep))
    out += witness["decls"]
    # the boxed kinds and the witnesses first; a wrong receiver word of the direct kinds may make the program die
    order = sorted(run, key=lambda r: (0 if r[0] >= 18 else 1 if r[0] < 7 else 2, r[0], r[1]))
    out.append("\nfunc z15Run() {\n" + "\n".join("\t" + st for st in witness["e2e"]) + "\n" + "\n".join(r[2] for r in order) + "\n}\n")
    return "\n".join(out)


def struct_shapes(rng):
    """struct types whose non-exported fields are (only / also) EMBEDDED ones, systematically: every embedded non-exported
    name x position x presence of an ordinary non-exported field x presence of an exported embedded field, and pairs"""
    emb_unexp = ["z15base", "*z15base", "z15count", "error", "z15ab", "*z15ab", "z15ub", "*z15ub", "z15str", "int", "string", "any"]
    emb_exp = ["T", "*p.T", "p.I", "Z15AB", "*Z15AB", "p.Z15SrvV", "q.E", "*q.Z15SrvE"]
    ord_exp = ["A int", "Name string", "B *p.T", "C []q.U", "Z9 map[string]int", "Addr string"]
    out = []

    def fname(e):
        return e.lstrip("*").split(".")[-1]
    for e in emb_unexp:
        x1, x2 = rng.choice(ord_exp), rng.choice(ord_exp)
        while x2.split()[0] == x1.split()[0]:
            x2 = rng.choice(ord_exp)
        ee = rng.choice([x for x in emb_exp if fname(x) != fname(e)])
        out += ["struct{ %s }" % e, "struct{ %s; %s }" % (e, x1), "struct{ %s; %s }" % (x1, e), "struct{ %s; %s; %s }" % (x1, e, x2),
                "struct{ %s; %s; n int }" % (e, x1), "struct{ n int; %s; %s }" % (x1, e), "struct{ %s; %s; %s }" % (ee, e, x1),
                'struct{ %s "k"; %s `json:"a"` }' % (e, x1), "struct{ _ int; %s; %s }" % (e, x1)]
    for _ in range(12):
        a, b = rng.sample(emb_unexp, 2)
        if fname(a) == fname(b):
            continue
        out.append("struct{ %s; %s; %s }" % (a, b, rng.choice(ord_exp)))
    for e in emb_exp:
        out += ["struct{ %s }" % e, "struct{ %s; %s }" % (e, rng.choice(ord_exp))]
    seen, res = set(), []
    for t in out:
        if t not in seen:
            seen.add(t)
            res.append(t)
    return res


def load_witnesses():
    return json.load(open(os.path.join(VERIF, "corpus", "C15", "witnesses.json")))


def package_source(pkg, decls, name=None, extra_imports=(), main_extra=""):
    imports = ['import "unsafe"'] + ['import %s "%s/%s"' % (i, tg.MOD, i) for i in {"p": [], "q": ["p"], "r": ["p", "q"]}[pkg]] + ['import "%s"' % i for i in extra_imports]
    uses = ["var _ unsafe.Pointer", "const pkgID = %d" % (["p", "q", "r"].index(pkg) + 1)] + ["var _ %s.T" % i for i in {"p": [], "q": ["p"], "r": ["p", "q"]}[pkg]]
    return "package %s\n\n%s\n\n%s\n%s\n%s\n%s\n%s\n" % (name or pkg, "\n".join(imports), "\n".join(uses), tg.PRELUDE_COMMON, PRELUDE_C15, main_extra, "\n".join(decls))


ORACLE_MAIN = r'''
func hx(s string) string {
	if s == "" {
		return "-"
	}
	return hex.EncodeToString([]byte(s))
}

func dump(i int, t reflect.Type) {
	var ms, fs []string
	for k := 0; k < t.NumMethod(); k++ {
		m := t.Method(k)
		ms = append(ms, hx(m.Name)+","+hx(m.PkgPath))
	}
	if t.Kind() == reflect.Struct {
		for k := 0; k < t.NumField(); k++ {
			f := t.Field(k)
			a := "0"
			if f.Anonymous {
				a = "1"
			}
			fs = append(fs, hx(f.Name)+","+hx(string(f.Tag))+","+a+","+hx(f.PkgPath))
		}
	}
	v := "0"
	if t.Kind() == reflect.Func && t.IsVariadic() {
		v = "1"
	}
	c := "0"
	if t.Comparable() {
		c = "1"
	}
	layout := fmt.Sprintf("%s,%d,%d,%d", c, t.Align(), t.FieldAlign(), t.Size())
	fmt.Println("desc", i, hx(t.String()), int(t.Kind()), t.NumMethod(), hx(t.PkgPath()), hx(t.Name()), v, layout, "M:", strings.Join(ms, " "), "| F:", strings.Join(fs, " "))
}
'''


def embeds_generic(t):
    """does the term contain a struct that embeds an instantiated generic type (directly or by pointer)?"""
    if t[0] == 'st':
        for (name, emb, tag, ft) in t[1]:
            base = ft[1] if ft[0] == 'p' else ft
            if emb and base[0] == 'n' and base[3]:
                return True
    return any(embeds_generic(x) for x in tg._children(t))


def gen_types(rng, n, witness):
    """-> (types, number of FIXED leading entries (corpus, witnesses, systematic shapes) that always reach every route)"""
    out = [("corpus", s, None) for s in CORPUS]
    out += [("corpus", s, None) for s in witness["types"]]
    out += [("shape", x, None) for x in NAMED_STRUCT_SHAPES] + [("shape", "%s.%s" % (pk, x), None) for pk in ("p", "q") for x in NAMED_STRUCT_SHAPES]
    out += [("shape", def_name(k, m), None) for k in range(len(DEF_KINDS)) for m in DEF_MSETS]
    out += [("shape", "*" + def_name(k, m), None) for k in range(len(DEF_KINDS)) for m in (2, 3)]
    out += [("shape", s, None) for s in struct_shapes(rng)]
    nfixed = len(out)
    g = tg.Gen(rng, home="r", allow_local=False)
    while len(out) < n + nfixed - len(CORPUS):
        try:
            t = g.typ(rng.choice([1, 2, 2, 3, 3, 4]), force=rng.choice([None, None, None, "struct", "func", "iface"]))
        except (IndexError, ValueError):
            continue
        if not tg.valid(t):
            continue
        out.append(("generated", tg.render(t, "r"), t))
    return out, nfixed


def strip_chan_parens(t):
    """`chan (<-chan int)` -> `chan <-chan int` (llgo does not parenthesise a channel element)"""
    out = []
    i = 0
    while i < len(t):
        m = re.match(r'(chan<- |<-chan |chan )\(', t[i:])
        if m and (i == 0 or not (t[i - 1].isalnum() or t[i - 1] == '_')):
            # find the matching parenthesis
            depth, j = 0, i + len(m.group(0)) - 1
            k = j
            while k < len(t):
                if t[k] == '(':
                    depth += 1
                elif t[k] == ')':
                    depth -= 1
                    if depth == 0:
                        break
                k += 1
            inner = t[j + 1:k]
            if re.match(r'(chan<- |<-chan |chan )', inner):
                out.append(m.group(1))
                t = t[:i] + m.group(1) + inner + t[k + 1:]
                continue
        out.append(t[i])
        i += 1
    return t


STRING_NORMALISERS = [
    # (class, what Go's reflect string must be turned into to obtain llgo's emitted string)
    ("struct-tag", lambda t: re.sub(r' "(?:[^"\\]|\\.)*"(?=;| \})', '', t)),
    ("chan-of-chan", strip_chan_parens),
    ("named-pointer-type", lambda t: re.sub(r'(?<![\w/])(?<!\w\.)((?:[\w/]+\.)?Ptr)\b', r'*\1', t)),
    # Str(key) is the star-less stored form: an ODD number of leading stars loses one (`**T` is stored as such)
    ("map-pointer-key", lambda t: re.sub(r'map\[(\*+)', lambda m: 'map[' + '*' * (len(m.group(1)) - len(m.group(1)) % 2), t)),
    ("main-package-path", lambda t: main_to_path(t)),
]


def main_to_path(t):
    """inside the brackets of a generic INSTANCE llgo prints a package by import path (main -> module path), elsewhere by name"""
    out, stack, i = [], [], 0
    while i < len(t):
        c = t[i]
        if c == '[':
            j = i - 1
            while j >= 0 and (t[j].isalnum() or t[j] == '_'):
                j -= 1
            word = t[j + 1:i]
            stack.append((bool(stack) and stack[-1]) or (bool(word) and word != "map"))
        elif c == ']':
            if stack:
                stack.pop()
        if t.startswith("main.", i) and stack and stack[-1] and (i == 0 or not (t[i - 1].isalnum() or t[i - 1] in "_./")):
            out.append(tg.MOD + ".")
            i += 5
            continue
        out.append(c)
        i += 1
    return "".join(out)


def has_fallback_targ(t):
    """a func / struct type below a type argument (typeArgString / reflectTypeArgString fall back to types.TypeString there)"""
    def below(x):
        return x[0] in ('f', 'st') or any(below(y) for y in tg._children(x))
    if t[0] == 'n' and any(below(a) for a in t[3]):
        return True
    return any(has_fallback_targ(x) for x in tg._children(t))



def explain_string(go, llgo):
    """-> list of classes whose combination turns Go's string into llgo's, or None"""
    import itertools
    for r in range(1, len(STRING_NORMALISERS) + 1):
        for combo in itertools.combinations(STRING_NORMALISERS, r):
            t = go
            for _, f in combo:
                t = f(t)
            if t == llgo:
                return [c for c, _ in combo]
    return None


def run(ctx, args):
    quick = ctx.tier == "quick"
    n = int(os.environ.get("C15_TYPES", "2100" if quick else "30000"))
    rng = ctx.rng
    st = lean_check(ctx, ["LlgoVerif.Props.C15"], ["LlgoVerif/Props/C15.lean"],
                    extra_files=["LlgoVerif/Model/TypeStr.lean", "LlgoVerif/Model/GoType.lean", "LlgoVerif/Lemmas/TypeStr.lean",
                                 "LlgoVerif/Model/TypeDesc.lean", "LlgoVerif/Lemmas/TypeDesc.lean"],
                    leanchecker=(ctx.tier == "thorough"))
    modeld = build_driver(ctx, "modeld_c15")
    harness = build_go_harness(ctx, "c15")
    witness = load_witnesses()
    types_, nfixed = gen_types(rng, n, witness)
    mshapes = main_shapes(witness)
    decls = ["var V%d %s" % (i, t[1]) for i, t in enumerate(types_)]
    stats, samples = {}, []
    evaluations = 0
    nontrivial = set()
    corr_bad, spec_fail = [], 0

    # ------------------------------------------------------------ (1) the real ssa/abi on the type-checked source
    job = {"compiling": tg.MOD, "packages": [{"path": tg.MOD + "/p", "src": package_source("p", [])}, {"path": tg.MOD + "/q", "src": package_source("q", [])},
                                             {"path": tg.MOD, "src": package_source("r", decls, name="main", main_extra=mshapes) + "\nfunc main() {}\n"}]}
    jp = os.path.join(ctx.scratch, "job.json")
    json.dump(job, open(jp, "w"))
    p = sh([harness, jp])
    if p.returncode != 0:
        raise RuntimeError("harness failed (generator bug?): %s %s" % (p.stdout[-3000:], p.stderr[-3000:]))
    descs, envlines = {}, []
    for line in p.stdout.split("\n"):
        if line.startswith("desc "):
            head, rest = line.split(" M: ", 1)
            hf = head.split(" ")
            parts = [x.strip() for x in rest.split("|")]
            descs[int(hf[1])] = {"sym": unhexs(hf[2]).decode(), "str": unhexs(hf[3]), "string": unhexs(hf[4]), "kind": int(hf[5]), "flags": hf[6],
                                 "uncommon": hf[7] == "1", "pkgpath": unhexs(hf[8]), "xcount": int(hf[9]),
                                 "cmp": hf[10].split(",")[0] == "1", "align": int(hf[10].split(",")[1]), "falign": int(hf[10].split(",")[2]),
                                 "size": int(hf[10].split(",")[3]), "fbv": hf[10].split(",")[4] == "1",
                                 "rawsyms": None if hf[11] == "R:-" else [unhexs(x).decode() for x in hf[11][2:].split(",")],
                                 "M": parts[0].split(), "F": parts[1][2:].split(), "IM": parts[2][3:].split(), "term": parts[3], "mset": parts[4]}
        elif line.startswith("pkg ") or line.startswith("under "):
            envlines.append(line)
    ctx.log("harness: %d types described by the real ssa/abi" % len(descs))

    # ------------------------------------------------------------ (2) the model
    mlines = envlines + ["desc %s | %s" % (descs[i]["term"], descs[i]["mset"]) for i in sorted(descs)]
    mout, rc, err = run_lines([modeld], mlines)
    if len(mout) != len(mlines):
        raise RuntimeError("model driver died %d/%d %s" % (len(mout), len(mlines), err[-2000:]))
    mres = mout[len(envlines):]
    unsupported = 0
    for i, ml in zip(sorted(descs), mres):
        d = descs[i]
        evaluations += 1
        nontrivial.add(d["term"])
        if ml == "unsupported":
            unsupported += 1
            continue
        mf = ml.split(" ")
        if len(mf) != 6:
            corr_bad.append((i, types_[i][1], "model answered " + ml))
            continue
        names = [unhexs(x) for x in mf[5].split(",")] if mf[5] != "-" else []
        hm = [unhexs(x) for x in d["M"][0::2]] if d["uncommon"] else []
        real = (d["str"], d["string"], d["kind"], d["flags"], d["xcount"] if d["uncommon"] else 0, hm)
        model = (unhexs(mf[0]), unhexs(mf[1]), int(mf[2]), mf[3], int(mf[4]) if d["uncommon"] else 0, names if d["uncommon"] else [])
        if real != model:
            corr_bad.append((i, types_[i][1], "real %s model %s" % (real, model)))
    stats["typearg-fallback-unsupported-by-model"] = unsupported

    # ------------------------------------------------------------ (3) the oracle: reference toolchain + reflect
    from vlib import e2e
    od = os.path.join(ctx.scratch, "oracle")
    calls = "\n".join("\tdump(%d, reflect.TypeOf(&V%d).Elem())" % (i, i) for i in range(len(types_)))
    main_src = (package_source("r", decls, name="main", extra_imports=("encoding/hex", "fmt", "reflect", "strings"), main_extra=mshapes) + ORACLE_MAIN +
                "\nfunc main() {\n" + calls + "\n\tz15Run()\n}\n")
    e2e.write_module(od, {"p/p.go": package_source("p", []), "q/q.go": package_source("q", []), "main.go": main_src}, modname=tg.MOD)
    r = e2e.go_run_reference(ctx, od, os.path.join(od, "ref.bin"), timeout=5400)   # thorough tier: ~30000 generated types take the Go compiler well over 10 minutes
    if r.returncode != 0:
        raise RuntimeError("oracle program does not build (generator bug): " + (r.stdout + r.stderr)[-3000:])
    oo, oe, orc = e2e.run_prog(os.path.join(od, "ref.bin"), timeout=300)
    oracle = {}
    for line in oo.split("\n"):
        if line.startswith("desc "):
            head, rest = line.split(" M: ", 1)
            hf = head.split(" ")
            parts = [x.strip() for x in rest.split("|")]
            lay = hf[8].split(",")
            oracle[int(hf[1])] = {"string": unhexs(hf[2]), "kind": int(hf[3]), "nmethod": int(hf[4]), "pkgpath": unhexs(hf[5]), "name": unhexs(hf[6]), "variadic": hf[7] == "1",
                                  "cmp": lay[0] == "1", "align": int(lay[1]), "falign": int(lay[2]), "size": int(lay[3]),
                                  "M": [tuple(unhexs(y) for y in x.split(",")) for x in parts[0].split()],
                                  "F": [x.split(",") for x in parts[1][2:].split()]}
    if len(oracle) != len(types_):
        raise RuntimeError("oracle printed %d of %d types: %s" % (len(oracle), len(types_), oe[-1000:]))
    # println goes to stderr: what z15Run() prints under the reference toolchain is the expected text of the compiled program
    oracle_e2e = [l for l in oe.split("\n") if l.startswith("e2e ")]
    unknown_seen = {}
    ctx.log("oracle: reference toolchain's reflect described %d types; %d e2e lines" % (len(oracle), len(oracle_e2e)))

    def report(aspect, i, what, detail, classes=None):
        nonlocal spec_fail
        spec_fail += 1
        src = types_[i][1]
        keys = ["reflect:%s:%s" % (aspect, c) for c in (classes or [])]
        if keys and all(ctx.match_known(k) is not None for k in keys):
            for k in keys:
                ctx.report(k, what, dict(detail, type=src))
            return
        base = "reflect:%s:%s" % (aspect, "+".join(classes) if classes else "?")
        unknown_seen[base] = unknown_seen.get(base, 0) + 1
        if unknown_seen[base] > 3:
            return
        ctx.report("%s:%s" % (base, src[:100]), what, dict(detail, type=src))

    for i in sorted(descs):
        d, o = descs[i], oracle[i]
        label = types_[i][0]
        stats[label] = stats.get(label, 0) + 1
        stats["kind:" + KINDS[o["kind"]]] = stats.get("kind:" + KINDS[o["kind"]], 0) + 1
        if d["string"] != o["string"]:
            cls = explain_string(o["string"].decode(), d["string"].decode())
            if cls is None and ((types_[i][2] is not None and has_fallback_targ(types_[i][2])) or (types_[i][2] is None and re.search(r'\b[GH]\[[^\]]*(struct|func)', types_[i][1]))):
                cls = ["targ-fallback-format"]
            report("string", i, "the emitted type string differs from reflect.Type.String()", {"llgo": d["string"].decode(), "go": o["string"].decode()}, cls)
        # Comparable() <=> the descriptor has an Equal function; Align / FieldAlign / Size as the compiler computes them
        if d["cmp"] != o["cmp"]:
            report("comparable", i, "the descriptor %s an Equal function but reflect.Type.Comparable() is %s" % ("has" if d["cmp"] else "lacks", o["cmp"]), {"llgo": d["cmp"], "go": o["cmp"]})
        if d["align"] != o["align"]:
            report("align", i, "Align_ differs from reflect.Type.Align()", {"llgo": d["align"], "go": o["align"]})
        if d["falign"] != o["falign"]:
            report("fieldalign", i, "FieldAlign_ differs from reflect.Type.FieldAlign()", {"llgo": d["falign"], "go": o["falign"]})
        if d["size"] != o["size"]:
            report("size", i, "Size_ differs from reflect.Type.Size()", {"llgo": d["size"], "go": o["size"]})
        stats["comparable:" + ("yes" if o["cmp"] else "no")] = stats.get("comparable:" + ("yes" if o["cmp"] else "no"), 0) + 1
        if d["kind"] != o["kind"]:
            report("kind", i, "the emitted kind differs from reflect.Type.Kind()", {"llgo": d["kind"], "go": o["kind"]})
        if (d["flags"][2] == "1") != o["variadic"]:
            report("variadic", i, "TFlagVariadic differs from reflect.Type.IsVariadic()", {"llgo": d["flags"], "go": o["variadic"]})
        if (d["flags"][0] == "1") != (o["name"] != b""):
            report("named", i, "TFlagNamed differs from reflect.Type.Name() != \"\"", {"llgo": d["flags"], "go": o["name"].decode()})
        if o["kind"] == 20:
            llm = []
            for nm in d["IM"][0::2]:
                full = unhexs(nm)
                k = full.rfind(b".")
                llm.append((full[k + 1:], full[:k] if k >= 0 else b""))
            if llm != o["M"]:
                cls = ["main-package-path"] if [(a, b"main" if b == tg.MOD.encode() else b) for a, b in llm] == o["M"] else None
                report("imethods", i, "the interface method table differs from reflect's Method(i)", {"llgo": str(llm), "go": str(o["M"])}, cls)
        else:
            hm = [unhexs(x) for x in d["M"][0::2]] if d["uncommon"] else []
            xc = d["xcount"] if d["uncommon"] else 0
            first = hm[:xc]
            gonames = [m[0] for m in o["M"]]
            if xc != o["nmethod"]:
                report("nummethod", i, "Xcount differs from reflect.Type.NumMethod()", {"llgo": xc, "go": o["nmethod"]})
            elif first != gonames:
                # ExportedMethods() = the first Xcount entries of the table
                cls = ["exported-not-a-prefix"] if sorted(x for x in hm if b"." not in x) == gonames else None
                report("methods", i, "the first Xcount entries of the method table are not the exported methods reflect reports", {"llgo_table": str(hm), "xcount": xc, "go": str(gonames)}, cls)
        if o["kind"] == 25:
            lf = [(unhexs(d["F"][k]), unhexs(d["F"][k + 1]), d["F"][k + 2] == "1") for k in range(0, len(d["F"]), 4)]
            gf = [(unhexs(f[0]), unhexs(f[1]), f[2] == "1") for f in o["F"]]
            if lf != gf:
                report("fields", i, "the field table (name, tag, embedded, order) differs from reflect's Field(i)", {"llgo": str(lf), "go": str(gf)})
        if o["name"] != b"" and d["uncommon"] and d["pkgpath"] != o["pkgpath"]:
            cls = ["main-package-path"] if o["pkgpath"] == b"main" and d["pkgpath"] == tg.MOD.encode() else None
            report("pkgpath", i, "the uncommon type's PkgPath_ differs from reflect.Type.PkgPath()", {"llgo": d["pkgpath"].decode(), "go": o["pkgpath"].decode()}, cls)
        if len(samples) < 3 and label == "corpus" and i in (25, 40, 43):
            samples.append({"type": types_[i][1], "ssa/abi": d["string"].decode(), "reflect": o["string"].decode(), "kind": KINDS[o["kind"]]})

    # ------------------------------------------------------------ (4) tie A: descriptors read back from llgo's IR
    ir_info = ir_tie(ctx, types_, descs, stats, corr_bad, oracle, nfixed, mshapes, modeld, envlines, oracle_e2e)
    spec_fail += ir_info.get("spec_failures", 0)

    # ------------------------------------------------------------ (5) llgo's reflect field lookup, run natively, against the reference reflect
    # (after everything else: its draws from ctx.rng do not disturb the generated types above)
    fbn_info = fbn_tie(ctx, stats)
    spec_fail += fbn_info.get("spec_failures", 0)
    evaluations += fbn_info.get("lookups", 0)
    ctx.coverage["reflect_field_lookup"] = fbn_info

    # ------------------------------------------------------------ verdict
    if corr_bad:
        ctx.log("correspondence mismatches: %d, first: %s" % (len(corr_bad), str(corr_bad[0])[:900]))
        for cb in corr_bad[1:8]:
            ctx.log("  also: " + str(cb)[:600])
        ctx.broken.append("correspondence real vs Lean model / emitted IR (%d cases)" % len(corr_bad))
        if not ctx.violations:
            ctx.report_broken("correspondence C15 real-vs-model", {"first": [str(x)[:900] for x in corr_bad[:5]]})
    for name, s in st.items():
        if s != "ok":
            ctx.log("theorem", name, s)
    if any(s != "ok" for s in st.values()) and not ctx.violations:
        ctx.report_broken("Props/C15: " + ", ".join(n for n, s in st.items() if s != "ok"), st)
    ctx.coverage["samples"] = samples or [{"type": types_[0][1], "ssa/abi": descs[0]["string"].decode(), "reflect": oracle[0]["string"].decode()}]
    ctx.coverage.pop("_ir_seen", None)
    ctx.coverage["ir_tie"] = ir_info
    ctx.coverage["not_covered"] = ("runtime/internal/lib/reflect and fmt at run time (Value get/set/convert, DeepEqual, method calls through reflect, fmt verbs), "
                                   "the pruning of method tables (checkReflect / filterAbiSymbol), field offsets and sizes (C08): no program importing reflect or fmt can be built by llgo in this sandbox. "
                                   "Of the run-time side only the descriptor READERS below reflect are exercised: runtime/abi (Uncommon, NumMethod, ExportedMethods, Methods, IsExported) and "
                                   "runtime/internal/runtime DirectIfaceData/IfacePtrData natively on the emitted descriptors, interface method calls / type assertions of a println-only compiled program, "
                                   "and (*structType).FieldByName/FieldByNameFunc of runtime/internal/lib/reflect (verbatim copy run natively on llgo-layout descriptors of generated embedding graphs, fbn_tie)")
    ctx.coverage["trusted_base"] += [
        "reference Go toolchain's reflect (go1.24) run natively on the same generated source is the oracle for 'as Go does'",
        "hand-written Lean model of ssa/abi/type.go Str/TFlag/Kind and the table builders of ssa/abitype.go, tied by a differential run of the real ssa/abi (imported) and by reading llgo's emitted descriptor constants back from -O0 IR (vlib/irdesc.py: regular expressions over constant initialisers)",
        "harness/c15 re-states the three-line table layouts of abitype.go (abiUncommonMethodSet, emitted names); the IR read-back checks them against the real emitter",
        "vlib/irlayout.py (LLVM type sizes from the IR's own type definitions, x86-64 natural alignment) and harness/c15/native (rebuilds an emitted descriptor in native memory as "
        "struct{ <Go type named like the IR's header type>; UncommonType; [n]Method } via reflect.StructOf; a func value is one word natively and two in llgo, so offsets are compared per layout, not as raw bytes); "
        "the one-line rule of (*structType).Field (`if !abi.IsExported(name) { PkgPath = t.PkgPath_ }`) is re-stated in the loader, abi.IsExported itself is the real one",
        "harness/c15/fbn: stand-ins for reflect's structType/StructField and the statements of (*structType).Field that do not need reflect.Type; the conversion of native reflect types to llgo-layout abi.StructType/PtrType descriptors (field names, embedded flags, element pointers)",
    ]
    ctx.assumptions += ["only the compiler-emitted descriptors are examined; of llgo's reflect library only the field lookup (FieldByName/FieldByNameFunc, native copy) is run, everything else of it is not checked"]
    return ctx.finish("proof", {"evaluations": evaluations + ir_info.get("descriptors_compared", 0), "distinct_nontrivial": len(nontrivial),
                               "rule": "one evaluation = one generated type described by the real ssa/abi, by the model and by the reference toolchain's reflect, or one emitted descriptor read back from IR and compared; distinct by serialised type term",
                               "input_distribution": stats, "spec_failures_on_real_code": spec_fail, "correspondence_mismatches": len(corr_bad)})


def ir_tie(ctx, types_, descs, stats, corr_bad, oracle, nfixed, mshapes, modeld, envlines, oracle_e2e):
    from vlib import e2e
    import glob
    quick = ctx.tier == "quick"
    m = 200 if quick else 3000
    # llgo itself panics ("invalid recv type") on an unnamed struct that embeds a generic instance with methods as soon as
    # its descriptor is needed (known finding emit:struct-embedding-generic-instance, witness built in the thorough tier): keep
    # those shapes out of the package whose IR is read back
    # and a package that spells one generic instance both as G[byte] and G[uint8] does not link (C07 known finding
    # diffname:targ-basic-spelling / targ-fallback-spelling): keep byte/rune/any/aliases out of generic instances here
    def spelled_alias_in_instance(src):
        return re.search(r'\b[GH]\[', src) is not None and re.search(r'\b(byte|rune|any|A[TEI])\b|interface\{\}', src) is not None
    rest = [i for i in sorted(descs)[nfixed:] if not (types_[i][2] is not None and embeds_generic(types_[i][2])) and not spelled_alias_in_instance(types_[i][1])]
    stats["ir-tie:skipped-struct-embedding-generic-instance"] = len(descs) - nfixed - len(rest)
    pick = [i for i in sorted(descs)[:nfixed] if not spelled_alias_in_instance(types_[i][1])] + rest[:m]
    decls = ["var V%d %s" % (i, types_[i][1]) for i in pick]
    keep = "var Keep = []any{\n" + "".join("\t&V%d,\n" % i for i in pick) + "}\n"
    d = os.path.join(ctx.scratch, "irprog")
    e2e.write_module(d, {"p/p.go": package_source("p", []), "q/q.go": package_source("q", []),
                         "main.go": package_source("r", decls, name="main", main_extra=mshapes) + keep + "\nfunc main() { println(len(Keep)); z15Run() }\n"}, modname=tg.MOD)
    # the native copy of the run-time readers builds while llgo compiles
    import threading
    nat_box = {}

    def build_native():
        try:
            nat_box["bin"] = build_native_loader(ctx)
        except Exception as ex:          # re-raised in the main thread
            nat_box["err"] = ex
    nat_thread = threading.Thread(target=build_native)
    nat_thread.start()
    try:
        e2e.build_llgo(ctx)
    except BaseException:
        nat_thread.join()
        raise
    ctx.log("llgo built from the working tree")
    env = e2e.llgo_env(ctx)
    p = sh([ctx.llgo, "build", "-tags", "nogc", "-O0", "-gen-llfiles", "-o", os.path.join(d, "prog0"), "."], cwd=d, env=env)
    nat_thread.join()
    if "err" in nat_box:
        raise nat_box["err"]
    if p.returncode != 0:
        ctx.log("llgo failed to build the descriptor package:\n" + (p.stdout + p.stderr)[-3000:])
        ctx.report_broken("tie A: llgo build -gen-llfiles of the generated package", (p.stdout + p.stderr)[-3000:])
        return {"ran": False}
    cands = [f for f in glob.glob(os.path.join(ctx.llgo_dir, "**", "*.ll"), recursive=True) if ("ModuleID = '%s'" % tg.MOD) in open(f).read(300)]
    if not cands:
        ctx.report_broken("tie A: IR of the generated package not found", d)
        return {"ran": False}
    irtext = open(max(cands, key=os.path.getmtime)).read()
    ir = irdesc.parse(irtext)
    compared, missing = 0, 0
    ir_layout_bad = []
    for i in pick:
        dd = descs[i]
        # &V_i is kept: the pointer type's descriptor references the element's, which is the type under test
        e = ir.get(dd["sym"])
        if e is None and dd["rawsyms"]:
            # a struct with tags and a func-typed field is emitted in its lowered form (func -> closure struct)
            with_tags, without = ir.get(dd["rawsyms"][0]), ir.get(dd["rawsyms"][1])
            want_tags = [unhexs(dd["F"][k + 1]) for k in range(0, len(dd["F"]), 4)]
            stats["ir-tie:tagged-struct-with-func-field"] = stats.get("ir-tie:tagged-struct-with-func-field", 0) + 1
            if with_tags is not None and [f[3] for f in (with_tags["fields"] or [])] == want_tags:
                compared += 1
                continue
            if without is not None and with_tags is None:
                compared += 1
                ctx.report("emit:tags-dropped-with-func-field", "the emitted descriptor of a struct with a func-typed field has lost all field tags",
                           {"type": types_[i][1], "emitted_symbol": dd["rawsyms"][1], "emitted_tags": str([f[3] for f in (without["fields"] or [])]), "declared_tags": str(want_tags)})
                continue
        if e is None:
            missing += 1
            continue
        compared += 1
        flags = "".join("1" if e["tflag"] & b else "0" for b in (4, 2, 16, 32))
        got = (e["str"], e["kind"], flags, bool(e["tflag"] & 1))
        want = (dd["str"], dd["kind"], dd["flags"], dd["uncommon"])
        if got != want and dd["kind"] == 19 and dd["flags"][0] == "1" and got == (dd["str"], 25, dd["flags"][:3] + "1", dd["uncommon"]):
            # a NAMED func type is emitted as a named closure struct (kind struct + TFlagClosure): the documented
            # two-word representation of function values
            stats["ir-tie:named-func-as-closure"] = stats.get("ir-tie:named-func-as-closure", 0) + 1
            continue
        if got != want:
            corr_bad.append((i, types_[i][1], "IR descriptor %s: emitted %s, ssa/abi says %s" % (dd["sym"], got, want)))
            continue
        # Equal (comparability) always; Size/Align/FieldAlign unless a value of the type holds a func value (two-word closures)
        named_func = dd["kind"] == 19 and dd["flags"][0] == "1"
        if e["equal"] != dd["cmp"] and not named_func:
            corr_bad.append((i, types_[i][1], "IR descriptor %s: Equal function %s, ssa/abi EqualName says %s" % (dd["sym"], "present" if e["equal"] else "absent", dd["cmp"])))
            ir_layout_bad.append((i, "comparable", e["equal"]))
        if not dd["fbv"] and (e["size"], e["align"], e["fieldalign"]) != (dd["size"], dd["align"], dd["falign"]):
            corr_bad.append((i, types_[i][1], "IR descriptor %s: size/align/fieldalign emitted %s, ssa/abi says %s" % (dd["sym"], (e["size"], e["align"], e["fieldalign"]), (dd["size"], dd["align"], dd["falign"]))))
        stats["ir-tie:layout-compared"] = stats.get("ir-tie:layout-compared", 0) + (0 if dd["fbv"] else 1)
        # the EMITTED descriptor against the reference toolchain's reflect, directly
        o = oracle[i]
        ir_seen = ctx.coverage.setdefault("_ir_seen", {})
        def ir_report(aspect, what, detail):
            ir_seen[aspect] = ir_seen.get(aspect, 0) + 1
            if ir_seen[aspect] <= 3:
                ctx.report("reflect-ir:%s:%s" % (aspect, types_[i][1][:100]), what, dict(detail, type=types_[i][1], symbol=dd["sym"]))
        if e["equal"] != o["cmp"] and not named_func:
            ir_report("comparable", "the emitted descriptor %s an Equal function but reflect.Type.Comparable() is %s" % ("has" if e["equal"] else "lacks", o["cmp"]), {"llgo_ir": e["equal"], "go": o["cmp"]})
        if not dd["fbv"] and (e["size"], e["align"], e["fieldalign"]) != (o["size"], o["align"], o["falign"]):
            ir_report("layout", "Size_/Align_/FieldAlign_ of the emitted descriptor differ from reflect's Size()/Align()/FieldAlign()",
                      {"llgo_ir": [e["size"], e["align"], e["fieldalign"]], "go": [o["size"], o["align"], o["falign"]]})
        if dd["uncommon"]:
            u = e["uncommon"]
            hm = [(unhexs(dd["M"][k]), unhexs(dd["M"][k + 1]).decode()) for k in range(0, len(dd["M"]), 2)]
            if u is None or u["methods"] != hm or u["xcount"] != dd["xcount"] or u["mcount"] != len(hm) or u["pkgpath"] != dd["pkgpath"]:
                corr_bad.append((i, types_[i][1], "IR method table of %s: emitted %s, expected %s xcount %d pkgpath %s" % (dd["sym"], u, hm, dd["xcount"], dd["pkgpath"])))
        if dd["kind"] == 25 and e["tflag"] & 32 == 0:
            lf = [(unhexs(dd["F"][k]), unhexs(dd["F"][k + 3]).decode(), unhexs(dd["F"][k + 1]), dd["F"][k + 2] == "1") for k in range(0, len(dd["F"]), 4)]
            ef = [(f[0], f[1], f[3], f[4]) for f in (e["fields"] or [])]
            if lf != ef:
                same_shape = len(lf) == len(ef) and all(x[1] == y[1] and x[3] == y[3] and (x[0] == y[0] or x[3]) for x, y in zip(lf, ef))
                if same_shape and any(x[0] != y[0] for x, y in zip(lf, ef)):
                    # embedded fields of different NAMES but one type (alias vs target): one symbol (C07 samename:embedded-name)
                    ctx.report("emit:embedded-name-variants-share-descriptor", "two struct types whose embedded fields differ only in name are emitted under one descriptor; the field table carries one variant's names",
                               {"type": types_[i][1], "symbol": dd["sym"], "emitted": str(ef), "expected": str(lf)})
                elif [(a, b, e_) for a, b, _, e_ in lf] == [(a, b, e_) for a, b, _, e_ in ef]:
                    # only the tags differ: struct types that differ only in tags share one symbol (C07 samename:tag), the
                    # linker / the per-package cache keeps ONE field table, reflect then reports the other variant's tags
                    ctx.report("emit:tag-variants-share-descriptor", "two struct types differing only in tags are emitted under one descriptor; the field table carries one variant's tags",
                               {"type": types_[i][1], "symbol": dd["sym"], "emitted": str(ef), "expected": str(lf)})
                else:
                    corr_bad.append((i, types_[i][1], "IR field table of %s: emitted %s, expected %s" % (dd["sym"], ef, lf)))
        if dd["kind"] == 20:
            li = [(unhexs(dd["IM"][k]), unhexs(dd["IM"][k + 1]).decode()) for k in range(0, len(dd["IM"]), 2)]
            if (e["imethods"] or []) != li:
                corr_bad.append((i, types_[i][1], "IR imethod table of %s: emitted %s, expected %s" % (dd["sym"], e["imethods"], li)))
    # ---- PtrToThis_: llgo's reflect goes from T to *T ((*rtype).ptrTo: PointerTo, New, Addr, method receivers) through T.PtrToThis_ and
    # SYNTHESISES a new descriptor when it is nil.  Go: reflect.PointerTo(T) IS the type of &v.  So for every unnamed pointer
    # descriptor P = *E emitted in the module, E.PtrToThis_ must lead to P (or to another unnamed pointer descriptor whose Elem is E:
    # *closure and *func share the func type as Elem), and whatever PtrToThis_ points to must be an unnamed pointer type with Elem E.
    # Only unnamed pointer types *X themselves leave it nil on purpose (so that *T does not drag in **T, ...): not judged.
    pt_checked, pt_named_ptr, pt_bad = 0, 0, 0

    def is_uptr(x):
        return x is not None and x["kind"] == 22 and not x["tflag"] & 4

    def pt_report(esym, psym, what):
        nonlocal pt_bad
        pt_bad += 1
        if pt_bad <= 3:
            ed = ir[esym]
            ctx.report("reflect-ir:ptrtothis:%s" % (ed["str"] or b"?").decode(errors="replace")[:100], what,
                       {"type_string": (ed["str"] or b"?").decode(errors="replace"), "symbol": esym,
                        "declared": next(("type Z15P%d *%s; var v Z15P%d; any(&v)" % (k, u, k) for k, u in enumerate(DEF_PTR_ELEMS) if esym.endswith(".Z15P%d" % k)), "see type_string"), "kind": KINDS[ed["kind"]], "named": bool(ed["tflag"] & 4),
                        "PtrToThis_": ed["ptrtothis"], "emitted_pointer_type": psym,
                        "go": "reflect.PointerTo(T) == reflect.TypeOf(&v), reflect.New(T).Type() == reflect.TypeOf(&v) for var v T"})
    for psym in sorted(ir):
        pd = ir[psym]
        if is_uptr(pd) and pd["elem"] in ir:
            ed = ir[pd["elem"]]
            if ed["ptrtothis"] == "?":
                continue
            if is_uptr(ed) and ed["ptrtothis"] is None:
                stats["ir-tie:ptrtothis:nil-on-unnamed-pointer(by design)"] = stats.get("ir-tie:ptrtothis:nil-on-unnamed-pointer(by design)", 0) + 1
                continue
            pt_checked += 1
            pt_named_ptr += 1 if ed["kind"] == 22 else 0
            q = ed["ptrtothis"]
            if q is None:
                pt_report(pd["elem"], psym, "the descriptor of *T is emitted (%s) but T's PtrToThis_ is nil: llgo's reflect (ptrTo) synthesises a second, distinct *T for PointerTo/New/Addr" % psym)
            elif q != psym and not (q in ir and is_uptr(ir[q]) and ir[q]["elem"] == pd["elem"]):
                pt_report(pd["elem"], psym, "T's PtrToThis_ (%s) is not a descriptor of *T, although *T is emitted as %s" % (q, psym))
    for esym in sorted(ir):
        q = ir[esym]["ptrtothis"]
        if q not in (None, "?") and q in ir and not (is_uptr(ir[q]) and ir[q]["elem"] == esym):
            pt_report(esym, q, "PtrToThis_ points to %s, which is not an unnamed pointer type whose Elem is this type" % q)
    stats["ir-tie:ptrtothis-checked"] = pt_checked
    stats["ir-tie:ptrtothis-checked:defined-pointer-types"] = pt_named_ptr
    ctx.log("tie A: PtrToThis_ of %d element types of emitted pointer descriptors (%d of them defined pointer types): %d wrong" % (pt_checked, pt_named_ptr, pt_bad))
    if not quick:
        # witness of the known compiler panic (kept out of the package above)
        wd = os.path.join(ctx.scratch, "irpanic")
        e2e.write_module(wd, {"p/p.go": "package p\n\ntype G[A any] struct{ V A }\n\nfunc (G[A]) M() int { return 0 }\n",
                              "main.go": "package main\n\nimport \"%s/p\"\n\nvar V struct{ p.G[int] }\nvar Keep any = &V\n\nfunc main() { println(Keep != nil) }\n" % tg.MOD}, modname=tg.MOD)
        wp = sh([ctx.llgo, "build", "-tags", "nogc", "-O0", "-o", os.path.join(wd, "prog0"), "."], cwd=wd, env=env)
        if wp.returncode != 0 and "invalid recv type" in (wp.stdout + wp.stderr):
            ctx.report("emit:struct-embedding-generic-instance", "llgo panics while emitting the descriptor of an unnamed struct that embeds a generic instance with methods",
                       {"program": "var V struct{ p.G[int] }; var Keep any = &V", "llgo": (wp.stdout + wp.stderr)[:400]})
        elif wp.returncode != 0:
            ctx.report("emit:struct-embedding-generic-instance:other:" + (wp.stdout + wp.stderr)[:80], "llgo cannot build the struct-embedding-generic-instance witness", {"llgo": (wp.stdout + wp.stderr)[:2000]})
    ctx.log("tie A: %d descriptors of %d types read back from llgo's IR (%d symbols in the module, %d not emitted)" % (compared, len(pick), len(ir), missing))
    stats["ir-descriptors-compared"] = compared
    info = {"ran": True, "descriptors_compared": compared, "symbols_in_module": len(ir), "types_requested": len(pick), "not_emitted": missing}
    # ---- the run-time readers on the emitted descriptors (native), and the compiled program itself
    rt_info = runtime_tie(ctx, nat_box["bin"], types_, descs, oracle, pick, ir, irtext, modeld, envlines, stats, corr_bad)
    e2e_info = e2e_tie(ctx, os.path.join(d, "prog0"), oracle_e2e, stats)
    info["runtime_readers"] = rt_info
    info["e2e"] = e2e_info
    info["descriptors_compared"] += rt_info.get("descriptors_loaded", 0) + e2e_info.get("lines_compared", 0)
    info["spec_failures"] = rt_info.get("spec_failures", 0) + e2e_info.get("spec_failures", 0) + pt_bad
    info["ptrtothis"] = {"checked": pt_checked, "defined_pointer_types": pt_named_ptr, "wrong": pt_bad}
    return info


RT_FILES = ["map.go", "alg.go", "hash64.go", "z_map.go", "type.go", "errors.go", "z_face.go", "z_type.go",
            "mbarrier.go", "z_error.go", "z_slice.go", "z_string.go", "utf8.go", "stubs.go"]


def e2e_tie(ctx, prog, oracle_e2e, stats):
    """the compiled program calls value- and pointer-receiver methods of defined types of every kind through interfaces (static
    conversion, type assertion, method value, type switch); its println text must be the reference toolchain's, line by line"""
    from vlib import e2e
    so, se, rc = e2e.run_prog(prog, timeout=120, mem_gib=4)
    got = [l for l in se.split("\n") if l.startswith("e2e ")]
    fails = 0
    stats["e2e:lines-expected"] = len(oracle_e2e)
    stats["e2e:lines-printed"] = len(got)

    def keyed(lines):
        # "e2e <type> <what> <value>": (type, what) -> value; a line is only printed when its guard holds, so lines are matched by key
        return {tuple(l.split(" ")[1:-1]): l for l in lines}
    have_by_key = keyed(got)
    last_printed = tuple(got[-1].split(" ")[1:-1]) if got else None
    died = rc != 0
    seen = []
    agree = 0
    after_last = last_printed is None
    for want in oracle_e2e:
        key = tuple(want.split(" ")[1:-1])
        have = have_by_key.get(key)
        if have == want:
            agree += 1
        elif have is not None or not (died and after_last):
            # a differing value, or a line that is missing although the program went on (its guard, e.g. the `ok` of an assertion, differs:
            # the guard's own line is reported)
            if have is not None and key[0] not in seen:
                seen.append(key[0])
                fails += 1
                if len(seen) <= 4:
                    ctx.report("e2e:%s:%s" % (key[0], " ".join(key[1:])[:40]), "a method called through an interface (or a type assertion) gives another result than under the reference toolchain",
                               {"expected_line": want, "llgo_line": have, "exit_status": rc,
                                "program": "package main of the generated universe (checks/c15.py main_shapes + corpus/C15/witnesses.json), func z15Run"})
        elif died and after_last:
            # the first line the program did not reach
            fails += 1
            ctx.report("e2e:%s:%s:died" % (key[0], " ".join(key[1:])[:40]), "the compiled program stopped (exit status %s) before printing the line the reference toolchain prints" % rc,
                       {"expected_line": want, "last_line_printed": got[-1] if got else None, "exit_status": rc, "stderr_tail": "\n".join(l for l in se.split("\n") if not l.startswith("e2e "))[-800:],
                        "program": "package main of the generated universe (checks/c15.py main_shapes + corpus/C15/witnesses.json), func z15Run"})
            break
        if key == last_printed:
            after_last = True
    if agree != len(oracle_e2e) and fails == 0:
        fails += 1
        missing = [w for w in oracle_e2e if tuple(w.split(" ")[1:-1]) not in have_by_key]
        ctx.report("e2e:lines-missing:%s" % (missing[0] if missing else "?")[:80], "the compiled program does not print a line the reference toolchain prints",
                   {"first_missing": missing[:5], "exit_status": rc, "stderr_tail": se[-800:]})
    if not oracle_e2e:
        ctx.report_broken("e2e: the reference build printed no e2e line", "")
    ctx.log("e2e: %d of %d lines of z15Run() agree with the reference toolchain (exit status %s)" % (agree, len(oracle_e2e), rc))
    return {"lines_compared": len(oracle_e2e), "spec_failures": fails, "exit_status": rc}


def build_native_loader(ctx):
    from vlib import native
    H = os.path.join(VERIF, "harness", "c15", "native")
    return native.make_native(ctx, RT_FILES, {"zz_support.go": native.RT_SUPPORT, "zz_c15.go": open(os.path.join(H, "rt_extra.go.txt")).read()},
                              {"main.go": open(os.path.join(H, "main.go.txt")).read()}, name="native-c15")


def runtime_tie(ctx, nat, types_, descs, oracle, pick, ir, irtext, modeld, envlines, stats, corr_bad):
    """What the RUN-TIME LIBRARY reads out of the emitted descriptors.  Every descriptor constant of the module is rebuilt in native
    memory with the layout the IR declares (struct{ <header type named in the IR>; UncommonType; [n]Method }) and handed to the real
    runtime/abi readers (Uncommon, NumMethod, ExportedMethods, Methods, StructType, IsExported) and to the real
    runtime/internal/runtime DirectIfaceData / IfacePtrData (native copy).  Spec: the reference toolchain's reflect on the same source
    (NumMethod, Method(i).Name, PkgPath, Field(i).PkgPath) and the receiver-word rule; model: Model/TypeDesc.lean."""
    from vlib import irlayout
    lay = irlayout.layouts(irtext)
    sizes = irlayout.type_sizes(irtext)

    def hx(b):
        return b.hex() if b else "-"
    jobs, meta = [], {}

    def add(idx, sym, i):
        e, L = ir[sym], lay.get(sym)
        if L is None:
            return
        u = e["uncommon"]
        if (u is not None) != L["has_uncommon"] or (u is not None and (None in [m[0] for m in u["methods"]] or u["pkgpath"] is None)) or e["str"] is None:
            corr_bad.append((sym, sym, "IR reader: descriptor constant of %s not understood (uncommon %s, layout %s)" % (sym, u is not None, L)))
            return
        st = None
        if e["kind"] == 25 and e["fields"] is not None and e["pkgpath"] is not None and all(f[0] is not None for f in e["fields"]):
            st = {"pkgpath": hx(e["pkgpath"]), "fields": [{"name": hx(f[0]), "emb": f[4]} for f in e["fields"]]}
        jobs.append({"idx": idx, "header": L["header"], "kindbyte": e["kindbyte"], "tflag": e["tflag"], "str": hx(e["str"]),
                     "unc": None if u is None else {"pkgpath": hx(u["pkgpath"]), "mcount": u["mcount"], "xcount": u["xcount"], "moff": L["moff"] or 0, "methods": [hx(m[0]) for m in u["methods"]]},
                     "struct": st})
        meta[idx] = (sym, i)
    used = set()
    for i in pick:
        sym = descs[i]["sym"]
        if sym in ir:
            add(i, sym, i)
            used.add(sym)
    n = 0
    for sym in ir:
        if sym not in used:
            add(10 ** 7 + n, sym, None)
            n += 1
    jp = os.path.join(ctx.scratch, "rtjob.json")
    json.dump({"descs": jobs}, open(jp, "w"))
    p = sh([nat, jp])
    if p.returncode != 0:
        ctx.report_broken("native descriptor loader failed", (p.stdout + p.stderr)[-2000:])
        return {"ran": False}
    hsize, probe, dird, res = {}, {}, {}, {}
    for line in p.stdout.split("\n"):
        f = line.split(" ")
        if f[0] == "hsize":
            hsize[f[1]] = (int(f[2]), int(f[3]))
        elif f[0] == "probe":
            probe[int(f[1])] = int(f[2])
        elif f[0] == "dird":
            dird[(int(f[1]), f[2] == "1")] = (f[3] == "1", int(f[4]))
        elif f[0] == "desc":
            res[int(f[1])] = {"readoff": int(f[2]), "layoff": int(f[3]), "pkgpath": None if f[4] == "?" else unhexs(f[4]), "mcount": int(f[5]), "xcount": int(f[6]),
                              "nummethod": int(f[7]), "all": None if f[8] == "A:?" else [unhexs(x) for x in f[8][2:].split(",") if x],
                              "exp": None if f[9] == "X:?" else [unhexs(x) for x in f[9][2:].split(",") if x],
                              "spkg": None if f[10] == "S:~" else unhexs(f[10][2:]), "fpkg": [unhexs(x) for x in f[11][2:].split(",") if x],
                              "direct": f[12] == "R:1", "recv": int(f[13])}
        elif f[0] == "err":
            sym, i = meta[int(f[1])]
            corr_bad.append((sym, sym, "native loader: " + " ".join(f[2:])))

    # ------------------------------------------------------------ the model (Model/TypeDesc.lean) against both sites
    shape_is = [i for i in pick if descs[i]["sym"] in ir]
    mlines = envlines + ["hdr %d" % k for k in range(27)] + ["dird %d %d" % (k, b) for k in range(27) for b in (0, 1)] + ["shape " + descs[i]["term"] for i in shape_is]
    mout, rc, err = run_lines([modeld], mlines)
    if len(mout) != len(mlines):
        raise RuntimeError("model driver died %d/%d %s" % (len(mout), len(mlines), err[-2000:]))
    mout = mout[len(envlines):]
    mhdr = {k: mout[k].split(" ") for k in range(27)}
    mdird = {(k, b == 1): mout[27 + 2 * k + b].split(" ") for k in range(27) for b in (0, 1)}
    mshape = {i: mout[27 + 54 + j].split(" ") for j, i in enumerate(shape_is)}
    for k in range(27):
        eh, rh, ew, rw = mhdr[k][0], mhdr[k][1], int(mhdr[k][2]), int(mhdr[k][3])
        # (interface types and the invalid kind never carry TFlagUncommon: abiUncommonMethodSet gives them no method set)
        if k not in (0, 20) and (rh not in hsize or hsize[rh][0] != probe.get(k)):
            corr_bad.append(("kind %d" % k, KINDS[k], "(*abi.Type).Uncommon() looks %s bytes (native layout) into a descriptor of kind %s; the model's readHeader says behind a %s = %s bytes"
                             % (probe.get(k), KINDS[k], rh, hsize.get(rh, ("?",))[0])))
        if rh in hsize and hsize[rh][0] + 8 * hsize[rh][1] != 8 * rw:
            corr_bad.append(("kind %d" % k, KINDS[k], "runtime/abi.%s has %d bytes + %d func values; the model's Header.words says %d words" % (rh, hsize[rh][0], hsize[rh][1], rw)))
        if eh in sizes and sizes[eh][0] != 8 * ew:
            corr_bad.append(("kind %d" % k, KINDS[k], "the IR declares %s with %d bytes; the model's Header.words says %d words" % (eh, sizes[eh][0], ew)))
        for b in (False, True):
            if b and mdird[(k, b)][2] != "1":
                continue        # the compiler never sets KindDirectIface on this kind (theorem direct_kinds): what the library answers is immaterial
            if (mdird[(k, b)][0] == "1") != dird[(k, b)][0]:
                corr_bad.append(("kind %d direct %s" % (k, b), KINDS[k], "DirectIfaceData(kind %s, KindDirectIface %s) = %s on the real code, %s in the model" % (KINDS[k], b, dird[(k, b)][0], mdird[(k, b)][0])))
    ut = sizes.get("UncommonType", (None,))[0]
    for sym, e in ir.items():
        L = lay.get(sym)
        if L is None:
            continue
        eh, ew = mhdr[e["kind"]][0], int(mhdr[e["kind"]][2])
        if e["tflag"] & 32 and e["kind"] == 25:
            pass            # closure struct: an ordinary StructType
        if L["header"] != eh:
            corr_bad.append((sym, sym, "the emitted descriptor of kind %s starts with a runtime/abi.%s; the model's emitHeader (RuntimeName) says %s" % (KINDS[e["kind"]], L["header"], eh)))
        elif L["has_uncommon"] and (L["uncommon_offset"] != 8 * ew or L["moff"] != ut or L["methods_offset"] - L["uncommon_offset"] != L["moff"]):
            corr_bad.append((sym, sym, "emitted layout %s: the model puts the uncommon part at %d, Moff must be sizeof(UncommonType) = %s" % (L, 8 * ew, ut)))
    for i in shape_is:
        dd, e, L = descs[i], ir[descs[i]["sym"]], lay.get(descs[i]["sym"])
        if dd["fbv"] or L is None or len(mshape[i]) != 3:
            continue        # a func value inside: the emitted type is the lowered one (closure structs)
        if re.search(r'\b[GH]\[', types_[i][1]):
            continue        # the environment keeps ONE underlying type per declaration: not that of every generic instance
        md, mh, msp = mshape[i]
        if (md == "1") != bool(e["kindbyte"] & 32):
            corr_bad.append((i, types_[i][1], "KindDirectIface emitted %s, the model's directIfaceType says %s" % (bool(e["kindbyte"] & 32), md)))
        if mh != L["header"]:
            corr_bad.append((i, types_[i][1], "header emitted %s, the model's RuntimeName says %s" % (L["header"], mh)))
        if e["kind"] == 25 and (None if msp == "~" else unhexs(msp)) != e["pkgpath"]:
            corr_bad.append((i, types_[i][1], "StructType.PkgPath_ emitted %r, the model's structPkgPath (first field with a non-exported name, embedded or not) says %r" % (e["pkgpath"], msp)))
        stats["rt-tie:shape-vs-model"] = stats.get("rt-tie:shape-vs-model", 0) + 1

    # ------------------------------------------------------------ the spec on the real code
    fails = 0
    seen = ctx.coverage.setdefault("_ir_seen", {})

    def rt_report(aspect, label, what, detail, known=None):
        nonlocal fails
        fails += 1
        if known is not None and ctx.match_known(known) is not None:
            ctx.report(known, what, detail)
            return
        seen[aspect] = seen.get(aspect, 0) + 1
        if seen[aspect] <= 3:
            ctx.report("reflect-rt:%s:%s" % (aspect, label[:100]), what, detail)
    loaded = 0
    for idx, r in sorted(res.items()):
        sym, i = meta[idx]
        e = ir[sym]
        label = types_[i][1] if i is not None else "symbol " + sym
        base = {"type": types_[i][1] if i is not None else None, "symbol": sym, "kind": KINDS[e["kind"]], "kind_byte": e["kindbyte"], "header_in_ir": lay[sym]["header"]}
        loaded += 1
        stats["rt-tie:kind:" + KINDS[e["kind"]]] = stats.get("rt-tie:kind:" + KINDS[e["kind"]], 0) + 1
        # (a) the receiver word of an interface method call
        direct = bool(e["kindbyte"] & 32)
        want = 1 if direct and e["kind"] != 22 else 0
        if r["recv"] != want:
            rt_report("receiver", label, "IfacePtrData hands a method called through an interface %s, but the compiler stored the value %s" %
                      (["the data word itself", "the address of a copy of the data word", "something else"][r["recv"]],
                       "IN the data word (KindDirectIface) and the one-word receiver must point TO the value" if direct else "behind the data word"),
                      dict(base, DirectIfaceData=r["direct"], receiver_class=r["recv"], expected_class=want))
        if direct:
            stats["rt-tie:direct-iface:" + KINDS[e["kind"]]] = stats.get("rt-tie:direct-iface:" + KINDS[e["kind"]], 0) + 1
        # (b) the uncommon part
        u = e["uncommon"]
        o = oracle[i] if i is not None else None
        if u is not None:
            emitted = [m[0] for m in u["methods"]]
            if r["readoff"] != r["layoff"]:
                rt_report("uncommon", label, "(*abi.Type).Uncommon() looks %d bytes into the descriptor, but the compiler put the UncommonType behind the %s at byte %d (native layout; in the IR at byte %d): "
                          "NumMethod() = %d where the emitted Xcount is %d%s" % (r["readoff"], lay[sym]["header"], r["layoff"], lay[sym]["uncommon_offset"], r["nummethod"], u["xcount"],
                                                                                 "" if o is None else " and reflect.Type.NumMethod() is %d" % o["nmethod"]),
                          dict(base, emitted_methods=str(emitted), Mcount_seen=r["mcount"], Xcount_seen=r["xcount"]))
                continue
            if r["all"] != emitted or r["mcount"] != u["mcount"] or r["xcount"] != u["xcount"] or r["pkgpath"] != u["pkgpath"]:
                rt_report("uncommon-content", label, "Uncommon()/Methods() do not return what the compiler emitted", dict(base, emitted=str(u), read=str(r)))
                continue
        if o is not None and o["kind"] != 20:
            gonames = [m[0] for m in o["M"]]
            if r["nummethod"] != o["nmethod"]:
                rt_report("nummethod", label, "(*abi.Type).NumMethod() on the emitted descriptor is %d, reflect.Type.NumMethod() is %d" % (r["nummethod"], o["nmethod"]), dict(base, go=str(gonames)))
            elif (r["exp"] or []) != gonames:
                cls = "reflect:methods:exported-not-a-prefix" if sorted(x for x in (r["all"] or []) if b"." not in x) == gonames else None
                rt_report("methods", label, "ExportedMethods() of the emitted descriptor are not the methods reflect reports", dict(base, llgo=str(r["exp"]), go=str(gonames)), known=cls)
            if u is not None and o["name"] != b"" and r["pkgpath"] != o["pkgpath"]:
                cls = "reflect:pkgpath:main-package-path" if o["pkgpath"] == b"main" and r["pkgpath"] == tg.MOD.encode() else None
                rt_report("pkgpath", label, "Uncommon().PkgPath_ differs from reflect.Type.PkgPath()", dict(base, llgo=str(r["pkgpath"]), go=str(o["pkgpath"])), known=cls)
            # (c) visibility of struct fields: StructField.PkgPath as reflect derives it from StructType.PkgPath_
            if o["kind"] == 25 and r["spkg"] is not None and e["fields"] is not None and e["tflag"] & 32 == 0:
                gof = [unhexs(f[3]) for f in o["F"]]
                names = [f[0] for f in e["fields"]]
                stats["rt-tie:struct-field-visibility"] = stats.get("rt-tie:struct-field-visibility", 0) + 1
                if any(fl[0] is not None and not (fl[0][:1].isupper() and fl[0][:1].isascii()) and fl[4] for fl in e["fields"]) and \
                        not any((not fl[4]) and fl[0] is not None and not fl[0][:1].isupper() for fl in e["fields"]):
                    stats["rt-tie:struct-only-embedded-unexported"] = stats.get("rt-tie:struct-only-embedded-unexported", 0) + 1
                if len(gof) != len(r["fpkg"]):
                    rt_report("fieldpkgpath", label, "field count differs", dict(base, llgo=str(r["fpkg"]), go=str(gof)))
                else:
                    bad = [(k, names[k], r["fpkg"][k], gof[k]) for k in range(len(gof)) if r["fpkg"][k] != gof[k]]
                    main_only = [b for b in bad if b[3] == b"main" and b[2] == tg.MOD.encode()]
                    nonascii = [b for b in bad if b not in main_only and b[3] == b"" and b[1][:1] >= b"\x80"]
                    other = [b for b in bad if b not in main_only and b not in nonascii]
                    det = dict(base, StructType_PkgPath=str(r["spkg"]), fields=str([(nm.decode("utf-8", "replace"), "llgo PkgPath %r" % a.decode(), "go PkgPath %r" % b_.decode()) for _, nm, a, b_ in bad]))
                    if other:
                        rt_report("fieldpkgpath", label, "reflect's StructField.PkgPath / IsExported() as derived from the emitted StructType.PkgPath_ (%r) differ from the reference toolchain's: %s" %
                                  (r["spkg"].decode(), ", ".join("field %s: llgo PkgPath %r (IsExported %s), Go %r (IsExported %s)" % (nm.decode("utf-8", "replace"), a.decode(), a == b"", b_.decode(), b_ == b"") for _, nm, a, b_ in other)), det)
                    if nonascii:
                        rt_report("fieldpkgpath-nonascii", label, "abi.IsExported looks at one ASCII byte: an exported field whose name starts with a non-ASCII upper-case letter gets the struct's PkgPath_", det,
                                  known="reflect:fieldpkgpath:non-ascii-exported-name")
                    if main_only:
                        rt_report("fieldpkgpath-main", label, "non-exported fields of a struct written in package main: PkgPath is the import path of the main package, Go says main", det,
                                  known="reflect:fieldpkgpath:main-package-path")
    ctx.log("run-time readers: %d emitted descriptors loaded natively (%d of generated types), %d spec failures" % (loaded, sum(1 for x in meta.values() if x[1] is not None), fails))
    return {"ran": True, "descriptors_loaded": loaded, "spec_failures": fails, "header_sizes_in_ir": {k: v[0] for k, v in sizes.items()}}


# ------------------------------------------------------------------------------------------------ field lookup of llgo's reflect (native)
FBN_POOL = ["X", "Y", "Z", "W", "x", "Val"]


def fbn_groups(rng, ngroups):
    """groups of struct declarations whose embedding graphs are random DAGs (value embedding of earlier types, pointer embedding of
    any type of the group, self included: cycles), with few field names so that one name is reachable along several paths at equal
    and at different depths: chains, shadowing, diamonds of every depth with the field any number of levels below the join, embedded
    non-struct named types, non-exported embedded types.  -> [(source, [type names], [name sets])]"""
    groups = []
    for g in range(ngroups):
        ntypes = rng.randint(3, 9)
        fan = rng.choice([1, 2, 2, 3, 4])
        window = rng.choice([1, 2, 3, 8])
        names = [("G%dT%d" if rng.random() < 0.85 else "g%dt%d") % (g, k) for k in range(ntypes)]
        scalar = "G%dN" % g
        src = ["type %s int" % scalar]
        for k in range(ntypes):
            fields, used = [], set()
            if k > 0:
                lo = max(0, k - window)
                for j in rng.sample(range(lo, k), min(k - lo, rng.randint(1, fan))):
                    fields.append(("*" if rng.random() < 0.3 else "") + names[j])
                    used.add(names[j])
            if rng.random() < 0.15:
                j = rng.randrange(ntypes)                       # embedded pointer to any type of the group (cycles)
                if names[j] not in used:
                    fields.append("*" + names[j])
                    used.add(names[j])
            if rng.random() < 0.1:
                fields.append(scalar)
                used.add(scalar)
            nplain = rng.choice([0, 0, 1, 1, 2]) if k > 0 else rng.randint(1, 3)
            for nm in rng.sample(FBN_POOL, nplain):
                fields.append("%s int" % nm)
            if rng.random() < 0.05 and k > 0:
                fields.append("%s int" % rng.choice(names[:k]))  # a plain field named like an embedded type further down
                if fields[-1].split()[0] in used:
                    fields.pop()
            rng.shuffle(fields)
            src.append("type %s struct{ %s }" % (names[k], "; ".join(fields)))
        sets = [[n] for n in FBN_POOL + names + [scalar, "nope"]]
        for _ in range(4):
            sets.append(sorted(rng.sample(FBN_POOL + names, rng.randint(2, 3))))
        groups.append(("\n".join(src), names, sets))
    return groups


def fbn_tie(ctx, stats):
    """(*structType).FieldByNameFunc / FieldByName of runtime/internal/lib/reflect, extracted verbatim from the working tree, on
    llgo-layout descriptors (the working tree's runtime/abi) of generated embedding graphs; judged against the reference toolchain's
    reflect.Type.FieldByName / FieldByNameFunc on the same Go types."""
    import shutil
    quick = ctx.tier == "quick"
    src_path = os.path.join(REPO, "runtime", "internal", "lib", "reflect", "type.go")
    text = open(src_path).read()
    parts = []
    for rx in (r'^type fieldScan struct \{\n.*?^\}\n', r'^func \(t \*structType\) FieldByNameFunc\(.*?^\}\n', r'^func \(t \*structType\) FieldByName\(.*?^\}\n'):
        m = re.search(rx, text, re.M | re.S)
        if not m:
            ctx.report_broken("reflect field lookup: cannot extract fieldScan / FieldByNameFunc / FieldByName from runtime/internal/lib/reflect/type.go", rx)
            return {"ran": False}
        parts.append(m.group(0))
    d = os.path.join(ctx.scratch, "fbn")
    os.makedirs(os.path.join(d, "abi"))
    for f in os.listdir(os.path.join(REPO, "runtime", "abi")):
        if f.endswith(".go") and not f.endswith("_test.go"):
            shutil.copy(os.path.join(REPO, "runtime", "abi", f), os.path.join(d, "abi", f))
    h = os.path.join(VERIF, "harness", "c15", "fbn")
    shutil.copy(os.path.join(h, "go.mod.txt"), os.path.join(d, "go.mod"))
    shutil.copy(os.path.join(h, "main.go.txt"), os.path.join(d, "main.go"))
    shutil.copy(os.path.join(h, "shim.go.txt"), os.path.join(d, "shim.go"))
    open(os.path.join(d, "zz_extracted.go"), "w").write('package main\n\nimport (\n\t"unsafe"\n\n\t"fbn/abi"\n)\n\nvar _ unsafe.Pointer\n\n' + "\n".join(parts))
    # fixed shapes first (chain, shadowing, diamonds of depth 2, 3, 4 with the field 0, 1, 2 levels below the join, through pointers, a cycle)
    fixed = ("type G0D struct{ X, Y int }\ntype G0C struct{ G0D }\ntype G0A struct{ G0C }\ntype G0B struct{ G0C }\ntype G0S3 struct{ G0A; G0B }\n"
             "type G0C2 struct{ X int }\ntype G0A2 struct{ G0C2 }\ntype G0B2 struct{ G0C2 }\ntype G0S2 struct{ G0A2; G0B2 }\n"
             "type G0Chain struct{ G0A; Z int }\ntype G0Shadow struct{ *G0A; X string }\n"
             "type G0E struct{ W int }\ntype G0D4 struct{ *G0E }\ntype G0C4 struct{ G0D4 }\ntype G0A4 struct{ *G0C4 }\ntype G0B4 struct{ G0C4 }\ntype G0S4 struct{ G0A4; G0B4 }\n"
             "type G0Loop struct{ *G0Loop; V int }\ntype G0Mix struct{ G0S3; G0C2 }\ntype G0Deep struct{ G0S3; Y int }")
    fnames = re.findall(r'^type (\w+) ', fixed, re.M)
    groups = [(fixed, fnames, [[n] for n in ["X", "Y", "Z", "W", "V", "nope"] + fnames] + [["X", "Y"], ["W", "Z"], ["G0C", "G0D"]])]
    groups += fbn_groups(ctx.rng, 150 if quick else 3000)[0:]
    # group numbers in the generated names start at 0 as well: rename the random groups' prefix so that they cannot clash with the fixed one
    gen = ["package main\n"]
    shapes, lookups = [], []
    for gi, (src, names, sets) in enumerate(groups):
        if gi > 0:
            src = re.sub(r'\b([Gg])(\d+)([TtN])', lambda m: "%s%dx%s" % (m.group(1), gi, m.group(3)), src)
            ren = lambda n: re.sub(r'^([Gg])(\d+)([TtN])', lambda m: "%s%dx%s" % (m.group(1), gi, m.group(3)), n)
            names = [ren(n) for n in names]
            sets = [[ren(n) for n in s] for s in sets]
            groups[gi] = (src, names, sets)
        gen.append(src + "\n")
        for n in names:
            shapes.append("\t{%d, %s, %s{}}," % (gi, json.dumps(n), n))
        lookups.append("\t{" + ", ".join("{" + ", ".join(json.dumps(x) for x in s) + "}" for s in sets) + "},")
    gen.append("var shapes = []shape{\n" + "\n".join(shapes) + "\n}\n")
    gen.append("var lookups = [][][]string{\n" + "\n".join(lookups) + "\n}\n")
    open(os.path.join(d, "zz_types.go"), "w").write("\n".join(gen))
    p = sh(["go", "build", "-o", "fbn.bin", "."], cwd=d, env=go_env())
    if p.returncode != 0:
        ctx.log("reflect field lookup: the extracted code does not build natively:\n" + (p.stdout + p.stderr)[-2000:])
        ctx.report_broken("reflect field lookup: verbatim copy of FieldByNameFunc/FieldByName + runtime/abi does not build against the stand-ins", (p.stdout + p.stderr)[-2000:])
        return {"ran": False}
    p = sh([os.path.join(d, "fbn.bin")], cwd=d, timeout=600)
    done = re.search(r'^DONE lookups=(\d+) found=(\d+) promoted_depth3plus=(\d+) bad=(\d+)', p.stdout, re.M)
    if p.returncode != 0 or not done:
        ctx.report_broken("reflect field lookup: native driver failed", (p.stdout + p.stderr)[-2000:])
        return {"ran": False}
    bad, seen_generated = 0, False
    for line in p.stdout.split("\n"):
        m = re.match(r'BAD (\d+) (\S+) (\[.*?\]) go=(.*) llgo=(.*)$', line)
        if not m:
            continue
        bad += 1
        gi = int(m.group(1))
        first_generated = gi > 0 and not seen_generated      # the fixed group comes first: show one generated shape as well
        seen_generated = seen_generated or gi > 0
        if bad <= 3 or first_generated:
            go, ll = m.group(4), m.group(5)
            cls = "ambiguous-reported-as-found" if go.startswith("(false") and ll.startswith("(true") else "found-reported-as-absent" if go.startswith("(true") and ll.startswith("(false") else "panic" if ll.startswith("panic") else "other-field"
            ctx.report("reflect-lib:fieldbyname:%s:%s.%s" % (cls, m.group(2), m.group(3)),
                       "llgo's reflect (runtime/internal/lib/reflect (*structType).FieldByNameFunc, run natively on llgo-layout descriptors) answers a field lookup differently from Go's reflect: (found, index, name, embedded) go=%s llgo=%s" % (go, ll),
                       {"declarations": groups[gi][0], "type": m.group(2), "names_matched": m.group(3), "go": go, "llgo": ll, "how": "reflect.TypeOf(%s{}).FieldByName / FieldByNameFunc" % m.group(2)})
    info = {"ran": True, "lookups": int(done.group(1)), "found": int(done.group(2)), "promoted_depth3plus": int(done.group(3)), "spec_failures": bad, "groups": len(groups), "types": len(shapes)}
    stats["reflect-lib:fieldbyname:lookups"] = info["lookups"]
    stats["reflect-lib:fieldbyname:found"] = info["found"]
    ctx.log("reflect field lookup: %d lookups on %d generated struct types (%d found, %d promoted through >= 2 embeddings), %d differ from the reference reflect" % (info["lookups"], info["types"], info["found"], info["promoted_depth3plus"], bad))
    return info
