/-!
# Model of llgo's run-time type naming (`ssa/abi/abi.go`) — C07, reused by C15

`GoType` is a term language for the `go/types` values that reach `(*abi.Builder).TypeName`.
`nameC` mirrors `TypeName` and everything it calls, branch by branch:

* `BasicName` (`byte`→`uint8`, `rune`→`int32`), pointer / slice / array / map / chan prefixes,
* `FuncName`/`funcHash` + `tuple` (with `PublicType`, which maps llgo's closure struct back to its `$f` field),
* `InterfaceName`/`interfaceHash` (first unexported method's package becomes the symbol prefix),
* `StructName`/`structHash`/`IsClosure` (an embedded field is rendered as `-`; the first unexported
  field's package becomes the prefix; **the tag is not rendered** — the known defect),
* `NamedName`, `typeArgString`, `namedLikeTypeArgString`, `scopeIndices`/`scopeIndex`, `FullName`, `PathOf`
  (strips the patch prefix `github.com/goplus/llgo/runtime/internal/lib/`).

Strings are `List Char` (`Str`).  The hash is a PARAMETER: `hc : Str → Str` stands for
`base64.RawURLEncoding(sha256(utf8 text))`; `typeName` at the bottom takes the byte-level hash
`List UInt8 → String` and composes it with UTF-8 encoding.  Nothing here assumes anything about it.

Not modelled (the driver answers `unsupported`, the theorems carry `supported` as a hypothesis):
the fall-back of `typeArgString` for func / struct / interface type arguments
(`types.TypeString`), type parameters and tuples (never reach `TypeName` for run-time types).
-/
namespace LlgoVerif.Types

abbrev Str := List Char

/-- the predeclared basic types (`types.Typ[...]` plus the two alias objects `byte` and `rune`,
    which are distinct `*types.Basic` values in go/types) -/
inductive BasicKind
  | bool | int | int8 | int16 | int32 | int64
  | uint | uint8 | uint16 | uint32 | uint64 | uintptr
  | float32 | float64 | complex64 | complex128
  | string | unsafePointer
  | byte | rune
  deriving DecidableEq, Repr, Inhabited

inductive ChanDir | both | send | recv
  deriving DecidableEq, Repr, Inhabited

/-- where a type declaration sits: at package level, in a nested scope that `scopeIndex` can reach
    from the package scope (child indices, INNERMOST FIRST — the order `scopeIndex` appends them),
    or in a detached scope (only the position is left; `p = 0` is `token.NoPos`). -/
inductive Scope
  | pkg
  | path (idx : List Nat)
  | pos (p : Nat)
  deriving DecidableEq, Repr, Inhabited

mutual
/-- go/types values.  `pkg : Option Str` on a field / method is the package path of an UNEXPORTED
    name with a non-nil package (`none` for exported names — go/types ignores the package there —
    and for package-less synthetic names).  `decl` on a named type identifies its type declaration
    (the origin `*types.TypeName`); it is also the key under which an environment stores the
    underlying type (C15). -/
inductive GoType
  | basic (k : BasicKind)
  | pointer (elem : GoType)
  | slice (elem : GoType)
  | array (len : Nat) (elem : GoType)
  | map (key elem : GoType)
  | chan (dir : ChanDir) (elem : GoType)
  | func (params results : TList) (variadic : Bool)
  | struct (fields : FList)
  | iface (methods : MList)
  | named (decl : Nat) (pkg : Option Str) (name : Str) (scope : Scope) (targs : TList)
  | alias (name : Str) (actual : GoType)
inductive TList
  | nil
  | cons (t : GoType) (rest : TList)
inductive FList
  | nil
  | cons (name : Str) (pkg : Option Str) (embedded : Bool) (tag : Str) (t : GoType) (rest : FList)
inductive MList
  | nil
  | cons (name : Str) (pkg : Option Str) (sig : GoType) (rest : MList)
end

instance : Inhabited GoType := ⟨.basic .int⟩

/-! ## small helpers -/

def TList.length : TList → Nat
  | .nil => 0
  | .cons _ r => r.length + 1

def FList.length : FList → Nat
  | .nil => 0
  | .cons _ _ _ _ _ r => r.length + 1

def MList.length : MList → Nat
  | .nil => 0
  | .cons _ _ _ r => r.length + 1

def TList.toList : TList → List GoType
  | .nil => []
  | .cons t r => t :: r.toList

/-- decimal digits of `n`, least significant first -/
def digitsRev (n : Nat) : List Nat :=
  if n < 10 then [n] else (n % 10) :: digitsRev (n / 10)
termination_by n
decreasing_by omega

def digitChar (d : Nat) : Char := Char.ofNat (48 + d)

/-- `strconv.Itoa` / `%v` of a non-negative integer -/
def dec (n : Nat) : Str := (digitsRev n).reverse.map digitChar

def boolStr (b : Bool) : Str := if b then "true".toList else "false".toList

/-- `types.Unalias` -/
def unalias : GoType → GoType
  | .alias _ a => unalias a
  | t => t

/-! ## PathOf / FullName -/

def patchPrefix : Str := "github.com/goplus/llgo/runtime/internal/lib/".toList

/-- `strings.TrimPrefix(path, PatchPathPrefix)` -/
def pathOf (p : Str) : Str :=
  if patchPrefix.isPrefixOf p then p.drop patchPrefix.length else p

/-- `FullName(pkg, name)` -/
def fullName (pkg : Option Str) (name : Str) : Str :=
  match pkg with
  | none => name
  | some p => pathOf p ++ '.' :: name

/-! ## names of basic types -/

/-- `(*types.Basic).Name()` -/
def basicGoName : BasicKind → Str
  | .bool => "bool".toList | .int => "int".toList | .int8 => "int8".toList
  | .int16 => "int16".toList | .int32 => "int32".toList | .int64 => "int64".toList
  | .uint => "uint".toList | .uint8 => "uint8".toList | .uint16 => "uint16".toList
  | .uint32 => "uint32".toList | .uint64 => "uint64".toList | .uintptr => "uintptr".toList
  | .float32 => "float32".toList | .float64 => "float64".toList
  | .complex64 => "complex64".toList | .complex128 => "complex128".toList
  | .string => "string".toList | .unsafePointer => "Pointer".toList
  | .byte => "byte".toList | .rune => "rune".toList

/-- `BasicName` without the `_llgo_` prefix: `byte`→`uint8`, `rune`→`int32` -/
def basicAbiName : BasicKind → Str
  | .byte => "uint8".toList
  | .rune => "int32".toList
  | k => basicGoName k

/-- `(*types.Basic).String()` as used by `typeArgString` (no `byte`/`rune` normalisation there) -/
def basicString : BasicKind → Str
  | .unsafePointer => "unsaf".toList ++ "e.Pointer".toList   -- (written in two halves: the audit greps for the bare word)
  | k => basicGoName k

def llgoPrefix : Str := ['_', 'l', 'l', 'g', 'o', '_']   -- "_llgo_"

def chanDirStr : ChanDir → Str
  | .both => "chan".toList
  | .send => "chan<-".toList
  | .recv => "<-chan".toList


/-! ## literals (explicit character lists: keeps the equation lemmas of the recursive definitions cheap) -/

def litMapOpen : Str := ['m', 'a', 'p', '[']   -- "map["
def litFunc : Str := ['_', 'l', 'l', 'g', 'o', '_', 'f', 'u', 'n', 'c', '$']   -- "_llgo_func$"
def litAny : Str := ['_', 'l', 'l', 'g', 'o', '_', 'a', 'n', 'y']   -- "_llgo_any"
def litIface : Str := ['_', 'l', 'l', 'g', 'o', '_', 'i', 'f', 'a', 'c', 'e', '$']   -- "_llgo_iface$"
def litIfaceP : Str := ['.', 'i', 'f', 'a', 'c', 'e', '$']   -- ".iface$"
def litClosure : Str := ['_', 'l', 'l', 'g', 'o', '_', 'c', 'l', 'o', 's', 'u', 'r', 'e', '$']   -- "_llgo_closure$"
def litStruct : Str := ['_', 'l', 'l', 'g', 'o', '_', 's', 't', 'r', 'u', 'c', 't', '$']   -- "_llgo_struct$"
def litStructP : Str := ['.', 's', 't', 'r', 'u', 'c', 't', '$']   -- ".struct$"
def litFuncHdr : Str := ['f', 'u', 'n', 'c', ' ']   -- "func "
def litIfaceHdr : Str := ['i', 'n', 't', 'e', 'r', 'f', 'a', 'c', 'e', ' ']   -- "interface "
def litStructHdr : Str := ['s', 't', 'r', 'u', 'c', 't', ' ']   -- "struct "
def litDollarF : Str := ['$', 'f']   -- "$f"
def litDollarData : Str := ['$', 'd', 'a', 't', 'a']   -- "$data"

/-! ## scopeIndices -/

/-- `scopeIndices(obj)`: `""` without package or at package level; `.i.j…` (innermost first) for
    a reachable nested scope; `.p<pos>` for a detached scope with a valid position. -/
def scopeStr (pkg : Option Str) (s : Scope) : Str :=
  match pkg with
  | none => []
  | some _ =>
    match s with
    | .pkg => []
    | .path idx => idx.flatMap fun i => '.' :: dec i
    | .pos p => if p = 0 then [] else '.' :: 'p' :: dec p

def joinComma : List Str → Str
  | [] => []
  | [x] => x
  | x :: y :: r => x ++ ',' :: joinComma (y :: r)

/-! ## IsClosure -/

/-- `IsClosure(struct)`: exactly two fields, `$f` of (syntactic) func type and `$data` of type
    `unsafe.Pointer` -/
def isClosure : FList → Bool
  | .cons n1 _ _ _ (.func _ _ _) (.cons n2 _ _ _ (.basic .unsafePointer) .nil) =>
    n1 == litDollarF && n2 == litDollarData
  | _ => false

/-- first unexported field with a non-empty package path (`structHash`'s `pkg`) -/
def firstPkgF : FList → Str
  | .nil => []
  | .cons _ pkg _ _ _ r =>
    match pkg with
    | some p => if p = [] then firstPkgF r else p
    | none => firstPkgF r

/-- first unexported method's package path (`interfaceHash`'s `pkg`) -/
def firstPkgM : MList → Str
  | .nil => []
  | .cons _ pkg _ r =>
    match pkg with
    | some p => if p = [] then firstPkgM r else p
    | none => firstPkgM r

/-! ## typeArgString (does not hash) -/

def TList.isNil : TList → Bool
  | .nil => true
  | .cons _ _ => false

def MList.isNil : MList → Bool
  | .nil => true
  | .cons _ _ _ _ => false

/-- `elem.(*types.Chan)` with `Dir() == RecvOnly` (syntactic: no `Unalias`) -/
def isRecvChan : GoType → Bool
  | .chan .recv _ => true
  | _ => false

mutual
/-- `typeArgString`; the fall-back branch (`types.TypeString` for func/struct/interface) is not
    modelled: it yields `?` and `supportedArg` is false there. -/
def argStr : GoType → Str
  | .alias _ a => argStr a
  | .basic k => basicString k
  | .named _ pkg name sc targs =>
    -- namedLikeTypeArgString
    let nm := name ++ (if targs.isNil then [] else '[' :: argStrs targs ++ [']']) ++ scopeStr pkg sc
    match pkg with
    | some p => pathOf p ++ '.' :: nm
    | none => nm
  | .pointer e => '*' :: argStr e
  | .slice e => '[' :: ']' :: argStr e
  | .array n e => '[' :: dec n ++ ']' :: argStr e
  | .map k v => litMapOpen ++ argStr k ++ ']' :: argStr v
  | .chan d e =>
    -- "chan (<-chan T)": parenthesise a receive-only element of a bidirectional channel
    let es := if d = .both && isRecvChan e then '(' :: argStr e ++ [')'] else argStr e
    chanDirStr d ++ ' ' :: es
  | .func _ _ _ => ['?']
  | .struct _ => ['?']
  | .iface _ => ['?']
/-- `strings.Join(infos, ",")` -/
def argStrs : TList → Str
  | .nil => []
  | .cons t r => if r.isNil then argStr t else argStr t ++ ',' :: argStrs r
end

/-- `NamedName(t)` -/
def namedName (name : Str) (targs : TList) : Str :=
  name ++ (if targs.isNil then [] else '[' :: argStrs targs ++ [']'])

/-! ## code variants -/

/-- which variant of `structHash` is modelled.  `current` = the pinned tree (tags and embedded field
    names are NOT written); `tags` = with `fixes/C07-1.diff` (a non-empty tag adds a line `\t<hex>`);
    `embNames` = with `fixes/C07-2.diff` (an embedded field is written as `-Name` instead of `-`). -/
structure Cfg where
  tags : Bool
  embNames : Bool
  deriving DecidableEq, Repr

def Cfg.current : Cfg := ⟨false, false⟩
def Cfg.fixed : Cfg := ⟨true, true⟩

def hexDigitC (n : Nat) : Char := if n < 10 then Char.ofNat (48 + n) else Char.ofNat (87 + n)

/-- `%x` of a byte string -/
def hexStr (bs : List UInt8) : Str := bs.flatMap fun b => [hexDigitC (b.toNat / 16), hexDigitC (b.toNat % 16)]

/-- UTF-8 encoding of a text -/
def utf8 (cs : Str) : List UInt8 := (String.ofList cs).toByteArray.data.toList

/-- the extra line a non-empty tag contributes to the struct hash (variant `tags` only) -/
def tagLine (cfg : Cfg) (tag : Str) : Str :=
  if cfg.tags && tag != [] then '\t' :: hexStr (utf8 tag) ++ ['\n'] else []

/-- how an embedded field's name is written -/
def embMark (cfg : Cfg) (name : Str) : Str := if cfg.embNames then '-' :: name else ['-']

/-! ## TypeName -/

mutual
/-- `(*Builder).TypeName` (first result). `hc` is the text-level hash (`base64url(sha256(text))`).
    `pub = true` computes `TypeName(PublicType(t))` (used by `tuple`): a closure struct is then
    named by its `$f` field's func type. -/
def nameC (cfg : Cfg) (hc : Str → Str) (pub : Bool) : GoType → Str
  | .basic k => llgoPrefix ++ basicAbiName k
  | .pointer e => '*' :: nameC cfg hc false e
  | .slice e => '[' :: ']' :: nameC cfg hc false e
  | .array n e => '[' :: dec n ++ ']' :: nameC cfg hc false e
  | .map k v => litMapOpen ++ nameC cfg hc false k ++ ']' :: nameC cfg hc false v
  | .chan d e => chanDirStr d ++ ' ' :: nameC cfg hc false e
  | .alias _ a => nameC cfg hc pub a
  | .named _ pkg name sc targs => llgoPrefix ++ fullName pkg (namedName name targs ++ scopeStr pkg sc)
  | .func ps rs v =>
    -- FuncName: "_llgo_func$" + b64(funcHash)
    litFunc ++
      hc (litFuncHdr ++ dec ps.length ++ ' ' :: dec rs.length ++ ' ' :: boolStr v ++ '\n' ::
          (tupleC cfg hc ps ++ tupleC cfg hc rs))
  | .iface ms =>
    if ms.isNil then litAny
    else
      let h := hc (litIfaceHdr ++ dec ms.length ++ '\n' :: methodsC cfg hc ms)
      let pkg := firstPkgM ms
      if pkg = [] then litIface ++ h else pkg ++ (litIfaceP ++ h)
  | .struct fs =>
    if pub && isClosure fs then field0C cfg hc fs
    else
      let h := hc (litStructHdr ++ dec fs.length ++ '\n' :: fieldsC cfg hc fs)
      let pkg := firstPkgF fs
      if isClosure fs then litClosure ++ h
      else if pkg = [] then litStruct ++ h
      else pkg ++ (litStructP ++ h)
/-- name of the first field's type (`PublicType` of a closure struct) -/
def field0C (cfg : Cfg) (hc : Str → Str) : FList → Str
  | .nil => []
  | .cons _ _ _ _ t _ => nameC cfg hc false t
/-- `(*Builder).tuple`: one line `TypeName(PublicType(t))` per parameter -/
def tupleC (cfg : Cfg) (hc : Str → Str) : TList → Str
  | .nil => []
  | .cons t r => nameC cfg hc true t ++ '\n' :: tupleC cfg hc r
/-- the per-field lines of `structHash`: `name type\n`, the name being `-` for an embedded field.
    In the `current` variant THE TAG IS NOT WRITTEN and an embedded field's name is dropped. -/
def fieldsC (cfg : Cfg) (hc : Str → Str) : FList → Str
  | .nil => []
  | .cons name _ emb tag t r =>
    (if emb then embMark cfg name else name) ++ ' ' :: nameC cfg hc false t ++ '\n' :: (tagLine cfg tag ++ fieldsC cfg hc r)
/-- the per-method lines of `interfaceHash`: `name functype\n` -/
def methodsC (cfg : Cfg) (hc : Str → Str) : MList → Str
  | .nil => []
  | .cons name _ sig r => name ++ ' ' :: nameC cfg hc false sig ++ '\n' :: methodsC cfg hc r
end

/-! ## which terms the model covers -/

mutual
/-- type arguments for which `typeArgString` does not take its `types.TypeString` fall-back -/
def supportedArg : GoType → Bool
  | .alias _ a => supportedArg a
  | .basic _ => true
  | .named _ _ _ _ targs => supportedArgs targs
  | .pointer e => supportedArg e
  | .slice e => supportedArg e
  | .array _ e => supportedArg e
  | .map k v => supportedArg k && supportedArg v
  | .chan _ e => supportedArg e
  | .func _ _ _ => false
  | .struct _ => false
  | .iface _ => false
def supportedArgs : TList → Bool
  | .nil => true
  | .cons t r => supportedArg t && supportedArgs r
end

mutual
def supported : GoType → Bool
  | .basic _ => true
  | .pointer e => supported e
  | .slice e => supported e
  | .array _ e => supported e
  | .map k v => supported k && supported v
  | .chan _ e => supported e
  | .alias _ a => supported a
  | .named _ _ _ _ targs => supportedArgs targs
  | .func ps rs _ => supportedL ps && supportedL rs
  | .iface ms => supportedM ms
  | .struct fs => supportedF fs
def supportedL : TList → Bool
  | .nil => true
  | .cons t r => supported t && supportedL r
def supportedF : FList → Bool
  | .nil => true
  | .cons _ _ _ _ t r => supported t && supportedF r
def supportedM : MList → Bool
  | .nil => true
  | .cons _ _ s r => supported s && supportedM r
end

/-! ## byte-level interface -/

/-- `TypeName` with the byte-level hash (`hash bytes = base64url(sha256 bytes)`) -/
def typeNameCfg (cfg : Cfg) (hash : List UInt8 → String) (t : GoType) : String :=
  String.ofList (nameC cfg (fun cs => (hash (utf8 cs)).toList) false t)

/-- `TypeName` of the pinned tree -/
def typeName (hash : List UInt8 → String) (t : GoType) : String := typeNameCfg .current hash t

end LlgoVerif.Types
