import LlgoVerif.Model.CoreGo
/-! Reflexivity of `==` in the reference semantics: a comparable value is equal to itself exactly when it carries no NaN. -/
namespace LlgoVerif.CoreGo
open LlgoVerif.SoftFloat

theorem cmpFV_self (a : FV) : cmpFV a a = (match a with | .nan => Cmp.un | _ => Cmp.eq) := by
  cases a <;> simp [cmpFV, cmpInt]

theorem decode_nan_iff (F : Fmt) (b : Nat) : decode F b = .nan ↔ isNaN F b = true := by
  unfold decode isNaN
  simp only
  by_cases hE : expField F b = F.emax
  · by_cases hM : manField F b = 0
    · simp [hE, hM]
    · simp [hE, hM]
  · by_cases h0 : expField F b = 0
    · have hE' : ¬ (0 = F.emax) := by rw [← h0]; exact hE
      simp [h0, hE']
    · simp [hE, h0]

/-- IEEE equality is reflexive exactly off the NaNs -/
theorem f64Eq_self (a : Nat) : f64Eq a a = !isNaN f64 a := by
  unfold f64Eq cmp
  rw [cmpFV_self]
  cases hd : decode f64 a with
  | nan => simp [(decode_nan_iff f64 a).1 hd]
  | inf s =>
    have : isNaN f64 a ≠ true := fun h => by rw [(decode_nan_iff f64 a).2 h] at hd; cases hd
    simp [this]
  | fin s m e =>
    have : isNaN f64 a ≠ true := fun h => by rw [(decode_nan_iff f64 a).2 h] at hd; cases hd
    simp [this]

mutual
/-- `x == x` for a value without slices / funcs: true iff no NaN takes part -/
theorem beq_self : (v : Val) → Val.uncomparable v = false → Val.beq v v = !Val.hasNaN v
  | .int k a, _ => by simp [Val.beq, Val.hasNaN]
  | .bool b, _ => by simp [Val.beq, Val.hasNaN]
  | .str s, _ => by simp [Val.beq, Val.hasNaN]
  | .float b, _ => by simp [Val.beq, Val.hasNaN, f64Eq_self]
  | .struct fs, h => by
    simp only [Val.uncomparable] at h
    simp only [Val.beq, Val.hasNaN]
    exact beqList_self fs h
  | .arr es, h => by
    simp only [Val.uncomparable] at h
    simp only [Val.beq, Val.hasNaN]
    exact beqList_self es h
  | .ptr p, _ => by simp [Val.beq, Val.hasNaN]
  | .slice _ _ _ _, h => by simp [Val.uncomparable] at h
  | .func _, h => by simp [Val.uncomparable] at h
  | .bound _ _, h => by simp [Val.uncomparable] at h
  | .iface none, _ => by simp [Val.beq, Val.hasNaN]
  | .iface (some (t, v)), h => by
    simp only [Val.uncomparable] at h
    simp only [Val.beq, Val.hasNaN]
    rw [beq_self v h]; simp
  | .blank v, _ => by simp [Val.beq, Val.hasNaN]
theorem beqList_self : (l : List Val) → Val.anyUncomparable l = false → Val.beqList l l = !Val.anyNaN l
  | [], _ => by simp [Val.beqList, Val.anyNaN]
  | v :: vs, h => by
    simp only [Val.anyUncomparable, Bool.or_eq_false_iff] at h
    simp only [Val.beqList, Val.anyNaN]
    rw [beq_self v h.1, beqList_self vs h.2]
    cases Val.hasNaN v <;> simp
end

end LlgoVerif.CoreGo
