import LlgoVerif.Model.AtomicValue
/-! Invariant of the `atomic.Value` first-store protocol and its one-step lemmas (for `Props/C11.lean`). -/
namespace LlgoVerif.AValue

/-- the thread read a real type word `τ` and will use the data word on that basis -/
def relies (t : Thread) : Option Nat :=
  match t.pc with
  | .lData τ => some τ
  | .sData2 v | .wSwap v => some v.1
  | .cLoadData _ n | .cCas2 n _ => some n.1
  | _ => none

/-- the thread wrote its data word and is about to publish the type word -/
def pendingTyp (t : Thread) : Option Val :=
  match t.pc with
  | .sTyp v | .wTyp v | .cTyp v => some v
  | _ => none

/-- the thread is inside the first store (between its successful CAS and the publication of the type word) -/
def inFirstStore (t : Thread) : Bool :=
  match t.pc with
  | .sData _ | .sTyp _ | .wData _ | .wTyp _ | .cData _ | .cTyp _ => true
  | _ => false

theorem pendingTyp_inFirstStore {t : Thread} {v : Val} (h : pendingTyp t = some v) : inFirstStore t = true := by
  unfold pendingTyp at h; unfold inFirstStore; split at h <;> simp_all

theorem startNext_fresh : ∀ (p : List Op) (k : Nat),
    relies (startNext p k) = none ∧ pendingTyp (startNext p k) = none ∧ inFirstStore (startNext p k) = false := by
  intro p
  induction p with
  | nil => intro k; simp [startNext, relies, pendingTyp, inFirstStore]
  | cons o r ih =>
    intro k
    unfold startNext
    cases o with
    | store v => simp [firstPc, relies, pendingTyp, inFirstStore]
    | load => simp [firstPc, relies, pendingTyp, inFirstStore]
    | swap v => simp [firstPc, relies, pendingTyp, inFirstStore]
    | cas o n =>
      cases o with
      | none => simp [firstPc, relies, pendingTyp, inFirstStore]
      | some ov =>
        by_cases h : ov.1 = n.1
        · simp [firstPc, h, relies, pendingTyp, inFirstStore]
        · simp [firstPc, h]; exact ih (k + 1)

theorem finish_fresh (t : Thread) :
    relies t.finish = none ∧ pendingTyp t.finish = none ∧ inFirstStore t.finish = false :=
  startNext_fresh t.prog (t.opsDone + 1)

/-- the invariant -/
structure Inv (s : State) : Prop where
  /-- a published type word comes with a data word that was stored with that type -/
  i1 : ∀ τ, s.sh.typ = .real τ → (τ, s.sh.data) ∈ s.sh.written
  /-- a type word, once real, is what every thread that read it relies on -/
  i3 : ∀ (j : Nat) (u : Thread) τ, s.threads[j]? = some u → relies u = some τ → s.sh.typ = .real τ
  /-- the first storer's data word is in place when it publishes the type -/
  i4 : ∀ (j : Nat) (u : Thread) v, s.threads[j]? = some u → pendingTyp u = some v → s.sh.data = v.2 ∧ v ∈ s.sh.written
  /-- only the thread whose CAS succeeded is inside the first store -/
  i6 : ∀ (j : Nat) (u : Thread), s.threads[j]? = some u → inFirstStore u = true → s.sh.typ = .inProgress ∧ s.sh.owner = some j
  /-- everything observed was stored -/
  i5 : ∀ v ∈ s.sh.observed, v ∈ s.sh.written

/-- how a step treats the words other threads depend on -/
inductive Frame (i : Nat) (sh sh' : Shared) (t : Thread) : Prop where
  | same : sh'.typ = sh.typ → sh'.data = sh.data → sh'.owner = sh.owner → Frame i sh sh' t
  | casWon : sh.typ = .nil → sh'.data = sh.data → Frame i sh sh' t
  | firstStore : inFirstStore t = true → sh'.owner = sh.owner → Frame i sh sh' t
  | realWrite (τ : Nat) : sh.typ = .real τ → sh'.typ = sh.typ → sh'.owner = sh.owner → Frame i sh sh' t

theorem stepThread_inv {i : Nat} {sh sh' : Shared} {t t' : Thread} {ev : Option Event}
    (h : stepThread i sh t = some (sh', t', ev))
    (h1 : ∀ τ, sh.typ = .real τ → (τ, sh.data) ∈ sh.written)
    (h3 : ∀ τ, relies t = some τ → sh.typ = .real τ)
    (h4 : ∀ v, pendingTyp t = some v → sh.data = v.2 ∧ v ∈ sh.written)
    (h6 : inFirstStore t = true → sh.typ = .inProgress ∧ sh.owner = some i)
    (h5 : ∀ v ∈ sh.observed, v ∈ sh.written) :
    (∀ τ, sh'.typ = .real τ → (τ, sh'.data) ∈ sh'.written) ∧
    (∀ v ∈ sh'.observed, v ∈ sh'.written) ∧
    (∀ v ∈ sh.written, v ∈ sh'.written) ∧
    (∀ τ, relies t' = some τ → sh'.typ = .real τ) ∧
    (∀ v, pendingTyp t' = some v → sh'.data = v.2 ∧ v ∈ sh'.written) ∧
    (inFirstStore t' = true → sh'.typ = .inProgress ∧ sh'.owner = some i) ∧
    Frame i sh sh' t := by
  obtain ⟨f1, f2, f3⟩ := finish_fresh t
  unfold stepThread at h
  split at h
  -- done
  · simp at h
  -- sLoad
  · split at h
    · simp at h; obtain ⟨rfl, rfl, _⟩ := h
      exact ⟨h1, h5, fun _ hv => hv, by simp [relies, Thread.goto], by simp [pendingTyp, Thread.goto],
        by simp [inFirstStore, Thread.goto], .same rfl rfl rfl⟩
    · simp at h; obtain ⟨rfl, rfl, _⟩ := h
      exact ⟨h1, h5, fun _ hv => hv, by simp [relies, Thread.goto], by simp [pendingTyp, Thread.goto],
        by simp [inFirstStore, Thread.goto], .same rfl rfl rfl⟩
    · rename_i τ hτ
      split at h
      · simp at h; obtain ⟨rfl, rfl, _⟩ := h
        exact ⟨h1, h5, fun _ hv => hv, by simp [f1], by simp [f2], by simp [f3], .same rfl rfl rfl⟩
      · rename_i hne
        simp at h; obtain ⟨rfl, rfl, _⟩ := h
        have := Decidable.of_not_not hne
        exact ⟨h1, h5, fun _ hv => hv, by simp [relies, Thread.goto, hτ, this], by simp [pendingTyp, Thread.goto],
          by simp [inFirstStore, Thread.goto], .same rfl rfl rfl⟩
  -- sCas
  · split at h
    · rename_i hn
      simp at h; obtain ⟨rfl, rfl, _⟩ := h
      exact ⟨by simp, h5, fun _ hv => hv, by simp [relies, Thread.goto], by simp [pendingTyp, Thread.goto],
        by simp [inFirstStore, Thread.goto], .casWon hn rfl⟩
    · simp at h; obtain ⟨rfl, rfl, _⟩ := h
      exact ⟨h1, h5, fun _ hv => hv, by simp [relies, Thread.goto], by simp [pendingTyp, Thread.goto],
        by simp [inFirstStore, Thread.goto], .same rfl rfl rfl⟩
  -- sData
  · rename_i v hpc
    have hfs : inFirstStore t = true := by simp [inFirstStore, hpc]
    obtain ⟨ht, ho⟩ := h6 hfs
    simp at h; obtain ⟨rfl, rfl, _⟩ := h
    exact ⟨by simp [ht], fun x hx => List.mem_cons_of_mem _ (h5 x hx), fun _ hv => List.mem_cons_of_mem _ hv,
      by simp [relies, Thread.goto], by simp [pendingTyp, Thread.goto],
      by simp [inFirstStore, Thread.goto, ht, ho], .firstStore hfs rfl⟩
  -- sTyp
  · rename_i v hpc
    have hfs : inFirstStore t = true := by simp [inFirstStore, hpc]
    obtain ⟨hd, hw⟩ := h4 v (by simp [pendingTyp, hpc])
    simp at h; obtain ⟨rfl, rfl, _⟩ := h
    refine ⟨?_, h5, fun _ hv => hv, by simp [f1], by simp [f2], by simp [f3], .firstStore hfs rfl⟩
    intro τ hτ
    simp at hτ
    subst hτ
    simp only
    rw [hd]; exact hw
  -- sData2
  · rename_i v hpc
    have hr := h3 v.1 (by simp [relies, hpc])
    simp at h; obtain ⟨rfl, rfl, _⟩ := h
    refine ⟨?_, fun x hx => List.mem_cons_of_mem _ (h5 x hx), fun _ hv => List.mem_cons_of_mem _ hv,
      by simp [f1], by simp [f2], by simp [f3], .realWrite v.1 hr rfl rfl⟩
    intro τ hτ
    simp only at hτ
    rw [hr] at hτ
    simp at hτ; subst hτ
    simp
  -- lTyp
  · split at h
    · rename_i τ hτ
      simp at h; obtain ⟨rfl, rfl, _⟩ := h
      exact ⟨h1, h5, fun _ hv => hv, by simp [relies, Thread.goto, hτ], by simp [pendingTyp, Thread.goto],
        by simp [inFirstStore, Thread.goto], .same rfl rfl rfl⟩
    · simp at h; obtain ⟨rfl, rfl, _⟩ := h
      exact ⟨h1, h5, fun _ hv => hv, by simp [f1], by simp [f2], by simp [f3], .same rfl rfl rfl⟩
  -- lData
  · rename_i τ hpc
    have hr := h3 τ (by simp [relies, hpc])
    simp at h; obtain ⟨rfl, rfl, _⟩ := h
    refine ⟨h1, ?_, fun _ hv => hv, by simp [f1], by simp [f2], by simp [f3], .same rfl rfl rfl⟩
    intro x hx
    simp at hx
    rcases hx with rfl | hx
    · exact h1 τ hr
    · exact h5 x hx
  -- wLoad
  · split at h
    · simp at h; obtain ⟨rfl, rfl, _⟩ := h
      exact ⟨h1, h5, fun _ hv => hv, by simp [relies, Thread.goto], by simp [pendingTyp, Thread.goto],
        by simp [inFirstStore, Thread.goto], .same rfl rfl rfl⟩
    · simp at h; obtain ⟨rfl, rfl, _⟩ := h
      exact ⟨h1, h5, fun _ hv => hv, by simp [relies, Thread.goto], by simp [pendingTyp, Thread.goto],
        by simp [inFirstStore, Thread.goto], .same rfl rfl rfl⟩
    · rename_i τ hτ
      split at h
      · simp at h; obtain ⟨rfl, rfl, _⟩ := h
        exact ⟨h1, h5, fun _ hv => hv, by simp [f1], by simp [f2], by simp [f3], .same rfl rfl rfl⟩
      · rename_i hne
        simp at h; obtain ⟨rfl, rfl, _⟩ := h
        have := Decidable.of_not_not hne
        exact ⟨h1, h5, fun _ hv => hv, by simp [relies, Thread.goto, hτ, this], by simp [pendingTyp, Thread.goto],
          by simp [inFirstStore, Thread.goto], .same rfl rfl rfl⟩
  -- wCas
  · split at h
    · rename_i hn
      simp at h; obtain ⟨rfl, rfl, _⟩ := h
      exact ⟨by simp, h5, fun _ hv => hv, by simp [relies, Thread.goto], by simp [pendingTyp, Thread.goto],
        by simp [inFirstStore, Thread.goto], .casWon hn rfl⟩
    · simp at h; obtain ⟨rfl, rfl, _⟩ := h
      exact ⟨h1, h5, fun _ hv => hv, by simp [relies, Thread.goto], by simp [pendingTyp, Thread.goto],
        by simp [inFirstStore, Thread.goto], .same rfl rfl rfl⟩
  -- wData
  · rename_i v hpc
    have hfs : inFirstStore t = true := by simp [inFirstStore, hpc]
    obtain ⟨ht, ho⟩ := h6 hfs
    simp at h; obtain ⟨rfl, rfl, _⟩ := h
    exact ⟨by simp [ht], fun x hx => List.mem_cons_of_mem _ (h5 x hx), fun _ hv => List.mem_cons_of_mem _ hv,
      by simp [relies, Thread.goto], by simp [pendingTyp, Thread.goto],
      by simp [inFirstStore, Thread.goto, ht, ho], .firstStore hfs rfl⟩
  -- wTyp
  · rename_i v hpc
    have hfs : inFirstStore t = true := by simp [inFirstStore, hpc]
    obtain ⟨hd, hw⟩ := h4 v (by simp [pendingTyp, hpc])
    simp at h; obtain ⟨rfl, rfl, _⟩ := h
    refine ⟨?_, h5, fun _ hv => hv, by simp [f1], by simp [f2], by simp [f3], .firstStore hfs rfl⟩
    intro τ hτ
    simp at hτ
    subst hτ
    simp only
    rw [hd]; exact hw
  -- wSwap
  · rename_i v hpc
    have hr := h3 v.1 (by simp [relies, hpc])
    simp at h; obtain ⟨rfl, rfl, _⟩ := h
    refine ⟨?_, ?_, fun _ hv => List.mem_cons_of_mem _ hv, by simp [f1], by simp [f2], by simp [f3],
      .realWrite v.1 hr rfl rfl⟩
    · intro τ hτ
      simp only at hτ
      rw [hr] at hτ
      simp at hτ; subst hτ
      simp
    · intro x hx
      simp at hx
      rcases hx with rfl | hx
      · exact List.mem_cons_of_mem _ (h1 v.1 hr)
      · exact List.mem_cons_of_mem _ (h5 x hx)
  -- cLoad
  · split at h
    · split at h
      · simp at h; obtain ⟨rfl, rfl, _⟩ := h
        exact ⟨h1, h5, fun _ hv => hv, by simp [f1], by simp [f2], by simp [f3], .same rfl rfl rfl⟩
      · simp at h; obtain ⟨rfl, rfl, _⟩ := h
        exact ⟨h1, h5, fun _ hv => hv, by simp [relies, Thread.goto], by simp [pendingTyp, Thread.goto],
          by simp [inFirstStore, Thread.goto], .same rfl rfl rfl⟩
    · simp at h; obtain ⟨rfl, rfl, _⟩ := h
      exact ⟨h1, h5, fun _ hv => hv, by simp [relies, Thread.goto], by simp [pendingTyp, Thread.goto],
        by simp [inFirstStore, Thread.goto], .same rfl rfl rfl⟩
    · rename_i τ hτ
      split at h
      · simp at h; obtain ⟨rfl, rfl, _⟩ := h
        exact ⟨h1, h5, fun _ hv => hv, by simp [f1], by simp [f2], by simp [f3], .same rfl rfl rfl⟩
      · rename_i hne
        simp at h; obtain ⟨rfl, rfl, _⟩ := h
        have := Decidable.of_not_not hne
        exact ⟨h1, h5, fun _ hv => hv, by simp [relies, Thread.goto, hτ, this], by simp [pendingTyp, Thread.goto],
          by simp [inFirstStore, Thread.goto], .same rfl rfl rfl⟩
  -- cCas
  · split at h
    · rename_i hn
      simp at h; obtain ⟨rfl, rfl, _⟩ := h
      exact ⟨by simp, h5, fun _ hv => hv, by simp [relies, Thread.goto], by simp [pendingTyp, Thread.goto],
        by simp [inFirstStore, Thread.goto], .casWon hn rfl⟩
    · simp at h; obtain ⟨rfl, rfl, _⟩ := h
      exact ⟨h1, h5, fun _ hv => hv, by simp [relies, Thread.goto], by simp [pendingTyp, Thread.goto],
        by simp [inFirstStore, Thread.goto], .same rfl rfl rfl⟩
  -- cData
  · rename_i v hpc
    have hfs : inFirstStore t = true := by simp [inFirstStore, hpc]
    obtain ⟨ht, ho⟩ := h6 hfs
    simp at h; obtain ⟨rfl, rfl, _⟩ := h
    exact ⟨by simp [ht], fun x hx => List.mem_cons_of_mem _ (h5 x hx), fun _ hv => List.mem_cons_of_mem _ hv,
      by simp [relies, Thread.goto], by simp [pendingTyp, Thread.goto],
      by simp [inFirstStore, Thread.goto, ht, ho], .firstStore hfs rfl⟩
  -- cTyp
  · rename_i v hpc
    have hfs : inFirstStore t = true := by simp [inFirstStore, hpc]
    obtain ⟨hd, hw⟩ := h4 v (by simp [pendingTyp, hpc])
    simp at h; obtain ⟨rfl, rfl, _⟩ := h
    refine ⟨?_, h5, fun _ hv => hv, by simp [f1], by simp [f2], by simp [f3], .firstStore hfs rfl⟩
    intro τ hτ
    simp at hτ
    subst hτ
    simp only
    rw [hd]; exact hw
  -- cLoadData
  · rename_i o n hpc
    have hr := h3 n.1 (by simp [relies, hpc])
    split at h
    · simp at h; obtain ⟨rfl, rfl, _⟩ := h
      exact ⟨h1, h5, fun _ hv => hv, by simp [f1], by simp [f2], by simp [f3], .same rfl rfl rfl⟩
    · simp at h; obtain ⟨rfl, rfl, _⟩ := h
      exact ⟨h1, h5, fun _ hv => hv, by simp [relies, Thread.goto, hr], by simp [pendingTyp, Thread.goto],
        by simp [inFirstStore, Thread.goto], .same rfl rfl rfl⟩
  -- cCas2
  · rename_i n dat hpc
    have hr := h3 n.1 (by simp [relies, hpc])
    split at h
    · simp at h; obtain ⟨rfl, rfl, _⟩ := h
      refine ⟨?_, fun x hx => List.mem_cons_of_mem _ (h5 x hx), fun _ hv => List.mem_cons_of_mem _ hv,
        by simp [f1], by simp [f2], by simp [f3], .realWrite n.1 hr rfl rfl⟩
      intro τ hτ
      simp only at hτ
      rw [hr] at hτ
      simp at hτ; subst hτ
      simp
    · simp at h; obtain ⟨rfl, rfl, _⟩ := h
      exact ⟨h1, h5, fun _ hv => hv, by simp [f1], by simp [f2], by simp [f3], .same rfl rfl rfl⟩

theorem next_inv {s s' : State} {i : Nat} (hn : next s i = some s') :
    ∃ t sh' t' ev, s.threads[i]? = some t ∧ stepThread i s.sh t = some (sh', t', ev) ∧
      s' = ⟨sh', s.threads.set i t'⟩ := by
  unfold next nextEv at hn
  cases ht : s.threads[i]? with
  | none => simp [ht] at hn
  | some t =>
    simp only [ht] at hn
    cases hs : stepThread i s.sh t with
    | none => simp [hs] at hn
    | some r =>
      obtain ⟨sh', t', ev⟩ := r
      simp only [hs, Option.map_some, Option.some.injEq] at hn
      exact ⟨t, sh', t', ev, rfl, hs, hn.symm⟩

theorem inv_init (progs : List (List Op)) : Inv (init progs) := by
  have fresh : ∀ (j : Nat) (u : Thread), (init progs).threads[j]? = some u →
      relies u = none ∧ pendingTyp u = none ∧ inFirstStore u = false := by
    intro j u hu
    have hm := List.mem_of_getElem? hu
    simp only [init, List.mem_map] at hm
    obtain ⟨p, _, rfl⟩ := hm
    exact startNext_fresh p 0
  refine ⟨by simp [init], ?_, ?_, ?_, by simp [init]⟩
  · intro j u τ hu hr; rw [(fresh j u hu).1] at hr; simp at hr
  · intro j u v hu hp; rw [(fresh j u hu).2.1] at hp; simp at hp
  · intro j u hu hf; rw [(fresh j u hu).2.2] at hf; simp at hf

theorem inv_next {s s' : State} {i : Nat} (h : Inv s) (hn : next s i = some s') : Inv s' := by
  obtain ⟨t, sh', t', ev, ht, hs, rfl⟩ := next_inv hn
  obtain ⟨g1, g5, gmono, g3, g4, g6, fr⟩ :=
    stepThread_inv hs h.i1 (fun τ => h.i3 i t τ ht) (fun v => h.i4 i t v ht) (h.i6 i t ht) h.i5
  have hlt : i < s.threads.length := (List.getElem?_eq_some_iff.mp ht).1
  -- every thread of the new state is the stepping thread (at i) or an old thread at another index
  have split : ∀ (j : Nat) (u : Thread), (s.threads.set i t')[j]? = some u → (j = i ∧ u = t') ∨ (j ≠ i ∧ s.threads[j]? = some u) := by
    intro j u hu
    by_cases hj : j = i
    · subst hj
      simp [List.getElem?_set_self hlt] at hu
      exact Or.inl ⟨rfl, hu.symm⟩
    · rw [List.getElem?_set_ne (Ne.symm hj)] at hu
      exact Or.inr ⟨hj, hu⟩
  -- another thread is never inside the first store together with the stepping one
  have other_notFS : ∀ (j : Nat) (u : Thread), j ≠ i → s.threads[j]? = some u → inFirstStore t = true → inFirstStore u = false := by
    intro j u hj hu hft
    cases hfu : inFirstStore u with
    | false => rfl
    | true =>
      have a := (h.i6 j u hu hfu).2
      have b := (h.i6 i t ht hft).2
      rw [a] at b
      simp at b
      exact absurd b hj
  refine ⟨g1, ?_, ?_, ?_, g5⟩
  · intro j u τ hu hr
    rcases split j u hu with ⟨_, rfl⟩ | ⟨hj, hu'⟩
    · exact g3 τ hr
    · have old := h.i3 j u τ hu' hr
      cases fr with
      | same a _ _ => simp only; rw [a]; exact old
      | casWon a _ => rw [a] at old; simp at old
      | firstStore a _ => have := (h.i6 i t ht a).1; rw [this] at old; simp at old
      | realWrite τ' _ b _ => simp only; rw [b]; exact old
  · intro j u v hu hp
    rcases split j u hu with ⟨_, rfl⟩ | ⟨hj, hu'⟩
    · exact g4 v hp
    · have hfu := pendingTyp_inFirstStore hp
      have old := h.i4 j u v hu' hp
      have oldfs := h.i6 j u hu' hfu
      cases fr with
      | same _ b _ => simp only; rw [b]; exact ⟨old.1, gmono v old.2⟩
      | casWon a _ => rw [a] at oldfs; simp at oldfs
      | firstStore a _ => have := other_notFS j u hj hu' a; rw [this] at hfu; simp at hfu
      | realWrite τ' a _ _ => rw [a] at oldfs; simp at oldfs
  · intro j u hu hf
    rcases split j u hu with ⟨rfl, rfl⟩ | ⟨hj, hu'⟩
    · exact g6 hf
    · have old := h.i6 j u hu' hf
      cases fr with
      | same a _ c => simp only; rw [a, c]; exact old
      | casWon a _ => rw [a] at old; simp at old
      | firstStore a _ => have := other_notFS j u hj hu' a; rw [this] at hf; simp at hf
      | realWrite τ' a _ _ => rw [a] at old; simp at old

theorem inv_reachable {progs : List (List Op)} {s : State} (hr : Reachable (init progs) s) : Inv s := by
  induction hr with
  | refl => exact inv_init progs
  | step i _ hn ih => exact inv_next ih hn

theorem run_reachable {s0 : State} : ∀ (is : List Nat) (s s' : State),
    Reachable s0 s → run s is = some s' → Reachable s0 s' := by
  intro is
  induction is with
  | nil => intro s s' hr h; simp [run] at h; exact h ▸ hr
  | cons i is ih =>
    intro s s' hr h
    unfold run at h
    cases hn : next s i with
    | none => simp [hn] at h
    | some s1 =>
      simp only [hn] at h
      exact ih s1 s' (.step i hr hn) h

/-! ### every stored value is an argument of some call -/

/-- the value a call wants to store -/
def opVal : Op → Option Val
  | .store v | .swap v | .cas _ v => some v
  | .load => none

/-- all values the programs offer to the `Value` -/
def offered (progs : List (List Op)) : List Val := (progs.flatten).filterMap opVal

/-- the value carried by a program counter -/
def pcVal : Pc → Option Val
  | .sLoad v | .sCas v | .sData v | .sTyp v | .sData2 v => some v
  | .wLoad v | .wCas v | .wData v | .wTyp v | .wSwap v => some v
  | .cLoad _ n | .cCas _ n | .cData n | .cTyp n | .cLoadData _ n | .cCas2 n _ => some n
  | .done | .lTyp | .lData _ => none

/-- the thread only carries offered values -/
def ValsIn (O : List Val) (t : Thread) : Prop :=
  (∀ v, pcVal t.pc = some v → v ∈ O) ∧ (∀ op ∈ t.prog, ∀ v, opVal op = some v → v ∈ O)

theorem startNext_valsIn (O : List Val) : ∀ (p : List Op) (k : Nat),
    (∀ op ∈ p, ∀ v, opVal op = some v → v ∈ O) → ValsIn O (startNext p k) := by
  intro p
  induction p with
  | nil => intro k _; simp [startNext, ValsIn, pcVal]
  | cons o r ih =>
    intro k h
    have hr : ∀ op ∈ r, ∀ v, opVal op = some v → v ∈ O := fun op hop => h op (List.mem_cons_of_mem _ hop)
    have ho := h o List.mem_cons_self
    unfold startNext
    cases o with
    | store v => exact ⟨by simpa [firstPc, pcVal, opVal] using ho, hr⟩
    | load => exact ⟨by simp [firstPc, pcVal], hr⟩
    | swap v => exact ⟨by simpa [firstPc, pcVal, opVal] using ho, hr⟩
    | cas o n =>
      cases o with
      | none => exact ⟨by simpa [firstPc, pcVal, opVal] using ho, hr⟩
      | some ov =>
        by_cases hc : ov.1 = n.1
        · simp only [firstPc, hc, ne_eq, not_true_eq_false, if_false]
          exact ⟨by simpa [pcVal, opVal] using ho, hr⟩
        · simp [firstPc, hc]; exact ih (k + 1) hr

theorem stepThread_vals {O : List Val} {i : Nat} {sh sh' : Shared} {t t' : Thread} {ev : Option Event}
    (h : stepThread i sh t = some (sh', t', ev)) (ht : ValsIn O t) (hw : ∀ x ∈ sh.written, x ∈ O) :
    ValsIn O t' ∧ ∀ x ∈ sh'.written, x ∈ O := by
  have hf : ValsIn O t.finish := startNext_valsIn O t.prog (t.opsDone + 1) ht.2
  obtain ⟨hp, hq⟩ := ht
  unfold stepThread at h
  split at h <;> (try split at h) <;> (try split at h) <;> simp at h <;>
    (obtain ⟨rfl, rfl, _⟩ := h) <;> simp_all [ValsIn, pcVal, Thread.goto] <;>
    first
      | exact hq
      | exact hf.2
      | exact ⟨hq, hw⟩
      | exact ⟨hf.2, hw⟩
      | (refine ⟨hq, ?_⟩; intro a b hx; rcases hx with hx | hx <;> first | exact hw a b hx | (cases hx; assumption) | simp_all)
      | (refine ⟨hf.2, ?_⟩; intro a b hx; rcases hx with hx | hx <;> first | exact hw a b hx | (cases hx; assumption) | simp_all)

/-- what is written was offered -/
theorem written_offered {progs : List (List Op)} {s : State} (hr : Reachable (init progs) s) :
    (∀ (j : Nat) (u : Thread), s.threads[j]? = some u → ValsIn (offered progs) u) ∧
    ∀ x ∈ s.sh.written, x ∈ offered progs := by
  induction hr with
  | refl =>
    refine ⟨?_, by simp [init]⟩
    intro j u hu
    have hm := List.mem_of_getElem? hu
    simp only [init, List.mem_map] at hm
    obtain ⟨p, hp, rfl⟩ := hm
    apply startNext_valsIn
    intro op hop v hv
    simp only [offered, List.mem_filterMap, List.mem_flatten]
    exact ⟨op, ⟨p, hp, hop⟩, hv⟩
  | step i _ hn ih =>
    obtain ⟨t, sh', t', ev, ht, hs, rfl⟩ := next_inv hn
    obtain ⟨a, b⟩ := stepThread_vals hs (ih.1 i t ht) ih.2
    refine ⟨?_, b⟩
    intro j u hu
    have hlt : i < _ := (List.getElem?_eq_some_iff.mp ht).1
    by_cases hj : j = i
    · subst hj
      simp [List.getElem?_set_self hlt] at hu
      exact hu ▸ a
    · rw [List.getElem?_set_ne (Ne.symm hj)] at hu
      exact ih.1 j u hu

end LlgoVerif.AValue
