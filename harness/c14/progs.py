"""Generators of multi-package Go programs for C14 (link names).

Every generated function, method and function literal starts with `println(<ID>)` where ID is a unique 7-digit
constant >= 7000000: the ID identifies the *source entity* in the IR (`i64 7000123` inside the body of a `define`)
and in the program's output, independently of how llgo names the symbol.  Programs use builtins/println only.

gen_main_program(rng)      the big program (same-named methods on different receivers, nested closures in methods and
                           functions, generic functions/methods instantiated with the same type arguments in several
                           packages, local / aliased / composite type arguments, globals, goroutines, function values,
                           bound methods and method expressions on pairwise different (receiver name, method name))
dotted_path_program()      package `m/a.B` func C next to package `m/a` method (B).C      (known finding)
wrapper_collision_program()bound-method closures / method expressions on same-named types of different packages, and
                           promoted methods of two function-local types with the same identifier   (known findings)
linkname_program()         //go:linkname to C symbols and //export (no reference toolchain run: expected output is known)
routine_program()          user function `_llgo_routine` with a function literal + a go statement
"""
import json
import os

ID0 = 7000000


class Ids:
    def __init__(self):
        self.n = 0
        self.info = {}

    def new(self, pkg, kind, desc):
        self.n += 1
        i = ID0 + self.n
        self.info[i] = {"pkg": pkg, "kind": kind, "desc": desc}
        return i


def pkgname(path):
    last = path.split("/")[-1]
    out = "".join(c if c.isalnum() else "_" for c in last)
    return out if out[0].isalpha() else "p" + out


PATH_POOL = ["m/ab", "m/a", "m/b", "m/x/a", "m/v1.2/c", "m/d-e/f", "m/a/b", "m/x/b", "m/events"]


def gen_lib_package(rng, ids, path, idx, earlier):
    """source of one library package; `earlier` = [(path, alias)] of packages it may import (all have the same shape)"""
    pn = pkgname(path)
    L = []
    w = L.append
    w("package %s\n" % pn)
    imps = earlier[-2:] if earlier else []
    if imps:
        w("import (")
        for (p, al) in imps:
            w('\t%s "%s"' % (al, p))
        w(")\n")
    n = lambda kind, desc: ids.new(path, kind, desc)
    depth = rng.choice([2, 3])
    # types with the same names in every package
    w("type T struct{ X int }")
    w("type U struct{ X int }")
    w("type L %s" % ["int", "int32", "int16", "uint8"][idx % 4])    # same name, different layout per package
    w("type Box[V any] struct{ V V }")
    w("type Pair[A any, B any] struct {\n\tA A\n\tB B\n}")
    w("type I interface{ M() int }\n")
    w("var G = %d" % (100 + idx))
    w("var H = %d\n" % (200 + idx))
    # value methods M on T and U (same method name on different receivers)
    w("func (t T) M() int { println(%d); return t.X + %d }" % (n("method", "T.M"), 10 + idx))
    w("func (u U) M() int { println(%d); return u.X + %d }" % (n("method", "U.M"), 20 + idx))
    # pointer method with nested closures
    i0 = n("method", "(*T).P")
    body = "return t.X + %d" % (30 + idx)
    for d in range(depth, 0, -1):
        ci = n("closure", "(*T).P$" + "$".join(["1"] * d))
        body = "f%d := func() int { println(%d); %s }; return f%d() + %d" % (d, ci, body, d, d)
    w("func (t *T) P() int { println(%d); %s }" % (i0, body))
    # pointer method on U with two sibling closures (indices 1 and 2) and one nested in the second
    w("func (u *U) P() int {\n\tprintln(%d)\n\ta := func() int { println(%d); return u.X }\n\tb := func() int {\n\t\tprintln(%d)\n\t\tc := func() int { println(%d); return 2 * u.X }\n\t\treturn c()\n\t}\n\treturn a() + b()\n}" % (
        n("method", "(*U).P"), n("closure", "(*U).P$1"), n("closure", "(*U).P$2"), n("closure", "(*U).P$2$1")))
    # plain functions
    w("func F() int { println(%d); return %d }" % (n("func", "F"), 40 + idx))
    w("func K() int {\n\tprintln(%d)\n\tg := func(d int) int {\n\t\tprintln(%d)\n\t\th := func() int { println(%d); return d + G }\n\t\treturn h()\n\t}\n\treturn g(%d)\n}" % (
        n("func", "K"), n("closure", "K$1"), n("closure", "K$1$1"), idx))
    # generic functions / types
    w("func Gen[X any](x X) X { println(%d); f := func() X { println(%d); return x }; return f() }" % (n("generic", "Gen"), n("closure", "Gen$1")))
    w("func Gen2[A any, B any](a A, b B) Pair[A, B] { println(%d); return Pair[A, B]{a, b} }" % n("generic", "Gen2"))
    w("func (b *Box[V]) Get() V { println(%d); f := func() V { println(%d); return b.V }; return f() }" % (n("gmethod", "(*Box).Get"), n("closure", "(*Box).Get$1")))
    w("func (b Box[V]) Val() V { println(%d); return b.V }" % n("gmethod", "Box.Val"))
    w("func (p Pair[A, B]) First() A { println(%d); return p.A }\n" % n("gmethod", "Pair.First"))
    # generic type with a VALUE-receiver method, a type that promotes it through an embedded generic type, a generic type
    # forwarding a constraint method, zero-sized package variables
    w("type Sq[A any] struct{ X, Y A }")
    w("func (s Sq[A]) Sum() int { println(%d); return %d }" % (n("gmethod", "Sq.Sum"), 50 + idx))
    w("type Emb[A any] struct{ Sq[A] }")
    w("type HasM interface{ M() int }")
    w("type Fwd[V HasM] struct{ V V }")
    w("func (f Fwd[V]) M() int { println(%d); return f.V.M() + 1 }" % n("gmethod", "Fwd.M"))
    w("func CallM[X HasM](x X) int { println(%d); return x.M() }" % n("generic", "CallM"))
    w("type Summer interface{ Sum() int }")
    # the same-looking UNNAMED struct types with an embedded unexported field in every package: distinct types per package
    w("type al = int32")
    w("func MkI() any { return struct{ int }{1} }")
    w("func IsI(x any) bool { _, ok := x.(struct{ int }); return ok }")
    w("func MkE() any { return struct{ error }{} }")
    w("func IsE(x any) bool { _, ok := x.(struct{ error }); return ok }")
    w("func MkA() any { return struct{ al }{2} }")
    w("func IsA(x any) bool { _, ok := x.(struct{ al }); return ok }")
    w("var Z struct{}")
    w("var E [0]int\n")
    # uses: instantiate generics of this and of earlier packages with local / aliased / composite type arguments
    w("type AL = L\n")
    w("func Use() int {")
    w("\tprintln(%d)" % n("func", "Use"))
    w("\ttype Loc int")
    w("\tx := Gen[int](1) + int(Gen[L](2)) + int(Gen[AL](3)) + int(Gen[Loc](4))")
    w("\tx += len(Gen[[]L](nil)) + len(Gen[[2]L]([2]L{})) + len(Gen[map[string]*L](nil)) + int(*Gen[*L](new(L)))")
    w("\tx += (&Box[int]{5}).Get() + Box[int]{6}.Val() + int((&Box[L]{7}).Get()) + Gen2[int, L](8, 9).First()")
    w("\t{\n\t\ttype Loc int\n\t\tx += int(Gen[Loc](10))\n\t}")
    w("\tx += Gen[Box[L]](Box[L]{11}).V.int2()")
    if rng.random() < 0.7:
        w("\tx += int(Gen[struct{ A L }](struct{ A L }{12}).A) + Gen[func() int](F)()")
    # two function-local types with the same identifier, nested inside another generic type
    w("\ttype Rec struct{ T }")
    w("\tx += CallM[Fwd[Rec]](Fwd[Rec]{V: Rec{T{X: 1}}}) + CallM[Fwd[Fwd[Rec]]](Fwd[Fwd[Rec]]{})")
    w("\t{\n\t\ttype Rec struct{ U }\n\t\tx += CallM[Fwd[Rec]](Fwd[Rec]{V: Rec{U{X: 1}}}) + CallM[Fwd[Fwd[Rec]]](Fwd[Fwd[Rec]]{})\n\t}")
    for (p, al) in imps:
        w("\tx += %s.CallM[%s.Fwd[Rec]](%s.Fwd[Rec]{V: Rec{T{X: 2}}})" % (al, al, al))
        w("\t{\n\t\ttype Rec struct{ U }\n\t\tx += %s.CallM[%s.Fwd[Rec]](%s.Fwd[Rec]{V: Rec{U{X: 2}}})\n\t}" % (al, al, al))
        # instantiations the declaring package does not make, boxed into an interface only here
        w("\t{")
        w("\t\tvar s1 %s.Summer = &%s.Sq[L]{}" % (al, al))
        w("\t\tvar s2 %s.Summer = %s.Emb[L]{}" % (al, al))
        w("\t\tvar s3 %s.Summer = &%s.Emb[T]{}" % (al, al))
        w("\t\tx += s1.Sum() + s2.Sum() + s3.Sum()")
        # ... and the SAME instantiation in every referring package (each emits the wrappers: they must be mergeable)
        w("\t\tvar s4 %s.Summer = &%s.Sq[int]{}" % (al, al))
        w("\t\tvar s5 %s.Summer = %s.Emb[int]{}" % (al, al))
        w("\t\tvar s6 %s.Summer = &%s.Emb[int]{}" % (al, al))
        w("\t\tx += s4.Sum() + s5.Sum() + s6.Sum()")
        w("\t}")
        w("\tif pz, pe := &%s.Z, &%s.E; pz == nil || pe == nil {\n\t\tx++\n\t}" % (al, al))
    for (p, al) in imps:
        w("\tx += %s.Gen[int](13) + int(%s.Gen[L](14)) + int(%s.Gen[%s.L](15)) + int(%s.Gen[Loc](16))" % (al, al, al, al, al))
        w("\tx += (&%s.Box[int]{17}).Get() + int((&%s.Box[L]{18}).Get()) + int(%s.Box[%s.L]{19}.Val())" % (al, al, al, al))
        w("\tx += len(%s.Gen[[]%s.L](nil)) + len(%s.Gen[map[L]%s.T](nil)) + %s.Gen2[L, %s.L](20, 21).First().int2()" % (al, al, al, al, al, al))
        w("\tx += %s.F() + %s.K() + (&%s.T{X: 1}).P() + %s.U{X: 2}.M() + %s.G" % (al, al, al, al, al))
    w("\treturn x\n}\n")
    w("func (l L) int2() int { println(%d); return int(l) }" % n("method", "L.int2"))
    src = "\n".join(L) + "\n"
    return src


def gen_main_program(rng, npk=3):
    ids = Ids()
    # "m/ab" first, then "m/a" (which imports it): import paths that are string prefixes of one another (also "m" of all)
    paths = ["m/ab", "m/a"] + rng.sample(PATH_POOL[2:], max(0, npk - 2))
    files = {}
    order = []
    earlier = []
    for i, p in enumerate(paths):
        files[p[2:] + "/x.go"] = gen_lib_package(rng, ids, p, i, earlier)
        order.append({"path": p, "dir": p[2:], "files": ["x.go"]})
        earlier.append((p, "q%d" % i))
    M = []
    w = M.append
    w("package main\n")
    w("import (")
    for (p, al) in earlier:
        w('\t%s "%s"' % (al, p))
    w(")\n")
    n = lambda kind, desc: ids.new("m", kind, desc)
    w("type T struct{ X int }")
    w("type W struct{ q0.U }\n")
    w("func (t T) M() int { println(%d); return t.X + 1000 }" % n("method", "T.M"))
    w("func call(f func() int) int { return f() }\n")
    w("var done = make(chan int)\n")
    w("func main() {")
    w("\tprintln(%d)" % n("func", "main"))
    for (p, al) in earlier:
        w("\tprintln(%s.F(), %s.K(), %s.T{X: 1}.M(), %s.U{X: 2}.M(), (&%s.T{X: 3}).P(), (&%s.U{X: 4}).P(), %s.G, %s.H)" % ((al,) * 8))
        w("\tprintln(%s.Use())" % al)
        w("\tprintln(call(%s.F), call(%s.K))" % (al, al))
        w("\t{\n\t\tvar s1 %s.Summer = &%s.Sq[T]{}\n\t\tvar s2 %s.Summer = %s.Emb[T]{}\n\t\tvar s3 %s.Summer = &%s.Emb[W]{}\n\t\tprintln(s1.Sum(), s2.Sum(), s3.Sum(), &%s.Z != nil, &%s.E != nil)\n\t}" % ((al,) * 8))
        w("\t{\n\t\tvar s4 %s.Summer = &%s.Sq[int]{}\n\t\tvar s5 %s.Summer = %s.Emb[int]{}\n\t\tvar s6 %s.Summer = &%s.Emb[int]{}\n\t\tprintln(s4.Sum(), s5.Sum(), s6.Sum())\n\t}" % ((al,) * 6))
        for (p2, al2) in earlier:
            w("\tprintln(%s.IsI(%s.MkI()), %s.IsE(%s.MkE()), %s.IsA(%s.MkA()))" % (al, al2, al, al2, al, al2))
        w("\tprintln(%s.Gen[int](1), %s.Gen[T](T{2}).X, %s.Gen[%s.T](%s.T{X: 3}).X, (&%s.Box[T]{T{4}}).Get().X, %s.Gen2[T, %s.T](T{5}, %s.T{X: 6}).First().X)" % ((al,) * 9))
    # bound methods / method expressions / interface thunks: pairwise different (receiver name, method) in this package
    a0 = earlier[0][1]
    a1 = earlier[1][1]
    w("\tb1 := T{X: 1}.M")
    w("\tb2 := %s.U{X: 2}.M" % a1)
    w("\tb3 := (&%s.T{X: 3}).P" % a0)
    w("\tprintln(call(b1), call(b2), call(b3))")
    w("\te1 := T.M")
    w("\te2 := %s.U.M" % a1)
    w("\te3 := (*%s.U).P" % a0)
    w("\te4 := %s.I.M" % a0)
    w("\tvar iv %s.I = %s.T{X: 9}" % (a0, a0))
    w("\tprintln(e1(T{X: 4}), e2(%s.U{X: 5}), e3(&%s.U{X: 6}), e4(iv), iv.M())" % (a1, a0))
    w("\tw := W{}")
    w("\tprintln(w.M(), (&w).P())")
    w("\tgo func() { println(%d); done <- 1 }()" % n("closure", "main$1"))
    w("\tprintln(<-done)")
    w("\tgo func(k int) { println(%d); done <- k }(7)" % n("closure", "main$2"))
    w("\tprintln(<-done)")
    w("}")
    files["main.go"] = "\n".join(M) + "\n"
    order.append({"path": "m", "dir": ".", "files": ["main.go"]})
    files["order.json"] = json.dumps({"pkgs": order})
    files["go.mod"] = "module m\n\ngo 1.24\n"
    return files, ids, order


def dotted_path_program(mod="d"):
    ids = Ids()
    files = {
        "go.mod": "module %s\n\ngo 1.24\n" % mod,
        "a.B/x.go": "package ab\n\nfunc C() int { println(%d); return 1 }\n" % ids.new(mod + "/a.B", "func", "C"),
        "a/x.go": "package a\n\ntype B struct{}\n\nfunc (B) C() int { println(%d); return 2 }\n" % ids.new(mod + "/a", "method", "B.C"),
        "main.go": 'package main\n\nimport (\n\t"%s/a"\n\tab "%s/a.B"\n)\n\nfunc main() { println(ab.C(), a.B{}.C()) }\n' % (mod, mod),
    }
    order = [{"path": mod + "/a.B", "dir": "a.B", "files": ["x.go"]}, {"path": mod + "/a", "dir": "a", "files": ["x.go"]}, {"path": mod, "dir": ".", "files": ["main.go"]}]
    files["order.json"] = json.dumps({"pkgs": order})
    return files, ids, order


def wrapper_collision_program(mod="w"):
    """witness program of the two receiver-rendering defects; -> files, ids, order, expected value lines
    line 1/2: method values / method expressions of same-named types of three packages
    line 3:   promoted methods of two function-local types with the same identifier"""
    ids = Ids()
    main = """package main

import (
	"MOD/a"
	"MOD/b"
)

type T struct{ X int }

func (t T) M() int { println(%d); return 21 }

func call(f func() int) int { return f() }

type A struct{}

func (A) M() int { println(%d); return 1 }

type B struct{}

func (B) M() int { println(%d); return 2 }

type I interface{ M() int }

func f() I {
	type L struct{ A }
	return L{}
}

func g() I {
	type L struct{ B }
	return L{}
}

func main() {
	f1 := a.T{}.M
	f2 := T{}.M
	f3 := b.T{}.M
	println(call(f1), call(f2), call(f3))
	e1 := a.T.M
	e2 := T.M
	e3 := b.T.M
	println(e1(a.T{}), e2(T{}), e3(b.T{}))
	println(f().M(), g().M())
}
""".replace("MOD", mod)
    ia = ids.new(mod + "/a", "method", "T.M")
    ib = ids.new(mod + "/b", "method", "T.M")
    files = {
        "go.mod": "module %s\n\ngo 1.24\n" % mod,
        "a/x.go": "package a\n\ntype T struct{ X int }\n\nfunc (t T) M() int { println(%d); return 1 }\n" % ia,
        "b/x.go": "package b\n\ntype T struct{ X int }\n\nfunc (t T) M() int { println(%d); return 11 }\n" % ib,
        "main.go": main % (ids.new(mod, "method", "T.M"), ids.new(mod, "method", "A.M"), ids.new(mod, "method", "B.M")),
    }
    order = [{"path": mod + "/a", "dir": "a", "files": ["x.go"]}, {"path": mod + "/b", "dir": "b", "files": ["x.go"]}, {"path": mod, "dir": ".", "files": ["main.go"]}]
    files["order.json"] = json.dumps({"pkgs": order})
    return files, ids, order, ["1 21 11", "1 21 11", "1 2"]


def linkname_program(mod="k"):
    """-> files, expected stderr lines, [(Go function, declared external symbol, kind)]"""
    files = {
        "go.mod": "module %s\n\ngo 1.24\n" % mod,
        "c/x.go": ('package c\n\nimport _ "unsafe"\n\n//go:linkname Strlen C.strlen\nfunc Strlen(s *int8) uintptr\n\n'
                   '//go:linkname Abs C.abs\nfunc Abs(x int32) int32\n\n//go:linkname labs C.labs\nfunc labs(x int) int\n\nfunc Labs(x int) int { return labs(x) }\n'),
        "main.go": ('package main\n\nimport (\n\t_ "unsafe"\n\n\t"MOD/c"\n)\n\n//go:linkname mystrlen C.strlen\nfunc mystrlen(s *int8) uintptr\n\n'
                    '//go:linkname atoi C.atoi\nfunc atoi(s *int8) int32\n\n//export MyExported\nfunc MyExported(x int) int { return x + 1 }\n\n'
                    '//export Twice\nfunc Twice(x int32) int32 { return 2 * x }\n\n//go:linkname callTwice C.Twice\nfunc callTwice(x int32) int32\n\n'
                    "func main() {\n\tbuf := [6]int8{52, 50, 55, 0, 0, 0}\n\tprintln(mystrlen(&buf[0]), c.Strlen(&buf[1]), atoi(&buf[0]), c.Abs(-5), c.Labs(-9))\n"
                    "\tprintln(MyExported(1), Twice(4), callTwice(21))\n}\n").replace("MOD", mod),
    }
    order = [{"path": mod + "/c", "dir": "c", "files": ["x.go"]}, {"path": mod, "dir": ".", "files": ["main.go"]}]
    files["order.json"] = json.dumps({"pkgs": order})
    expected = ["3 2 427 5 9", "2 8 42"]
    binds = [  # (module that references/defines, Go-level name, external symbol, "declare"|"define")
        ("m", "m.mystrlen", "strlen", "declare"), ("m", "m.atoi", "atoi", "declare"), ("m", "m/c.Strlen", "strlen", "declare"),
        ("m", "m/c.Abs", "abs", "declare"), ("m/c", "m/c.labs", "labs", "declare"),
        ("m", "m.MyExported", "MyExported", "define"), ("m", "m.Twice", "Twice", "define"), ("m", "m.callTwice", "Twice", "define"),
    ]
    binds = [(mod + a[1:], mod + b[1:], c, d) for (a, b, c, d) in binds]
    return files, expected, binds, order


def side_findings_program(mod="s"):
    """defects of the unmodified tree found by the seeding agent (shapes 1, 3, 4, 5 of /verif/seeded/side-findings/C14)
    -> files, order, expected value lines"""
    files = {
        "go.mod": "module %s\n\ngo 1.24\n" % mod,
        "g/g.go": """package g

// 1: a local type of a generic function, used in the body and in a closure of it
func Wrap1[T any](x T, alt bool) any {
	type W struct{ V T }
	if alt {
		return func() any { return W{x} }()
	}
	return W{x}
}

// 5: a local type of a generic function instantiated with function-local type arguments
func Wrap5[T any](x T) any {
	type W struct{ V T }
	return W{x}
}

func Same(a, b any) bool { return a == b }

// 3: promoted method wrappers of a struct embedding an instantiated generic type
type Getter interface{ Get() int }

type Box[T any] struct {
	V T
	N int
}

func (b Box[T]) Get() int { return b.N }
""",
        "b/b.go": """package b

type U struct{ N int }

func (u U) m() int { return u.N + 100 }

type I interface{ m() int }

func Call(i I) int { return i.m() }
""",
        "a/a.go": """package a

import (
	"MOD/b"
	"MOD/g"
)

func Use() {
	x, y := g.Wrap1(1, true), g.Wrap1(1, false)
	println("a", g.Same(x, y), g.Same(x, g.Wrap1(1, true)))
}

// 4: own unexported method m and a promoted unexported b.U.m
type T struct{ b.U }

func (t T) m() int { return t.N + 1 }

type J interface{ m() int }

func Call(j J) int { return j.m() }

// 5
func F1() any {
	type L struct{ X int }
	return g.Wrap5(L{1})
}

func F2() any {
	type L struct{ X, Y int }
	return g.Wrap5(L{1, 2})
}

// 3
type W struct{ g.Box[int] }

func New(n int) W { return W{g.Box[int]{0, n}} }
""".replace("MOD", mod),
        "main.go": """package main

import (
	"MOD/a"
	"MOD/b"
	"MOD/g"
)

func main() {
	a.Use()
	x, y := g.Wrap1("s", true), g.Wrap1("s", false)
	println("m", g.Same(x, y), g.Same(x, g.Wrap1("s", true)))
	p, q := g.Wrap1(1, true), g.Wrap1(1, false)
	println("m", g.Same(p, q), g.Same(q, g.Wrap1(1, false)))
	t := a.T{b.U{5}}
	println(a.Call(t), b.Call(t))
	println(g.Same(a.F1(), a.F2()), g.Same(a.F1(), a.F1()))
	var w g.Getter = a.New(5)
	println(w.Get())
}
""".replace("MOD", mod),
    }
    order = [{"path": mod + "/g", "dir": "g", "files": ["g.go"]}, {"path": mod + "/b", "dir": "b", "files": ["b.go"]},
             {"path": mod + "/a", "dir": "a", "files": ["a.go"]}, {"path": mod, "dir": ".", "files": ["main.go"]}]
    files["order.json"] = json.dumps({"pkgs": order})
    return files, order, ["a true true", "m true true", "m true true", "6 105", "false true", "5"]


def unnamed_embedding_program(mod="u"):
    """side finding 2: an UNNAMED struct embedding an instantiated generic type, converted to an interface -> files, expected"""
    files = {
        "go.mod": "module %s\n\ngo 1.24\n" % mod,
        "g/g.go": "package g\n\ntype Getter interface{ Get() int }\n\ntype Box[T any] struct {\n\tV T\n\tN int\n}\n\nfunc (b Box[T]) Get() int { return b.N }\n",
        "main.go": ('package main\n\nimport "%s/g"\n\nfunc main() {\n\tvar s g.Getter = struct{ g.Box[int] }{g.Box[int]{0, 7}}\n\tprintln(s.Get())\n}\n' % mod),
    }
    return files, ["7"]


def routine_program():
    files = {
        "go.mod": "module m\n\ngo 1.24\n",
        "main.go": ("package main\n\nfunc _llgo_routine() int {\n\tf := func() int { return 42 }\n\treturn f()\n}\n\n"
                    "func main() {\n\tdone := make(chan int)\n\tgo func() { done <- 1 }()\n\tprintln(<-done)\n\tprintln(_llgo_routine())\n}\n"),
    }
    return files


def stub_prefix_program():
    """module path `__llgo_stub`: function `__llgo_stub.strlen2` vs the closure stub of C function strlen2?  (probe)"""
    files = {
        "go.mod": "module __llgo_stub\n\ngo 1.24\n",
        "main.go": ('package main\n\nimport _ "unsafe"\n\n//go:linkname cabs C.abs\nfunc cabs(x int32) int32\n\nfunc abs(x int32) int32 { return 77 }\n\n'
                    "func call(f func(int32) int32, x int32) int32 { return f(x) }\n\nfunc main() { println(call(cabs, -3), call(abs, -3), abs(-3)) }\n"),
    }
    return files
