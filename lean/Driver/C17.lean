import LlgoVerif.Util
import LlgoVerif.Model.Utf8
import LlgoVerif.Model.Shell
/-! Line-protocol driver for C17. One request per line, one answer per line.
    `parse H` | `split H` | `tags H,H,…` | `expand T D K=V,K=V,…`   (H = hex of UTF-8 bytes, `-` = empty) -/
open LlgoVerif LlgoVerif.Util

def bytesToChars (bs : List UInt8) : List Char :=
  (Utf8.toRunes (bs.map (·.toNat))).map Char.ofNat

def charsToHex (cs : List Char) : String :=
  hex ((Utf8.fromRunes (cs.map (·.toNat))).map UInt8.ofNat)

def hexList (ls : List (List Char)) : String :=
  if ls.isEmpty then "." else " ".intercalate (ls.map charsToHex)

def unhexChars (h : String) : Option (List Char) := (unhex h).map bytesToChars

/-- the behaviour of the stand-in `pkg-config` / `llvm-config` scripts the check puts first on PATH -/
def fakeConfig (argv : List (List Char)) : Option (List Char) :=
  let args := argv.drop 1
  if args.contains "--fail".toList then none
  else if args.contains "--nl".toList then some "-La\n-lb\n".toList
  else some ("-DARGS=".toList ++ (",".toList).intercalate args ++ ['\n'])

def handle (line : String) : String :=
  match fields line with
  | ["parse", h] =>
    match unhexChars h with
    | some cs => match Shell.parse cs with
      | .ok args => "ok " ++ hexList args
      | .error _ => "err"
    | none => "bad-op"
  | ["split", h] =>
    match unhex h with
    | some bs =>
      let out := Shell.splitFlags (bs.map (·.toNat))
      "ok " ++ (if out.isEmpty then "." else " ".intercalate (out.map fun f => hex (f.map UInt8.ofNat)))
    | none => "bad-op"
  | ["tags", hs] =>
    match (hs.splitOn ",").mapM unhexChars with
    | some fl => "ok " ++ hexList (Shell.parseBuildTags fl)
    | none => "bad-op"
  | ["cc", _app, e1, e2, e3, l1, l2, l3, l4] =>
    let bytesOf (h : String) : Option (List Nat) := (unhex h).map (·.map (·.toNat))
    let listOf (h : String) : Option (List (List Nat)) := if h = "." then some [] else (h.splitOn ",").mapM bytesOf
    let showL (l : List (List Nat)) : String :=
      if l.isEmpty then "." else " ".intercalate (l.map fun f => hex (f.map UInt8.ofNat))
    match bytesOf e1, bytesOf e2, bytesOf e3, listOf l1, listOf l2, listOf l3, listOf l4 with
    | some e1, some e2, some e3, some l1, some l2, some l3, some l4 =>
      "ok " ++ showL (Shell.compileArgv e1 e2 l1 l2 l4) ++ " | " ++ showL (Shell.linkArgv e1 e3 l3 l4)
    | _, _, _, _, _, _, _ => "bad-op"
  | ["check", hs, es] =>
    let fl := if hs = "." then some [] else (hs.splitOn ",").mapM unhexChars
    match fl, (es.splitOn ",").mapM unhexChars with
    | some fl, some exprs =>
      "ok " ++ String.ofList ((Shell.checkTags fl (exprs.map fun e => (e, false))).map fun p => if p.2 then '1' else '0')
    | _, _ => "bad-op"
  | ["expand", t, d, kvs] =>
    let parseKV (s : String) : Option (List Char × List Char) :=
      match s.splitOn "=" with
      | [k, v] => do pure ((← unhexChars k), (← unhexChars v))
      | _ => none
    let kvl := if kvs = "." then some [] else (kvs.splitOn ",").mapM parseKV
    match unhexChars t, unhexChars d, kvl with
    | some t, some d, some kvl => "ok " ++ charsToHex (Shell.expandTemplate t kvl d)
    | _, _, _ => "bad-op"
  | ["xenv", tmpl, kvs] =>
    let parseKV (s : String) : Option (List Char × List Char) :=
      match s.splitOn "=" with
      | [k, v] => do pure ((← unhexChars k), (← unhexChars v))
      | _ => none
    let kvl := if kvs = "." then some [] else (kvs.splitOn ",").mapM parseKV
    match unhexChars tmpl, kvl with
    | some tm, some kvl =>
      let env (n : List Char) : List Char := ((kvl.find? (·.1 = n)).map (·.2)).getD []
      match Shell.expandEnvWithCmd fakeConfig env tm with
      | none => "panic"
      | some (r, cfg) =>
        let args : List (List UInt8) :=
          if r.isEmpty then []
          else if cfg then (Shell.splitFlags ((Utf8.fromRunes (r.map (·.toNat))))).map (·.map UInt8.ofNat)
          else [(Utf8.fromRunes (r.map (·.toNat))).map UInt8.ofNat]
        "ok " ++ charsToHex r ++ " | " ++ (if args.isEmpty then "." else " ".intercalate (args.map hex))
    | _, _ => "bad-op"
  | _ => "bad-op"

def main : IO Unit := lineLoop handle
