import LlgoVerif.Spec.Atomics
/-! REGENERATED on every run of `./check C11` (deleted first) by /verif/harness/c11/atomgen.py from the LLVM IR that
    the llgo built from the working tree emits for the generated wrapper package. Do not edit. -/
namespace LlgoVerif.Gen.C11
open LlgoVerif.Atomics

/-- one row per wrapper `F_X` of the generated package, from the -O0 IR of the llgo built from the working tree:
    (entry point, atomic instructions ⟨kind, rmw op, value type, ordering, failure ordering, weak, volatile,
    non-default syncscope, align⟩, number of other memory-touching / escaping instructions) -/
def table : List Entry := [
  ⟨.AddInt32, [⟨.rmw, .add, .i32, .seq_cst, .none, false, false, false, 4⟩], 0⟩,
  ⟨.AddInt64, [⟨.rmw, .add, .i64, .seq_cst, .none, false, false, false, 8⟩], 0⟩,
  ⟨.AddUint32, [⟨.rmw, .add, .i32, .seq_cst, .none, false, false, false, 4⟩], 0⟩,
  ⟨.AddUint64, [⟨.rmw, .add, .i64, .seq_cst, .none, false, false, false, 8⟩], 0⟩,
  ⟨.AddUintptr, [⟨.rmw, .add, .i64, .seq_cst, .none, false, false, false, 8⟩], 0⟩,
  ⟨.AndInt32, [⟨.rmw, .and, .i32, .seq_cst, .none, false, false, false, 4⟩], 0⟩,
  ⟨.AndInt64, [⟨.rmw, .and, .i64, .seq_cst, .none, false, false, false, 8⟩], 0⟩,
  ⟨.AndUint32, [⟨.rmw, .and, .i32, .seq_cst, .none, false, false, false, 4⟩], 0⟩,
  ⟨.AndUint64, [⟨.rmw, .and, .i64, .seq_cst, .none, false, false, false, 8⟩], 0⟩,
  ⟨.AndUintptr, [⟨.rmw, .and, .i64, .seq_cst, .none, false, false, false, 8⟩], 0⟩,
  ⟨.OrInt32, [⟨.rmw, .or, .i32, .seq_cst, .none, false, false, false, 4⟩], 0⟩,
  ⟨.OrInt64, [⟨.rmw, .or, .i64, .seq_cst, .none, false, false, false, 8⟩], 0⟩,
  ⟨.OrUint32, [⟨.rmw, .or, .i32, .seq_cst, .none, false, false, false, 4⟩], 0⟩,
  ⟨.OrUint64, [⟨.rmw, .or, .i64, .seq_cst, .none, false, false, false, 8⟩], 0⟩,
  ⟨.OrUintptr, [⟨.rmw, .or, .i64, .seq_cst, .none, false, false, false, 8⟩], 0⟩,
  ⟨.LoadInt32, [⟨.load, .none, .i32, .seq_cst, .none, false, false, false, 4⟩], 0⟩,
  ⟨.LoadInt64, [⟨.load, .none, .i64, .seq_cst, .none, false, false, false, 8⟩], 0⟩,
  ⟨.LoadUint32, [⟨.load, .none, .i32, .seq_cst, .none, false, false, false, 4⟩], 0⟩,
  ⟨.LoadUint64, [⟨.load, .none, .i64, .seq_cst, .none, false, false, false, 8⟩], 0⟩,
  ⟨.LoadUintptr, [⟨.load, .none, .i64, .seq_cst, .none, false, false, false, 8⟩], 0⟩,
  ⟨.LoadPointer, [⟨.load, .none, .ptr, .seq_cst, .none, false, false, false, 8⟩], 0⟩,
  ⟨.StoreInt32, [⟨.store, .none, .i32, .seq_cst, .none, false, false, false, 4⟩], 0⟩,
  ⟨.StoreInt64, [⟨.store, .none, .i64, .seq_cst, .none, false, false, false, 8⟩], 0⟩,
  ⟨.StoreUint32, [⟨.store, .none, .i32, .seq_cst, .none, false, false, false, 4⟩], 0⟩,
  ⟨.StoreUint64, [⟨.store, .none, .i64, .seq_cst, .none, false, false, false, 8⟩], 0⟩,
  ⟨.StoreUintptr, [⟨.store, .none, .i64, .seq_cst, .none, false, false, false, 8⟩], 0⟩,
  ⟨.StorePointer, [⟨.store, .none, .ptr, .seq_cst, .none, false, false, false, 8⟩], 0⟩,
  ⟨.SwapInt32, [⟨.rmw, .xchg, .i32, .seq_cst, .none, false, false, false, 4⟩], 0⟩,
  ⟨.SwapInt64, [⟨.rmw, .xchg, .i64, .seq_cst, .none, false, false, false, 8⟩], 0⟩,
  ⟨.SwapUint32, [⟨.rmw, .xchg, .i32, .seq_cst, .none, false, false, false, 4⟩], 0⟩,
  ⟨.SwapUint64, [⟨.rmw, .xchg, .i64, .seq_cst, .none, false, false, false, 8⟩], 0⟩,
  ⟨.SwapUintptr, [⟨.rmw, .xchg, .i64, .seq_cst, .none, false, false, false, 8⟩], 0⟩,
  ⟨.SwapPointer, [⟨.rmw, .xchg, .ptr, .seq_cst, .none, false, false, false, 8⟩], 0⟩,
  ⟨.CompareAndSwapInt32, [⟨.cmpxchg, .none, .i32, .seq_cst, .seq_cst, false, false, false, 4⟩], 0⟩,
  ⟨.CompareAndSwapInt64, [⟨.cmpxchg, .none, .i64, .seq_cst, .seq_cst, false, false, false, 8⟩], 0⟩,
  ⟨.CompareAndSwapUint32, [⟨.cmpxchg, .none, .i32, .seq_cst, .seq_cst, false, false, false, 4⟩], 0⟩,
  ⟨.CompareAndSwapUint64, [⟨.cmpxchg, .none, .i64, .seq_cst, .seq_cst, false, false, false, 8⟩], 0⟩,
  ⟨.CompareAndSwapUintptr, [⟨.cmpxchg, .none, .i64, .seq_cst, .seq_cst, false, false, false, 8⟩], 0⟩,
  ⟨.CompareAndSwapPointer, [⟨.cmpxchg, .none, .ptr, .seq_cst, .seq_cst, false, false, false, 8⟩], 0⟩]

end LlgoVerif.Gen.C11
