/-!
# The byte layer below `extractTarGz`: `compress/gzip.Reader` over `compress/flate` (go1.24)

`extractTarGz` does `gzip.NewReader(file)` and hands the reader to `tar.NewReader`.  What the tar layer sees is
a byte stream; this file models how that stream is obtained from the bytes of the `.tar.gz` file:

* `crc32` — CRC-32 (IEEE), bit by bit;
* `BitR`, `decodeSym`, `inflate` — DEFLATE (RFC 1951) as `compress/flate` decodes it: stored, fixed and dynamic
  Huffman blocks, with flate's acceptance rule for code-length sets (`goValid` = `huffmanDecoder.init`:
  complete, or a single code of length 1, or empty), its limits (`HLIT ≤ 286`, `HDIST ≤ 30`, distance ≤ bytes
  produced so far) and its behaviour on damaged input: everything decoded before the damage is delivered,
  then the error;
* `readHeader` — one member header (`ID1 ID2 CM FLG MTIME XFL OS`, optional `FEXTRA`, `FNAME`, `FCOMMENT`
  (at most 512 bytes each, NUL included), `FHCRC` checked);
* `gunzip multistream` — `gzip.Reader.Read` until it reports something other than `nil`: a `.tar.gz` is a
  **concatenation of one or more members** (RFC 1952 §2.2) and, with `multistream = true` (the default of
  `gzip.NewReader`, which is what `extractTarGz` uses), the stream is the concatenation of the members'
  payloads; after each member the trailer (`CRC32`, `ISIZE`) is checked; then either the file ends (clean
  end of stream) or another member header must follow.

The result is a `Stream`: the bytes delivered before the reader stopped, and how it stopped (`none` = `io.EOF`,
`some e` = error).  The tar reader above reads *lazily*: bytes (and errors) behind the point where it stops
reading are never looked at — see `Model/Tar.lean`.
-/
namespace LlgoVerif.Gzip

abbrev Bytes := List UInt8

inductive Err where
  | eof            -- `io.EOF` where a gzip header was expected by `gzip.NewReader` (empty file)
  | unexpectedEOF  -- `io.ErrUnexpectedEOF`
  | header         -- `gzip.ErrHeader`
  | checksum       -- `gzip.ErrChecksum`
  | corrupt        -- `flate.CorruptInputError`
  deriving DecidableEq, Repr

/-- what a reader delivered before it stopped, and why it stopped (`none` = `io.EOF`) -/
structure Stream where
  data : Bytes
  tail : Option Err
  deriving DecidableEq, Repr

/-! ## CRC-32 -/

def crcStep (c : UInt32) : UInt32 := if c &&& 1 = 1 then (c >>> 1) ^^^ 0xEDB88320 else c >>> 1

def crcByte (c : UInt32) (b : UInt8) : UInt32 :=
  crcStep (crcStep (crcStep (crcStep (crcStep (crcStep (crcStep (crcStep (c ^^^ b.toUInt32))))))))

/-- `crc32.ChecksumIEEE` -/
def crc32 (bs : Bytes) : UInt32 := ~~~ (bs.foldl crcByte 0xFFFFFFFF)

/-- little-endian number -/
def le : Bytes → Nat
  | [] => 0
  | b :: bs => b.toNat + 256 * le bs

/-- `n` as `k` little-endian bytes (low `8k` bits) -/
def natLE : Nat → Nat → Bytes
  | 0, _ => []
  | k + 1, n => UInt8.ofNat (n % 256) :: natLE k (n / 256)

/-! ## Bits -/

/-- a byte-oriented input read bit by bit, least significant bit first (`decompressor.b`, `nb`, `r`) -/
structure BitR where
  /-- unread bits of the byte in progress -/
  cur : List Bool
  rest : Bytes

def tailBits (x : UInt8) : List Bool :=
  [x.toNat.testBit 1, x.toNat.testBit 2, x.toNat.testBit 3, x.toNat.testBit 4, x.toNat.testBit 5,
   x.toNat.testBit 6, x.toNat.testBit 7]

def BitR.bit (r : BitR) : Option (Bool × BitR) :=
  match r.cur with
  | b :: cur => some (b, ⟨cur, r.rest⟩)
  | [] =>
    match r.rest with
    | [] => none
    | x :: rest => some (x.toNat.testBit 0, ⟨tailBits x, rest⟩)

/-- `n` bits as a number, first bit read = least significant -/
def BitR.bits : Nat → BitR → Option (Nat × BitR)
  | 0, r => some (0, r)
  | n + 1, r =>
    match r.bit with
    | none => none
    | some (b, r1) =>
      match BitR.bits n r1 with
      | none => none
      | some (v, r2) => some (b.toNat + 2 * v, r2)

/-- `n` bits as a number, first bit read = most significant (Huffman codes; the 5-bit fixed distance) -/
def BitR.bitsRev : Nat → Nat → BitR → Option (Nat × BitR)
  | 0, acc, r => some (acc, r)
  | n + 1, acc, r =>
    match r.bit with
    | none => none
    | some (b, r1) => BitR.bitsRev n (2 * acc + b.toNat) r1

/-! ## Huffman codes -/

/-- canonical code of a list of code lengths: `count[l]` codes of length `l`; the symbols ordered by (length, index) -/
structure Huff where
  count : Array Nat
  symbol : Array Nat
  /-- `huffmanDecoder.min`: this many bits are fetched before the first table lookup -/
  min : Nat

def indicesOf (l : Nat) : List Nat → Nat → List Nat
  | [], _ => []
  | x :: xs, i => if x = l then i :: indicesOf l xs (i + 1) else indicesOf l xs (i + 1)

def Huff.ofLengths (ls : List Nat) : Huff :=
  { count := ((List.range 16).map fun l => if l = 0 then 0 else (ls.filter (· = l)).length).toArray
    symbol := ((List.range 16).flatMap fun l => if l = 0 then [] else indicesOf l ls 0).toArray
    min := (ls.filter (· ≠ 0)).foldl Nat.min 16 % 16 }

/-- `huffmanDecoder.init` returns true: no code at all, or a complete code (Kraft sum exactly 1), or the single
    code of length 1 -/
def goValid (ls : List Nat) : Bool :=
  let nz := ls.filter (· ≠ 0)
  if nz = [] then true
  else
    let mx := nz.foldl max 0
    let code := nz.foldl (fun a l => a + 2 ^ (mx - l)) 0
    code == 2 ^ mx || (code == 1 && mx == 1)

/-- decode one symbol, bit by bit (canonical code: codes of one length are consecutive, shorter first) -/
def decodeAux (h : Huff) : Nat → Nat → Nat → Nat → Nat → BitR → Except Err (Nat × BitR)
  | 0, _, _, _, _, _ => .error .corrupt
  | fuel + 1, len, code, first, index, r =>
    match r.bit with
    | none => .error .unexpectedEOF
    | some (b, r1) =>
      let code := code + b.toNat
      let cnt := h.count.getD len 0
      if code < first + cnt then .ok (h.symbol.getD (index + (code - first)) 0, r1)
      else decodeAux h fuel (len + 1) (code * 2) ((first + cnt) * 2) (index + cnt) r1

/-- `huffSym`: at least `h.min` bits must be there (flate fetches them before it looks at the table — for the
    literal/length code of a dynamic block `min` is raised to the length of the end-of-block code, so a symbol
    with a shorter code at the very end of a truncated input is *not* delivered) -/
def decodeSym (h : Huff) (r : BitR) : Except Err (Nat × BitR) :=
  if r.cur.length + 8 * r.rest.length < h.min then .error .unexpectedEOF
  else decodeAux h 15 1 0 0 0 r

def lenBase : Array Nat := #[3,4,5,6,7,8,9,10,11,13,15,17,19,23,27,31,35,43,51,59,67,83,99,115,131,163,195,227,258]
def lenExtra : Array Nat := #[0,0,0,0,0,0,0,0,1,1,1,1,2,2,2,2,3,3,3,3,4,4,4,4,5,5,5,5,0]
def distBase : Array Nat :=
  #[1,2,3,4,5,7,9,13,17,25,33,49,65,97,129,193,257,385,513,769,1025,1537,2049,3073,4097,6145,8193,12289,16385,24577]
def distExtra : Array Nat := #[0,0,0,0,1,1,2,2,3,3,4,4,5,5,6,6,7,7,8,8,9,9,10,10,11,11,12,12,13,13]

def fixedLit : List Nat :=
  List.replicate 144 8 ++ List.replicate 112 9 ++ List.replicate 24 7 ++ List.replicate 8 8

def codeOrder : List Nat := [16, 17, 18, 0, 8, 7, 9, 6, 10, 5, 11, 4, 12, 3, 13, 2, 14, 1, 15]

/-- `out[out.size - dist]` appended `n` times (overlapping copy) -/
def copyBack (dist : Nat) : Nat → Array UInt8 → Array UInt8
  | 0, out => out
  | n + 1, out => copyBack dist n (out.push (out.getD (out.size - dist) 0))

/-- the body of a Huffman block (`huffmanBlock`): literals, end of block, length/distance pairs -/
def huffBlock (hl : Huff) (hd : Option Huff) : Nat → BitR → Array UInt8 → Array UInt8 × Except Err BitR
  | 0, _, out => (out, .error .corrupt)
  | fuel + 1, r, out =>
    match decodeSym hl r with
    | .error e => (out, .error e)
    | .ok (v, r1) =>
      if v < 256 then huffBlock hl hd fuel r1 (out.push (UInt8.ofNat v))
      else if v = 256 then (out, .ok r1)
      else if v ≥ 286 then (out, .error .corrupt)
      else
        match r1.bits (lenExtra.getD (v - 257) 0) with
        | none => (out, .error .unexpectedEOF)
        | some (ex, r2) =>
          let length := lenBase.getD (v - 257) 0 + ex
          let dsym : Except Err (Nat × BitR) :=
            match hd with
            | none => (match r2.bitsRev 5 0 with
                       | none => .error .unexpectedEOF
                       | some x => .ok x)
            | some h => decodeSym h r2
          match dsym with
          | .error e => (out, .error e)
          | .ok (d, r3) =>
            if d ≥ 30 then (out, .error .corrupt)
            else
              match r3.bits (distExtra.getD d 0) with
              | none => (out, .error .unexpectedEOF)
              | some (dex, r4) =>
                let dist := distBase.getD d 0 + dex
                if dist > out.size then (out, .error .corrupt)
                else huffBlock hl hd fuel r4 (copyBack dist length out)

/-- the code lengths of a dynamic block, with the repeat codes 16, 17, 18 (`readHuffman`, second loop) -/
def readLengths (h : Huff) (n : Nat) : Nat → BitR → List Nat → Except Err (List Nat × BitR)
  | 0, _, _ => .error .corrupt
  | fuel + 1, r, acc =>
    if acc.length ≥ n then .ok (acc, r)
    else
      match decodeSym h r with
      | .error e => .error e
      | .ok (x, r1) =>
        if x < 16 then readLengths h n fuel r1 (acc ++ [x])
        else
          let (base, nb) := if x = 16 then (3, 2) else if x = 17 then (3, 3) else (11, 7)
          if x = 16 && acc = [] then .error .corrupt
          else
            match r1.bits nb with
            | none => .error .unexpectedEOF
            | some (ex, r2) =>
              let rep := base + ex
              if acc.length + rep > n then .error .corrupt
              else
                let v := if x = 16 then acc.getLast?.getD 0 else 0
                readLengths h n fuel r2 (acc ++ List.replicate rep v)

def setAt (l : List Nat) (i v : Nat) : List Nat := l.set i v

/-- the code lengths of the code-length alphabet, 3 bits each, in `codeOrder` -/
def readCLens : List Nat → BitR → List Nat → Except Err (List Nat × BitR)
  | [], r, acc => .ok (acc, r)
  | i :: is, r, acc =>
    match r.bits 3 with
    | none => .error .unexpectedEOF
    | some (v, r') => readCLens is r' (setAt acc i v)

/-- the header of a dynamic block (`readHuffman`) -/
def readDynamic (r : BitR) : Except Err (Huff × Huff × BitR) :=
  match r.bits 5 with
  | none => .error .unexpectedEOF
  | some (a, r1) =>
  match r1.bits 5 with
  | none => .error .unexpectedEOF
  | some (b, r2) =>
  match r2.bits 4 with
  | none => .error .unexpectedEOF
  | some (c, r3) =>
    let nlit := a + 257
    let ndist := b + 1
    let nclen := c + 4
    if nlit > 286 || ndist > 30 then .error .corrupt
    else
      match readCLens (codeOrder.take nclen) r3 (List.replicate 19 0) with
      | .error e => .error e
      | .ok (cb, r4) =>
        if !goValid cb then .error .corrupt
        else
          match readLengths (Huff.ofLengths cb) (nlit + ndist) (nlit + ndist + 1) r4 [] with
          | .error e => .error e
          | .ok (ls, r5) =>
            let ll := ls.take nlit
            let dl := (ls.drop nlit).take ndist
            if !goValid ll || !goValid dl then .error .corrupt
            else
              let hl := Huff.ofLengths ll
              .ok ({ hl with min := Nat.max hl.min (ll.getD 256 0) }, Huff.ofLengths dl, r5)

/-- a stored block (`dataBlock`): the rest of the current byte is dropped, `LEN`, `NLEN = ~LEN`, `LEN` bytes -/
def storedBlock (rest : Bytes) (out : Array UInt8) : Array UInt8 × Except Err BitR :=
  match rest with
  | a :: b :: c :: d :: body =>
    let n := a.toNat + 256 * b.toNat
    let nn := c.toNat + 256 * d.toNat
    if nn ≠ 65535 - n then (out, .error .corrupt)
    else if body.length < n then (out ++ body.toArray, .error .unexpectedEOF)
    else (out ++ (body.take n).toArray, .ok ⟨[], body.drop n⟩)
  | _ => (out, .error .unexpectedEOF)

/-- the block loop (`nextBlock`): `BFINAL`, `BTYPE`, the block; stops after the final block.
    Result: everything produced, and either the input that follows the DEFLATE stream (the rest of the last
    byte is dropped) or the error that ended decoding. -/
def inflateBlocks : Nat → BitR → Array UInt8 → Array UInt8 × Except Err Bytes
  | 0, _, out => (out, .error .corrupt)
  | fuel + 1, r, out =>
    match r.bit with
    | none => (out, .error .unexpectedEOF)
    | some (final, r1) =>
      match r1.bits 2 with
      | none => (out, .error .unexpectedEOF)
      | some (typ, r2) =>
        let blk : Array UInt8 × Except Err BitR :=
          if typ = 0 then storedBlock r2.rest out
          else if typ = 1 then huffBlock (Huff.ofLengths fixedLit) none (8 * r2.rest.length + 16) r2 out
          else if typ = 2 then
            match readDynamic r2 with
            | .error e => (out, .error e)
            | .ok (hl, hd, r3) => huffBlock hl (some hd) (8 * r3.rest.length + 16) r3 out
          else (out, .error .corrupt)
        match blk with
        | (out1, .error e) => (out1, .error e)
        | (out1, .ok r3) => if final then (out1, .ok r3.rest) else inflateBlocks fuel r3 out1

/-- `flate.NewReader(r)` read to its end -/
def inflate (input : Bytes) : Bytes × Except Err Bytes :=
  let (out, res) := inflateBlocks (8 * input.length + 8) ⟨[], input⟩ #[]
  (out.toList, res)

/-! ## gzip members -/

/-- a NUL-terminated header string of at most 512 bytes (NUL included): the bytes after it -/
def skipCStr : Nat → Bytes → Except Err Bytes
  | 0, _ => .error .header
  | _ + 1, [] => .error .unexpectedEOF
  | k + 1, b :: bs => if b = 0 then .ok bs else skipCStr k bs

/-- `FEXTRA`: a 2-byte length and that many bytes -/
def skipExtra (present : Bool) (r : Bytes) : Except Err Bytes :=
  if present then
    (if r.length < 2 then .error .unexpectedEOF
     else if (r.drop 2).length < le (r.take 2) then .error .unexpectedEOF
     else .ok (r.drop (2 + le (r.take 2))))
  else .ok r

/-- `FNAME` / `FCOMMENT` -/
def skipStr (present : Bool) (r : Bytes) : Except Err Bytes :=
  if present then skipCStr 512 r else .ok r

/-- `FHCRC`: the low 16 bits of the CRC-32 of every header byte before this field (`bs` = the input the header
    started at, `r` = the input at this field) -/
def checkHcrc (present : Bool) (bs r : Bytes) : Except Err Bytes :=
  if present then
    (if r.length < 2 then .error .unexpectedEOF
     else if le (r.take 2) ≠ (crc32 (bs.take (bs.length - r.length))).toNat % 65536 then .error .header
     else .ok (r.drop 2))
  else .ok r

/-- `gzip.Reader.readHeader` on a non-empty input: the bytes after the header -/
def readHeader (bs : Bytes) : Except Err Bytes :=
  if bs.length < 10 then .error .unexpectedEOF
  else if bs.take 3 ≠ [0x1f, 0x8b, 8] then .error .header
  else
    let flg := (bs.getD 3 0).toNat
    match skipExtra (flg.testBit 2) (bs.drop 10) with
    | .error e => .error e
    | .ok r1 =>
    match skipStr (flg.testBit 3) r1 with
    | .error e => .error e
    | .ok r2 =>
    match skipStr (flg.testBit 4) r2 with
    | .error e => .error e
    | .ok r3 => checkHcrc (flg.testBit 1) bs r3

/-- one member after its header: the payload delivered, then the input after the trailer or the error -/
def memberBody (bs : Bytes) : Bytes × Except Err Bytes :=
  match inflate bs with
  | (out, .error e) => (out, .error e)
  | (out, .ok rest) =>
    if rest.length < 8 then (out, .error .unexpectedEOF)
    else if le (rest.take 4) ≠ (crc32 out).toNat || le ((rest.drop 4).take 4) ≠ out.length % 4294967296 then
      (out, .error .checksum)
    else (out, .ok (rest.drop 8))

/-- `gzip.Reader.Read` repeated until it returns an error or `io.EOF`; `bs` starts right after a member header -/
def members (multistream : Bool) : Nat → Bytes → Bytes → Stream
  | 0, _, acc => ⟨acc, some .corrupt⟩
  | fuel + 1, bs, acc =>
    match memberBody bs with
    | (out, .error e) => ⟨acc ++ out, some e⟩
    | (out, .ok rest) =>
      if !multistream then ⟨acc ++ out, none⟩
      else if rest = [] then ⟨acc ++ out, none⟩
      else
        match readHeader rest with
        | .error e => ⟨acc ++ out, some e⟩
        | .ok rest' => members multistream fuel rest' (acc ++ out)

/-- `gzip.NewReader(file)` (error = `NewReader` fails) and then the reader read to its end -/
def gunzip (multistream : Bool) (file : Bytes) : Except Err Stream :=
  if file = [] then .error .eof
  else
    match readHeader file with
    | .error e => .error e
    | .ok rest => .ok (members multistream (file.length + 1) rest [])

end LlgoVerif.Gzip
