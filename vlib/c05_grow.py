"""C05, the parts added in the growth round: generators and INDEPENDENT judges (Go's semantics written in Python, no
model involved) for

  * the machine-integer layer (lean/LlgoVerif/Model/Slice64.lean): `nsc64`, `mk64`, `grow64`, `app64` — nextslicecap,
    MakeSlice, GrowSlice, SliceAppend of the working tree's runtime on the whole int64 range (the native allocator
    stand-in records the requested size and refuses to execute requests above 2^26 bytes, answering `accept alloc=N`,
    so that "the runtime's own checks let a request of N bytes through" is observable without the memory);
  * the heap-aware string layer and the C-string helpers (lean/LlgoVerif/Model/StrHeap.lean): `hb2s hs2b hssl hcat
    cstr cstrcopy fromcstr sfrom` — who copies, who shares, what a Go string -> C string -> Go string trip preserves.

All randomness comes from the rng handed in (ctx.rng)."""
from vlib.common import hexs, unhexs
from vlib import native

I63 = 1 << 63
MAXALLOC = 1 << 48
EXEC_LIMIT = 1 << 26
KEY_LENOVF = "append:len-overflow-not-detected"
WITNESS_LENOVF = "grow64 4611686018427387904 4611686018427387904 4611686018427387904 0 0"
ESZ = [1, 2, 3, 8, 24]


def rt_support():
    """native.RT_SUPPORT with an allocator that records the requested sizes and does not execute big requests"""
    old = "func allocBytes(size uintptr) unsafe.Pointer {\n\tif size == 0 {"
    new = ("// AllocLog: sizes requested from AllocZ/AllocU by the operation in progress (reset by the interpreter).\n"
           "var AllocLog []uintptr\n\n"
           "func allocBytes(size uintptr) unsafe.Pointer {\n\tAllocLog = append(AllocLog, size)\n"
           "\tif size > 1<<26 {\n\t\tpanic(\"verif: allocation too large to execute natively\")\n\t}\n\tif size == 0 {")
    if old not in native.RT_SUPPORT:
        raise RuntimeError("vlib/native.py RT_SUPPORT changed shape: cannot add the recording allocator")
    return native.RT_SUPPORT.replace(old, new)


# ------------------------------------------------------------------------------------------------ generators
def _edges63():
    e = [1, 2, 3, 255, 256, 257, 511, 512, 1000, (1 << 31) - 1, 1 << 31, (1 << 32) + 1, 1 << 48, (1 << 61), (1 << 62) - 385,
         (1 << 62) - 384, (1 << 62) - 1, 1 << 62, (1 << 62) + 1, 3 * (1 << 61) - 768, 3 * (1 << 61) + 190, 15 * (1 << 59) - 768,
         15 * (1 << 59) + 429, I63 - 769, I63 - 768, I63 - 767, I63 - 2, I63 - 1]
    e += [(I63 * 4) // 5 - k for k in (0, 1, 300, 615, 616, 800)]
    return e


def gen_nsc64(rng, n):
    """(newLen, oldCap) with 0 < newLen < 2^63 and 0 <= oldCap < 2^63: edges x edges-derived, then log-uniform random"""
    ls = set()
    for nl in _edges63():
        for oc in (0, 1, 255, 256, 257, nl - 1, nl // 2, nl // 2 + 1, nl // 2 - 1, (nl * 4) // 5, (nl * 4) // 5 - 200, (1 << 62) - 1,
                   (1 << 62) - 384, nl, min(I63 - 1, nl + 5)):
            if 0 <= oc < I63:
                ls.add((nl, oc))
    out = ["nsc64 %d %d" % p for p in sorted(ls)]
    for _ in range(n):
        oc = rng.getrandbits(rng.randint(1, 63))
        d = rng.choice([1, 1, 2, rng.randint(1, 1000), oc // 4 + 1, oc + 1, 2 * oc + 1, 3 * oc + 7, rng.getrandbits(rng.randint(1, 63)) + 1])
        nl = min(I63 - 1, oc + d)
        if rng.random() < 0.1:
            nl = max(1, oc - rng.randint(0, oc))
        out.append("nsc64 %d %d" % (nl, oc))
    return out


def gen_mk64(rng, n):
    out = set()
    for esz in [0, 1, 2, 3, 8, 24, 1 << 31, 1 << 32, (1 << 32) + 1, 1 << 47, 1 << 48, (1 << 48) + 1, 1 << 62, I63 - 1]:
        caps = [0, 1, 2, -1, -2, -I63, I63 - 1, 1 << 31, 1 << 32, (1 << 32) + 1, 1 << 47, 1 << 48, (1 << 48) + 1, 1 << 61, 1 << 62]
        if esz > 0:
            for t in (MAXALLOC, 1 << 64, 1 << 63, EXEC_LIMIT):
                caps += [t // esz - 1, t // esz, t // esz + 1]
        for cap in caps:
            if not (-I63 <= cap < I63):
                continue
            for ln in (0, 1, cap, cap - 1, cap + 1, -1, cap // 2):
                if -I63 <= ln < I63:
                    out.add((ln, cap, esz))
    out = sorted(out)
    rng.shuffle(out)
    lines = ["mk64 %d %d %d" % t for t in out[:max(200, n)]]
    for _ in range(n):
        esz = rng.choice([0, 1, 2, 3, 8, 24, rng.getrandbits(rng.randint(1, 62))])
        cap = rng.getrandbits(rng.randint(1, 63)) * rng.choice([1, 1, 1, -1])
        if esz > 0 and rng.random() < 0.5:
            cap = rng.choice([MAXALLOC, 1 << 64, EXEC_LIMIT, 1 << 20]) // esz + rng.randint(-2, 2)
        cap = max(-I63, min(I63 - 1, cap))
        ln = rng.choice([0, cap, cap, max(-I63, cap - 1), min(I63 - 1, cap + 1), rng.randint(0, max(0, cap)) if cap >= 0 else -3])
        lines.append("mk64 %d %d %d" % (ln, cap, esz))
    return lines


def gen_grow64(rng, n):
    """families: (a) zero-size elements with lengths up to 2^63-1 (incl. requests whose true length is not representable);
    (b) small slices that exist in memory (executed); (c) large legitimate slices (len == cap, 2^27 .. 2^45 bytes) whose
    growth is only *requested* (the allocator stand-in answers `accept`)."""
    out = [WITNESS_LENOVF]
    big = [0, 1, 2, 255, 256, 1 << 32, (1 << 62) - 1, 1 << 62, (1 << 62) + 1, I63 - 2, I63 - 1]
    for cap in big:
        for ln in (cap, cap // 2, 0, max(0, cap - 1)):
            for num in (0, 1, 2, cap, I63 - 1 - ln, I63 - ln, max(0, I63 - 2 - ln), 1 << 62, I63 - 1, 300):
                if 0 <= ln <= cap and 0 <= num < I63:
                    out.append("%s %d %d %d 0 0" % (rng.choice(["grow64", "app64"]), ln, cap, num))
    for _ in range(n):
        k = rng.random()
        op = rng.choice(["grow64", "app64"])
        if k < 0.3:
            cap = rng.getrandbits(rng.randint(1, 63))
            ln = rng.choice([cap, cap, rng.randint(0, cap)])
            num = rng.choice([0, 1, rng.getrandbits(rng.randint(1, 63)), I63 - 1 - ln, max(0, I63 - ln - rng.randint(0, 3)), cap - ln, cap - ln + 1])
            num = max(0, min(I63 - 1, num))
            out.append("%s %d %d %d 0 0" % (op, ln, cap, num))
        elif k < 0.8:
            esz = rng.choice(ESZ)
            cap = rng.choice([0, 1, 2, 3, 4, 7, 8, 16, rng.randint(0, 40), rng.choice([255, 256, 257, 300, 511, 512, 640])])
            ln = rng.choice([cap, cap, rng.randint(0, cap)])
            num = rng.choice([0, 1, 1, 2, cap - ln, cap - ln + 1, rng.randint(0, 40), cap + 1, 2 * cap + 1])
            out.append("%s %d %d %d %d %d" % (op, ln, cap, num, esz, rng.randrange(1000)))
        else:
            esz = rng.choice(ESZ)
            cap = rng.randint((1 << 27) // esz + 1, (1 << 45) // esz)
            num = rng.choice([0, 1, 2, cap // 4, cap, 2 * cap + 1, rng.randint(0, (1 << 45) // esz)])
            out.append("%s %d %d %d %d 0" % (op, cap, cap, num, esz))
    return out


NUL_PIECES = [b"\x00", b"a\x00b", b"\x00\x00", b"abc\x00", b"\x00xyz", b"hello", b"\xff\x00\xfe", b"\x80"]


def hbytes(rng, base_rbytes):
    r = rng.random()
    if r < 0.55:
        return base_rbytes(rng)
    if r < 0.85:
        return b"".join(rng.choice(NUL_PIECES + [base_rbytes(rng)]) for _ in range(rng.randint(0, 4)))
    n = rng.choice([15, 16, 17, 255, 256, 257, 1000])
    b = bytearray(rng.randrange(1, 256) for _ in range(n))
    if rng.random() < 0.5:
        b[rng.randrange(n)] = 0
    return bytes(b)


def gen_heap_line(rng, base_rbytes):
    h = hbytes(rng, base_rbytes)
    k = rng.randrange(10)
    if k == 0:
        return "hb2s %s %d %d" % (hexs(h), rng.randrange(1 << 16), rng.randrange(256))
    if k == 1:
        return "hs2b %s %d %d" % (hexs(h), rng.randrange(1 << 16), rng.randrange(256))
    if k == 2:
        if rng.random() < 0.85:
            j = rng.randint(0, len(h))
            i = rng.randint(0, j)
        else:
            i, j = rng.randint(-1, len(h) + 1), rng.randint(-1, len(h) + 2)
        return "hssl %s %d %d" % (hexs(h), i, j)
    if k == 3:
        mode = rng.choice([0, 0, 1, 2])
        if mode == 2 and len(h) < 2:
            mode = 1
        return "hcat %s %s %d" % (hexs(h), hexs(hbytes(rng, base_rbytes)), mode)
    if k in (4, 5, 6):
        return "cstr " + hexs(h)
    if k == 7:
        return "cstrcopy " + hexs(h)
    if k == 8:
        return "fromcstr " + (hexs(h) if rng.random() < 0.95 else "nil")
    return "sfrom %s %d" % (hexs(h), rng.randint(0, len(h)))


FIXED_HEAP_LINES = ["cstr -", "cstr 00", "cstr 6100", "cstr 610062", "cstr 0061", "cstr 616263", "cstrcopy -", "cstrcopy 00", "cstrcopy 610062",
                    "fromcstr nil", "fromcstr -", "fromcstr 00", "fromcstr 610062", "sfrom - 0", "sfrom 616263 0", "sfrom 616263 3",
                    "hb2s - 0 0", "hb2s 61 0 255", "hs2b - 0 0", "hs2b 61 0 255", "hssl - 0 0", "hssl 616263 3 3", "hssl 616263 0 3",
                    "hssl 616263 1 2", "hssl 616263 2 1", "hssl 616263 0 4", "hssl 616263 -1 2", "hcat - - 0", "hcat - - 1", "hcat 6162 - 1",
                    "hcat 6162 - 2", "hcat 616263 6465 0", "hcat - 6465 0"]


# ------------------------------------------------------------------------------------------------ judges (Go's semantics)
def kv(out):
    d = {}
    for f in out.split():
        if "=" in f:
            k, v = f.split("=", 1)
            d[k] = v
    return d


def judge_int(line, out):
    """-> (class, detail) when the REAL output violates Go's semantics, else (None, None)"""
    f = line.split()
    op = f[0]
    if out in ("bad-op", "toobig"):
        return "harness", "the harness refused `%s`: %s" % (line, out)
    if op == "nsc64":
        nl = int(f[1])
        if not out.startswith("ok "):
            return "nextslicecap", "no result: " + out
        r = int(out.split()[1])
        if r < nl or r >= I63:
            return "nextslicecap", "returns %d for newLen %d: not a capacity >= newLen" % (r, nl)
        return None, None
    if op == "mk64":
        ln, cap, esz = int(f[1]), int(f[2]), int(f[3])
        legal = 0 <= ln <= cap and cap * esz <= MAXALLOC
        if not legal:
            if out == "panic":
                return None, None
            return "make:no-panic", "make with len=%d cap=%d of %d-byte elements (%s bytes) must panic: %s" % (ln, cap, esz, cap * esz if cap >= 0 else "negative cap", out)
        o = kv(out)
        if out == "panic" or "alloc" not in o:
            return "make:panic", "make with len=%d cap=%d of %d-byte elements (%d bytes <= maxAlloc) must succeed: %s" % (ln, cap, esz, cap * esz, out)
        if int(o["alloc"]) != cap * esz:
            return "make:size", "allocates %s bytes for %d elements of %d bytes (true size %d)" % (o["alloc"], cap, esz, cap * esz)
        if out.startswith("ok") and (int(o["len"]) != ln or int(o["cap"]) != cap):
            return "make:header", "header %s, asked len=%d cap=%d" % (out, ln, cap)
        return None, None
    if op in ("grow64", "app64"):
        ln, cap, num, esz, seed = [int(x) for x in f[1:6]]
        L = ln + num
        if L >= I63:
            if out == "panic":
                return None, None
            return "len-overflow", "len %d + %d appended elements = %d is not an int: Go panics (growslice: len out of range), the runtime answers `%s`" % (ln, num, L, out)
        o = kv(out)
        if out == "panic" or not (out.startswith("ok") or out.startswith("accept")):
            return "grow:panic", "growing len=%d cap=%d by %d elements of %d bytes must succeed: %s" % (ln, cap, num, esz, out)
        if o.get("ub") == "1":
            return "grow:memcpy-overlap", "memcpy on overlapping ranges while growing: " + out
        if L <= cap:
            if not (out.startswith("ok") and int(o["len"]) == L and int(o["cap"]) == cap and o["sh"] == "1" and o["alloc"] == "-"):
                return "grow:in-place", "len %d + %d <= cap %d must reuse the storage: %s" % (ln, num, cap, out)
        else:
            a = int(o["alloc"])
            if out.startswith("ok"):
                c2 = int(o["cap"])
                if int(o["len"]) != L or c2 < L or c2 >= I63:
                    return "grow:header", "len %d + %d > cap %d: result %s (want len %d, cap >= len)" % (ln, num, cap, out, L)
                if o["sh"] != "0":
                    return "grow:sharing", "grown result shares the old storage: " + out
                if a != c2 * esz:
                    return "grow:size", "allocates %d bytes for capacity %d of %d-byte elements (true size %d)" % (a, c2, esz, c2 * esz)
            else:
                if a < L * esz or (esz > 0 and a % esz != 0) or a >= (1 << 63):
                    return "grow:size", "requests %d bytes for at least %d elements of %d bytes" % (a, L, esz)
        if op == "app64" and "d" in o:
            want = bytes((seed * 37 + t * 11 + 5) % 251 for t in range(ln * esz)) + bytes(((seed + 1) * 37 + t * 11 + 5) % 251 for t in range(num * esz))
            if unhexs(o["d"]) != want:
                return "append:contents", "elements %s, Go: %s" % (o["d"], hexs(want))
        return None, None
    return None, None


def judge_heap(line, out):
    f = line.split()
    op = f[0]
    if out == "bad-op":
        return "harness", "the harness refused `%s`" % line
    o = kv(out)
    if o.get("ub") == "1" or out == "ub":
        return op + ":memcpy-overlap", "memcpy on overlapping ranges: " + out
    first = out.split()[1] if out.startswith("ok") and len(out.split()) > 1 else None
    if op == "hssl":
        h, i, j = unhexs(f[1]), int(f[2]), int(f[3])
        legal = 0 <= i <= j <= len(h)
        if not legal:
            return (None, None) if out == "panic" else ("string-slice:no-panic", "s[%d:%d] with len %d must panic: %s" % (i, j, len(h), out))
        if first is None or unhexs(first) != h[i:j]:
            return "string-slice:bytes", "s[%d:%d] gives %s, Go: %s" % (i, j, out, hexs(h[i:j]))
        return None, None
    if not out.startswith("ok"):
        return op + ":failed", "unexpected answer `%s`" % out
    if op == "hb2s":
        h = unhexs(f[1])
        if unhexs(first) != h:
            return "string(b):not-a-copy", "string(b) reads %s after b[%d] was overwritten (value at conversion: %s)" % (first, int(f[2]) % max(1, len(h)), hexs(h))
        if o["al"] != "0":
            return "string(b):aliases", "string(b) points into b's array"
    elif op == "hs2b":
        h = unhexs(f[1])
        d = bytearray(h)
        if d:
            d[int(f[2]) % len(d)] ^= (int(f[3]) | 1) & 255
        if unhexs(o["s"]) != h:
            return "[]byte(s):aliases", "writing to []byte(s) changed s: %s (was %s)" % (o["s"], hexs(h))
        if unhexs(o["d"]) != bytes(d) or o["al"] != "0":
            return "[]byte(s):bytes", "[]byte(s) then d[i] ^= v gives %s al=%s, Go: %s" % (o["d"], o["al"], hexs(bytes(d)))
    elif op == "hcat":
        a, b = unhexs(f[1]), unhexs(f[2])
        b2 = {"0": b, "1": a, "2": a[1:]}[f[3]]
        if unhexs(first) != a + b2:
            return "concat:bytes", "a + b gives %s, Go: %s" % (first, hexs(a + b2))
        if o["al"] != "0":
            return "concat:aliases", "the concatenation points into an operand"
    elif op == "cstr":
        h = unhexs(f[1])
        if unhexs(o["buf"]) != h + b"\x00":
            return "cstr:buffer", "CStrDup buffer %s, want the string's bytes and one NUL: %s" % (o["buf"], hexs(h + b"\x00"))
        if unhexs(o["back"]) != h.split(b"\x00")[0]:
            return "cstr:roundtrip", "StringFromCStr(CStrDup(s)) = %s, want the bytes before the first NUL: %s" % (o["back"], hexs(h.split(b"\x00")[0]))
        if o["al1"] != "0" or o["al2"] != "0":
            return "cstr:aliases", "C buffer / result is not a fresh copy: " + out
    elif op == "cstrcopy":
        h = unhexs(f[1])
        if unhexs(o["buf"]) != h + b"\x00" + b"\xee" * 4 or o["ret"] != "1":
            return "cstrcopy:buffer", "CStrCopy wrote %s (ret=%s), want %s" % (o["buf"], o["ret"], hexs(h + b"\x00" + b"\xee" * 4))
    elif op == "fromcstr":
        want = b"" if f[1] == "nil" else unhexs(f[1]).split(b"\x00")[0]
        if unhexs(first) != want or o["al"] != "0":
            return "fromcstr:bytes", "StringFromCStr gives %s al=%s, want %s (a fresh copy)" % (first, o["al"], hexs(want))
    elif op == "sfrom":
        want = unhexs(f[1])[:int(f[2])]
        if unhexs(first) != want or o["al"] != "0":
            return "stringfrom:bytes", "StringFrom(p, %s) gives %s al=%s, want %s (a fresh copy)" % (f[2], first, o["al"], hexs(want))
    return None, None
