/-!
# `cl/blocks` : what `blocks.Infos` must deliver, and a validator for its output

`blocks.Infos(blks)` returns for every go/ssa basic block a *kind* (`DeferAlways` / `DeferInCond` / `DeferInLoop`, used by
the lowering of `defer`) and the block that follows it in the *compilation order* (`Next`, `-1` at the end).

The algorithm (Kahn-style topological sort with a loop-breaking DFS `findLoop`, and Tarjan's SCC algorithm `markInLoop`) is
NOT mirrored here and its correctness for all control-flow graphs is NOT proved.  Instead this file gives

* the specification of the two results on the control-flow graph itself
  (`Reach` = non-empty path; kind *loop* ⇔ the block lies on a cycle; kind *always* only for blocks that every complete
  execution path visits exactly once; the order must be a permutation of the blocks starting at the entry);
* an executable reachability closure with a saturation certificate (`reaches?`), and
* a validator `checkInfos g infos` for ONE output of the real function.

`Lemmas/Blocks.lean` proves the validator sound (what it accepts satisfies the specification) and `checks/c01.py` runs it
on the output of the real `blocks.Infos` for every function of the generated programs: translation validation of the
component, with a kernel-checked validator.
-/
namespace LlgoVerif.Blocks

/-- a basic block as `Infos` sees it: successor indices and `len(blk.Preds)` -/
structure Blk where
  succs : List Nat
  preds : Nat
deriving DecidableEq, Repr, Inhabited

abbrev CFG := List Blk

def succs (g : CFG) (a : Nat) : List Nat :=
  match g[a]? with
  | some b => b.succs
  | none => []

def predsOf (g : CFG) (a : Nat) : Nat :=
  match g[a]? with
  | some b => b.preds
  | none => 0

/-- `b` is reachable from `a` by a path with at least one edge -/
inductive Reach (g : CFG) : Nat → Nat → Prop where
  | step {a b : Nat} : b ∈ succs g a → Reach g a b
  | trans {a b c : Nat} : b ∈ succs g a → Reach g b c → Reach g a c

/-! ### executable reachability: closure with a saturation certificate -/

/-- add the elements of `xs` that are not yet in `S` -/
def addNew (S : List Nat) : List Nat → List Nat
  | [] => S
  | x :: xs => addNew (if S.contains x then S else S ++ [x]) xs

def expand (g : CFG) (S : List Nat) : List Nat := addNew S (S.flatMap (succs g))

def closure (g : CFG) : Nat → List Nat → List Nat
  | 0, S => S
  | k+1, S => closure g k (expand g S)

/-- `S` is closed under successors -/
def closedB (g : CFG) (S : List Nat) : Bool :=
  S.all fun x => (succs g x).all fun y => S.contains y

/-- everything reachable from `a` by ≥ 1 edge (`|g|` rounds of expansion always saturate; the validator checks it) -/
def reachSet (g : CFG) (a : Nat) : List Nat := closure g g.length (addNew [] (succs g a))

/-- `some true/false` = `b` is / is not reachable from `a`; `none` = the closure did not saturate (never happens) -/
def reaches? (g : CFG) (a b : Nat) : Option Bool :=
  let S := reachSet g a
  if closedB g S then some (S.contains b) else none

/-! ### the specification of the kinds -/

inductive Kind where
  | always | cond | loop
deriving DecidableEq, Repr, Inhabited

/-- `isEnd`: no successors, and (has predecessors or is the entry) — the recover block is not an end -/
def isEnd (g : CFG) (i : Nat) : Bool := (succs g i).isEmpty && (decide (0 < predsOf g i) || i == 0)

def ends (g : CFG) : List Nat := (List.range g.length).filter (isEnd g)

/-- the blocks `Infos` marks *always*: the entry when nothing jumps back to it, and the exit when it is unique -/
def alwaysSpec (g : CFG) (b : Nat) : Bool :=
  (b == 0 && predsOf g 0 == 0) || (ends g == [b])

def specKind? (g : CFG) (b : Nat) : Option Kind :=
  match reaches? g b b with
  | none => none
  | some true => some .loop
  | some false => some (if alwaysSpec g b then .always else .cond)

/-! ### paths (for the meaning of *always*) -/

def IsPath (g : CFG) : List Nat → Prop
  | [] => True
  | [_] => True
  | a :: b :: rest => b ∈ succs g a ∧ IsPath g (b :: rest)

/-- a complete execution path: from the entry to a block without successors -/
def CompletePath (g : CFG) (p : List Nat) : Prop :=
  ∃ pre l, p = pre ++ [l] ∧ p.head? = some 0 ∧ IsPath g p ∧ succs g l = []

/-! ### well-formed input and the validator -/

def indeg (g : CFG) (i : Nat) : Nat := (g.map fun b => b.succs.count i).sum

/-- successor indices are in range and `preds` is the in-degree (go/ssa keeps `Preds` and `Succs` consistent) -/
def wellFormed (g : CFG) : Bool :=
  decide (0 < g.length) &&
  g.all (fun b => b.succs.all fun s => decide (s < g.length)) &&
  (List.range g.length).all (fun i => predsOf g i == indeg g i)

structure Info where
  kind : Kind
  next : Option Nat            -- `none` = -1
deriving DecidableEq, Repr, Inhabited

/-- the compilation order: follow `next` from block 0 -/
def orderOf (infos : List Info) : Nat → Nat → List Nat
  | 0, _ => []
  | fuel+1, cur =>
    match infos[cur]? with
    | some i => cur :: (match i.next with
      | some n => orderOf infos fuel n
      | none => [])
    | none => []

def kindsOK (g : CFG) (infos : List Info) : Bool :=
  (List.range g.length).all fun b =>
    match infos[b]?, specKind? g b with
    | some i, some k => i.kind == k
    | _, _ => false

def checkInfos (g : CFG) (infos : List Info) : Bool :=
  wellFormed g && infos.length == g.length &&
  (orderOf infos (g.length + 1) 0).isPerm (List.range g.length) && kindsOK g infos

/-! ### text form (driver / Go harness):  blocks `s.s;s;;…` (successors per block), preds `p.p.p`, infos `K:next,…` with
    K ∈ A|C|L and next = index or `-` -/

def parseNatList (s : String) : Option (List Nat) :=
  if s.isEmpty || s == "-" then some [] else (s.splitOn ".").mapM (·.toNat?)

def parseCFG (ss ps : String) : Option CFG := do
  let sl ← (ss.splitOn ";").mapM parseNatList
  let pl ← parseNatList ps
  if sl.length = pl.length then pure ((sl.zip pl).map fun (s, p) => ⟨s, p⟩) else none

def parseInfo (s : String) : Option Info :=
  match s.splitOn ":" with
  | [k, n] => do
    let kind ← (match k with | "A" => some Kind.always | "C" => some Kind.cond | "L" => some Kind.loop | _ => none)
    if n == "-" then pure ⟨kind, none⟩ else do
      let m ← n.toNat?
      pure ⟨kind, some m⟩
  | _ => none

def showKind : Kind → String
  | .always => "A" | .cond => "C" | .loop => "L"

/-- what the validator says about one real output, for the log -/
def explain (g : CFG) (infos : List Info) : String :=
  if checkInfos g infos then "ok"
  else if !wellFormed g then "input-not-well-formed"
  else if infos.length != g.length then "length"
  else if !(orderOf infos (g.length + 1) 0).isPerm (List.range g.length) then
    "order-not-a-permutation " ++ toString (orderOf infos (g.length + 1) 0)
  else "kinds spec=" ++ String.intercalate "," ((List.range g.length).map fun b =>
    match specKind? g b with | some k => showKind k | none => "?")

end LlgoVerif.Blocks
