/-!
# Model of llgo's Python bridge (property C19): import guard, symbol loading, call marshalling

Everything modelled here is *emitted code* (ssa/python.go, cl/compile.go `compileBlock`, cl/instr.go,
internal/build/build.go + main_module.go); the tie is the regenerated IR facts (`Gen/C19Facts.lean`) and
whole compiled programs run against libpython.

## What llgo emits (read off the -O0 IR, see design/C19.md)

* A Go package whose `LLGoPackage` is `"py.<m>"` is a *binding package* for the Python module `<m>`.
  Its `init` is go/ssa's guarded initialiser, with the final jump replaced by (`compileBlock`, `pyModInit`)

      %v = load ptr, @__llgo_py.<m> ;  br (%v != null), exit, imp
      imp:  %r = call @PyImport_ImportModule("<m>") ;  store %r, @__llgo_py.<m> ;  br exit

  `@__llgo_py.<m>` is `linkonce` in the binding package and `external` in every user: ONE variable per
  Python module per program (not per Go package).  The body of the binding package's own `init`
  (variable initialisers, `init` functions) is emitted BEFORE this import, and `AfterInit` is not called
  for a binding package ("TODO(xsw): confirm pyMod don't need to call AfterInit").
* A package that calls Python functions (`//go:linkname F py.f` in a binding package) gets one
  `linkonce` variable `@__llgo_py.<m>.<f>` per function and, in its `init`, right after the calls of the
  imports' initialisers and before its own body (`Package.AfterInit`, `pyLoadModSyms`), one
  `llgoLoadPyModSyms(load @__llgo_py.<m>, "f", &@__llgo_py.<m>.<f>, …, NULL)` per module; the C helper
  stores `PyObject_GetAttrString(mod, name)` only `if (*pfunc == NULL)`.
* A call `F(a₁ … aₙ)` loads the symbol variable and calls `PyObject_CallNoArgs` (0 parameters),
  `PyObject_CallOneArg` (1 parameter, not variadic) or `PyObject_CallFunctionObjArgs(fn, a₁, …, aₙ, NULL)`.
* A Python variable (`//go:linkname X py.x` on a `var`) is `PyObject_GetAttrString(load @__llgo_py.<m>, "x")`
  at every use.
* The entry function calls `Py_Initialize` first iff some NON-binding package of the program has
  `NeedPyInit` (build.go `buildOne` does not propagate the flag from `PkgPyModule` packages).
* CPython: `PyImport_ImportModule` consults `sys.modules`; the module body is executed on a miss only.

Package initialisation order is C12's subject; here a program run takes the order in which the package
`init` bodies run as a parameter (`order`) that is only required to be `Consistent` with the import
graph; `initOrder` is the guarded depth-first initialiser of DESIGN.md Appendix A.2, proved consistent
in `Lemmas/PyGuard.lean`.
-/
namespace LlgoVerif.PyGuard

/-- Python module (index into the program's module table) -/
abbrev Mod := Nat
/-- Python attribute of a module: (module, name index) -/
abbrev Sym := Mod × Nat

/-- What Go code does with Python, as far as the guard is concerned. -/
inductive Use
  /-- call of a Python function through its symbol variable `__llgo_py.<m>.<f>` -/
  | call (y : Sym)
  /-- read of a Python variable: `PyObject_GetAttrString(load __llgo_py.<m>, name)` at the use -/
  | var (y : Sym)
  /-- `py.ImportModule(c.Str("<m>"))` written by the user (plain C call, not guarded by llgo) -/
  | explicitImport (m : Mod)
  deriving DecidableEq, Repr

def Use.isPy : Use → Bool
  | .call _ => true
  | .var _ => true
  | .explicitImport _ => false

def Use.callSym : Use → Option Sym
  | .call y => some y
  | _ => none

def Use.mod? : Use → Option Mod
  | .call y => some y.1
  | .var y => some y.1
  | .explicitImport _ => none

structure Pkg where
  /-- Go imports (packages whose `init` is called first) -/
  imports : List Nat := []
  /-- `some m` iff `LLGoPackage = "py.<m>"` -/
  binds : Option Mod := none
  /-- uses executed by the package's own `init` body (variable initialisers, `init` functions) -/
  initUses : List Use := []
  /-- uses inside functions (run after the package is initialised) -/
  uses : List Use := []
  /-- the `(name, &var)` pairs of the `llgoLoadPyModSyms` calls in the package's `init`, in emission order
      (`pyLoadModSyms`: the package's `pyobjs`, sorted by name and grouped by module) -/
  loads : List Sym := []
  /-- the package uses `py.List` / `py.Tuple` / `py.Str` (sets `NeedPyInit` too) -/
  intrinsics : Bool := false
  deriving Repr

abbrev Prog := Nat → Pkg

def Pkg.allUses (k : Pkg) : List Use := k.initUses ++ k.uses

/-- the Python functions the package calls (`p.pyobjs`, the table `funcOf` fills while compiling) -/
def Pkg.pyobjs (k : Pkg) : List Sym := k.allUses.filterMap Use.callSym

/-- `aPackage.NeedPyInit` as set by `pyFunc`/`PyNewFunc` while compiling the package -/
def Pkg.needsPy (k : Pkg) : Bool := k.intrinsics || k.allUses.any Use.isPy

/-- `needPyInit` of build.go: only packages compiled through the `default:` branch of `buildOne`
    contribute — binding packages (`PkgPyModule`) do not. -/
def needPyInit (P : Prog) (order : List Nat) : Bool :=
  order.any fun p => (P p).binds.isNone && (P p).needsPy

inductive Ev
  | pyInit
  /-- `PyImport_ImportModule("<m>")` executed by the `init` of binding package `p` -/
  | importCall (p : Nat) (m : Mod)
  /-- user-written import call in package `p` -/
  | explicitImport (p : Nat) (m : Mod)
  /-- CPython executes the body of module `m` (miss in `sys.modules`) -/
  | modBody (m : Mod)
  /-- `*pfunc = PyObject_GetAttrString(mod, name)` in the `init` of package `p` -/
  | loadSym (p : Nat) (y : Sym)
  /-- Python function called from package `p` -/
  | call (p : Nat) (y : Sym)
  /-- Python variable read from package `p` -/
  | getVar (p : Nat) (y : Sym)
  deriving DecidableEq, Repr

inductive Err
  /-- a C-API function that needs the interpreter ran before `Py_Initialize` -/
  | notInitialized
  /-- `PyObject_GetAttrString(NULL, …)`: module variable still nil -/
  | nilModule (m : Mod)
  /-- call through a symbol variable that is still NULL -/
  | nilSym (y : Sym)
  deriving DecidableEq, Repr

structure St where
  inited : Bool := false
  /-- `sys.modules` -/
  sysModules : List Mod := []
  /-- module variables `__llgo_py.<m>` that are non-nil -/
  modVar : List Mod := []
  /-- symbol variables `__llgo_py.<m>.<f>` that are non-nil -/
  symVar : List Sym := []
  trace : List Ev := []
  deriving Repr

def St.emit (s : St) (e : Ev) : St := { s with trace := s.trace ++ [e] }

/-- CPython's `PyImport_ImportModule(m)`: `imp m = false` models a module that cannot be imported
    (the call returns NULL).  Returns the new state and whether a module object was returned. -/
def cpyImport (imp : Mod → Bool) (m : Mod) (s : St) : Except Err (St × Bool) :=
  if !s.inited then .error .notInitialized
  else if m ∈ s.sysModules then .ok (s, true)
  else if imp m then .ok ({ (s.emit (.modBody m)) with sysModules := m :: s.sysModules }, true)
  else .ok (s, false)

/-- one `(name, &var)` pair of `llgoLoadPyModSyms` executed in `p.init` -/
def loadSym (p : Nat) (s : St) (y : Sym) : Except Err St :=
  if y ∈ s.symVar then .ok s
  else if y.1 ∈ s.modVar then .ok { (s.emit (.loadSym p y)) with symVar := y :: s.symVar }
  else .error (.nilModule y.1)

def doUse (imp : Mod → Bool) (p : Nat) (s : St) : Use → Except Err St
  | .call y => if y ∈ s.symVar then .ok (s.emit (.call p y)) else .error (.nilSym y)
  | .var y => if y.1 ∈ s.modVar then .ok (s.emit (.getVar p y)) else .error (.nilModule y.1)
  | .explicitImport m =>
    match cpyImport imp m (s.emit (.explicitImport p m)) with
    | .ok (s', _) => .ok s'
    | .error e => .error e

/-- the guarded import at the end of a binding package's `init` -/
def guardedImport (imp : Mod → Bool) (p : Nat) (m : Mod) (s : St) : Except Err St :=
  if m ∈ s.modVar then .ok s                                      -- `if mod != nil` → skip
  else
    match cpyImport imp m (s.emit (.importCall p m)) with
    | .ok (s', true) => .ok { s' with modVar := m :: s'.modVar }  -- store the module object
    | .ok (s', false) => .ok s'                                   -- store NULL
    | .error e => .error e

/-- the part of `p.init` after the guard store and the imports' initialisers -/
def initBody (P : Prog) (imp : Mod → Bool) (s : St) (p : Nat) : Except Err St :=
  match (P p).binds with
  | none =>
    match (P p).loads.foldlM (loadSym p) s with                    -- AfterInit: load the symbols …
    | .ok s1 => (P p).initUses.foldlM (doUse imp p) s1            -- … then the body
    | .error e => .error e
  | some m =>
    match (P p).initUses.foldlM (doUse imp p) s with              -- body first (no AfterInit) …
    | .ok s1 => guardedImport imp p m s1                          -- … then the guarded import
    | .error e => .error e

/-- A whole program: `Py_Initialize` (if `needPyInit`), the package `init` bodies in `order`, then the
    uses `calls` made from `main.main` on (pairs package × use). `pre` = `sys.modules` after
    `Py_Initialize` (site, encodings, …). -/
def run (P : Prog) (imp : Mod → Bool) (pre : List Mod) (order : List Nat) (calls : List (Nat × Use)) :
    Except Err St :=
  let s0 : St := if needPyInit P order then { inited := true, sysModules := pre, trace := [.pyInit] }
                 else { sysModules := pre }
  match order.foldlM (initBody P imp) s0 with
  | .ok s1 => calls.foldlM (fun s c => doUse imp c.1 s c.2) s1
  | .error e => .error e

/-! ## Initialisation order -/

/-- `order` lists each package once and every package after its imports. -/
def Consistent (P : Prog) (order : List Nat) : Prop :=
  order.Nodup ∧ ∀ l₁ p l₂, order = l₁ ++ p :: l₂ → ∀ q ∈ (P p).imports, q ∈ l₁

/-- executable form -/
def consistentB (P : Prog) : List Nat → List Nat → Bool
  | _, [] => true
  | done, p :: rest => !done.contains p && (P p).imports.all done.contains && consistentB P (done ++ [p]) rest

structure GSt where
  guard : List Nat := []
  trace : List Nat := []

/-- go/ssa's guarded initialiser as compiled by llgo (DESIGN.md A.2): test guard, set guard, call the
    imports' `init` in order, run the body. -/
def initPkg (P : Prog) : Nat → Nat → GSt → GSt
  | 0, _, s => s
  | fuel+1, p, s =>
    if p ∈ s.guard then s else
    let s1 : GSt := { s with guard := p :: s.guard }
    let s2 := (P p).imports.foldl (fun st q => initPkg P fuel q st) s1
    { s2 with trace := s2.trace ++ [p] }

/-- order in which the bodies run when the entry function calls `main.init` -/
def initOrder (P : Prog) (main : Nat) : List Nat := (initPkg P (main + 1) main {}).trace

/-- packages are numbered topologically (every acyclic import graph has such a numbering) -/
def Topo (P : Prog) : Prop := ∀ p q, q ∈ (P p).imports → q < p

/-! ## Hypotheses of the guard theorem (all decidable on a finite program) -/

/-- Go's scoping: a package can only name `q.F` / `q.X` if it is `q` or imports the binding package `q`. -/
def scopedPkg (P : Prog) (p : Nat) : Bool :=
  (P p).allUses.all fun u => match u.mod? with
    | some m => (P p).binds == some m || (P p).imports.any fun q => (P q).binds == some m
    | none => true

/-- binding packages contain declarations only (true of every package of github.com/goplus/lib/py) -/
def declOnlyPkg (P : Prog) (p : Nat) : Bool :=
  (P p).binds.isNone || ((P p).allUses.isEmpty && !(P p).intrinsics)

/-- `pyLoadModSyms` loads exactly the functions the package calls; a binding package loads nothing
    (`AfterInit` is not called for it) -/
def loadsOkPkg (P : Prog) (p : Nat) : Bool :=
  if (P p).binds.isSome then (P p).loads.isEmpty
  else (P p).loads.all (P p).pyobjs.contains && (P p).pyobjs.all (P p).loads.contains

def boundImportable (P : Prog) (imp : Mod → Bool) (p : Nat) : Bool :=
  match (P p).binds with
  | some m => imp m
  | none => true

def callsOk (P : Prog) (order : List Nat) (calls : List (Nat × Use)) : Bool :=
  calls.all fun c => order.contains c.1 && (P c.1).uses.contains c.2

/-- a finite program given as a table (driver, examples, regenerated facts) -/
def ofList (l : List Pkg) : Prog := fun p => l.getD p {}

/-! ## Argument marshalling -/

/-- what `pyCall` emits; `α` = run-time values of type `*py.Object` -/
inductive CCall (α : Type)
  | noArgs (fn : α)
  | oneArg (fn : α) (a : α)
  /-- `PyObject_CallFunctionObjArgs(fn, v₁, …, NULL)`: the C varargs as written, `none` = NULL -/
  | objArgs (fn : α) (va : List (Option α))
  deriving Repr, DecidableEq

/-- `Builder.pyCall`: dispatch on the number of declared parameters; `none` = the compiler panics
    (`args[0]` out of range). -/
def pyCall {α : Type} (nparams : Nat) (variadic : Bool) (fn : α) (args : List α) : Option (CCall α) :=
  match nparams with
  | 0 => some (.noArgs fn)
  | 1 =>
    if !variadic then
      match args with
      | a :: _ => some (.oneArg fn a)
      | [] => none
    else some (.objArgs fn (args.map some ++ [none]))
  | _ => some (.objArgs fn (args.map some ++ [none]))

/-- CPython's side: the positional-argument tuple the callable receives -/
def CCall.received {α : Type} : CCall α → List α
  | .noArgs _ => []
  | .oneArg _ a => [a]
  | .objArgs _ va => (va.takeWhile Option.isSome).filterMap id

def CCall.callee {α : Type} : CCall α → α
  | .noArgs f => f
  | .oneArg f _ => f
  | .objArgs f _ => f

/-- `PyTuple_New(n)` / `PyList_New(n)` followed by `SetItem(obj, i, PyVal(argᵢ))` for `i = 0 … n-1`
    (`Builder.PyTuple`, `Builder.PyList`); `none` = slot still NULL. -/
def buildSeq {α β : Type} (conv : α → β) (args : List α) : List (Option β) :=
  args.zipIdx.foldl (fun slots (a, i) => slots.set i (some (conv a))) (List.replicate args.length none)

/-! ## Values (`Builder.PyVal`) -/

/-- Go values that `PyVal` accepts (float32/complex are converted by LLVM `fpext`; not modelled) -/
inductive GoVal
  | int (w : Nat) (v : BitVec w)      -- int, int8 … int64  → sext to i64, PyLong_FromLongLong
  | uint (w : Nat) (v : BitVec w)     -- uint, uint8 … uintptr → zext to i64, PyLong_FromUnsignedLongLong
  | bool (b : Bool)                   -- PyBool_FromLong
  | f64 (bits : BitVec 64)            -- PyFloat_FromDouble
  | str (bytes : List UInt8)          -- PyUnicode_FromStringAndSize(data, len)
  | byteSlice (bytes : List UInt8)    -- PyByteArray_FromStringAndSize
  | byteArray (bytes : List UInt8)    -- PyBytes_FromStringAndSize
  deriving Repr

inductive PyObj
  | long (v : Int)
  | bool (b : Bool)
  | float (bits : BitVec 64)
  /-- `str`, as its UTF-8 bytes -/
  | str (bytes : List UInt8)
  | bytes (b : List UInt8)
  | bytearray (b : List UInt8)
  | list (l : List PyObj)
  | tuple (l : List PyObj)
  deriving Repr

def pyVal : GoVal → PyObj
  | .int _ v => .long (v.signExtend 64).toInt
  | .uint _ v => .long (v.setWidth 64).toNat
  | .bool b => .bool b
  | .f64 bits => .float bits
  | .str b => .str b
  | .byteSlice b => .bytearray b
  | .byteArray b => .bytes b

/-- `PyLong_AsLongLong`: `none` = OverflowError (the C function returns -1 with an exception set) -/
def asInt64 : PyObj → Option (BitVec 64)
  | .long v => if -(2^63 : Int) ≤ v ∧ v < 2^63 then some (BitVec.ofInt 64 v) else none
  | .bool b => some (if b then 1 else 0)
  | _ => none

/-- `PyLong_AsUnsignedLongLong` -/
def asUint64 : PyObj → Option (BitVec 64)
  | .long v => if 0 ≤ v ∧ v < 2^64 then some (BitVec.ofInt 64 v) else none
  | _ => none

def asFloat64 : PyObj → Option (BitVec 64)
  | .float b => some b
  | _ => none

end LlgoVerif.PyGuard
