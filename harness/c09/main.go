// Command vp09: line-protocol access to llgo's REAL C ABI classifier (internal/cabi), built against the
// working tree with -tags llvm14,verif.
//
//	cls T              -> <kind> size=<Sizeof> align=<Alignof> n=<elementTypesCount> off2=<offset of member 1 of {T1,T2} | ->
//	sig R P...         -> ret=<..> params=<..>          (rewritten signature: transformFuncType)
//	cls64 T | clsret64 T -> the same classification by the arm64 classifier (TypeInfoArm64): <kind> size= align= n=
//	xform OPT FILE.ll  -> parse the textual IR, run the REAL TransformModule (ModeAllFunc, optimize = OPT) and describe, for
//	                      every function caller_* of the module, the call to its callee cf_*: which object the hidden
//	                      result pointer (sret) and the first by-value aggregate pointer (byval) refer to:
//	                      `name sret=<temp|none|NAME> byval=<temp|none|NAME>;...`  temp = an alloca made by the transformer that is
//	                      private to this call (passed once, address neither stored nor handed to another function);
//	                      NAME = the IR name of the object
//
// Types: b h w q p f d = i8 i16 i32 i64 ptr float double; {..} struct; [N T] array; v = void (result only).
// kind = void | direct | coerce <ty> | coerce2 <ty> <ty> | memory ; ty = iN | ptr | float | double | v2f32
package main

import (
	"bufio"
	"fmt"
	"os"
	"strconv"
	"strings"

	"github.com/goplus/llgo/internal/cabi"
	llssa "github.com/goplus/llgo/ssa"
	"github.com/xgo-dev/llvm"
)

type parser struct {
	s   string
	i   int
	ctx llvm.Context
}

func (p *parser) typ() (llvm.Type, error) {
	if p.i >= len(p.s) {
		return llvm.Type{}, fmt.Errorf("eof")
	}
	c := p.s[p.i]
	p.i++
	switch c {
	case 'b':
		return p.ctx.Int8Type(), nil
	case 'h':
		return p.ctx.Int16Type(), nil
	case 'w':
		return p.ctx.Int32Type(), nil
	case 'q':
		return p.ctx.Int64Type(), nil
	case 'p':
		return llvm.PointerType(p.ctx.Int8Type(), 0), nil
	case 'f':
		return p.ctx.FloatType(), nil
	case 'd':
		return p.ctx.DoubleType(), nil
	case 'v':
		return p.ctx.VoidType(), nil
	case '{':
		var fs []llvm.Type
		for p.i < len(p.s) && p.s[p.i] != '}' {
			t, err := p.typ()
			if err != nil {
				return t, err
			}
			fs = append(fs, t)
		}
		if p.i >= len(p.s) {
			return llvm.Type{}, fmt.Errorf("unterminated struct")
		}
		p.i++
		return p.ctx.StructType(fs, false), nil
	case '[':
		j := p.i
		for p.i < len(p.s) && p.s[p.i] >= '0' && p.s[p.i] <= '9' {
			p.i++
		}
		n, err := strconv.Atoi(p.s[j:p.i])
		if err != nil {
			return llvm.Type{}, err
		}
		t, err := p.typ()
		if err != nil {
			return t, err
		}
		if p.i >= len(p.s) || p.s[p.i] != ']' {
			return llvm.Type{}, fmt.Errorf("unterminated array")
		}
		p.i++
		return llvm.ArrayType(t, n), nil
	}
	return llvm.Type{}, fmt.Errorf("bad type char %q", c)
}

func parseType(ctx llvm.Context, s string) (llvm.Type, error) {
	p := &parser{s: s, ctx: ctx}
	t, err := p.typ()
	if err != nil {
		return t, err
	}
	if p.i != len(s) {
		return t, fmt.Errorf("trailing input")
	}
	return t, nil
}

func tyName(ctx llvm.Context, t llvm.Type) string {
	switch t.TypeKind() {
	case llvm.IntegerTypeKind:
		return "i" + strconv.Itoa(t.IntTypeWidth())
	case llvm.PointerTypeKind:
		return "ptr"
	case llvm.FloatTypeKind:
		return "float"
	case llvm.DoubleTypeKind:
		return "double"
	case llvm.VoidTypeKind:
		return "void"
	case llvm.ArrayTypeKind:
		return "a" + strconv.Itoa(t.ArrayLength()) + tyName(ctx, t.ElementType())
	case llvm.VectorTypeKind:
		if t.VectorSize() == 2 && t.ElementType().TypeKind() == llvm.FloatTypeKind {
			return "v2f32"
		}
	}
	return "?" + t.String()
}

// scalar leaves of a first-class aggregate that is passed unchanged (LLVM passes them one by one)
func leaves(ctx llvm.Context, t llvm.Type, out *[]string) {
	switch t.TypeKind() {
	case llvm.StructTypeKind:
		for _, e := range t.StructElementTypes() {
			leaves(ctx, e, out)
		}
	case llvm.ArrayTypeKind:
		for i := 0; i < t.ArrayLength(); i++ {
			leaves(ctx, t.ElementType(), out)
		}
	case llvm.VoidTypeKind:
	default:
		*out = append(*out, tyName(ctx, t))
	}
}


// ---- call-site description (xform)

func stripCasts(v llvm.Value) llvm.Value {
	for {
		if c := v.IsABitCastInst(); !c.IsNil() {
			v = c.Operand(0)
			continue
		}
		return v
	}
}

// the allocas the generated contexts declare themselves; every other alloca was made by the transformer
var ownAllocas = map[string]bool{"loc": true, "other": true, "src": true}

// describePtr classifies the object a pointer operand of `call` refers to: "temp" iff it is an alloca made by the
// transformer that is private to this call — it is passed to this call exactly once, its address is not stored anywhere and
// not handed to any other function (LLVM intrinsics such as llvm.memcpy / lifetime markers aside); loads from it and stores
// into it are fine.  Otherwise the IR name of the object.
func describePtr(call llvm.Value, v llvm.Value) string {
	v = stripCasts(v)
	if a := v.IsAAllocaInst(); !a.IsNil() && !ownAllocas[a.Name()] {
		ncall, private := 0, true
		var walk func(x llvm.Value)
		walk = func(x llvm.Value) {
			for u := x.FirstUse(); !u.IsNil(); u = u.NextUse() {
				usr := u.User()
				switch {
				case usr == call:
					ncall++
				case !usr.IsABitCastInst().IsNil() || !usr.IsAGetElementPtrInst().IsNil():
					walk(usr)
				case !usr.IsALoadInst().IsNil():
				case !usr.IsAStoreInst().IsNil():
					if usr.Operand(0) == x { // the address itself is stored: it escapes
						private = false
					}
				case !usr.IsACallInst().IsNil():
					if !strings.HasPrefix(usr.CalledValue().Name(), "llvm.") {
						private = false
					}
				default:
					private = false
				}
			}
		}
		walk(a)
		if private && ncall == 1 {
			return "temp"
		}
	}
	if n := v.Name(); n != "" {
		return n
	}
	return "unnamed"
}

func xform(ctx llvm.Context, prog llssa.Program, optimize bool, path string) (string, error) {
	buf, err := llvm.NewMemoryBufferFromFile(path)
	if err != nil {
		return "", err
	}
	m, err := (&ctx).ParseIR(buf)
	if err != nil {
		return "", err
	}
	defer m.Dispose()
	tr := cabi.NewTransformer(prog, "", "", cabi.ModeAllFunc, optimize)
	// what the signature rewriting says about every callee, before the module is rewritten
	type pre struct {
		sret  bool
		byval int // 0-based index (in the rewritten parameter list) of the first byval parameter, -1 if none
	}
	info := map[string]pre{}
	for fn := m.FirstFunction(); !fn.IsNil(); fn = llvm.NextFunction(fn) {
		if strings.HasPrefix(fn.Name(), "cf_") {
			_, byval, sret, _ := tr.VerifFuncType(ctx, fn.GlobalValueType())
			first := -1
			for k := range byval {
				if first < 0 || k-1 < first {
					first = k - 1
				}
			}
			info[fn.Name()] = pre{sret, first}
		}
	}
	tr.TransformModule(path, m)
	var out []string
	for fn := m.FirstFunction(); !fn.IsNil(); fn = llvm.NextFunction(fn) {
		if !strings.HasPrefix(fn.Name(), "caller_") {
			continue
		}
		desc := "nocall"
		for bb := fn.FirstBasicBlock(); !bb.IsNil(); bb = llvm.NextBasicBlock(bb) {
			for in := bb.FirstInstruction(); !in.IsNil(); in = llvm.NextInstruction(in) {
				call := in.IsACallInst()
				if call.IsNil() {
					continue
				}
				callee := call.CalledValue()
				pi, ok := info[callee.Name()]
				if !ok {
					continue
				}
				sr, bv := "none", "none"
				if pi.sret {
					sr = describePtr(call, call.Operand(0))
				}
				if pi.byval >= 0 {
					bv = describePtr(call, call.Operand(pi.byval))
				}
				desc = "sret=" + sr + " byval=" + bv
			}
		}
		out = append(out, fn.Name()+" "+desc)
	}
	return strings.Join(out, ";"), nil
}

func main() {
	llssa.Initialize(llssa.InitAll)
	arch := "amd64"
	prog := llssa.NewProgram(&llssa.Target{GOOS: "linux", GOARCH: arch})
	td := prog.TargetData()
	tr := cabi.NewTransformer(prog, "", "", cabi.ModeAllFunc, false)
	prog64 := llssa.NewProgram(&llssa.Target{GOOS: "linux", GOARCH: "arm64"})
	td64 := prog64.TargetData()
	tr64 := cabi.NewTransformer(prog64, "", "", cabi.ModeAllFunc, false)
	ctx := llvm.NewContext()
	in := bufio.NewScanner(os.Stdin)
	in.Buffer(make([]byte, 1<<20), 1<<20)
	out := bufio.NewWriter(os.Stdout)
	defer out.Flush()
	for in.Scan() {
		f := strings.Fields(in.Text())
		if len(f) == 0 {
			fmt.Fprintln(out, "bad-op")
			continue
		}
		switch f[0] {
		case "cls", "clsret":
			if len(f) != 2 {
				fmt.Fprintln(out, "bad-op")
				continue
			}
			t, err := parseType(ctx, f[1])
			if err != nil {
				fmt.Fprintln(out, "bad-op", err)
				continue
			}
			index := 1
			if f[0] == "clsret" {
				index = 0
			}
			ft := llvm.FunctionType(ctx.VoidType(), []llvm.Type{t}, false)
			info := tr.GetTypeInfo(ctx, ft, t, index)
			var kind string
			off2 := "-"
			switch info.Kind {
			case cabi.AttrNone:
				kind = "direct"
			case cabi.AttrVoid:
				kind = "void"
			case cabi.AttrPointer:
				kind = "memory"
			case cabi.AttrWidthType:
				kind = "coerce " + tyName(ctx, info.Type1)
			case cabi.AttrWidthType2:
				kind = "coerce2 " + tyName(ctx, info.Type1) + " " + tyName(ctx, info.Type2)
				if info.Type1.TypeKind() != llvm.IntegerTypeKind || info.Type1.IntTypeWidth() > 0 {
					if info.Type2.TypeKind() != llvm.IntegerTypeKind || info.Type2.IntTypeWidth() > 0 {
						st := ctx.StructType([]llvm.Type{info.Type1, info.Type2}, false)
						off2 = strconv.FormatUint(td.ElementOffset(st, 1), 10)
					}
				}
			default:
				kind = "other" + strconv.Itoa(int(info.Kind))
			}
			var lv []string
			leaves(ctx, t, &lv)
			fmt.Fprintf(out, "%s size=%d align=%d n=%d off2=%s\n", kind, td.TypeAllocSize(t), td.ABITypeAlignment(t), len(lv), off2)
		case "cls64", "clsret64":
			if len(f) != 2 {
				fmt.Fprintln(out, "bad-op")
				continue
			}
			t, err := parseType(ctx, f[1])
			if err != nil {
				fmt.Fprintln(out, "bad-op", err)
				continue
			}
			index := 1
			if f[0] == "clsret64" {
				index = 0
			}
			ft := llvm.FunctionType(ctx.VoidType(), []llvm.Type{t}, false)
			info := tr64.GetTypeInfo(ctx, ft, t, index)
			var kind string
			switch info.Kind {
			case cabi.AttrNone:
				kind = "direct"
			case cabi.AttrVoid:
				kind = "void"
			case cabi.AttrPointer:
				kind = "memory"
			case cabi.AttrWidthType:
				kind = "coerce " + tyName(ctx, info.Type1)
			default:
				kind = "other" + strconv.Itoa(int(info.Kind))
			}
			var lv []string
			leaves(ctx, t, &lv)
			fmt.Fprintf(out, "%s size=%d align=%d n=%d\n", kind, td64.TypeAllocSize(t), td64.ABITypeAlignment(t), len(lv))
		case "sig":
			if len(f) < 2 {
				fmt.Fprintln(out, "bad-op")
				continue
			}
			var ts []llvm.Type
			bad := false
			for _, s := range f[1:] {
				t, err := parseType(ctx, s)
				if err != nil {
					bad = true
					break
				}
				ts = append(ts, t)
			}
			if bad {
				fmt.Fprintln(out, "bad-op")
				continue
			}
			ft := llvm.FunctionType(ts[0], ts[1:], false)
			nft, byval, sret, _ := tr.VerifFuncType(ctx, ft)
			var ps []string
			for i, pt := range nft.ParamTypes() {
				if i == 0 && sret {
					continue
				}
				if bt, ok := byval[i+1]; ok {
					ps = append(ps, fmt.Sprintf("byval:%d:%d", td.TypeAllocSize(bt), td.ABITypeAlignment(bt)))
					continue
				}
				var lv []string
				leaves(ctx, pt, &lv)
				ps = append(ps, lv...)
			}
			ret := "void"
			if sret {
				ret = "sret"
			} else if rt := nft.ReturnType(); rt.TypeKind() != llvm.VoidTypeKind {
				var lv []string
				leaves(ctx, rt, &lv)
				ret = "regs:" + strings.Join(lv, ",")
			}
			if len(ps) == 0 {
				ps = []string{"-"}
			}
			fmt.Fprintf(out, "ret=%s params=%s\n", ret, strings.Join(ps, ","))
		case "xform":
			if len(f) != 3 {
				fmt.Fprintln(out, "bad-op")
				continue
			}
			r, err := xform(ctx, prog, f[1] == "1", f[2])
			if err != nil {
				fmt.Fprintln(out, "error", strings.ReplaceAll(err.Error(), "\n", " "))
				continue
			}
			fmt.Fprintln(out, r)
		default:
			fmt.Fprintln(out, "bad-op")
		}
	}
}
