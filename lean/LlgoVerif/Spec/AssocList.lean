/-!
# Specification for C06: a finite map as an association list

`AList K V = List (K × V)` with a key equality `eq : K → K → Bool` that need not be reflexive (a NaN key is
equal to nothing, not even to itself: inserting it always adds an entry, no lookup finds it, only `clear`
removes it).  Two association lists denote the same map when one is a permutation of the other.
Core Lean only.
-/
namespace LlgoVerif.AssocList

abbrev AList (K V : Type) := List (K × V)

variable {K V : Type}

/-- the hypotheses Go's runtime makes about `==` on keys (no reflexivity: NaN) -/
structure EqOK (eq : K → K → Bool) : Prop where
  symm : ∀ a b, eq a b = true → eq b a = true
  trans : ∀ a b c, eq a b = true → eq b c = true → eq a c = true

theorem EqOK.refl_left {eq : K → K → Bool} (h : EqOK eq) {a b : K} (hab : eq a b = true) : eq a a = true :=
  h.trans a b a hab (h.symm a b hab)

theorem EqOK.refl_right {eq : K → K → Bool} (h : EqOK eq) {a b : K} (hab : eq a b = true) : eq b b = true :=
  h.trans b a b (h.symm a b hab) hab

/-- `m[k]` -/
def lookup (eq : K → K → Bool) (k : K) : AList K V → Option V
  | [] => none
  | (k', v) :: r => if eq k k' then some v else lookup eq k r

/-- `m[k] = v`; `upd` = the stored key is replaced by the new equal key (Go: floats, strings, interfaces) -/
def insert (eq : K → K → Bool) (upd : Bool) (k : K) (v : V) : AList K V → AList K V
  | [] => [(k, v)]
  | (k', v') :: r => if eq k k' then ((if upd then k else k'), v) :: r else (k', v') :: insert eq upd k v r

/-- `delete(m, k)` -/
def erase (eq : K → K → Bool) (k : K) : AList K V → AList K V
  | [] => []
  | (k', v') :: r => if eq k k' then r else (k', v') :: erase eq k r

/-- `clear(m)` -/
def clear : AList K V := []

/-- `len(m)` -/
def len (m : AList K V) : Nat := m.length

/-- no two entries with equal keys -/
def NoDupKeys (eq : K → K → Bool) (m : AList K V) : Prop :=
  m.Pairwise (fun a b => eq a.1 b.1 = false)

/-- `k` matches no entry -/
def Absent (eq : K → K → Bool) (k : K) (m : AList K V) : Prop := ∀ p ∈ m, eq k p.1 = false

theorem lookup_absent {eq : K → K → Bool} {k : K} {m : AList K V} (h : Absent eq k m) : lookup eq k m = none := by
  induction m with
  | nil => rfl
  | cons p r ih =>
    obtain ⟨k', v⟩ := p
    have h1 : eq k k' = false := h (k', v) (by simp)
    simp only [lookup, h1]
    exact ih (fun p hp => h p (by simp [hp]))

theorem insert_absent {eq : K → K → Bool} {upd : Bool} {k : K} {v : V} {m : AList K V} (h : Absent eq k m) :
    insert eq upd k v m = m ++ [(k, v)] := by
  induction m with
  | nil => rfl
  | cons p r ih =>
    obtain ⟨k', v'⟩ := p
    have h1 : eq k k' = false := h (k', v') (by simp)
    simp only [insert, h1]
    rw [ih (fun p hp => h p (by simp [hp]))]
    simp

theorem erase_absent {eq : K → K → Bool} {k : K} {m : AList K V} (h : Absent eq k m) : erase eq k m = m := by
  induction m with
  | nil => rfl
  | cons p r ih =>
    obtain ⟨k', v'⟩ := p
    have h1 : eq k k' = false := h (k', v') (by simp)
    simp only [erase, h1]
    rw [ih (fun p hp => h p (by simp [hp]))]
    simp

/-- the three operations on a list split around the (only possible) matching entry -/
theorem lookup_split {eq : K → K → Bool} {k k0 : K} {v0 : V} {l1 l2 : AList K V}
    (h1 : Absent eq k l1) (hk : eq k k0 = true) : lookup eq k (l1 ++ (k0, v0) :: l2) = some v0 := by
  induction l1 with
  | nil => simp [lookup, hk]
  | cons p r ih =>
    obtain ⟨k', v'⟩ := p
    have : eq k k' = false := h1 (k', v') (by simp)
    simp only [List.cons_append, lookup, this]
    exact ih (fun p hp => h1 p (by simp [hp]))

theorem insert_split {eq : K → K → Bool} {upd : Bool} {k k0 : K} {v v0 : V} {l1 l2 : AList K V}
    (h1 : Absent eq k l1) (hk : eq k k0 = true) :
    insert eq upd k v (l1 ++ (k0, v0) :: l2) = l1 ++ ((if upd then k else k0), v) :: l2 := by
  induction l1 with
  | nil => simp [insert, hk]
  | cons p r ih =>
    obtain ⟨k', v'⟩ := p
    have : eq k k' = false := h1 (k', v') (by simp)
    simp only [List.cons_append, insert, this]
    rw [ih (fun p hp => h1 p (by simp [hp]))]
    simp

theorem erase_split {eq : K → K → Bool} {k k0 : K} {v0 : V} {l1 l2 : AList K V}
    (h1 : Absent eq k l1) (hk : eq k k0 = true) : erase eq k (l1 ++ (k0, v0) :: l2) = l1 ++ l2 := by
  induction l1 with
  | nil => simp [erase, hk]
  | cons p r ih =>
    obtain ⟨k', v'⟩ := p
    have : eq k k' = false := h1 (k', v') (by simp)
    simp only [List.cons_append, erase, this]
    rw [ih (fun p hp => h1 p (by simp [hp]))]
    simp

/-- in a list without duplicate keys, an entry matching `k` is the only one -/
theorem absent_of_nodup {eq : K → K → Bool} (he : EqOK eq) {k k0 : K} {v0 : V} {l1 l2 : AList K V}
    (hn : NoDupKeys eq (l1 ++ (k0, v0) :: l2)) (hk : eq k k0 = true) : Absent eq k l1 ∧ Absent eq k l2 := by
  unfold NoDupKeys at hn
  rw [List.pairwise_append] at hn
  obtain ⟨_, h2, h3⟩ := hn
  rw [List.pairwise_cons] at h2
  constructor
  · intro p hp
    have := h3 p hp (k0, v0) (by simp)
    cases hpk : eq k p.1 with
    | false => rfl
    | true =>
      have : eq p.1 k0 = true := he.trans _ _ _ (he.symm _ _ hpk) hk
      simp_all
  · intro p hp
    have := h2.1 p hp
    cases hpk : eq k p.1 with
    | false => rfl
    | true =>
      have : eq k0 p.1 = true := he.trans _ _ _ (he.symm _ _ hk) hpk
      simp_all

/-- either some entry matches `k` (and the list splits around it) or none does -/
theorem split_or_absent (eq : K → K → Bool) (k : K) (m : AList K V) :
    Absent eq k m ∨ ∃ l1 k0 v0 l2, m = l1 ++ (k0, v0) :: l2 ∧ eq k k0 = true := by
  induction m with
  | nil => left; intro p hp; simp at hp
  | cons p r ih =>
    cases hpk : eq k p.1 with
    | true => right; exact ⟨[], p.1, p.2, r, by simp, hpk⟩
    | false =>
      rcases ih with h | ⟨l1, k0, v0, l2, rfl, hk⟩
      · left
        intro q hq
        rcases List.mem_cons.1 hq with rfl | hq
        · exact hpk
        · exact h q hq
      · right; exact ⟨p :: l1, k0, v0, l2, by simp, hk⟩

theorem absent_perm {eq : K → K → Bool} {k : K} {m m' : AList K V} (hp : m.Perm m') (h : Absent eq k m) :
    Absent eq k m' := fun p hp' => h p (hp.mem_iff.2 hp')

theorem nodup_perm {eq : K → K → Bool} (he : EqOK eq) {m m' : AList K V} (hp : m.Perm m') (h : NoDupKeys eq m) :
    NoDupKeys eq m' := by
  unfold NoDupKeys at *
  refine hp.pairwise h ?_
  intro a b hab
  cases hba : eq b.1 a.1 with
  | false => rfl
  | true => have := he.symm _ _ hba; simp_all

/-- permuted lists without duplicate keys answer every lookup alike -/
theorem lookup_perm {eq : K → K → Bool} (he : EqOK eq) {k : K} {m m' : AList K V} (hp : m.Perm m')
    (hn : NoDupKeys eq m) : lookup eq k m = lookup eq k m' := by
  rcases split_or_absent eq k m with h | ⟨l1, k0, v0, l2, rfl, hk⟩
  · rw [lookup_absent h, lookup_absent (absent_perm hp h)]
  · obtain ⟨a1, a2⟩ := absent_of_nodup he hn hk
    rw [lookup_split a1 hk]
    have hmem : (k0, v0) ∈ m' := hp.mem_iff.1 (by simp)
    obtain ⟨s, t, rfl⟩ := List.append_of_mem hmem
    obtain ⟨b1, _⟩ := absent_of_nodup he (nodup_perm he hp hn) hk
    rw [lookup_split b1 hk]

theorem insert_perm {eq : K → K → Bool} (he : EqOK eq) {upd : Bool} {k : K} {v : V} {m m' : AList K V}
    (hp : m.Perm m') (hn : NoDupKeys eq m) : (insert eq upd k v m).Perm (insert eq upd k v m') := by
  rcases split_or_absent eq k m with h | ⟨l1, k0, v0, l2, rfl, hk⟩
  · rw [insert_absent h, insert_absent (absent_perm hp h)]
    exact hp.append_right _
  · obtain ⟨a1, a2⟩ := absent_of_nodup he hn hk
    rw [insert_split a1 hk]
    have hmem : (k0, v0) ∈ m' := hp.mem_iff.1 (by simp)
    obtain ⟨s, t, rfl⟩ := List.append_of_mem hmem
    obtain ⟨b1, _⟩ := absent_of_nodup he (nodup_perm he hp hn) hk
    rw [insert_split b1 hk]
    have h1 : (l1 ++ l2).Perm (s ++ t) :=
      (List.perm_cons _).1 ((List.perm_middle.symm.trans hp).trans List.perm_middle)
    exact (List.perm_middle.trans ((List.perm_cons _).2 h1)).trans List.perm_middle.symm

theorem erase_perm {eq : K → K → Bool} (he : EqOK eq) {k : K} {m m' : AList K V}
    (hp : m.Perm m') (hn : NoDupKeys eq m) : (erase eq k m).Perm (erase eq k m') := by
  rcases split_or_absent eq k m with h | ⟨l1, k0, v0, l2, rfl, hk⟩
  · rw [erase_absent h, erase_absent (absent_perm hp h)]
    exact hp
  · obtain ⟨a1, a2⟩ := absent_of_nodup he hn hk
    rw [erase_split a1 hk]
    have hmem : (k0, v0) ∈ m' := hp.mem_iff.1 (by simp)
    obtain ⟨s, t, rfl⟩ := List.append_of_mem hmem
    obtain ⟨b1, _⟩ := absent_of_nodup he (nodup_perm he hp hn) hk
    rw [erase_split b1 hk]
    exact (List.perm_cons _).1 ((List.perm_middle.symm.trans hp).trans List.perm_middle)

/-- insertion keeps keys unique -/
theorem nodup_insert {eq : K → K → Bool} (he : EqOK eq) {upd : Bool} {k : K} {v : V} {m : AList K V}
    (hn : NoDupKeys eq m) : NoDupKeys eq (insert eq upd k v m) := by
  rcases split_or_absent eq k m with h | ⟨l1, k0, v0, l2, rfl, hk⟩
  · rw [insert_absent h]
    unfold NoDupKeys at *
    rw [List.pairwise_append]
    refine ⟨hn, by simp, ?_⟩
    intro a ha b hb
    simp at hb
    subst hb
    cases hak : eq a.1 k with
    | false => rfl
    | true => have := h a ha; have := he.symm _ _ hak; simp_all
  · obtain ⟨a1, a2⟩ := absent_of_nodup he hn hk
    rw [insert_split a1 hk]
    unfold NoDupKeys at *
    rw [List.pairwise_append] at hn ⊢
    obtain ⟨h1, h2, h3⟩ := hn
    rw [List.pairwise_cons] at h2 ⊢
    cases upd with
    | false => exact ⟨h1, ⟨h2.1, h2.2⟩, fun a ha b hb => by
        rcases List.mem_cons.1 hb with rfl | hb
        · exact h3 a ha (k0, v0) (by simp)
        · exact h3 a ha b (by simp [hb])⟩
    | true =>
      refine ⟨h1, ⟨?_, h2.2⟩, fun a ha b hb => ?_⟩
      · intro b hb; exact a2 b hb
      · rcases List.mem_cons.1 hb with rfl | hb
        · cases hak : eq a.1 k with
          | false => simpa using hak
          | true => have := a1 a ha; have := he.symm _ _ hak; simp_all
        · exact h3 a ha b (by simp [hb])

theorem nodup_erase {eq : K → K → Bool} {k : K} {m : AList K V} (hn : NoDupKeys eq m) :
    NoDupKeys eq (erase eq k m) := by
  induction m with
  | nil => exact hn
  | cons p r ih =>
    obtain ⟨k', v'⟩ := p
    unfold NoDupKeys at hn
    rw [List.pairwise_cons] at hn
    simp only [erase]
    split
    · exact hn.2
    · unfold NoDupKeys
      rw [List.pairwise_cons]
      refine ⟨fun b hb => hn.1 b ?_, ih hn.2⟩
      clear ih hn
      induction r with
      | nil => simp [erase] at hb
      | cons q r ih2 =>
        simp only [erase] at hb
        split at hb
        · simp [hb]
        · rcases List.mem_cons.1 hb with rfl | hb
          · simp
          · simp [ih2 hb]

/-! ## the iteration specification

A range loop is described by the list of events that happen while it runs: the loop's own yields and the
mutations executed by the loop body (or elsewhere).  Entries are identified by the position in which they were
created (`id`), because a NaN key is not identified by `==`. -/

inductive Ev (K V : Type) where
  | yield (id : Nat)          -- the loop produces the entry created as number `id`
  | remove (id : Nat)         -- entry `id` is deleted (by `delete` or `clear`)
  | create (id : Nat)         -- a new entry appears
deriving Repr

/-- entries live at the start: `start`; the loop's events in order.  The rules of the language specification:
    nothing is produced twice, nothing is produced that is not live at that moment, and whatever is live from
    the start to the end of the loop is produced. -/
def iterOK : (live seen : List Nat) → (must : List Nat) → List (Ev K V) → Bool
  | _, seen, must, [] => must.all (fun i => seen.contains i)
  | live, seen, must, .yield i :: r => live.contains i && !seen.contains i && iterOK live (i :: seen) must r
  | live, seen, must, .remove i :: r => iterOK (live.filter (· != i)) seen (must.filter (· != i)) r
  | live, seen, must, .create i :: r => iterOK (i :: live) seen must r

end LlgoVerif.AssocList
