import LlgoVerif.Model.CAbiCall
/-!
# C09 — lemmas about the call-site model (`Model/CAbiCall.lean`)

The simulation between the C abstract machine (private objects separate from main memory) and the flat memory in
which the caller has placed them: as long as the callee never reaches a placed object through main memory and the
placed objects do not overlap, both runs stay related (`run_sim`).
-/
namespace LlgoVerif.CAbiCall

/-! ## cells -/

theorem Cells.set_eq (m : Cells) (a v : Nat) : m.set a v a = v := by simp [Cells.set]

theorem Cells.set_ne (m : Cells) (a v x : Nat) (h : x ≠ a) : m.set a v x = m x := by simp [Cells.set, h]

theorem writeCells_out (l : List Nat) : ∀ (m : Cells) (a x : Nat), (x < a ∨ a + l.length ≤ x) → writeCells m a l x = m x := by
  induction l with
  | nil => intro m a x _; rfl
  | cons v r ih =>
    intro m a x h
    simp only [writeCells]
    rw [ih (m.set a v) (a + 1) x (by simp only [List.length_cons] at h; omega)]
    exact Cells.set_ne m a v x (by simp only [List.length_cons] at h; omega)

theorem writeCells_in (l : List Nat) : ∀ (m : Cells) (a i : Nat), i < l.length → writeCells m a l (a + i) = l.getD i 0 := by
  induction l with
  | nil => intro m a i h; simp at h
  | cons v r ih =>
    intro m a i h
    simp only [writeCells]
    cases i with
    | zero =>
      show writeCells (m.set a v) (a + 1) r a = _
      rw [writeCells_out r (m.set a v) (a + 1) a (by omega)]
      simp [Cells.set_eq]
    | succ j =>
      have := ih (m.set a v) (a + 1) j (by simp only [List.length_cons] at h; omega)
      rw [show a + (j + 1) = a + 1 + j by omega, this]
      simp

/-- two memories that agree at `x`, overwritten with the same cells, agree at `x` -/
theorem writeCells_congr (l : List Nat) (m m' : Cells) (a x : Nat) (h : m x = m' x) :
    writeCells m a l x = writeCells m' a l x := by
  by_cases hx : x < a ∨ a + l.length ≤ x
  · rw [writeCells_out l m a x hx, writeCells_out l m' a x hx, h]
  · have : x = a + (x - a) := by omega
    rw [this, writeCells_in l m a (x - a) (by omega), writeCells_in l m' a (x - a) (by omega)]

theorem readCells_eq_privCells (m : Cells) (p : Priv) (k b : Nat) :
    ∀ (n off : Nat), (∀ i, i < n → p k (off + i) = m (b + off + i)) → readCells m (b + off) n = privCells p k off n := by
  intro n
  induction n with
  | zero => intro off _; rfl
  | succ n ih =>
    intro off h
    simp only [readCells, privCells]
    have h0 := h 0 (by omega)
    simp only [Nat.add_zero] at h0
    rw [← h0]
    congr 1
    have := ih (off + 1) (fun i hi => by
      have := h (i + 1) (by omega)
      rw [show off + 1 + i = off + (i + 1) by omega, show b + (off + 1) + i = b + off + (i + 1) by omega]
      exact this)
    rw [show b + off + 1 = b + (off + 1) by omega]
    exact this

/-! ## the simulation -/

structure Sim (P : Placing) (a : StA) (c : StC) : Prop where
  regs : a.regs = c.regs
  out : ∀ x, ¬ InRanges P x → a.mem x = c.mem x
  inn : ∀ k, k < P.n → ∀ off, off < P.size k → a.priv k off = c.mem (P.base k + off)

theorem inRanges_of (P : Placing) (k off : Nat) (hk : k < P.n) (ho : off < P.size k) : InRanges P (P.base k + off) :=
  ⟨k, hk, by omega, by omega⟩

/-- two cells of placed objects are at the same address only if they are the same cell -/
theorem cell_inj (P : Placing) (hd : Disjoint P) (k k' off off' : Nat) (hk : k < P.n) (hk' : k' < P.n)
    (ho : off < P.size k) (ho' : off' < P.size k') (h : P.base k' + off' = P.base k + off) : k' = k ∧ off' = off := by
  by_cases hkk : k' = k
  · subst hkk; exact ⟨rfl, by omega⟩
  · rcases hd k' hk' k hk hkk with h1 | h1 <;> omega

theorem step_sim (P : Placing) (hd : Disjoint P) (o : Op) (a : StA) (c : StC) (hs : Sim P a c) (ho : OpSafe P o a) :
    Sim P (stepA o a) (stepC P o c) := by
  obtain ⟨hr, hout, hin⟩ := hs
  cases o with
  | const r v => exact ⟨by simp [stepA, stepC, hr], hout, hin⟩
  | add r x y => exact ⟨by simp [stepA, stepC, hr], hout, hin⟩
  | load r l =>
    have hv : readA a l = c.mem (l.addrC P c.regs) := by
      cases l with
      | priv k off => exact hin k ho.1 off ho.2
      | abs x => exact hout x ho
      | ind r' off => simp only [readA, Ref.addrC]; rw [← hr]; exact hout _ ho
    exact ⟨by simp [stepA, stepC, hr, hv], hout, hin⟩
  | store l r =>
    cases l with
    | priv k off =>
      obtain ⟨hk, hoff⟩ := ho
      refine ⟨hr, ?_, ?_⟩
      · intro x hx
        simp only [stepA, writeA, stepC, Ref.addrC]
        rw [Cells.set_ne _ _ _ _ (by intro h; exact hx (h ▸ inRanges_of P k off hk hoff))]
        exact hout x hx
      · intro k' hk' off' ho'
        simp only [stepA, writeA, stepC, Ref.addrC, Priv.set]
        by_cases h : k' = k ∧ off' = off
        · rw [if_pos h, h.1, h.2, Cells.set_eq, hr]
        · rw [if_neg h, Cells.set_ne _ _ _ _ (fun he => h (cell_inj P hd k k' off off' hk hk' hoff ho' he))]
          exact hin k' hk' off' ho'
    | abs x =>
      refine ⟨hr, ?_, ?_⟩
      · intro y hy
        simp only [stepA, writeA, stepC, Ref.addrC, Cells.set, hr]
        split
        · rfl
        · exact hout y hy
      · intro k hk off hoff
        simp only [stepA, writeA, stepC, Ref.addrC]
        rw [Cells.set_ne _ _ _ _ (by intro h; exact ho (h ▸ inRanges_of P k off hk hoff))]
        exact hin k hk off hoff
    | ind r' off' =>
      have ho' : ¬ InRanges P (a.regs r' + off') := ho
      refine ⟨hr, ?_, ?_⟩
      · intro y hy
        simp only [stepA, writeA, stepC, Ref.addrC, Cells.set, hr]
        split
        · rfl
        · exact hout y hy
      · intro k hk off hoff
        simp only [stepA, writeA, stepC, Ref.addrC]
        rw [← hr, Cells.set_ne _ _ _ _ (by intro h; exact ho' (h ▸ inRanges_of P k off hk hoff))]
        exact hin k hk off hoff

/-- **Simulation**: if the callee (run on the abstract machine) never reaches a placed object through main memory,
    its run on the flat memory computes the same registers, the same main memory outside the placed objects, and
    the contents of its private objects inside them. -/
theorem run_sim (P : Placing) (hd : Disjoint P) (f : Prog) :
    ∀ (a : StA) (c : StC), Sim P a c → Safe P f a → Sim P (runA f a) (runC P f c) := by
  induction f with
  | done => intro a c hs _; exact hs
  | seq o k ih =>
    intro a c hs hsafe
    exact ih _ _ (step_sim P hd o a c hs hsafe.1) hsafe.2
  | ifz r t e iht ihe =>
    intro a c hs hsafe
    simp only [runA, runC, Safe] at *
    rw [← hs.regs]
    split
    · rename_i h; rw [if_pos h] at hsafe; exact iht _ _ hs hsafe
    · rename_i h; rw [if_neg h] at hsafe; exact ihe _ _ hs hsafe

/-! ## the state in which the rewritten call starts -/

theorem privCells_length (p : Priv) (k : Nat) : ∀ (n off : Nat), (privCells p k off n).length = n := by
  intro n
  induction n with
  | zero => intro off; rfl
  | succ n ih => intro off; simp [privCells, ih]

theorem privCells_getD (p : Priv) (k : Nat) : ∀ (n off i : Nat), i < n → (privCells p k off n).getD i 0 = p k (off + i) := by
  intro n
  induction n with
  | zero => intro off i h; omega
  | succ n ih =>
    intro off i h
    cases i with
    | zero => simp [privCells]
    | succ j =>
      simp only [privCells, List.getD_cons_succ]
      rw [ih (off + 1) j (by omega)]
      congr 1; omega

/-- outside the temporaries the argument copies leave memory alone -/
theorem storeByvals_out (frame : Frame) (l : List (List Nat × Nat)) :
    ∀ (k0 : Nat) (m : Cells) (x : Nat),
      (∀ j, j < l.length → x < frame (k0 + j) ∨ frame (k0 + j) + (l.getD j ([], 0)).1.length ≤ x) →
      storeByvals frame l k0 m x = m x := by
  induction l with
  | nil => intro k0 m x _; rfl
  | cons hd r ih =>
    intro k0 m x h
    obtain ⟨vals, s⟩ := hd
    simp only [storeByvals]
    rw [ih (k0 + 1) _ x (fun j hj => by
      have := h (j + 1) (by simp only [List.length_cons]; omega)
      simp only [List.getD_cons_succ] at this
      rw [show k0 + 1 + j = k0 + (j + 1) by omega]
      exact this)]
    have := h 0 (by simp)
    simp only [List.getD_cons_zero, Nat.add_zero] at this
    exact writeCells_out vals m (frame k0) x this

/-- every temporary holds the value of its argument when the call starts (the temporaries do not overlap) -/
theorem storeByvals_in (frame : Frame) (l : List (List Nat × Nat)) :
    ∀ (k0 : Nat) (m : Cells),
      (∀ i, i < l.length → ∀ j, j < l.length → i ≠ j →
        frame (k0 + i) + (l.getD i ([], 0)).1.length ≤ frame (k0 + j) ∨
        frame (k0 + j) + (l.getD j ([], 0)).1.length ≤ frame (k0 + i)) →
      ∀ j, j < l.length → ∀ off, off < (l.getD j ([], 0)).1.length →
        storeByvals frame l k0 m (frame (k0 + j) + off) = (l.getD j ([], 0)).1.getD off 0 := by
  induction l with
  | nil => intro k0 m _ j hj; simp at hj
  | cons hd r ih =>
    intro k0 m hdis j hj off hoff
    obtain ⟨vals, s⟩ := hd
    simp only [storeByvals]
    cases j with
    | zero =>
      simp only [List.getD_cons_zero, Nat.add_zero] at hoff ⊢
      rw [storeByvals_out frame r (k0 + 1) _ _ (fun i hi => by
        have := hdis 0 (by simp) (i + 1) (by simp only [List.length_cons]; omega) (by omega)
        simp only [List.getD_cons_zero, List.getD_cons_succ, Nat.add_zero] at this
        rw [show k0 + 1 + i = k0 + (i + 1) by omega]
        omega)]
      exact writeCells_in vals m (frame k0) off hoff
    | succ j' =>
      simp only [List.getD_cons_succ] at hoff ⊢
      rw [show k0 + (j' + 1) = k0 + 1 + j' by omega]
      exact ih (k0 + 1) _ (fun i hi i2 hi2 hne => by
        have := hdis (i + 1) (by simp only [List.length_cons]; omega) (i2 + 1) (by simp only [List.length_cons]; omega) (by omega)
        simp only [List.getD_cons_succ] at this
        rw [show k0 + 1 + i = k0 + (i + 1) by omega, show k0 + 1 + i2 = k0 + (i2 + 1) by omega]
        exact this) j' (by simp only [List.length_cons] at hj; omega) off hoff

theorem bvContents_temp (m : Cells) (bv : List (List Nat × Nat)) : bvContents .temp m bv = bv := by
  unfold bvContents
  induction bv with
  | nil => rfl
  | cons a r ih => simp only [List.map_cons, ih]

/-- when nothing was stored to the sources between the loads and the call, copying the sources is copying the values -/
theorem bvContents_source (m : Cells) (bv : List (List Nat × Nat)) (h : ∀ vs ∈ bv, readCells m vs.2 vs.1.length = vs.1) :
    bvContents .source m bv = bv := by
  unfold bvContents
  induction bv with
  | nil => rfl
  | cons a r ih =>
    simp only [List.map_cons]
    rw [ih (fun vs hvs => h vs (List.mem_cons_of_mem _ hvs)), h a List.mem_cons_self]

/-- the call starts in related states: whatever the result object is placed on (`slot`), with a fresh copy for
    every by-value argument; the indeterminate initial contents of the result object are what the chosen memory holds -/
theorem init_sim (slot : Slot) (frame : Frame) (c : CallSite) (m : Cells)
    (hd : Disjoint (placement slot frame c)) :
    Sim (placement slot frame c)
      (initA (fun off => m ((placement slot frame c).base 0 + off)) c m) (initC .temp frame c m) := by
  have hbv : ∀ x, (∀ k, 1 ≤ k → k < (placement slot frame c).n →
        x < (placement slot frame c).base k ∨
        (placement slot frame c).base k + (placement slot frame c).size k ≤ x) →
      storeByvals frame (byvals c.args) 1 m x = m x := by
    intro x h
    apply storeByvals_out
    intro j hj
    have := h (1 + j) (by omega) (by simp only [placement]; omega)
    simp only [placement, bvVals, show 1 + j ≠ 0 by omega, if_false, show 1 + j - 1 = j by omega] at this
    exact this
  refine ⟨rfl, ?_, ?_⟩
  · intro x hx
    simp only [initA, initC, bvContents_temp]
    rw [hbv x (fun k hk1 hkn => by
      by_cases h : x < (placement slot frame c).base k
      · exact Or.inl h
      · by_cases h2 : (placement slot frame c).base k + (placement slot frame c).size k ≤ x
        · exact Or.inr h2
        · exact absurd ⟨k, hkn, by omega, by omega⟩ hx)]
  · intro k hk off hoff
    simp only [initA, initC, privInit, bvContents_temp]
    by_cases hk0 : k = 0
    · subst hk0
      rw [if_pos rfl]
      rw [hbv _ (fun k hk1 hkn => by
        rcases hd 0 hk k hkn (by omega) with h | h <;> omega)]
    · rw [if_neg hk0]
      have hj : k - 1 < (byvals c.args).length := by simp only [placement] at hk; omega
      have hsz : (placement slot frame c).size k = ((byvals c.args).getD (k - 1) ([], 0)).1.length := by
        simp [placement, hk0, bvVals]
      have hb : (placement slot frame c).base k = frame (1 + (k - 1)) := by
        simp only [placement, hk0, if_false]; congr 1; omega
      rw [hb, bvVals]
      rw [hsz] at hoff
      refine (storeByvals_in frame (byvals c.args) 1 m ?_ (k - 1) hj off hoff).symm
      intro i hi j hj' hne
      have := hd (1 + i) (by simp only [placement]; omega) (1 + j) (by simp only [placement]; omega) (by omega)
      simp only [placement, bvVals, show 1 + i ≠ 0 by omega, show 1 + j ≠ 0 by omega, if_false,
        show 1 + i - 1 = i by omega, show 1 + j - 1 = j by omega] at this
      exact this


theorem safeB_iff (P : Placing) (f : Prog) : ∀ s, safeB P f s = true ↔ Safe P f s := by
  induction f with
  | done => intro s; simp [safeB, Safe]
  | seq o k ih => intro s; simp [safeB, Safe, ih]
  | ifz r t e iht ihe =>
    intro s
    simp only [safeB, Safe]
    split
    · exact iht s
    · exact ihe s

instance (P : Placing) (f : Prog) (s : StA) : Decidable (Safe P f s) :=
  decidable_of_iff _ (safeB_iff P f s)

/-! ## witnesses used by the counterexamples of `Props/C09.lean` -/

/-- `v = rotate(&v)` with `rotate` writing its result piecemeal while it reads `*p`: (1,2,3) must become (2,3,1) -/
def rotate : Prog :=
  .seq (.load 1 (.ind 0 1)) <| .seq (.store (.priv 0 0) 1) <|
  .seq (.load 1 (.ind 0 2)) <| .seq (.store (.priv 0 1) 1) <|
  .seq (.load 1 (.ind 0 0)) <| .seq (.store (.priv 0 2) 1) .done

def mem123 : Cells := fun a => if a = 100 then 1 else if a = 101 then 2 else if a = 102 then 3 else 0

def frame1000 : Frame := fun k => 1000 + 100 * k

/-- a callee that publishes the first cell of its by-value parameter in the global 300 -/
def leakParam : Prog := .seq (.load 1 (.priv 1 0)) <| .seq (.store (.abs 300) 1) .done

/-- the memory of `mem123` after `p.X = 7` -/
def mem723 : Cells := fun a => if a = 100 then 7 else if a = 101 then 2 else if a = 102 then 3 else 0

end LlgoVerif.CAbiCall
