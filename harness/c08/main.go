// Correspondence harness for C08: queries llgo's three layout computations in-process, per target.
//
//	(a) compile-time sizes  : prog.TypeSizes(std)  (ssa/type.go goProgram.Sizeof/Alignof/Offsetsof, extraSize)
//	(b) code-generation     : prog.SizeOf / prog.OffsetOf / ABI alignment of the LLVM type prog.Type(t, InGo) builds
//	(c) descriptor numbers  : the program's own ssa/abi Builder (Program.abi): Size/Align/FieldAlign/PtrBytes on the raw type, field offsets as
//	                          abitype.go abiStructFields takes them (prog.OffsetOf(prog.rawType(t), i)),
//	                          map KeySize/ValueSize/BucketSize as abiExtendedFields takes them.
//
// Protocol (one request per line, one answer per line):
//
//	q  <goos>/<goarch> <term>      -> a=<size>,<align>,<offs> b=<size>,<align>,<offs> c=<size>,<align>,<fieldalign>,<ptrbytes>,<offs> e=<size>,<align>
//	mb <goos>/<goarch> <key> <elem> -> md=<KeySize>,<ValueSize>,<BucketSize>,<Flags&3> (read back from the EMITTED map descriptor)
//	                                   kb=<size>,<align> eb=<size>,<align> (key, elem in generated code)
//	                                   ks=<n> es=<n> bs=<n> a=… b=… c=…      (abi sizes; the three computations on the bucket struct)
//	dl <goos>/<goarch>             -> LLVM data layout string + pointer size
//
// <offs> = `-` for a non-struct, `.` for a struct without fields, else o1:o2:…
// The base sizes of a target are `types.SizesFor("gc", arch)` unless an override -std arch=word,maxalign is given on
// the command line (the check extracts the overrides from internal/build/build.go of the working tree).
package main

import (
	"bufio"
	"fmt"
	"go/importer"
	"go/token"
	"go/types"
	"os"
	"strconv"
	"strings"

	"github.com/goplus/llgo/ssa"
	"github.com/goplus/llgo/ssa/abi"
)

// the real runtime package (runtime/internal/runtime of the working tree): string, slice, interface, map and chan
// values are laid out as its String, Slice, Eface, Iface, Map, Chan types
var rtPkg *types.Package

func loadRuntime() *types.Package {
	if rtPkg == nil {
		// type-checked from source (as ssa/cl_test.go does): the descriptor types (maptype, ptrtype, …) are unexported
		// aliases that export data does not carry
		p, err := importer.ForCompiler(token.NewFileSet(), "source", nil).Import(ssa.PkgRuntime)
		if err != nil {
			panic("load runtime failed: " + err.Error())
		}
		rtPkg = p
	}
	return rtPkg
}

type parser struct {
	s     string
	pos   int
	blank bool // the term just parsed was wrapped in B(…): a blank `_` struct field
	setC  func(fullName string) // marks a named type as having C background (//llgo:type C)
	pkg *types.Package
	nm  map[string]*types.Named
	al  map[string]*types.Alias
	file *types.Scope // the file scope under which the function scopes of R(k,t) types are created
}

func (p *parser) fail(msg string) { panic("parse: " + msg + " at " + strconv.Itoa(p.pos) + " in " + p.s) }

func (p *parser) ident() string {
	st := p.pos
	for p.pos < len(p.s) {
		c := p.s[p.pos]
		if (c >= 'a' && c <= 'z') || (c >= 'A' && c <= 'Z') || (c >= '0' && c <= '9') {
			p.pos++
		} else {
			break
		}
	}
	return p.s[st:p.pos]
}

func (p *parser) expect(c byte) {
	if p.pos >= len(p.s) || p.s[p.pos] != c {
		p.fail("expected " + string(c))
	}
	p.pos++
}

var basics = map[string]types.BasicKind{
	"b": types.Bool, "i8": types.Int8, "i16": types.Int16, "i32": types.Int32, "i64": types.Int64,
	"u8": types.Uint8, "u16": types.Uint16, "u32": types.Uint32, "u64": types.Uint64,
	"i": types.Int, "u": types.Uint, "up": types.Uintptr, "f32": types.Float32, "f64": types.Float64,
	"c64": types.Complex64, "c128": types.Complex128, "str": types.String, "usp": types.UnsafePointer,
}

func (p *parser) term() types.Type {
	st := p.pos
	id := p.ident()
	if k, ok := basics[id]; ok {
		return types.Typ[k]
	}
	switch id {
	case "F":
		return types.NewSignatureType(nil, nil, nil, nil, nil, false)
	case "F1": // func(int, string) (bool, error-less): a signature with parameters and results
		ps := types.NewTuple(types.NewVar(token.NoPos, nil, "", types.Typ[types.Int]), types.NewVar(token.NoPos, nil, "", types.Typ[types.String]))
		rs := types.NewTuple(types.NewVar(token.NoPos, nil, "", types.Typ[types.Bool]))
		return types.NewSignatureType(nil, nil, nil, ps, rs, false)
	case "E":
		return types.NewInterfaceType(nil, nil).Complete()
	case "I":
		m := types.NewFunc(token.NoPos, p.pkg, "M", types.NewSignatureType(nil, nil, nil, nil, nil, false))
		return types.NewInterfaceType([]*types.Func{m}, nil).Complete()
	case "B": // B(t): only as a struct field; the field is named `_`
		p.expect('(')
		e := p.term()
		p.expect(')')
		p.blank = true
		return e
	case "L": // L(t): an alias declaration `type A = t`
		p.expect('(')
		e := p.term()
		p.expect(')')
		key := p.s[st:p.pos]
		if a, ok := p.al[key]; ok {
			return a
		}
		a := types.NewAlias(types.NewTypeName(token.NoPos, p.pkg, "L"+strconv.Itoa(len(p.al)), nil), e)
		p.al[key] = a
		return a
	case "NC": // NC(t): a named type declared with `//llgo:type C` (C background: raw layout, no closure conversion)
		p.expect('(')
		e := p.term()
		p.expect(')')
		key := p.s[st:p.pos]
		if n, ok := p.nm[key]; ok {
			return n
		}
		if en, ok := e.(*types.Named); ok {
			e = en.Underlying()
		}
		name := "NC" + strconv.Itoa(len(p.nm))
		n := types.NewNamed(types.NewTypeName(token.NoPos, p.pkg, name, nil), e, nil)
		p.setC(p.pkg.Path() + "." + name)
		p.nm[key] = n
		return n
	case "R": // R(k,t): a FUNCTION-LOCAL defined type `type rec t`; every distinct (k,t) is declared in a function scope of
		// its own (package scope -> file scope -> function scope, as go/types builds them), all with the identifier `rec`
		p.expect('(')
		p.ident()
		p.expect(',')
		e := p.term()
		p.expect(')')
		key := p.s[st:p.pos]
		if n, ok := p.nm[key]; ok {
			return n
		}
		if en, ok := e.(*types.Named); ok {
			e = en.Underlying()
		}
		if p.file == nil {
			p.file = types.NewScope(p.pkg.Scope(), token.NoPos, token.NoPos, "file")
		}
		fn := types.NewScope(p.file, token.NoPos, token.NoPos, "function")
		obj := types.NewTypeName(token.NoPos, p.pkg, "rec", nil)
		n := types.NewNamed(obj, e, nil)
		if fn.Insert(obj) != nil {
			p.fail("rec declared twice in one scope")
		}
		p.nm[key] = n
		return n
	case "P", "S", "C", "N":
		p.expect('(')
		e := p.term()
		p.expect(')')
		switch id {
		case "P":
			return types.NewPointer(e)
		case "S":
			return types.NewSlice(e)
		case "C":
			return types.NewChan(types.SendRecv, e)
		}
		key := p.s[st:p.pos]
		if n, ok := p.nm[key]; ok {
			return n
		}
		name := "N" + strconv.Itoa(len(p.nm))
		if en, ok := e.(*types.Named); ok { // `type A B`: the underlying type of A is B's underlying type
			e = en.Underlying()
		}
		n := types.NewNamed(types.NewTypeName(token.NoPos, p.pkg, name, nil), e, nil)
		p.nm[key] = n
		return n
	case "A":
		p.expect('(')
		nstr := p.ident()
		n, err := strconv.ParseInt(nstr, 10, 64)
		if err != nil {
			p.fail("array length")
		}
		p.expect(',')
		e := p.term()
		p.expect(')')
		return types.NewArray(e, n)
	case "M":
		p.expect('(')
		k := p.term()
		p.expect(',')
		e := p.term()
		p.expect(')')
		return types.NewMap(k, e)
	case "T":
		p.expect('(')
		var fields []*types.Var
		for p.pos < len(p.s) && p.s[p.pos] != ')' {
			if len(fields) > 0 {
				p.expect(',')
			}
			p.blank = false
			ft := p.term()
			name := "F" + strconv.Itoa(len(fields))
			if p.blank {
				name = "_"
			}
			p.blank = false
			fields = append(fields, types.NewField(token.NoPos, p.pkg, name, ft, false))
		}
		p.expect(')')
		return types.NewStruct(fields, nil)
	}
	p.fail("unknown constructor " + id)
	return nil
}

type tgt struct {
	pkg   ssa.Package // scratch package the map descriptors are emitted into
	seq   int
	prog  ssa.Program
	sizes types.Sizes // (a): the wrapper returned by prog.TypeSizes
	ab    *abi.Builder
	par   *parser
}

var (
	targets   = map[string]*tgt{}
	overrides = map[string][2]int64{}
)

func target(name string) *tgt {
	if t, ok := targets[name]; ok {
		return t
	}
	parts := strings.SplitN(name, "/", 2)
	if len(parts) != 2 {
		panic("bad target " + name)
	}
	prog := ssa.NewProgram(&ssa.Target{GOOS: parts[0], GOARCH: parts[1]})
	prog.SetRuntime(loadRuntime)
	var std types.Sizes = types.SizesFor("gc", parts[1])
	if o, ok := overrides[parts[1]]; ok {
		std = &types.StdSizes{WordSize: o[0], MaxAlign: o[1]}
	}
	if std == nil {
		panic("no gc sizes for " + parts[1])
	}
	sz := prog.TypeSizes(std)
	t := &tgt{prog: prog, sizes: sz, ab: ssa.VerifABI(prog), // the compiler's own builder; its Sizes is the same wrapper
		par: &parser{pkg: types.NewPackage("vp08/"+parts[1], "vp"), nm: map[string]*types.Named{}, al: map[string]*types.Alias{},
			setC: func(full string) { prog.SetTypeBackground(full, ssa.InC) }}}
	targets[name] = t
	return t
}

func offs(o []int64, isStruct bool) string {
	if !isStruct {
		return "-"
	}
	if len(o) == 0 {
		return "."
	}
	s := make([]string, len(o))
	for i, v := range o {
		s[i] = strconv.FormatInt(v, 10)
	}
	return strings.Join(s, ":")
}

func structFields(t types.Type) ([]*types.Var, bool) {
	st, ok := t.Underlying().(*types.Struct)
	if !ok {
		return nil, false
	}
	fs := make([]*types.Var, st.NumFields())
	for i := range fs {
		fs[i] = st.Field(i)
	}
	return fs, true
}

// three computations on the Go type t
func (tg *tgt) three(t types.Type) string {
	// (a) compile-time folding of unsafe.Sizeof/Alignof/Offsetof: go/types calls exactly these three methods
	fs, isStruct := structFields(t)
	var ao []int64
	if isStruct && len(fs) > 0 {
		ao = tg.sizes.Offsetsof(fs)
	}
	a := fmt.Sprintf("a=%d,%d,%s", tg.sizes.Sizeof(t), tg.sizes.Alignof(t), offs(ao, isStruct))
	// (b) generated code: LLVM layout of the type llgo builds for a Go-background type
	lt := tg.prog.Type(t, ssa.InGo)
	var bo []int64
	raw := lt.RawType()
	rfs, rawStruct := structFields(raw)
	if isStruct {
		if !rawStruct || len(rfs) != len(fs) || (len(fs) > 0 && ssa.VerifNumElems(lt) != len(fs)) {
			panic("raw type of a struct is not a struct with the same fields")
		}
		for i := range fs {
			bo = append(bo, int64(tg.prog.OffsetOf(lt, i)))
		}
	}
	b := fmt.Sprintf("b=%d,%d,%s", tg.prog.SizeOf(lt), ssa.VerifABIAlign(tg.prog, lt), offs(bo, isStruct))
	// (c) descriptor: ssa/abi table on the raw type (what Builder.abiType receives), offsets as abiStructFields takes them
	var co []int64
	if isStruct {
		rt := tg.prog.Type(raw, ssa.InC) // = prog.rawType(raw)
		for i := range fs {
			co = append(co, int64(tg.prog.OffsetOf(rt, i)))
		}
	}
	c := fmt.Sprintf("c=%d,%d,%d,%d,%s", tg.ab.Size(raw), tg.ab.Align(raw), tg.ab.FieldAlign(raw), tg.ab.PtrBytes(raw), offs(co, isStruct))
	// the descriptor that map/slice/chan/pointer/array/struct descriptors REFERENCE for an element of this type:
	// abitype.go abiExtendedFields/abiStructFields call b.abiType(abi.PublicType(elem))
	pub := abi.PublicType(raw)
	e := fmt.Sprintf("e=%d,%d", tg.ab.Size(pub), tg.ab.Align(pub))
	return a + " " + b + " " + c + " " + e
}

func handle(line string) (out string) {
	defer func() {
		if e := recover(); e != nil {
			out = fmt.Sprintf("panic %v", e)
		}
	}()
	f := strings.Fields(line)
	switch {
	case len(f) == 3 && f[0] == "q":
		tg := target(f[1])
		tg.par.s, tg.par.pos = f[2], 0
		t := tg.par.term()
		if tg.par.pos != len(f[2]) {
			return "bad-op"
		}
		return tg.three(t)
	case len(f) == 4 && f[0] == "mb":
		tg := target(f[1])
		tg.par.s, tg.par.pos = f[2], 0
		k := tg.par.term()
		tg.par.s, tg.par.pos = f[3], 0
		e := tg.par.term()
		// abiExtendedFields works on the raw map type
		mraw := tg.prog.Type(types.NewMap(k, e), ssa.InGo).RawType().(*types.Map)
		bucket := tg.ab.MapBucket(mraw)
		// the emitted descriptor (abitype.go abiExtendedFields): KeySize, ValueSize, BucketSize, Flags as constants of the IR
		if tg.pkg == nil {
			tg.pkg = tg.prog.NewPackage("vp08m", "vp08/m")
		}
		tg.seq++
		dks, dvs, dbs, dfl, nops := ssa.VerifMapDesc(tg.pkg, tg.seq, mraw)
		if nops != 9 {
			panic(fmt.Sprintf("map descriptor initialiser has %d operands, want 9", nops))
		}
		// sizes/alignments of key and element in generated code (b)
		kt, et := tg.prog.Type(mraw.Key(), ssa.InC), tg.prog.Type(mraw.Elem(), ssa.InC)
		md := fmt.Sprintf("md=%d,%d,%d,%d kb=%d,%d eb=%d,%d ", dks, dvs, dbs, dfl&3, tg.prog.SizeOf(kt), ssa.VerifABIAlign(tg.prog, kt), tg.prog.SizeOf(et), ssa.VerifABIAlign(tg.prog, et))
		return md + fmt.Sprintf("ks=%d es=%d bs=%d ", tg.ab.Size(mraw.Key()), tg.ab.Size(mraw.Elem()), tg.ab.Size(bucket)) + tg.three(bucket)
	case len(f) == 2 && f[0] == "dl":
		tg := target(f[1])
		return fmt.Sprintf("%s ptr=%d", tg.prog.DataLayout(), tg.prog.PointerSize())
	}
	return "bad-op"
}

func main() {
	for _, a := range os.Args[1:] {
		// -std=arch=word,maxalign
		if strings.HasPrefix(a, "-std=") {
			kv := strings.SplitN(a[5:], "=", 2)
			wm := strings.SplitN(kv[1], ",", 2)
			w, _ := strconv.ParseInt(wm[0], 10, 64)
			m, _ := strconv.ParseInt(wm[1], 10, 64)
			overrides[kv[0]] = [2]int64{w, m}
		}
	}
	ssa.Initialize(ssa.InitAll)
	func() { // load the runtime package once; without it nothing can be answered
		defer func() {
			if e := recover(); e != nil {
				fmt.Fprintln(os.Stderr, "fatal:", e)
				os.Exit(2)
			}
		}()
		loadRuntime()
	}()
	in := bufio.NewScanner(os.Stdin)
	in.Buffer(make([]byte, 1<<20), 1<<24)
	w := bufio.NewWriter(os.Stdout)
	defer w.Flush()
	for in.Scan() {
		fmt.Fprintln(w, handle(in.Text()))
		w.Flush() // the check keeps one harness process and talks to it in batches
	}
}
