import LlgoVerif.Lemmas.Slice
import LlgoVerif.Lemmas.StrHeap
/-!
# C05 — slices and strings: append, copy, slicing, iteration and conversion semantics

Property theorems only.  Model: `LlgoVerif/Model/Slice.lean` (+ `Model/Utf8.lean`), `Model/Slice64.lean` (the same
arithmetic on int64 / uintptr), `Model/StrHeap.lean` (strings as headers over the byte heap, C strings); specification
vocabulary: `LlgoVerif/Spec/Slice.lean`; lemmas: `LlgoVerif/Lemmas/{Slice,Slice64,StrHeap}.lean`.

`Cfg.current` is the unchanged tree, `Cfg.fixed` the tree with `fixes/C05-1.diff`.  On the unchanged tree the full
`append` statement is **false** (two independent counterexamples below, both replayed on the real code by the check);
it is proved in full for the repaired code and under an explicit decidable hypothesis for the unchanged code.
-/
namespace LlgoVerif.Slice
open LlgoVerif.Utf8

/-! ## append -/

/-- **append, repaired code — every element size (incl. 0), every overlap, every growth policy with enough room.** -/
theorem append_spec_fixed : AppendSpecAll Cfg.fixed := by
  intro pol m s data num esz hpol hesz hnum hwf hsrc
  exact append_ok Cfg.fixed pol m s data num esz hpol hesz hnum hwf hsrc (Or.inl rfl) (Or.inl rfl)

/-- **Unchanged tree, defect #4.** `append([]struct{}(nil), struct{}{})`: `SliceAppend` returns `src` when
    `etSize == 0`, the length stays 0. -/
theorem append_spec_zero_size_counterexample : ¬ AppendSpecAll Cfg.current := by
  intro h
  have := h nextslicecap Mem.empty ⟨0, 0, 0⟩ 0 1 0 nextslicecap_ge' (by decide) (by decide)
    ⟨by decide, by decide, by decide, by decide⟩ (by decide)
  obtain ⟨m', s', heq, hlen, _⟩ := this
  simp [SliceAppend, Cfg.current] at heq
  rw [← heq.2] at hlen
  simp at hlen

/-- **Unchanged tree, defect #5.** `append(a[:1], a[2:]...)` on a 4-byte slice (`a` at address 1): `memcpy(2, 3, 2)`
    is called on intersecting ranges — undefined behaviour in C. -/
theorem append_spec_overlap_counterexample : ¬ AppendSpecAll Cfg.current := by
  intro h
  have := h nextslicecap ⟨fun _ => 0, 6⟩ ⟨1, 1, 4⟩ 3 2 1 nextslicecap_ge' (by decide) (by decide)
    ⟨by decide, by decide, by decide, by decide⟩ (by decide)
  obtain ⟨m', s', heq, _⟩ := this
  simp [SliceAppend, GrowSlice, Cfg.current, memcpy, overlaps, advance] at heq

/-- the two things the unchanged `SliceAppend` needs from its input (both decidable): a non-zero element size, and —
    only when the result shares storage — appended values that do not intersect the window they are written to -/
def AppendSafe (s : Slice) (data : Nat) (num esz : Int) : Prop :=
  esz ≠ 0 ∧ (s.len + num ≤ s.cap → ¬ overlaps (s.data + (s.len * esz).toNat) data (num * esz).toNat)

instance (s : Slice) (data : Nat) (num esz : Int) : Decidable (AppendSafe s data num esz) := by
  unfold AppendSafe; infer_instance

/-- **append, unchanged tree**, under `AppendSafe`. -/
theorem append_spec_partial (pol : Int → Int → Int) (m : Mem) (s : Slice) (data : Nat) (num esz : Int)
    (hpol : ∀ a b, a ≤ pol a b) (hesz : 0 ≤ esz) (hnum : 0 ≤ num) (hwf : WF m s esz)
    (hsrc : data + (num * esz).toNat ≤ m.next) (hsafe : AppendSafe s data num esz) :
    AppendSpec Cfg.current pol m s data num esz :=
  append_ok Cfg.current pol m s data num esz hpol hesz hnum hwf hsrc (Or.inr hsafe.1) (Or.inr hsafe.2)

/-- non-vacuity: an 8-byte-element slice of length 2, capacity 4 at address 1, appended values elsewhere (address 40) -/
example : WF ⟨fun _ => 0, 64⟩ ⟨1, 2, 4⟩ 8 ∧ 40 + ((2 : Int) * 8).toNat ≤ 64 ∧ AppendSafe ⟨1, 2, 4⟩ 40 2 8 :=
  ⟨⟨by decide, by decide, by decide, by decide⟩, by decide, by decide⟩

/-- the real growth policy returns enough room: **`newLen ≤ nextslicecap newLen oldCap` for all integers**
    (the loop's termination — at least +192 per iteration — is part of the definition of `capLoop`) -/
theorem nextslicecap_ge (newLen oldCap : Int) : newLen ≤ nextslicecap newLen oldCap :=
  nextslicecap_ge' newLen oldCap

/-- on the model's domain the loop's exit test `uint(newcap) >= uint(newLen)` is the signed comparison the model uses -/
theorem uint_cmp_domain (a b : Int) (ha : 0 ≤ a) (ha' : a < 2 ^ 63) (hb : 0 ≤ b) (hb' : b < 2 ^ 63) :
    (a % 2 ^ 64 ≥ b % 2 ^ 64) ↔ a ≥ b := uint_cmp_domain' a b ha ha' hb hb'

example : (0 : Int) ≤ 448 ∧ (448 : Int) < 2 ^ 63 ∧ (0 : Int) ≤ 300 ∧ (300 : Int) < 2 ^ 63 := by decide

/-- with the code's own policy (`nextslicecap`) — repaired code -/
theorem append_spec_nextslicecap (m : Mem) (s : Slice) (data : Nat) (num esz : Int)
    (hesz : 0 ≤ esz) (hnum : 0 ≤ num) (hwf : WF m s esz) (hsrc : data + (num * esz).toNat ≤ m.next) :
    AppendSpec Cfg.fixed nextslicecap m s data num esz :=
  append_spec_fixed nextslicecap m s data num esz nextslicecap_ge hesz hnum hwf hsrc

example : WF ⟨fun _ => 0, 64⟩ ⟨1, 3, 3⟩ 0 ∧ 1 + ((2 : Int) * 0).toNat ≤ 64 :=
  ⟨⟨by decide, by decide, by decide, by decide⟩, by decide⟩

/-! ## copy -/

/-- **copy**: `min(len(dst), len(src))` elements are moved; the destination then holds the source bytes *as they
    were before the call* (so overlapping ranges are handled); nothing else changes.  Every element size ≥ 0. -/
theorem copy_spec (m : Mem) (dst : Slice) (data : Nat) (num esz : Int) (hesz : 0 ≤ esz) :
    (SliceCopy m dst data num esz).2 = min dst.len num ∧
    (SliceCopy m dst data num esz).1.read dst.data ((min dst.len num) * esz).toNat
      = m.read data ((min dst.len num) * esz).toNat ∧
    (∀ a, ¬ (dst.data ≤ a ∧ a < dst.data + ((min dst.len num) * esz).toNat) →
      (SliceCopy m dst data num esz).1.bytes a = m.bytes a) ∧
    (SliceCopy m dst data num esz).1.next = m.next :=
  copy_spec' m dst data num esz hesz

example : (0 : Int) ≤ 24 := by decide

/-! ## slice expressions -/

/-- **`base[i:j:k]`**: panics iff `¬ (0 ≤ i ≤ j ≤ k ≤ cap)`; otherwise `len = j - i`, `cap = k - i` and the window starts
    `i` elements into the base (for an empty window, `k = i`, the base pointer is kept). -/
theorem slice3_spec (base : Nat) (esz cap i j k : Int) :
    (NewSlice3 base esz cap i j k = .error .panic ↔ ¬ (0 ≤ i ∧ i ≤ j ∧ j ≤ k ∧ k ≤ cap)) ∧
    (0 ≤ i ∧ i ≤ j ∧ j ≤ k ∧ k ≤ cap →
      ∃ s, NewSlice3 base esz cap i j k = .ok s ∧ s.len = j - i ∧ s.cap = k - i ∧
        (s.data = advance base (i * esz) ∨ (s.cap = 0 ∧ s.data = base))) := by
  constructor
  · constructor
    · intro h hc; rw [slice3_ok base esz cap i j k hc] at h; cases h
    · exact slice3_panic base esz cap i j k
  · intro h
    refine ⟨_, slice3_ok base esz cap i j k h, rfl, rfl, ?_⟩
    by_cases hk : k - i > 0
    · left; simp only; rw [if_pos hk]
    · right; simp only; rw [if_neg hk]; exact ⟨by omega, rfl⟩

/-- the elements of `base[i:j:k]` are the elements `i … j-1` of the base's capacity window -/
theorem slice3_window (m : Mem) (base : Nat) (esz cap i j k : Int) (hesz : 0 ≤ esz)
    (h : 0 ≤ i ∧ i ≤ j ∧ j ≤ k ∧ k ≤ cap) (s : Slice) (hs : NewSlice3 base esz cap i j k = .ok s) :
    view m s esz = ((m.read base (cap * esz).toNat).drop (i * esz).toNat).take ((j - i) * esz).toNat :=
  slice3_window' m base esz cap i j k hesz h s hs

example : (0 : Int) ≤ 1 ∧ (1 : Int) ≤ 2 ∧ (2 : Int) ≤ 3 ∧ (3 : Int) ≤ 4 ∧
    NewSlice3 10 8 4 1 2 3 = .ok ⟨18, 1, 2⟩ :=
  ⟨by decide, by decide, by decide, by decide, by simp [NewSlice3, advance]⟩

/-! ## make, clear -/

/-- **make**: a fresh, zeroed, well-formed slice; memory allocated before is untouched; out-of-range lengths panic. -/
theorem makeSlice_spec (m : Mem) (len cap esz : Int) :
    ((len < 0 ∨ len > cap) → MakeSlice m len cap esz = .error .panic) ∧
    (0 ≤ len ∧ len ≤ cap → 0 ≤ esz → cap < 2 ^ 63 ∧ esz < 2 ^ 63 → cap * esz ≤ 2 ^ 48 →
      ∃ m', MakeSlice m len cap esz = .ok (m', ⟨m.next, len, cap⟩) ∧
        (∀ i, i < (cap * esz).toNat → m'.bytes (m.next + i) = 0) ∧
        (∀ a, a < m.next → m'.bytes a = m.bytes a) ∧ WF m' ⟨m.next, len, cap⟩ esz) :=
  ⟨makeSlice_panic m len cap esz, makeSlice_ok m len cap esz⟩

example : (0 : Int) ≤ 3 ∧ (3 : Int) ≤ 5 ∧ (5 : Int) * 24 ≤ 2 ^ 48 := by decide

/-- **clear**: exactly the `len` elements are zeroed -/
theorem clear_spec (m : Mem) (s : Slice) (esz : Nat) (h0 : 0 ≤ s.len) (hb : s.len * esz < 2 ^ 64) :
    (∀ i, i < (s.len * esz).toNat → (SliceClear m s esz).bytes (s.data + i) = 0) ∧
    (∀ a, ¬ (s.data ≤ a ∧ a < s.data + (s.len * esz).toNat) → (SliceClear m s esz).bytes a = m.bytes a) :=
  clear_spec' m s esz h0 hb

example : (0 : Int) ≤ 7 ∧ (7 : Int) * (3 : Nat) < 2 ^ 64 := by decide

/-! ## UTF-8 -/

/-- **decode ∘ encode = id** on every Unicode scalar value, whatever follows it -/
theorem decode_encode (r : Nat) (rest : List Nat) (h : validScalar r) :
    nextRune (encodeRune r ++ rest) = (r, width r) ∧ (encodeRune r).length = width r ∧
    (0x80 ≤ r → decodeRune (encodeRune r ++ rest) = (r, width r)) :=
  ⟨next_encode r rest h, encode_length r h, decode_encode' r rest h⟩

example : validScalar 0x20AC ∧ validScalar 0 ∧ validScalar 0x10FFFF ∧ ¬ validScalar 0xD800 := by decide

/-- **every byte string decodes** to `(U+FFFD, 1)` or to a valid non-ASCII scalar whose canonical encoding is exactly
    the consumed bytes (no overlong forms, no surrogates, nothing above U+10FFFF); the width is never 0 -/
theorem decode_invalid (s : List Nat) : DecodeOk s (decodeRune s) ∧ 1 ≤ (decodeRune s).2 ∧ 1 ≤ (nextRune s).2 :=
  ⟨decode_invalid' s, decode_width_pos s, next_width_pos s⟩

/-- **`[]rune(string(rs)) = rs`** for valid scalars -/
theorem toRunes_fromRunes (rs : List Nat) (h : ∀ r ∈ rs, validScalar r) :
    StringToRunes (StringFromRunes (rs.map Int.ofNat)) = rs := by
  have hm : (rs.map Int.ofNat).map u32 = rs := by
    rw [List.map_map]
    conv => rhs; rw [← List.map_id rs]
    apply List.map_congr_left
    intro r hr
    have := (validScalar_iff r).1 (h r hr)
    simp only [Function.comp, id]
    rw [u32_of_nonneg _ (by simp) (by simp; omega)]
    simp
  unfold StringToRunes StringFromRunes
  rw [hm]
  exact toRunes_fromRunes' rs h

example : ∀ r ∈ [0x41, 0x20AC, 0x1F600, 0], validScalar r := by decide

/-- **range iteration**: `StringIterNext`, called until it reports exhaustion, enumerates exactly the decode sequence of
    the string with the byte offset of every rune; that sequence is unique and its runes are `[]rune(s)` -/
theorem iter_spec (s : List Nat) :
    Enumerates 0 s (iterAll s) ∧ (∀ l, Enumerates 0 s l → l = iterAll s) ∧
    (iterAll s).map (·.2) = StringToRunes s :=
  ⟨iter_spec' s, fun _ hl => Enumerates.unique hl (iter_spec' s), iterAll_runes s⟩

/-! ## string comparison, slicing, conversion from integers -/

/-- **`StringLess` is the lexicographic strict order on bytes**: irreflexive, transitive, total together with equality,
    and equal to Lean's lexicographic `<` on lists -/
theorem stringLess (x y z : List Nat) :
    StringLess x x = false ∧
    (StringLess x y = true → StringLess y z = true → StringLess x z = true) ∧
    (StringLess x y = true ∨ x = y ∨ StringLess y x = true) ∧
    (StringLess x y = true ↔ x < y) :=
  ⟨less_irrefl x, less_trans x y z, less_total x y, less_iff_lt x y⟩

example : StringLess [0x61] [0x61, 0x62] = true ∧ StringLess [0xFF] [0x61, 0x62] = false := by decide

/-- **`StringEqual` is equality of byte sequences** -/
theorem stringEqual (x y : List Nat) : StringEqual x y = true ↔ x = y := equal_iff x y

/-- **`s[i:j]`** on strings: panics iff `¬ (0 ≤ i ≤ j ≤ len)`, else the bytes `i … j-1` -/
theorem stringSlice_spec (base : List Nat) (i j : Int) :
    StringSlice base i j =
      if 0 ≤ i ∧ i ≤ j ∧ j ≤ base.length then .ok ((base.drop i.toNat).take (j - i).toNat) else .error .panic :=
  stringSlice_spec' base i j

/-- **`s + t`** -/
theorem stringCat_spec (a b : List Nat) : StringCat a b = a ++ b ∧ (StringCat a b).length = a.length + b.length :=
  ⟨rfl, by simp [StringCat]⟩

/-- **`string(i)`**: the UTF-8 encoding of `i` when it is a Unicode scalar value, else U+FFFD (`EF BF BD`) — negative
    values, surrogates and values above U+10FFFF included; for signed, unsigned and `rune` operands -/
theorem stringFromInt (r : Int) (u : Nat) :
    StringFromInt64 r = (if 0 ≤ r ∧ validScalar r.toNat then encodeRune r.toNat else [0xEF, 0xBF, 0xBD]) ∧
    StringFromUint64 u = (if validScalar u then encodeRune u else [0xEF, 0xBF, 0xBD]) ∧
    ((-2 ^ 31 ≤ r ∧ r < 2 ^ 31) →
      StringFromRune r = if 0 ≤ r ∧ validScalar r.toNat then encodeRune r.toNat else [0xEF, 0xBF, 0xBD]) ∧
    encodeRune runeError = [0xEF, 0xBF, 0xBD] :=
  ⟨stringFromInt64_spec' r, stringFromUint64_spec' u, stringFromRune_spec' r, encode_runeError⟩

example : (-2 ^ 31 ≤ (-1 : Int) ∧ (-1 : Int) < 2 ^ 31) ∧ StringFromInt64 0xD800 = [0xEF, 0xBF, 0xBD] ∧
    StringFromInt64 (-7) = [0xEF, 0xBF, 0xBD] ∧ StringFromInt64 0x20AC = [0xE2, 0x82, 0xAC] := by decide

/-! ## machine integers: no wrapped size is ever allocated -/

/-- **`MakeSlice` on all of int64**: the call succeeds iff `0 ≤ len ≤ cap` and the TRUE byte size `cap·etSize` is at
    most `maxAlloc = 2^48` (the `math.MulUintptr` overflow flag and the `uintptr` conversions never let a wrapped
    product through), and the block it allocates then has exactly the true size; everything else panics -/
theorem makeSlice_exact (m : Mem) (len cap esz : Int) (hc : InI64 cap) (he : 0 ≤ esz ∧ esz < 2 ^ 63) :
    (0 ≤ len ∧ len ≤ cap ∧ cap * esz ≤ 2 ^ 48 →
      MakeSlice m len cap esz = .ok ((allocZ m (cap * esz).toNat).2, ⟨m.next, len, cap⟩)) ∧
    (¬ (0 ≤ len ∧ len ≤ cap ∧ cap * esz ≤ 2 ^ 48) → MakeSlice m len cap esz = .error .panic) :=
  makeSlice_exact' m len cap esz hc he

example : InI64 (2 ^ 61) ∧ (0 : Int) ≤ 8 ∧ (8 : Int) < 2 ^ 63 ∧ ¬ ((0 : Int) ≤ 1 ∧ (1 : Int) ≤ 2 ^ 61 ∧ (2 : Int) ^ 61 * 8 ≤ 2 ^ 48) := by
  decide

/-- **`nextslicecap` on int64** (loop `newcap += (newcap + 768) >> 2` with wrap-around, unsigned exit test, the
    `newcap <= 0` overflow test): for every positive `newLen` and every old capacity `≥ 0` the function terminates and
    returns a representable capacity `≥ newLen` — never a wrapped or negative one -/
theorem nextslicecap64_spec (newLen oldCap : Int) (hL : 0 < newLen ∧ newLen < 2 ^ 63) (hc : 0 ≤ oldCap ∧ oldCap < 2 ^ 63) :
    ∃ r, nextslicecap64 newLen oldCap = some r ∧ newLen ≤ r ∧ r < 2 ^ 63 :=
  nextslicecap64_spec' newLen oldCap hL hc

example : (0 : Int) < 2 ^ 63 - 5 ∧ (2 : Int) ^ 63 - 5 < 2 ^ 63 ∧ (0 : Int) ≤ 2 ^ 62 - 1 ∧ (2 : Int) ^ 62 - 1 < 2 ^ 63 := by decide

/-- up to `2^62` the int64 policy is the mathematical one of `Model/Slice.lean` (`nextslicecap_ge` applies) -/
theorem nextslicecap64_eq (newLen oldCap : Int) (hL : 0 < newLen ∧ newLen ≤ 2 ^ 62) (hc : 0 ≤ oldCap ∧ oldCap < newLen) :
    nextslicecap64 newLen oldCap = some (nextslicecap newLen oldCap) :=
  nextslicecap64_eq' newLen oldCap hL hc

example : (0 : Int) < 300 ∧ (300 : Int) ≤ 2 ^ 62 ∧ (0 : Int) ≤ 256 ∧ (256 : Int) < 300 := by decide

/-- **`GrowSlice` on int64**: for every slice and count that can exist (`GrowLegit`; zero-size elements with lengths up
    to `2^63 - 1` included) in allocated memory, when the true new length is representable: the call succeeds with
    `len' = len + num`, a representable `cap' ≥ len'`, the old storage iff the capacity sufficed, and — when it grows —
    a block of exactly the TRUE size `cap'·etSize` (no product wraps) -/
theorem growSlice64_spec (lc : Bool) (m : Mem) (s : Slice) (num esz : Int) (h : GrowLegit s num esz)
    (hwf : WF m s esz) (hsum : s.len + num < 2 ^ 63) :
    ∃ m' s', GrowSlice64 lc m s num esz = .ok (m', s') ∧ s'.len = s.len + num ∧ s'.len ≤ s'.cap ∧ s'.cap < 2 ^ 63 ∧
      (s'.data = s.data ↔ s.len + num ≤ s.cap) ∧
      (s.len + num ≤ s.cap → m' = m ∧ s'.cap = s.cap) ∧
      (s.len + num > s.cap → s'.data = m.next ∧ m'.next = m.next + (s'.cap * esz).toNat + 1) :=
  growSlice64_spec' lc m s num esz h hwf hsum

/-- non-vacuity: 2^62 zero-size elements plus 2^62 - 1 more (true sum 2^63 - 1), and an ordinary 24-byte-element slice -/
example : GrowLegit ⟨1, 2 ^ 62, 2 ^ 62⟩ (2 ^ 62 - 1) 0 ∧ WF ⟨fun _ => 0, 2⟩ ⟨1, 2 ^ 62, 2 ^ 62⟩ 0 ∧
    ((2 : Int) ^ 62 + (2 ^ 62 - 1) < 2 ^ 63) ∧ GrowLegit ⟨1, 3, 4⟩ 2 24 ∧ WF ⟨fun _ => 0, 200⟩ ⟨1, 3, 4⟩ 24 :=
  ⟨by decide, ⟨by decide, by decide, by decide, by decide⟩, by decide, by decide,
   ⟨by decide, by decide, by decide, by decide⟩⟩

/-- **bridge**: for new lengths up to `2^62` the int64 `GrowSlice` / `SliceAppend` ARE the mathematical-integer
    functions of `Model/Slice.lean` with the code's own policy, so every theorem above about `SliceAppend Cfg.fixed`
    is a theorem about the machine-level function -/
theorem growSlice64_eq_model (lc : Bool) (m : Mem) (s : Slice) (num esz : Int) (h : GrowLegit s num esz)
    (hL : s.len + num ≤ 2 ^ 62) :
    GrowSlice64 lc m s num esz = lift64 (GrowSlice nextslicecap m s num esz) :=
  growSlice64_eq_model' lc m s num esz h hL

theorem sliceAppend64_eq_model (lc : Bool) (m : Mem) (s : Slice) (data : Nat) (num esz : Int)
    (h : GrowLegit s num esz) (hL : s.len + num ≤ 2 ^ 62) :
    SliceAppend64 lc m s data num esz = lift64 (SliceAppend Cfg.fixed nextslicecap m s data num esz) :=
  sliceAppend64_eq_model' lc m s data num esz h hL

example : GrowLegit ⟨1, 3, 4⟩ 2 24 ∧ ((3 : Int) + 2 ≤ 2 ^ 62) := by decide

/-- **append on int64**: the full `append` statement for the machine-level function -/
theorem append64_spec (lc : Bool) (m : Mem) (s : Slice) (data : Nat) (num esz : Int) (h : GrowLegit s num esz)
    (hL : s.len + num ≤ 2 ^ 62) (hwf : WF m s esz) (hsrc : data + (num * esz).toNat ≤ m.next) :
    ∃ m' s', SliceAppend64 lc m s data num esz = .ok (m', s') ∧
      s'.len = s.len + num ∧ s'.len ≤ s'.cap ∧
      view m' s' esz = view m s esz ++ m.read data (num * esz).toNat ∧
      (s'.data = s.data ↔ s.len + num ≤ s.cap) ∧
      (∀ a, a < m.next →
        ¬ (s.len + num ≤ s.cap ∧ s.data + (s.len * esz).toNat ≤ a ∧ a < s.data + ((s.len + num) * esz).toNat) →
        m'.bytes a = m.bytes a) ∧
      WF m' s' esz ∧ m.next ≤ m'.next := by
  obtain ⟨m', s', heq, rest⟩ := append_spec_nextslicecap m s data num esz h.2.2.2.2.2.1 h.2.2.2.1 hwf hsrc
  refine ⟨m', s', ?_, rest⟩
  rw [sliceAppend64_eq_model lc m s data num esz h hL, heq]; rfl

example : GrowLegit ⟨1, 2, 4⟩ 2 8 ∧ ((2 : Int) + 2 ≤ 2 ^ 62) ∧ WF ⟨fun _ => 0, 64⟩ ⟨1, 2, 4⟩ 8 ∧
    40 + ((2 : Int) * 8).toNat ≤ 64 :=
  ⟨by decide, by decide, ⟨by decide, by decide, by decide, by decide⟩, by decide⟩

/-- **Unchanged tree, finding 4.** `s := make([]struct{}, 1<<62); s = append(s, s...); append(s, s...)`-style growth:
    `newLen = 2^62 + 2^62` wraps to `-2^63`, the test `newLen > cap` is false, and `GrowSlice` returns a slice of length
    `-2^63` instead of panicking (Go: "growslice: len out of range"). -/
theorem growSlice64_len_overflow_counterexample : ¬ GrowLenFull false := by
  intro h
  have := h ⟨fun _ => 0, 2⟩ ⟨1, 2 ^ 62, 2 ^ 62⟩ (2 ^ 62) 0 (by decide) ⟨by decide, by decide, by decide, by decide⟩
  rcases this with ⟨heq, _⟩ | ⟨m', s', heq, hlen, _⟩
  · simp [GrowSlice64, wrap] at heq
  · simp [GrowSlice64, wrap] at heq
    rw [← heq.2] at hlen
    simp at hlen

/-- with `fixes/C05-3.diff` (`if newLen < 0 { panic }`) the full statement holds -/
theorem growSlice64_len_fixed : GrowLenFull true := growSlice64_len_fixed'

/-- unchanged tree, under the decidable hypothesis that the true new length is representable -/
theorem growSlice64_len_partial (m : Mem) (s : Slice) (num esz : Int) (h : GrowLegit s num esz) (hwf : WF m s esz)
    (hsum : s.len + num < 2 ^ 63) :
    ∃ m' s', GrowSlice64 false m s num esz = .ok (m', s') ∧ s'.len = s.len + num ∧ s'.len ≤ s'.cap := by
  obtain ⟨m', s', heq, hl, hc, _⟩ := growSlice64_spec false m s num esz h hwf hsum
  exact ⟨m', s', heq, hl, hc⟩

example : GrowLegit ⟨1, 2 ^ 62, 2 ^ 62⟩ 5 0 ∧ WF ⟨fun _ => 0, 2⟩ ⟨1, 2 ^ 62, 2 ^ 62⟩ 0 ∧ ((2 : Int) ^ 62 + 5 < 2 ^ 63) :=
  ⟨by decide, ⟨by decide, by decide, by decide, by decide⟩, by decide⟩

/-! ## strings over the heap: conversions copy, slicing shares -/

/-- **`string(b)` copies**: the result holds the slice's bytes in a fresh block (it starts at the first address that
    was never allocated), memory allocated before is untouched, and NO later write into memory that existed before the
    call — in particular into `b`'s own array — changes the string -/
theorem bytes_to_string_copies (m : Mem) (b : Slice) (hwf : WF m b 1) (hcap : b.cap < 2 ^ 63) :
    ∃ m' s, StringFromBytesH m b = .ok (m', s) ∧ s.len = b.len ∧ strBytes m' s = view m b 1 ∧
      (b.len ≠ 0 → s.data = m.next) ∧ (∀ a, a < m.next → m'.bytes a = m.bytes a) ∧
      (∀ a bs, a + bs.length ≤ m.next → strBytes (m'.blit a bs) s = strBytes m' s) := by
  obtain ⟨h0, h1, h2, h3⟩ := hwf
  simp only [Int.mul_one] at h3
  by_cases hz : b.len = 0
  · refine ⟨m, ⟨0, 0⟩, by simp [StringFromBytesH, StringFrom, hz], hz.symm, ?_, fun h => absurd hz h, fun _ _ => rfl, ?_⟩
    · simp [strBytes, view, hz, Mem.read]
    · intro a bs _; simp [strBytes, Mem.read]
  · obtain ⟨m', heq, hb, hfr, _⟩ := stringFrom_spec m b.data b.len ⟨by omega, by omega⟩ (by omega)
    refine ⟨m', _, heq, rfl, ?_, fun _ => rfl, hfr, ?_⟩
    · rw [hb]; simp [view]
    · intro a bs ha
      apply strBytes_agree
      intro i _
      exact blit_bytes_out _ _ _ _ (by simp only; omega)

example : WF ⟨fun _ => 7, 64⟩ ⟨10, 3, 5⟩ 1 ∧ (5 : Int) < 2 ^ 63 := ⟨⟨by decide, by decide, by decide, by decide⟩, by decide⟩

/-- **`[]byte(s)` never aliases `s`**: the result is a fresh slice (`len = cap = len(s)`) holding the string's bytes;
    `s` and everything else allocated before are untouched, and no later write through the result (any address from
    the fresh block on) changes `s` -/
theorem string_to_bytes_fresh (m : Mem) (s : Str) (hs : SWF m s) (hmax : s.len ≤ 2 ^ 48) :
    ∃ m' d, StringToBytesH m s = .ok (m', d) ∧ d.len = s.len ∧ d.cap = s.len ∧ view m' d 1 = strBytes m s ∧
      (s.len ≠ 0 → d.data = m.next) ∧ (∀ a, a < m.next → m'.bytes a = m.bytes a) ∧
      (∀ a bs, m.next ≤ a → strBytes (m'.blit a bs) s = strBytes m s) := by
  by_cases hz : s.len = 0
  · refine ⟨m, ⟨0, 0, 0⟩, by simp [StringToBytesH, hz], hz.symm, hz.symm, ?_, fun h => absurd hz h, fun _ _ => rfl, ?_⟩
    · simp [strBytes, view, hz, Mem.read]
    · intro a bs _; simp [strBytes, hz, Mem.read]
  · obtain ⟨m', heq, hv, hfr, _⟩ := stringToBytes_spec m s hs (by have := hs.len_nonneg; omega) hmax
    refine ⟨m', _, heq, rfl, rfl, hv, fun _ => rfl, hfr, ?_⟩
    intro a bs ha
    apply strBytes_agree
    intro i hi
    have := hs.inb
    rw [blit_bytes_out _ _ _ _ (by omega), hfr _ (by omega)]

example : SWF ⟨fun _ => 7, 64⟩ ⟨10, 3⟩ ∧ (3 : Int) ≤ 2 ^ 48 := ⟨⟨by decide, by decide, by decide⟩, by decide⟩

/-- **`s[i:j]` shares**: it panics iff `¬ (0 ≤ i ≤ j ≤ len)`; otherwise nothing is allocated or copied, the result has
    length `j - i`, starts `i` bytes into `s` (a non-empty result always does), and in EVERY memory its bytes are the
    bytes `i … j-1` of `s` — so it computes the byte-list `StringSlice` of the ordering/UTF-8 theorems -/
theorem string_slice_shares (base : Str) (i j : Int) (hb : 0 ≤ base.len) :
    (StringSliceH base i j = .error .panic ↔ ¬ (0 ≤ i ∧ i ≤ j ∧ j ≤ base.len)) ∧
    (0 ≤ i ∧ i ≤ j ∧ j ≤ base.len →
      ∃ r, StringSliceH base i j = .ok r ∧ r.len = j - i ∧ (i < base.len → r.data = base.data + i.toNat) ∧
        ∀ m, strBytes m r = ((strBytes m base).drop i.toNat).take (j - i).toNat ∧
             StringSlice (strBytes m base) i j = .ok (strBytes m r)) := by
  constructor
  · constructor
    · intro h hc
      obtain ⟨r, hr, _⟩ := stringSliceH_ok base i j hc
      rw [hr] at h; cases h
    · exact stringSliceH_panic base i j
  · intro h
    obtain ⟨r, hr, hl, hd, _⟩ := stringSliceH_ok base i j h
    refine ⟨r, hr, hl, hd, fun m => ?_⟩
    have hbytes := stringSliceH_bytes base i j h r hr m
    refine ⟨hbytes, ?_⟩
    rw [stringSlice_spec, if_pos (by rw [strBytes_length]; omega), hbytes]

example : (0 : Int) ≤ 5 ∧ ((0 : Int) ≤ 1 ∧ (1 : Int) ≤ 3 ∧ (3 : Int) ≤ 5) ∧ StringSliceH ⟨10, 5⟩ 1 3 = .ok ⟨11, 2⟩ :=
  ⟨by decide, by decide, by simp [StringSliceH, advance]⟩

/-- **`s + t` copies both operands** into one fresh block (also when they alias or overlap each other): no `memcpy`
    on intersecting ranges, the result is the byte-list concatenation, earlier memory is untouched -/
theorem stringCat_heap (m : Mem) (a b : Str) (ha : SWF m a) (hb : SWF m b) (hsum : a.len + b.len < 2 ^ 63) :
    ∃ m', StringCatH m a b = .ok (m', ⟨m.next, a.len + b.len⟩) ∧
      strBytes m' ⟨m.next, a.len + b.len⟩ = StringCat (strBytes m a) (strBytes m b) ∧
      (∀ x, x < m.next → m'.bytes x = m.bytes x) ∧ m'.next = m.next + (a.len + b.len).toNat + 1 :=
  stringCatH_spec m a b ha hb hsum

example : SWF ⟨fun _ => 7, 64⟩ ⟨10, 3⟩ ∧ SWF ⟨fun _ => 7, 64⟩ ⟨11, 4⟩ ∧ ((3 : Int) + 4 < 2 ^ 63) :=
  ⟨⟨by decide, by decide, by decide⟩, ⟨by decide, by decide, by decide⟩, by decide⟩

/-! ## C strings -/

/-- **`CStrCopy` writes exactly `len + 1` bytes**: the string's bytes (embedded NULs included) followed by one NUL;
    every other byte of memory keeps its value (no overrun of the destination) -/
theorem cstrCopy_exact (m : Mem) (dest : Nat) (s : Str) (hs : SWF m s) (hno : ¬ overlaps dest s.data s.len.toNat) :
    ∃ m', CStrCopy m dest s = .ok (m', dest) ∧
      m'.read dest (s.len.toNat + 1) = strBytes m s ++ [0] ∧
      (∀ x, ¬ (dest ≤ x ∧ x < dest + s.len.toNat + 1) → m'.bytes x = m.bytes x) ∧ m'.next = m.next :=
  cstrCopy_spec m dest s hs hno

example : SWF ⟨fun _ => 7, 64⟩ ⟨10, 3⟩ ∧ ¬ overlaps 20 10 3 := ⟨⟨by decide, by decide, by decide⟩, by decide⟩

/-- **Go string → C string → Go string.**  `CStrDup(s)` returns a fresh block holding all bytes of `s` and a
    terminating NUL; `StringFromCStr` of it is a fresh Go string holding the bytes of `s` BEFORE ITS FIRST NUL BYTE
    (`takeWhile (· ≠ 0)`): byte for byte `s` itself when `s` contains no NUL, a proper prefix otherwise.  Memory
    allocated before is untouched; the result does not alias the C buffer. -/
theorem cstr_roundtrip (m : Mem) (s : Str) (hm : 0 < m.next) (hs : SWF m s) :
    ∃ m1 p, CStrDup m s = .ok (m1, p) ∧ p = m.next ∧
      m1.read p (s.len.toNat + 1) = strBytes m s ++ [0] ∧
      ∃ m2 t, StringFromCStr m1 p = .ok (m2, t) ∧
        strBytes m2 t = (strBytes m s).takeWhile (· != 0) ∧
        (t.len ≠ 0 → t.data = m1.next) ∧
        (∀ x, x < m1.next → m2.bytes x = m1.bytes x) ∧ (∀ x, x < m.next → m2.bytes x = m.bytes x) :=
  cstr_roundtrip' m s hm hs

/-- the round trip is the identity exactly on NUL-free strings -/
theorem cstr_roundtrip_nonul (B : List Nat) :
    (B.takeWhile (· != 0) = B ↔ ∀ x ∈ B, x ≠ 0) ∧ (B.takeWhile (· != 0)).length ≤ B.length ∧
    B.takeWhile (· != 0) = B.take (B.takeWhile (· != 0)).length := by
  refine ⟨⟨fun h x hx => ?_, takeWhile_nonul B⟩, (takeWhile_facts B).1, (takeWhile_facts B).2.2.2⟩
  rw [← h] at hx
  exact mem_takeWhile_ne B x hx

/-- non-vacuity, and the two behaviours on concrete strings: "ab" survives, "a\0b" comes back as "a" -/
example : (0 : Nat) < 64 ∧ SWF ⟨fun _ => 7, 64⟩ ⟨10, 3⟩ ∧ [0x61, 0x62].takeWhile (· != 0) = [0x61, 0x62] ∧
    [0x61, 0, 0x62].takeWhile (· != 0) = [0x61] := ⟨by decide, ⟨by decide, by decide, by decide⟩, by decide, by decide⟩

/-- `StringFromCStr(nil)` is the empty string -/
theorem stringFromCStr_nil (m : Mem) : StringFromCStr m 0 = .ok (m, ⟨0, 0⟩) := by simp [StringFromCStr]

end LlgoVerif.Slice
