"""C13 — builds are reproducible and the build cache never serves stale code.

Lean: LlgoVerif/Model/Cache.lean, Lemmas/Cache.lean, Props/C13.lean (cache_sound by induction over histories under
KeyCovers; the model mirrors two variants of the fingerprint code (Cfg: content hashes in file digests, CCFLAGS/CFLAGS/
LDFLAGS among the env inputs); KeyCovers is false for both (side files, embed files; for Cfg.legacy also same-size edits
and the compiler environment): kernel-checked counterexamples; keyCovers_partial (legacy, four hypotheses),
keyCovers_partial_fixed / cache_sound_fixed (two hypotheses); emission order independence).
The check probes which variant the working tree has (probe_variant) and drives modeld_c13 with it.

Tie B-O: harness/c13 runs the REAL collectFingerprint (overlay accessor in internal/build) on synthetic package
records; its decoded manifest is compared field by field with the model's `key`, and the collision relation of the
real fingerprints (sha256 of the manifest) with the collision relation of the model keys.
Tie B-E (the property's direct check): edit/rebuild histories over generated multi-package modules with a private
cache directory per history; after every step the program built through the cache must print what a clean build
(fresh cache) of the current inputs prints.  Twice-built IR (-gen-llfiles, two fresh caches) is byte-compared.
Tie B-O (artifacts): generated (link arguments, NeedRt, NeedPyInit, archive bytes) through the REAL saveToCache + tryLoadFromCache;
spec = identity (Props roundtrip_necessary: anything else makes the no-op rebuild differ from the clean build); the Lean model's
loadArtifact (storeArtifact a) answers the same request.  Tie B-I (entry module): generated programs compiled repeatedly through
the ssa API, type list requested as genMainModule does (real filterAbiSymbol): spec = byte-identical IR every time; the emitted
order must be the model's abiTypeNames (abiTypeNames_listing: THE strictly increasing listing of the selected descriptors)."""
import copy
import difflib
import glob
import hashlib
import random
import re
import shutil
import time

from vlib.common import *
from vlib.e2e import build_llgo, llgo_env, run_prog, E2E

run_cmd = run      # vlib.common.run (this module defines the check's own `run` below)

KNOWN_CLASSES = {
    "mtime": "cache:same-size-edit-preserved-mtime",
    "side": "cache:llgofiles-c-side-file",
    "ccflags": "cache:ccflags-env",
    "embed": "cache:embed-file",
}

LISTED = ["LLGO_DEBUG", "LLGO_DEBUG_SYMBOLS", "LLGO_TRACE", "LLGO_OPTIMIZE", "LLGO_WASM_RUNTIME", "LLGO_WASI_THREADS",
          "LLGO_STDIO_NOBUF", "LLGO_FULL_RPATH"]


# ------------------------------------------------------------------------------------------ protocol encoding
def hx(s):
    if isinstance(s, str):
        s = s.encode("utf-8")
    return s.hex() if s else "-"


def hlist(l):
    return ",".join(hx(x) for x in l) if l else "."


def hkv(items):
    return ",".join(hx(k) + "=" + hx(v) for k, v in items) if items else "."


class F:
    """a file: path, content, mtime (ns), overlay content or None, build-tag constraint (tag, positive) or None"""

    def __init__(self, path, content, mtime, overlay=None, tag=None):
        self.path, self.content, self.mtime, self.overlay, self.tag = path, content, mtime, overlay, tag

    def enc(self, with_tag):
        s = "%s:%s:%d:%s" % (hx(self.path), hx(self.content), self.mtime, "~" if self.overlay is None else hx(self.overlay))
        if getattr(self, "link", False) and not with_tag:
            s += ":L"        # harness only (symlink_tie): `path` is a symbolic link, content and mtime are its target's
        if with_tag:
            s += ":%s:%s" % (("~", "0") if self.tag is None else (hx(self.tag[0]), "1" if self.tag[1] else "0"))
        return s


def hfiles(fs, with_tag=False, none_mark="."):
    if fs is None:
        return none_mark
    return ",".join(f.enc(with_tag) for f in fs) if fs else "."


def effective_tags(g):
    """build.go Do: llgo,math_big_pure_go,purego[,llgo_abi_2],<-tags>   (independent re-statement for the harness side)"""
    t = ["llgo", "math_big_pure_go", "purego"]
    if g["abimode"] == 2:
        t.append("llgo_abi_2")
    if g["tags"]:
        t += g["tags"].split(",")
    return t


def selected(g, files):
    et = effective_tags(g)
    return [f for f in files if f.tag is None or ((f.tag[0] in et) == f.tag[1])]


def effective_version(p):
    """collect.go moduleVersion"""
    return {"n": "", "v": p["modver"], "r": p["modver"], "l": ""}[p["modkind"]]


def enc_G(g):
    return "G=" + ";".join([hx(g["goos"]), hx(g["goarch"]), hx(g["target"]), hx(g["targetabi"]), hx(g["triple"]), str(g["abimode"]),
                            str(g["opt"]), hx(g["tags"]), hx(g["chash"]), hx(g["llvmver"]), hx(g["gover"]), hx(g["llgover"]),
                            hx(g["cc"]), hlist(g["ccrest"]), hlist(g["cflags"]), hlist(g["ldflags"]), hx(g["linker"]),
                            hfiles(g["extrafiles"]), hkv(list(g["env"].items()))])


def enc_P(g, p, for_model):
    if for_model:
        ev = effective_version(p)
        gof = hfiles(p["gofiles"], with_tag=True)
        mk, mv = ("v" if ev else "n"), ev
    else:
        gof = hfiles(selected(g, p["gofiles"]))
        mk, mv = p["modkind"], p["modver"]
    return "P=" + ";".join([hx(p["id"]), hx(p["path"]), hx(p["name"]), p.get("kind", "n"), mk, hx(mv), gof,
                            hfiles(p["altfiles"], none_mark="!"), hfiles(p["otherfiles"]), hfiles(p["sidefiles"]),
                            hfiles(p["embedfiles"]), hkv(p["rewrites"]), hlist(p["deps"])])


def enc_prog(g, pkgs, for_model):
    return " ".join([enc_G(g)] + [enc_P(g, p, for_model) for p in pkgs])


def default_G(hello):
    return {"goos": "linux", "goarch": "amd64", "target": "", "targetabi": "", "triple": "", "abimode": 2, "opt": 2, "tags": "",
            "chash": "", "llvmver": "clang version 14", "gover": hello["gover"], "llgover": hello["llgover"], "cc": "clang++",
            "ccrest": ["-Qunused-arguments"], "cflags": [], "ldflags": [], "linker": "", "extrafiles": [], "env": {}}


def default_P(pid, name=None):
    return {"id": pid, "path": pid, "name": name or pid.split("/")[-1], "kind": "n", "modkind": "n", "modver": "", "gofiles": [], "altfiles": None,
            "otherfiles": [], "sidefiles": [], "embedfiles": [], "rewrites": [], "deps": []}


# ------------------------------------------------------------------------------------------ synthetic inputs (tie B-O)
WORDS = ["", "a", "b", "x", "linux", "wasip1", "amd64", "arm64", "rp2040", "lp64", "-O2", "-DK=1", "-DK=2", "-g", "ld.lld", "true", "null",
         "1", "~", "a b", "a,b", "é", "k: v", "#c", "'q'", "-"]


def rword(rng):
    return rng.choice(WORDS)


def rfile(rng, path, mt_base):
    content = bytes(rng.choice(b"01259abc\n ") for _ in range(rng.choice([0, 1, 1, 2, 3, 8])))
    f = F(path, content, mt_base + rng.choice([0, 1000, 1_000_000, 123_456_000]))
    if rng.random() < 0.15:
        f.overlay = bytes(rng.choice(b"xyz0") for _ in range(rng.choice([0, 1, 2, len(content)])))
    return f


def gen_base(rng, hello):
    g = default_G(hello)
    mt = 1_700_000_000_000_000_000
    if rng.random() < 0.5:
        g.update({"target": rng.choice(["", "rp2040", "wasi"]), "targetabi": rng.choice(["", "lp64", "ilp32"]),
                  "triple": rng.choice(["", "x86_64-unknown-linux", "riscv32-unknown-elf"]), "goos": rng.choice(["linux", "wasip1", "darwin"]),
                  "goarch": rng.choice(["amd64", "arm64", "wasm"])})
    g["abimode"] = rng.choice([0, 1, 2, 2])
    g["opt"] = rng.randrange(6)
    g["tags"] = rng.choice(["", "", "tagx", "tagx,nogc", "nogc,tagx", "b,a", ",", "a,,b", "a,a"])
    g["chash"] = rng.choice(["", "deadbeef", "cafe"])
    g["llvmver"] = rng.choice(["clang version 14.0.0", "clang version 19.1.2", "x"])
    g["cc"] = rng.choice(["", "clang++", "/opt/esp/bin/clang++"])
    g["ccrest"] = [rword(rng) for _ in range(rng.randrange(3))]
    g["cflags"] = [rword(rng) for _ in range(rng.randrange(3))]
    g["ldflags"] = [rword(rng) for _ in range(rng.randrange(3))]
    g["linker"] = rng.choice(["", "ld.lld", "avr-ld"])
    g["extrafiles"] = [rfile(rng, "extra/e%d.s" % i, mt) for i in range(rng.choice([0, 0, 1, 2]))]
    env = {}
    for name in LISTED + ["CCFLAGS", "CFLAGS", "LDFLAGS", "VERIF_OTHER"]:
        if rng.random() < 0.2:
            env[name] = rng.choice(["1", "0", "on", "off", "-DK=1", "wasmtime", "x y"])
    g["env"] = env
    npk = rng.choice([1, 2, 3, 4])
    pkgs = []
    for i in range(npk):
        pid = "m/p%d" % i if i < npk - 1 else "m"
        p = default_P(pid, "main" if i == npk - 1 and rng.random() < 0.7 else "p%d" % i)
        d = "p%d" % i
        nf = rng.choice([1, 1, 2, 3])
        order = list(range(nf))
        rng.shuffle(order)
        for j in order:
            f = rfile(rng, "%s/f%d.go" % (d, j), mt)
            if rng.random() < 0.3:
                f.tag = (rng.choice(["tagx", "nogc", "llgo", "llgo_abi_2", "zzz"]), rng.random() < 0.5)
            p["gofiles"].append(f)
        if rng.random() < 0.25:
            p["altfiles"] = [rfile(rng, "alt/%s/a%d.go" % (d, j), mt) for j in range(rng.choice([0, 1, 2]))]
        p["otherfiles"] = [rfile(rng, "%s/o%d.c" % (d, j), mt) for j in range(rng.choice([0, 0, 1, 2]))]
        p["sidefiles"] = [rfile(rng, "%s/_wrap/w%d.c" % (d, j), mt) for j in range(rng.choice([0, 0, 1]))]
        p["embedfiles"] = [rfile(rng, "%s/data%d.txt" % (d, j), mt) for j in range(rng.choice([0, 0, 1]))]
        rw = {}
        for _ in range(rng.choice([0, 0, 1, 3])):
            rw[rng.choice(["V", "W", "Version", "a", "B"])] = rword(rng)
        items = list(rw.items())
        rng.shuffle(items)
        p["rewrites"] = items
        if i < npk - 1:
            # cl.PkgKindOf: normal, decl-only, link-only, external library, Python module, noinit
            p["kind"] = rng.choice(["n", "n", "n", "d", "d", "l", "x", "p", "i"])
        if i < npk - 1 and rng.random() < 0.3:
            p["modkind"] = rng.choice(["v", "r", "l"])
            p["modver"] = rng.choice(["v1.0.0", "v1.2.3", "v0.0.0-2024"])
        deps = [q["id"] for q in pkgs if rng.random() < 0.6]
        rng.shuffle(deps)
        if rng.random() < 0.05:
            deps.append(pid)      # self import (test variants): skipped by collectDependencyInputs
            p["self"] = True
        p["deps"] = deps
        pkgs.append(p)
    return g, pkgs


def all_files(g, pkgs, kinds=("gofiles", "altfiles", "otherfiles")):
    out = []
    for p in pkgs:
        for k in kinds:
            for f in (p[k] or []):
                out.append((p, k, f))
    return out


def mutate(rng, g, pkgs):
    """-> (kind, g', pkgs'): a copy with ONE input changed"""
    g2, p2 = copy.deepcopy(g), copy.deepcopy(pkgs)
    kinds = ["same", "goos", "goarch", "target", "targetabi", "triple", "abimode", "opt", "tags", "tags-perm", "chash", "llvmver", "cc",
             "ccrest", "cflags", "ldflags", "linker", "extra", "env-listed", "env-ccflags", "env-other", "file-content-samesize",
             "file-content-size", "file-mtime", "file-overlay", "file-add", "file-remove", "side", "embed", "rewrite-val", "rewrite-add",
             "rewrite-perm", "dep-content", "dep-content", "dep-kind", "dep-version", "pkgid", "files-perm", "deps-perm"]
    k = rng.choice(kinds)

    def other(cur, choices):
        c = [x for x in choices if x != cur]
        return rng.choice(c)

    def flip(b):
        if not b:
            return b"7"
        i = rng.randrange(len(b))
        return b[:i] + bytes([b[i] ^ 1]) + b[i + 1:]

    fs = all_files(g2, p2)
    if k == "same":
        pass
    elif k in ("goos", "goarch", "target", "targetabi", "triple", "chash", "llvmver", "cc", "linker"):
        g2[k] = other(g2[k], ["linux", "wasip1", "amd64", "arm64", "rp2040", "lp64", "x", "clang version 15", "ld.lld", "q"])
    elif k == "abimode":
        g2[k] = other(g2[k], [0, 1, 2])
    elif k == "opt":
        g2[k] = other(g2[k], list(range(6)))
    elif k == "tags":
        g2[k] = other(g2[k], ["", "tagx", "nogc", "tagx,nogc", "zzz"])
    elif k == "tags-perm":
        t = g2["tags"].split(",")
        t.reverse()
        g2["tags"] = ",".join(t)
    elif k in ("ccrest", "cflags", "ldflags"):
        g2[k] = g2[k] + [rng.choice(["-DK=9", "-g", "-Wall"])] if rng.random() < 0.6 or not g2[k] else g2[k][:-1]
    elif k == "extra":
        if g2["extrafiles"] and rng.random() < 0.7:
            f = rng.choice(g2["extrafiles"])
            f.content = flip(f.content)
        else:
            g2["extrafiles"].append(F("extra/new.s", b"n", 1_700_000_000_000_000_000))
    elif k == "env-listed":
        n = rng.choice(LISTED)
        g2["env"][n] = other(g2["env"].get(n, ""), ["", "1", "0", "on", "off", "true", "ON"])
        if g2["env"][n] == "":
            del g2["env"][n]
    elif k == "env-ccflags":
        n = rng.choice(["CCFLAGS", "CFLAGS", "LDFLAGS"])
        g2["env"][n] = other(g2["env"].get(n, ""), ["-DK=1", "-DK=2", "-g"])
    elif k == "env-other":
        g2["env"]["VERIF_OTHER"] = other(g2["env"].get("VERIF_OTHER", ""), ["1", "2"])
    elif k.startswith("file-") and k not in ("file-add", "file-remove"):
        if not fs:
            return "same", g2, p2
        _, _, f = rng.choice(fs)
        if k == "file-content-samesize":
            if f.overlay is not None:
                f.overlay = flip(f.overlay)
            else:
                f.content = flip(f.content)
        elif k == "file-content-size":
            if f.overlay is not None:
                f.overlay += b"+"
            else:
                f.content += b"+"
        elif k == "file-mtime":
            f.mtime += rng.choice([1000, 1_000_000_000])
        elif k == "file-overlay":
            f.overlay = None if f.overlay is not None else f.content
    elif k == "file-add":
        p = rng.choice(p2)
        kind = rng.choice(["gofiles", "otherfiles"] + (["altfiles"] if p["altfiles"] is not None else []))
        p[kind].append(F("%s/new_%s.go" % (p["id"].replace("/", "_"), kind), b"pkg", 1_700_000_000_000_000_000))
    elif k == "file-remove":
        cands = [(p, kk, f) for (p, kk, f) in fs]
        if not cands:
            return "same", g2, p2
        p, kk, f = rng.choice(cands)
        p[kk].remove(f)
    elif k in ("side", "embed"):
        p = rng.choice(p2)
        lst = p["sidefiles" if k == "side" else "embedfiles"]
        if lst:
            lst[0].content = flip(lst[0].content) + b"!"
            lst[0].mtime += 5_000_000
        else:
            lst.append(F("%s/_wrap/new.c" % p["id"].replace("/", "_"), b"int f;", 1_700_000_000_000_000_000))
    elif k == "rewrite-val":
        cands = [p for p in p2 if p["rewrites"]]
        if not cands:
            return "same", g2, p2
        p = rng.choice(cands)
        i = rng.randrange(len(p["rewrites"]))
        kk, v = p["rewrites"][i]
        p["rewrites"][i] = (kk, v + "2")
    elif k == "rewrite-add":
        p = rng.choice(p2)
        if any(kk == "Zed" for kk, _ in p["rewrites"]):
            return "same", g2, p2
        p["rewrites"].append(("Zed", rng.choice(["", "z"])))
    elif k == "rewrite-perm":
        for p in p2:
            p["rewrites"].reverse()
    elif k == "dep-content":
        # a package that somebody imports (whatever its kind: normal, decl-only, link-only, py, ...) changes
        imported = [p for p in p2 if p["modkind"] == "n" and p["gofiles"] and any(p["id"] in q["deps"] and q["id"] != p["id"] for q in p2)]
        if not imported:
            return "same", g2, p2
        p = rng.choice(imported)
        p["gofiles"][0].content += b"x"
        k = "dep-content:" + p["kind"]
    elif k == "dep-kind":
        cands = [p for p in p2[:-1]]
        if not cands:
            return "same", g2, p2
        p = rng.choice(cands)
        p["kind"] = other(p["kind"], ["n", "d", "l", "x", "p", "i"])
    elif k == "dep-version":
        cands = [p for p in p2 if p["modkind"] != "n"]
        if not cands:
            return "same", g2, p2
        rng.choice(cands)["modver"] += ".1"
    elif k == "pkgid":
        p = p2[-1]
        p["path"] = p["path"] + "x"
    elif k == "files-perm":
        for p in p2:
            p["gofiles"].reverse()
            p["otherfiles"].reverse()
    elif k == "deps-perm":
        for p in p2:
            p["deps"].reverse()
    return k, g2, p2


LIST_FIELDS = {"VARS", "BUILD_TAGS", "CCFLAGS", "CFLAGS", "LDFLAGS", "EXTRA_FILES", "go_files", "alt_go_files", "other_files", "rewrite_vars", "deps"}


def parse_canon(c):
    """'env[K=V;K=V]+common[...]+...' -> {section: {K: V}}"""
    out = {}
    for sec in c.split("+"):
        m = re.match(r"^([a-z]+)\[(.*)\]$", sec)
        if not m:
            out[sec] = {}
            continue
        d = {}
        if m.group(1) == "deps":
            d["deps"] = m.group(2)
        else:
            for kv in m.group(2).split(";"):
                k, _, v = kv.partition("=")
                d[k] = v
        out[m.group(1)] = d
    return out


def canon_covered(model_c, real_c):
    """does the real manifest contain everything the model's manifest contains?  Scalars must be equal; for lists every
    item of the model must occur in the real list.  (The real manifest may hold MORE - a finer key is not a defect.)
    -> list of differences"""
    if model_c == real_c:
        return []
    pm, pr = parse_canon(model_c), parse_canon(real_c)
    diffs = []
    for sec, fields in pm.items():
        for k, v in fields.items():
            rv = pr.get(sec, {}).get(k)
            if rv is None:
                diffs.append("%s.%s missing in the real manifest" % (sec, k))
            elif k in LIST_FIELDS:
                want = set() if v == "." else set(v.split(","))
                have = set() if rv == "." else set(rv.split(","))
                if not want <= have:
                    diffs.append("%s.%s: model items %s not in real %s" % (sec, k, sorted(want - have)[:3], sorted(have)[:6]))
            elif v != rv:
                diffs.append("%s.%s: model %s real %s" % (sec, k, v, rv))
    return diffs


def parse_key_answer(line):
    """'ok id!fp!ok!canon ...' (real) or 'ok id!canon!hash ...' (model) -> list of field lists"""
    if not line.startswith("ok"):
        return None
    return [t.split("!") for t in line.split()[1:]]


def model_lines_run(modeld, cfg, lines):
    """run the Lean driver on `lines` under the fingerprint variant cfg = (contentHash, ccflagsEnv)"""
    ans, rc, err = run_lines([modeld], ["cfg %d %d" % (int(cfg[0]), int(cfg[1]))] + lines)
    if len(ans) != len(lines) + 1 or ans[0] != "ok":
        raise RuntimeError("modeld_c13 died or rejected cfg: %s %s" % (ans[:1], err[-2000:]))
    return ans[1:]


def probe_variant(harness, hello):
    """which variant of the fingerprint code does the working tree have?  Asked of the real collectFingerprint:
    (1) same path, size and mtime, different content; (2) CCFLAGS environment changed."""
    g = default_G(hello)
    mt = 1_700_000_000_000_000_000
    p1, p2 = default_P("m/a"), default_P("m/a")
    p1["gofiles"] = [F("a/a.go", b"1", mt)]
    p2["gofiles"] = [F("a/a.go", b"5", mt)]
    g1, g2 = copy.deepcopy(g), copy.deepcopy(g)
    g1["env"] = {"CCFLAGS": "-DK=1"}
    g2["env"] = {"CCFLAGS": "-DK=2"}
    lines = ["key " + enc_prog(g, [p1], False), "key " + enc_prog(g, [p2], False), "key " + enc_prog(g1, [p1], False), "key " + enc_prog(g2, [p1], False)]
    out, rc, err = run_lines([harness], lines)
    fps = [parse_key_answer(o) for o in out]
    if len(out) != 4 or any(f is None for f in fps):
        raise HarnessBuildError("variant probe failed: %s %s" % (out, err[-1000:]))
    return (fps[0][0][1] != fps[1][0][1], fps[2][0][1] != fps[3][0][1])


def correspondence(ctx, harness, modeld, hello, n_bases, n_mut, cfg):
    rng = ctx.rng
    reqs = []        # (tag, g, pkgs)
    for b in range(n_bases):
        g, pkgs = gen_base(rng, hello)
        reqs.append(("base", b, g, pkgs))
        for _ in range(n_mut):
            k, g2, p2 = mutate(rng, g, pkgs)
            reqs.append((k, b, g2, p2))
    real_lines = ["key " + enc_prog(g, pkgs, False) for (_, _, g, pkgs) in reqs]
    model_lines = ["key " + enc_prog(g, pkgs, True) for (_, _, g, pkgs) in reqs]
    rel_lines = ["rel " + enc_prog(g, pkgs, True) for (_, _, g, pkgs) in reqs]
    real, rc, err = run_lines([harness], real_lines)
    model = model_lines_run(modeld, cfg, model_lines + rel_lines)
    if len(real) != len(real_lines):
        raise RuntimeError("harness died: real %d/%d\n%s" % (len(real), len(real_lines), err[-2000:]))
    rels = model[len(model_lines):]
    model = model[:len(model_lines)]
    stats = {"requests": len(reqs), "field_mismatch": 0, "real_coarser": 0, "real_finer": 0, "pairs": 0, "pairs_collide_both": 0,
             "pairs_model_collides_rel_differs": 0, "by_kind": {}}
    field_mm, coarser, finer = [], [], []
    base_of = {}
    nontrivial = set()
    for i, (kind, b, g, pkgs) in enumerate(reqs):
        ra, ma, rl = parse_key_answer(real[i]), parse_key_answer(model[i]), parse_key_answer(rels[i])
        if ra is None or ma is None or rl is None or len(ra) != len(ma):
            field_mm.append((i, kind, real_lines[i], real[i], model[i]))
            continue
        nontrivial.add(model_lines[i])
        for r, m in zip(ra, ma):
            # r = [id, fp, fpok, canon]   m = [id, canon, hash]
            d = canon_covered(m[1], r[3]) if r[0] == m[0] else ["package ids differ"]
            if r[2] != "1":
                d.append("Fingerprint() is not sha256 of the manifest text")
            if d:
                field_mm.append((i, kind, bytes.fromhex(r[0]).decode(), d, r[3], m[1]))
            elif r[3] != m[1]:
                stats["real_manifest_has_more"] = stats.get("real_manifest_has_more", 0) + 1
        if kind == "base":
            base_of[b] = i
            continue
        j = base_of[b]
        rb, mb, rlb = parse_key_answer(real[j]), parse_key_answer(model[j]), parse_key_answer(rels[j])
        if rb is None or len(rb) != len(ra):
            continue
        st = stats["by_kind"].setdefault(kind, {"n": 0, "real_same": 0, "model_same": 0, "rel_same": 0})
        for x in range(len(ra)):
            stats["pairs"] += 1
            st["n"] += 1
            real_same = ra[x][1] == rb[x][1]
            model_same = ma[x][2] == mb[x][2]
            rel_same = rl[x][1] == rlb[x][1]
            st["real_same"] += real_same
            st["model_same"] += model_same
            st["rel_same"] += rel_same
            if real_same and model_same:
                stats["pairs_collide_both"] += 1
            if model_same and not rel_same:
                stats["pairs_model_collides_rel_differs"] += 1
            if real_same and not model_same:
                # last component: do the RELEVANT inputs differ too?  Then an archive of one is wrongly served for the other.
                coarser.append((kind, real_lines[j], real_lines[i], bytes.fromhex(ra[x][0]).decode(), not rel_same))
            if model_same and not real_same:
                finer.append((kind, real_lines[j], real_lines[i], bytes.fromhex(ra[x][0]).decode()))
    stats["field_mismatch"], stats["real_coarser"], stats["real_finer"] = len(field_mm), len(coarser), len(finer)
    sample = {"request": model_lines[0][:400], "real": real[0][:400], "model": model[0][:400]}
    return stats, field_mm, coarser, finer, len(nontrivial), sample


# ------------------------------------------------------------------------------------------ in-process ties: type list, metadata
REFLECT_BITS = {"ArrayOf": 1, "ChanOf": 2, "FuncOf": 4, "MapOf": 8, "PointerTo": 16, "SliceOf": 32, "StructOf": 64, "MethodByIndex": 128,
                "MethodByName": 256, "MethodDynamic": 512}


def gen_abitypes_requests(rng, quick):
    """(n struct types, seed, reflect-usage mask (-1: no filter), repetitions, shape bits 1 map / 2 chan / 4 func)"""
    reqs = [(6, 1, -1, 4, 0), (6, 1, 1023, 6, 7), (3, 2, 16 | 64, 4, 0)]
    for _ in range(12 if quick else 120):
        k = rng.randrange(1, 4)
        mask = 0
        for b in rng.sample(sorted(REFLECT_BITS.values()), k):
            mask |= b
        reqs.append((rng.randrange(2, 8), rng.randrange(1000), rng.choice([mask, mask, 1023, -1]), 4, rng.randrange(8)))
    return reqs


def abitypes_tie(ctx, harness, modeld, quick):
    dec = lambda l: [] if l in (".", "") else [unhexs(x).decode("utf-8", "replace") for x in l.split(",")]
    areq = gen_abitypes_requests(ctx.rng, quick)
    aout, _, aerr = run_lines([harness], ["abitypes %d %d %d %d %d" % r for r in areq], cwd=os.path.dirname(harness), env=go_env())
    aout = aout + ["(no answer) " + aerr[-300:]] * (len(areq) - len(aout))
    stats = {"programs": len(areq), "compilations": sum(r[3] for r in areq), "selected_descriptors": [], "symbols": [], "differences": 0,
             "order_vs_model_compared": 0, "order_vs_model_mismatch": 0}
    broken = []
    parsed = []
    for r, o in zip(areq, aout):
        f = o.split()
        kv = dict(t.split("=", 1) for t in f if "=" in t)
        if o.startswith("ok ") and "order" in kv and "syms" in kv:
            parsed.append((r, "ok", kv, [kv["order"]]))
        elif o.startswith("differs ") and "syms" in kv and len(f) >= 6:
            parsed.append((r, f[1], kv, [f[4], f[5]]))
        else:
            broken.append("abitypes request %s: %s" % (r, o[:300]))
    model = model_lines_run(modeld, (True, True), ["abitypes " + kv["syms"] for _, _, kv, _ in parsed]) if parsed else []
    for (r, what, kv, orders), m in zip(parsed, model):
        req = "abitypes %d %d %d %d %d" % r
        syms = [] if kv["syms"] == "." else [t.split(":") for t in kv["syms"].split(",")]
        selected = sorted(unhexs(h).decode("utf-8", "replace") for h, b in syms if b == "1")
        stats["selected_descriptors"].append(len(selected))
        stats["symbols"].append(len(syms))
        want = dec(m[3:]) if m.startswith("ok ") else None
        if want is None:
            broken.append("modeld_c13 rejected `abitypes` for request %s: %s" % (r, m[:200]))
        meaning = ("n struct types (struct, *struct, []struct, [k]struct and, per shape bit, map/chan/func over it, boxed into interfaces), seed, "
                   "reflect-usage mask passed to the real filterAbiSymbol (-1: no filter), repetitions, shape bits")
        if what != "ok":
            # SPEC failure: the same program compiled again gives another module
            stats["differences"] += 1
            ctx.report("repro:entry-module-type-list", "compiling the same generated program again (build #%s) emits a different %s module: the runtime type "
                       "descriptors of init$abitypes$array come in another order (%d descriptors pass the filter)" % (kv.get("build"), what, len(selected)),
                       {"request": req, "meaning": meaning, "selected_descriptors": len(selected), "order_build_1": dec(orders[0])[:40],
                        "order_build_k": dec(orders[1])[:40], "listing_per_lean_spec_abiTypeNames": (want or [])[:40],
                        "how": "harness/c13 line protocol (run in the harness directory): VerifEntryModule in the ssa overlay"})
            continue
        got = dec(orders[0])
        stats["order_vs_model_compared"] += 1
        if want is not None and got != want:
            stats["order_vs_model_mismatch"] += 1
            if set(got) == set(want) and len(got) == len(want):
                d = "the same descriptors in another order: real %s..., model (sorted by name) %s..." % (got[:4], want[:4])
            else:
                d = "other descriptors: only real %s, only model %s" % (sorted(set(got) - set(want))[:4], sorted(set(want) - set(got))[:4])
            broken.append("entry-module type list differs from the model's abiTypeNames on `%s` (%d selected): %s" % (req, len(selected), d))
    return stats, broken


LINK_TOKENS = ["-lm", "-lfoo", "-lbar", "-lz", "-Xlinker", "--defsym=ext_a=11", "--defsym=ext_b=22", "-framework", "CoreFoundation", "Security", "-L", "d1", "d2",
               "-l", "a", "b", "-L/opt/x y", "-Wl,-rpath,/a", "-Wl,--start-group", "-Wl,--end-group", "-pthread", "true", "null", "~", "1", "-", "k: v", "#c", "'q'",
               "é", "[x]", "{y}", "a,b", "*", "&r", "!t", "%p", "@f", "`", '"dq"', "0x10", "1e3", "no", ".5"]


def gen_metadata_requests(rng, quick):
    """(need_rt, need_pyinit, link args, archive bytes)"""
    fixed = [[], ["-lm"], ["-L/opt/x y", "-lfoo", "-Wl,-rpath,/a"],
             # order AND multiplicity matter on a link line
             ["-Xlinker", "--defsym=ext_a=11", "-Xlinker", "--defsym=ext_b=22"], ["-lfoo", "-lbar", "-lfoo"],
             ["-framework", "CoreFoundation", "-framework", "Security"], ["-L", "d1", "-l", "a", "-L", "d2", "-l", "b"],
             ["-lz", "-lz"], ["-lb", "-la"], ["-Wl,--start-group", "-la", "-lb", "-la", "-Wl,--end-group"]]
    reqs = []
    for la in fixed:
        for rt in (0, 1):
            for py in (0, 1):
                reqs.append((rt, py, la, b"!<arch>\n"))
    for _ in range(300 if quick else 3000):
        n = rng.choice([0, 1, 2, 3, 4, 6, 9])
        pool = rng.sample(LINK_TOKENS, rng.randrange(1, 5))       # a small pool makes repetitions likely
        la = [rng.choice(pool) for _ in range(n)]
        ar = bytes(rng.randrange(256) for _ in range(rng.choice([0, 1, 8, 8, 64, 300])))
        reqs.append((rng.randrange(2), rng.randrange(2), la, ar))
    return reqs


def metadata_tie(ctx, harness, modeld, quick):
    mreq = gen_metadata_requests(ctx.rng, quick)
    lines = ["meta %d %d %s %s" % (rt, py, hlist(la), hx(ar)) for rt, py, la, ar in mreq]
    mout, _, merr = run_lines([harness], lines)
    mout = mout + ["(no answer)"] * (len(mreq) - len(mout))
    model = model_lines_run(modeld, (True, True), lines)
    broken = []
    seen_la = set()
    for (rt, py, la, ar), line, o, m in zip(mreq, lines, mout, model):
        spec = "ok hit=true %d %d %s" % (rt, py, hlist(la))
        if m != spec + " " + hx(ar):
            broken.append("model: loadArtifact (storeArtifact a) is not `a` on `%s`: %s" % (line[:200], m[:200]))
        if o == spec + " " + hashlib.sha256(ar).hexdigest():
            continue
        if tuple(la) in seen_la or len(seen_la) >= 4:
            continue          # one replay per link-argument list, four lists: the cause is usually one
        seen_la.add(tuple(la))
        f = o.split()
        got_args = None
        if len(f) >= 5 and f[0] == "ok":
            got_args = [] if f[4] == "." else [unhexs(x).decode("utf-8", "replace") for x in f[4].split(",")]
        what = []
        if got_args is not None and got_args != la:
            what.append("link arguments %s came back as %s" % (la, got_args))
        if len(f) >= 4 and f[0] == "ok" and (f[2], f[3]) != (str(rt), str(py)):
            what.append("need_rt/need_pyinit %d/%d came back as %s/%s" % (rt, py, f[2], f[3]))
        if len(f) >= 6 and f[5] != hashlib.sha256(ar).hexdigest():
            what.append("the archive file handed to the linker does not hold the bytes that were stored")
        if len(f) >= 2 and f[1] != "hit=true":
            what.append("the package just stored is not found")
        ctx.report("cache:metadata-roundtrip:%d:%d:%s" % (rt, py, hlist(la)),
                   "saveToCache followed by tryLoadFromCache does not return what was stored (a rebuild that takes the package from the cache links "
                   "differently from the clean build): %s" % ("; ".join(what) or "answer `%s`" % o[:200]),
                   {"request": line, "stored": {"need_rt": rt, "need_pyinit": py, "link_args": la, "archive_sha256": hashlib.sha256(ar).hexdigest()},
                    "answer": o, "read_back_link_args": got_args, "lean_model_loadArtifact_storeArtifact": m, "stderr": merr[-500:],
                    "how": "harness/c13 line protocol: `meta <need_rt> <need_pyinit> <link args, hex list> <archive bytes, hex>`; VerifMetaRoundTrip in the "
                           "overlay runs the real saveToCache, then the real tryLoadFromCache on a fresh package record with the same fingerprint"})
    return mreq, broken


# ------------------------------------------------------------------------------------------ in-process tie: symbolic links
def symlink_tie(ctx, harness, hello, quick):
    """Source trees in which a listed file (Go file, alt file, .c/.s side file, extra file) is a SYMBOLIC LINK (shared files linked
    into several package directories, Bazel/Nix style trees, generated-code farms).  The Go toolchain compiles - and its build cache
    hashes - what the link points to; so does llgo's compiler.  SPEC, judged on the real collectFingerprint alone and relative to
    the same tree's behaviour on regular files: if an edit of a file's content changes a package fingerprint when the file is a
    regular file, the same edit of the link's TARGET (the link itself - text, size, own mtime - untouched) must change it too.
    Otherwise the archive compiled from the old target is served for the new one."""
    rng = random.Random("c13-symlink-%s" % ctx.seed)          # private stream: the other generators keep their sequences
    n = 150 if quick else 1500
    cases, lines = [], []
    for c in range(n):
        g, pkgs = gen_base(rng, hello)
        cands = [("extra", None, f) for f in g["extrafiles"]]
        for p in pkgs:
            cands += [("gofiles", p, f) for f in selected(g, p["gofiles"])]
            cands += [("altfiles", p, f) for f in (p["altfiles"] or [])]
            cands += [("otherfiles", p, f) for f in p["otherfiles"]]
        if not cands:
            continue
        kind, p, f = rng.choice(cands)
        f.overlay = None                                        # an overlay entry replaces the disk file: nothing to follow
        edit = rng.choice(["samesize", "samesize", "size", "size+mtime", "samesize+mtime"])
        old = f.content
        if edit.startswith("samesize") and old:
            i = rng.randrange(len(old))
            new = old[:i] + bytes([old[i] ^ 1]) + old[i + 1:]
        else:
            new = old + rng.choice([b"1", b"\n", b"ab"])
        dmt = 1_000_000_000 if edit.endswith("+mtime") else 0
        four = []
        for link in (False, True):
            for content, mt in ((old, f.mtime), (new, f.mtime + dmt)):
                f.link, f.content, saved = link, content, f.mtime
                f.mtime = mt
                four.append("key " + enc_prog(g, pkgs, False))
                f.mtime = saved
        f.link, f.content = False, old
        cases.append({"kind": kind, "file": f.path, "package": p["id"] if p else "(crosscompile extra file)", "edit": edit,
                      "old_content": old.decode("latin-1"), "new_content": new.decode("latin-1"), "ids": [q["id"] for q in pkgs]})
        lines += four
    out, rc, err = run_lines([harness], lines)
    stats = {"cases": len(cases), "regular_separates": 0, "link_separates": 0, "by_kind": {}}
    broken = []
    if len(out) != len(lines):
        broken.append("symlink tie: harness answered %d of %d requests: %s" % (len(out), len(lines), err[-500:]))
        return stats, broken
    for c, case in enumerate(cases):
        ra, rb, la, lb = (parse_key_answer(o) for o in out[4 * c:4 * c + 4])
        if ra is None or rb is None:
            continue
        if la is None or lb is None:
            broken.append("symlink tie: collectFingerprint fails on a tree with a symbolic link (%s %s): %s" % (case["kind"], case["file"], out[4 * c + 2][:300]))
            continue
        st = stats["by_kind"].setdefault(case["kind"], {"n": 0, "regular_separates": 0, "link_separates": 0})
        st["n"] += 1
        for x in range(len(ra)):
            reg_diff = ra[x][1] != rb[x][1]
            lnk_diff = la[x][1] != lb[x][1]
            stats["regular_separates"] += reg_diff
            stats["link_separates"] += lnk_diff
            st["regular_separates"] += reg_diff
            st["link_separates"] += lnk_diff
            if reg_diff and not lnk_diff:
                pid = bytes.fromhex(ra[x][0]).decode()
                ctx.report("cache:symlinked-source-target-edit:" + case["kind"],
                           "the fingerprint of package %s does not change when the target of the symbolic link %s (%s of %s) is edited (%s: %r -> %r), "
                           "although the same edit of the same file as a regular file changes it: the build cache serves the archive compiled from the old "
                           "target" % (pid, case["file"], case["kind"], case["package"], case["edit"], case["old_content"], case["new_content"]),
                           {"case": case, "package_with_unchanged_fingerprint": pid,
                            "requests": {"regular_before": lines[4 * c], "regular_after": lines[4 * c + 1], "link_before": lines[4 * c + 2],
                                         "link_after": lines[4 * c + 3]},
                            "fingerprints": {"regular_before": ra[x][1], "regular_after": rb[x][1], "link_before": la[x][1], "link_after": lb[x][1]},
                            "manifest_link_before": la[x][3][:3000], "manifest_link_after": lb[x][3][:3000],
                            "how": "harness/c13 line protocol `key G=... P=...`; a file with the fifth field `L` is created as a relative symbolic link "
                                   "<path> -> _lnk/<path> (own mtime fixed), content and mtime are given to the target; the real collectFingerprint runs "
                                   "on the package records (VerifCollect).  End to end: a non-main package with `limits.go -> ../shared/limits.go`, "
                                   "llgo build, edit shared/limits.go, llgo build: CACHE HIT, the program prints the old constant"})
                break
    return stats, broken


# ------------------------------------------------------------------------------------------ e2e modules and histories (tie B-E)
MODNAME = "verifprog"
PKGS = ["c", "ext", "b", "a"]   # the cached packages in build order: c <- ext, c <- b, (c, ext) <- a, (a, b) <- main


def filler(pkg, n):
    """a handful of functions/types/globals per package, so that emission order matters for the IR comparison"""
    out = []
    for i in range(n):
        out.append("type T%d struct{ x%d int }\n\nfunc (t T%d) M%d() int { return t.x%d + %d }\n" % (i, i, i, i, i, i))
        out.append("var G%d = %d\n\nfunc F%d(x int) int { return x*%d + G%d }\n" % (i, i + 1, i, i + 2, i))
    uses = " + ".join("F%d(T%d{%d}.M%d())" % (i, i, i, i) for i in range(n))
    out.append("func fill() int { return %s }\n" % uses)
    return "\n".join(out)


def expected_fill(n):
    return sum((i + i) * (i + 2) + (i + 1) for i in range(n))


class Mod:
    """the generated module: every printed line is determined by ONE input (its `responsible` input)"""

    def __init__(self, root, rng, nfill=5):
        self.root = root
        self.rng = rng
        self.nfill = nfill
        self.c = {"main": 100, "a": 200, "b": 400, "c": 500, "cside": 300, "extra": 700, "cfg": 21, "ext": 11}
        self.envx = {}         # extra environment for every build of the module (LLGO_* switches)
        self.has_extra = False
        self.tagx = False
        self.opt = "-O2"
        self.abi = 2
        self.K = None          # -DK=<n> through the CCFLAGS environment variable
        self.xa = None         # -X verifprog/a.XA=<s>
        self.versions = {}     # relpath -> list of (content, mtime_ns) it has had
        self.log = []

    # ---- sources
    def src(self, rel):
        c = self.c
        if rel == "go.mod":
            return "module %s\n\ngo 1.24\n" % MODNAME
        if rel == "main.go":
            # a THIN main: no println, allocation, defer, map, channel or interface use of its own - it needs the llgo runtime
            # only through its dependencies (build.go: the entry calls runtime.init iff some package reports NeedRt, which for a
            # package served from the cache is read back from the cache manifest)
            return ('package main\n\nimport (\n\t"%s/a"\n\t"%s/b"\n\t"%s/cfg"\n)\n\nconst Src = %d\n\n%s\nfunc main() {\n'
                    '\ta.Main(Src, fill(), cfg.Size)\n\ta.Report()\n\tb.Report()\n}\n'
                    % (MODNAME, MODNAME, MODNAME, c["main"], filler("main", 2)))
        if rel == "cfg/cfg.go":
            # a decl-only package (cl.PkgDeclOnly): never compiled, no archive; its constants and types live in its importers
            return ('package cfg\n\nconst LLGoPackage = "decl"\n\nconst Size = %d\n\ntype Buf struct {\n\tA [Size]byte\n}\n' % c["cfg"])
        if rel == "a/a.go":
            return ('package a\n\nimport (\n\t_ "unsafe"\n\n\t"%s/c"\n\t"%s/ext"\n)\n\nconst LLGoFiles = "_wrap/w.c"\n\nconst Src = %d\n\n'
                    '//go:linkname cval C.verif_a_cval\nfunc cval() int32\n\n//go:linkname kval C.verif_a_kval\nfunc kval() int32\n\n'
                    '//go:linkname optval C.verif_a_opt\nfunc optval() int32\n\n'
                    'var XA = "xa-default"\n\n%s\n// Main prints what package main computed (main itself must stay free of runtime calls)\n'
                    'func Main(src, fill, cfgsize int) {\n\tprintln("main.src", src)\n\tprintln("main.fill", fill)\n\tprintln("main.cfg", cfgsize)\n}\n\n'
                    'func Report() {\n\tm := map[string]int{"src": Src}\n\tdefer func() { println("a.defer", m["src"]+len(m)) }()\n'
                    '\tprintln("a.src", Src)\n\tprintln("a.cside", cval())\n\tprintln("a.k", kval())\n'
                    '\tprintln("a.opt", optval())\n\tprintln("a.exta", ext.A())\n\tprintln("a.extb", ext.B())\n'
                    '\tprintln("a.x", XA)\n\tprintln("a.tag", tagval)\n\tprintln("a.fill", fill())\n\tprintln("a.cc", c.Const)\n\tc.Report()\n}\n'
                    % (MODNAME, MODNAME, c["a"], filler("a", self.nfill)))
        if rel == "ext/ext.go":
            # a binding package whose link directive REPEATS a token (-Xlinker twice): the symbols exist only if the link line of
            # the build carries both --defsym options, each behind its own -Xlinker.  It imports c so that it is rebuilt
            # whenever c is (a step in which c, b, a are compiled then compiles every cached package of the module).
            return ('package ext\n\nimport (\n\t"unsafe"\n\n\t"%s/c"\n)\n\n'
                    'const LLGoPackage = "link: -Xlinker --defsym=verif_ext_a=%d -Xlinker --defsym=verif_ext_b=%d"\n\n'
                    '//go:linkname extA verif_ext_a\nvar extA byte\n\n//go:linkname extB verif_ext_b\nvar extB byte\n\n'
                    'func A() uintptr { return uintptr(unsafe.Pointer(&extA)) + uintptr(c.Const-c.Const) }\n\n'
                    'func B() uintptr { return uintptr(unsafe.Pointer(&extB)) }\n' % (MODNAME, c["ext"], c["ext"] + 11))
        if rel == "a/t_on.go":
            return "//go:build tagx\n\npackage a\n\nconst tagval = 1\n"
        if rel == "a/t_off.go":
            return "//go:build !tagx\n\npackage a\n\nconst tagval = 0\n"
        if rel == "a/extra.go":
            return 'package a\n\nfunc init() { println("a.extra", %d) }\n' % c["extra"]
        if rel == "a/_wrap/w.c":
            # verif_a_opt: clang defines __OPTIMIZE__ for -O1 and above; the level reaches clang as CCFLAGS[0] = level.Flag()
            return ("#ifndef K\n#define K 1\n#endif\nint verif_a_cval(void) { return %d; }\nint verif_a_kval(void) { return K; }\n"
                    "int verif_a_opt(void) {\n#ifdef __OPTIMIZE__\n\treturn 1;\n#else\n\treturn 0;\n#endif\n}\n" % c["cside"])
        if rel == "b/b.go":
            return ('package b\n\nimport "%s/c"\n\nconst Src = %d\n\n%s\nfunc Report() {\n\tprintln("b.src", Src)\n\tprintln("b.cc", c.Const)\n'
                    '\tprintln("b.cv", c.Val())\n\tprintln("b.fill", fill())\n}\n' % (MODNAME, c["b"], filler("b", self.nfill)))
        if rel == "c/c.go":
            return ('package c\n\nimport "%s/cfg"\n\nconst Const = %d\n\n%s\nfunc Val() int { return Const + 1 }\n\n'
                    'func BufBytes() int { return len(cfg.Buf{}.A) * 2 }\n\nfunc Report() {\n\tprintln("c.src", Const)\n'
                    '\tprintln("c.cfg", BufBytes())\n\tprintln("c.fill", fill())\n}\n' % (MODNAME, c["c"], filler("c", self.nfill)))
        raise KeyError(rel)

    def files(self):
        fs = ["go.mod", "main.go", "a/a.go", "a/t_on.go", "a/t_off.go", "a/_wrap/w.c", "b/b.go", "c/c.go", "cfg/cfg.go", "ext/ext.go"]
        if self.has_extra:
            fs.append("a/extra.go")
        return fs

    def write(self, rel, preserve_mtime=False):
        p = os.path.join(self.root, rel)
        os.makedirs(os.path.dirname(p), exist_ok=True)
        old = os.stat(p) if os.path.exists(p) else None
        data = self.src(rel)
        with open(p, "w") as f:
            f.write(data)
        if old is not None:
            if preserve_mtime:
                os.utime(p, ns=(old.st_atime_ns, old.st_mtime_ns))
            elif os.stat(p).st_mtime_ns == old.st_mtime_ns:
                os.utime(p, ns=(old.st_atime_ns, old.st_mtime_ns + 1_000_000))
        st = os.stat(p)
        self.versions.setdefault(rel, []).append((data, st.st_mtime_ns))

    def write_all(self):
        for rel in self.files():
            self.write(rel)

    def is_hidden(self, rel):
        """the file's current (size, mtime) has been seen in this history with a DIFFERENT content: an edit (or a restored
        checkout) that the (path, size, mtime) digest cannot see"""
        p = os.path.join(self.root, rel)
        if not os.path.exists(p):
            return False
        cur, mt = open(p).read(), os.stat(p).st_mtime_ns
        return any(len(d) == len(cur) and m == mt and d != cur for d, m in self.versions.get(rel, []))

    # ---- which input determines which output line
    RESP = {"main.src": "main.go", "main.fill": "main.go", "a.src": "a/a.go", "a.cside": "a/_wrap/w.c", "a.k": "env:CCFLAGS", "a.x": "flag:-X",
            "a.tag": "flag:-tags", "a.fill": "a/a.go", "a.cc": "c/c.go", "a.extra": "a/extra.go", "c.src": "c/c.go", "c.fill": "c/c.go",
            "b.src": "b/b.go", "b.cc": "c/c.go", "b.cv": "c/c.go", "b.fill": "b/b.go", "main.cfg": "cfg/cfg.go", "c.cfg": "cfg/cfg.go",
            "a.opt": "flag:-O", "a.defer": "a/a.go", "a.exta": "ext/ext.go", "a.extb": "ext/ext.go", "main.trace": "env:LLGO_TRACE", "a.trace": "env:LLGO_TRACE", "b.trace": "env:LLGO_TRACE", "c.trace": "env:LLGO_TRACE"}
    CONST_OF = {"main.go": "main", "a/a.go": "a", "b/b.go": "b", "c/c.go": "c", "a/_wrap/w.c": "cside", "a/extra.go": "extra", "cfg/cfg.go": "cfg", "ext/ext.go": "ext"}

    def expected(self):
        """what the program must print, by construction (sanity check of the oracle, not the oracle)"""
        c = self.c
        out = []
        if self.has_extra:
            out.append("a.extra %d" % c["extra"])
        out += ["main.src %d" % c["main"], "main.fill %d" % expected_fill(2), "main.cfg %d" % c["cfg"], "a.src %d" % c["a"], "a.cside %d" % c["cside"],
                "a.k %d" % (1 if self.K is None else self.K), "a.opt %d" % (0 if self.opt == "-O0" else 1), "a.exta %d" % c["ext"], "a.extb %d" % (c["ext"] + 11),
                "a.x %s" % ("xa-default" if self.xa is None else self.xa),
                "a.tag %d" % (1 if self.tagx else 0), "a.fill %d" % expected_fill(self.nfill), "a.cc %d" % c["c"], "c.src %d" % c["c"],
                "c.cfg %d" % (2 * c["cfg"]), "c.fill %d" % expected_fill(self.nfill), "a.defer %d" % (c["a"] + 1), "b.src %d" % c["b"], "b.cc %d" % c["c"], "b.cv %d" % (c["c"] + 1),
                "b.fill %d" % expected_fill(self.nfill)]
        return out

    # ---- edits
    def new_const(self, name, same_size):
        old = self.c[name]
        n = len(str(old))
        while True:
            if same_size:
                v = self.rng.randrange(10 ** (n - 1), 10 ** n)
            else:
                v = self.rng.choice([self.rng.randrange(1000, 100000), self.rng.randrange(10, 100), self.rng.randrange(100, 1000)])
            if v != old and (same_size or len(str(v)) != n):
                self.c[name] = v
                return

    def edit(self, kind, arg=None):
        """apply one edit; returns a description"""
        if kind == "src":                       # natural edit of a Go source constant (size may change, mtime changes)
            rel = arg
            self.new_const(self.CONST_OF[rel], same_size=self.rng.random() < 0.5)
            self.write(rel)
        elif kind == "src-hidden":              # same size, mtime restored with os.utime  (known class: mtime)
            rel = arg
            self.new_const(self.CONST_OF[rel], same_size=True)
            self.write(rel, preserve_mtime=True)
        elif kind == "cside":                   # edit of the C file named by LLGoFiles (known class: side)
            self.new_const("cside", same_size=self.rng.random() < 0.5)
            self.write("a/_wrap/w.c")
        elif kind == "ccflags":                 # CCFLAGS environment: -DK=<n> (known class: ccflags)
            self.K = self.rng.choice([x for x in [None, 2, 3, 7] if x != self.K])
        elif kind == "tag":
            self.tagx = not self.tagx
        elif kind == "opt":
            self.opt = "-O0" if self.opt == "-O2" else "-O2"
        elif kind == "abi":
            self.abi = self.rng.choice([x for x in [0, 1, 2] if x != self.abi])
        elif kind == "xvar":
            self.xa = self.rng.choice([x for x in [None, "x1", "other value", "x22"] if x != self.xa])
        elif kind == "addfile":
            if self.has_extra:
                self.has_extra = False
                os.remove(os.path.join(self.root, "a/extra.go"))
            else:
                self.has_extra = True
                self.write("a/extra.go")
        elif kind == "touch":
            p = os.path.join(self.root, arg)
            st = os.stat(p)
            os.utime(p, ns=(st.st_atime_ns, st.st_mtime_ns + 7_000_000))
        elif kind == "revert":                  # restore an earlier version of a Go file including its mtime (git checkout + touch -d)
            rel = arg
            vs = self.versions.get(rel, [])
            if len(vs) < 2:
                return self.edit("src", rel)
            data, mt = vs[-2]
            p = os.path.join(self.root, rel)
            with open(p, "w") as f:
                f.write(data)
            os.utime(p, ns=(mt, mt))
            m = re.search(r"const (?:Src|Const) = (\d+)", data)
            self.c[self.CONST_OF[rel]] = int(m.group(1))
            self.versions[rel].append((data, mt))
        elif kind == "envvar":                  # "NAME=value" ("NAME=" unsets)
            n, _, v = arg.partition("=")
            if v:
                self.envx[n] = v
            else:
                self.envx.pop(n, None)
        elif kind in ("noop", "clear", "force"):
            pass
        else:
            raise KeyError(kind)
        d = kind + (":" + arg if arg else "")
        self.log.append(d)
        return d

    # ---- the same inputs, for the Lean model
    def model_prog(self, hello):
        g = default_G(hello)
        g["tags"] = "nogc,tagx" if self.tagx else "nogc"
        g["opt"] = {"-O0": 0, "-O2": 2}[self.opt]
        g["abimode"] = self.abi
        g["env"] = dict(self.envx)
        if self.K is not None:
            g["env"]["CCFLAGS"] = "-DK=%d" % self.K

        def gf(rel, tag=None):
            p = os.path.join(self.root, rel)
            return F(rel, open(p, "rb").read(), os.stat(p).st_mtime_ns, tag=tag)
        pcfg = default_P(MODNAME + "/cfg", "cfg")
        pcfg["kind"] = "d"
        pcfg["gofiles"] = [gf("cfg/cfg.go")]
        pc = default_P(MODNAME + "/c", "c")
        pc["gofiles"] = [gf("c/c.go")]
        pc["deps"] = [MODNAME + "/cfg"]
        pext = default_P(MODNAME + "/ext", "ext")
        pext["kind"] = "x"
        pext["gofiles"] = [gf("ext/ext.go")]
        pext["deps"] = [MODNAME + "/c"]
        pb = default_P(MODNAME + "/b", "b")
        pb["gofiles"] = [gf("b/b.go")]
        pb["deps"] = [MODNAME + "/c"]
        pa = default_P(MODNAME + "/a", "a")
        pa["gofiles"] = [gf("a/a.go"), gf("a/t_on.go", ("tagx", True)), gf("a/t_off.go", ("tagx", False))]
        if self.has_extra:
            pa["gofiles"].append(gf("a/extra.go"))
        pa["sidefiles"] = [gf("a/_wrap/w.c")]
        pa["deps"] = [MODNAME + "/c", MODNAME + "/ext"]
        if self.xa is not None:
            pa["rewrites"] = [("XA", self.xa)]
        pm = default_P(MODNAME, "main")
        pm["gofiles"] = [gf("main.go")]
        pm["deps"] = [MODNAME + "/a", MODNAME + "/b", MODNAME + "/cfg"]
        return g, [pcfg, pc, pext, pb, pa, pm]


class Builder:
    """runs one compiler (the llgo binary, or the harness's `build` mode for -X) against a chosen cache directory"""

    def __init__(self, ctx, exe, is_harness):
        self.ctx, self.exe, self.is_harness = ctx, exe, is_harness
        self.gocache = os.path.join(ctx.llgo_dir, "gocache")
        os.makedirs(self.gocache, exist_ok=True)
        self.nbuilds = 0

    def env(self, mod, xdg):
        e = llgo_env(self.ctx, {"XDG_CACHE_HOME": xdg, "GOCACHE": self.gocache})
        if mod.K is not None:
            e["CCFLAGS"] = e["CCFLAGS"] + " -DK=%d" % mod.K
        e.update(mod.envx)
        return e

    def build(self, mod, xdg, out, genll=False, force=False):
        tags = "nogc,tagx" if mod.tagx else "nogc"
        if self.is_harness:
            cmd = [self.exe, "build", "-tags", tags, "-O", mod.opt[2:], "-abi", str(mod.abi)]
            if mod.xa is not None:
                cmd += ["-X", "%s/a.XA=%s" % (MODNAME, mod.xa)]
        else:
            cmd = [self.exe, "build", "-tags", tags, mod.opt, "-abi", str(mod.abi)]
        if genll:
            cmd.append("-gen-llfiles")
        if force:
            cmd.append("-a")
        cmd += ["-o", out, "."]
        self.nbuilds += 1
        e = self.env(mod, xdg)
        self.last_meta = None
        if self.is_harness:
            mo = out + ".meta"
            if os.path.exists(mo):
                os.remove(mo)
            e["VERIF_META_OUT"] = mo
        p = run_cmd(cmd, cwd=mod.root, env=e, timeout=1800)
        if self.is_harness and p.returncode == 0 and os.path.exists(mo):
            # package -> (served from the cache?, (need_rt, need_pyinit, link args)) as build.Do ended up with
            self.last_meta = {}
            for l in open(mo).read().split("\n"):
                f = l.split(" ")
                if len(f) == 5 and f[0].startswith(MODNAME + "/"):
                    self.last_meta[f[0].split("/")[-1]] = (f[1] == "true", (f[2], f[3], f[4]))
        return p, cmd


def user_archives(xdg):
    """{pkg: {(file name, mtime_ns)}} of the archives stored for the module's packages"""
    out = {}
    for f in glob.glob(os.path.join(xdg, "llgo", "build", "*", MODNAME, "*", "*.a")):
        out.setdefault(os.path.basename(os.path.dirname(f)), set()).add((os.path.basename(f), os.stat(f).st_mtime_ns))
    return out


def drop_user_archives(xdg):
    for d in glob.glob(os.path.join(xdg, "llgo", "build", "*", MODNAME)):
        shutil.rmtree(d, ignore_errors=True)


def out_lines(stderr):
    """the program's own lines + one pseudo line per package counting the call-trace lines LLGO_TRACE makes it print"""
    lines = stderr.split("\n")
    out = [l for l in lines if re.match(r"^(main|a|b|c)\.[a-z]+ ", l)]
    for pk, prefix in (("main", "call %s." % MODNAME), ("a", "call %s/a." % MODNAME), ("b", "call %s/b." % MODNAME), ("c", "call %s/c." % MODNAME)):
        out.append("%s.trace %d" % (pk, sum(1 for l in lines if l.startswith(prefix))))
    return out


def run_history(ctx, builder, hello, modeld, hid, script, fresh_oracle, res, cfg, targeted=False):
    """script: list of (kind, arg). After every step: build through the history's cache, build the oracle, compare."""
    rng = ctx.rng
    root = os.path.join(ctx.scratch, "hist-%s" % hid)
    mod = Mod(os.path.join(root, "mod"), rng)
    mod.write_all()
    xdg = os.path.join(root, "xdg")
    oxdg = os.path.join(root, "oracle-xdg")
    os.makedirs(xdg)
    os.makedirs(oxdg)
    model_lines = ["clean"]
    last_oracle = None
    last_inputs = None
    steps = []
    for si, (kind, arg) in enumerate([("initial", None)] + script):
        desc = "initial" if kind == "initial" else mod.edit(kind, arg)
        if kind == "clear":
            shutil.rmtree(os.path.join(xdg, "llgo"), ignore_errors=True)
            model_lines.append("clean")
        g, pkgs = mod.model_prog(hello)
        inputs_id = enc_prog(g, pkgs, True)
        before = user_archives(xdg)
        prog = os.path.join(root, "prog")
        p, cmd = builder.build(mod, xdg, prog, force=(kind == "force"))
        if p.returncode != 0 and si > 0:
            # the build through the cache fails: does the clean build of the same inputs work?
            drop_user_archives(oxdg) if not fresh_oracle else (shutil.rmtree(oxdg, ignore_errors=True), os.makedirs(oxdg))
            po, _ = builder.build(mod, oxdg, os.path.join(root, "oracle"))
            res["oracle_builds"] += 1
            if po.returncode == 0:
                key = "cache:build-from-cache-fails"
                res["stale"][key] = res["stale"].get(key, 0) + 1
                ctx.report(key, "after `%s` the build that reuses cached archives FAILS (%s) while the clean build of the same inputs succeeds"
                           % (desc, (p.stdout + p.stderr).strip().split("\n")[0][:200]),
                           {"history": hid, "compiler": "harness build (build.Do + -X)" if builder.is_harness else "llgo build", "edits_so_far": list(mod.log),
                            "step": si, "command": cmd[1:], "build_output_through_cache": (p.stdout + p.stderr)[-2000:], "env_extra": dict(mod.envx),
                            "env_CCFLAGS_extra": None if mod.K is None else "-DK=%d" % mod.K,
                            "cache_manifests_metadata": {os.path.relpath(f, xdg): open(f).read()[open(f).read().find("metadata:"):][:400]
                                                         for f in glob.glob(os.path.join(xdg, "llgo", "build", "*", MODNAME, "*", "*.manifest")) if "metadata:" in open(f).read()},
                            "module_files": {rel: open(os.path.join(mod.root, rel)).read() for rel in mod.files()},
                            "how": "write the files, run the listed edits each followed by the command with ONE private XDG_CACHE_HOME: the last command fails; "
                                   "the same command under an empty XDG_CACHE_HOME succeeds"})
                break
        if p.returncode != 0:
            if targeted and si > 0:
                # a targeted history probes settings the normal path never uses (LLGO_OPTIMIZE=off ...): a build that does not
                # work in this sandbox ends the history, it is not a verdict
                ctx.log("note: targeted history %s stops at step %d (%s): build failed: %s" % (hid, si, desc, (p.stdout + p.stderr)[-300:]))
                break
            raise RuntimeError("llgo build failed in history %s step %d (%s):\n%s" % (hid, si, desc, (p.stdout + p.stderr)[-3000:]))
        after = user_archives(xdg)
        if kind == "initial" and not fresh_oracle:
            # seed the oracle's cache with the runtime archives this build produced (saves one runtime compile); the
            # oracle only has to be free of archives of the MODULE's packages, which are dropped before every oracle build
            shutil.copytree(os.path.join(xdg, "llgo"), os.path.join(oxdg, "llgo"), dirs_exist_ok=True)
        step_meta = builder.last_meta
        sout, err, rc = run_prog(prog)
        got = out_lines(sout + "\n" + err)      # println writes to stderr, the LLGO_TRACE call trace to stdout
        # the oracle: a clean build of the current inputs (no archive of any package of the module in its cache; in
        # `fresh_oracle` mode a completely empty cache directory)
        all_miss = all((after.get(pk, set()) - before.get(pk, set())) for pk in PKGS) and not fresh_oracle
        if last_inputs == inputs_id and last_oracle is not None:
            want, orc = last_oracle
        elif all_miss:
            # every package of the module was compiled in this very build (nothing came from the cache): it IS a clean build
            want, orc = got, rc
            last_oracle, last_inputs = (want, orc), inputs_id
        else:
            if fresh_oracle:
                shutil.rmtree(oxdg, ignore_errors=True)
                os.makedirs(oxdg)
            else:
                drop_user_archives(oxdg)
            oprog = os.path.join(root, "oracle")
            po, _ = builder.build(mod, oxdg, oprog)
            if po.returncode != 0:
                raise RuntimeError("oracle build failed in history %s step %d (%s):\n%s" % (hid, si, desc, (po.stdout + po.stderr)[-3000:]))
            osout, oerr, orc = run_prog(oprog)
            want = out_lines(osout + "\n" + oerr)
            last_oracle, last_inputs = (want, orc), inputs_id
            res["oracle_builds"] += 1
        res["steps"] += 1
        res["edit_kinds"][kind] = res["edit_kinds"].get(kind, 0) + 1
        if [l for l in want if ".trace " not in l] != mod.expected():
            res["oracle_vs_expected"].append({"history": hid, "step": si, "edit": desc, "oracle": want, "expected": mod.expected()})
        model_lines.append("build %d 1 %s" % (1 if kind == "force" else 0, inputs_id))
        observed = {}
        for pk in PKGS:
            stored = after.get(pk, set()) - before.get(pk, set())
            observed[pk] = "miss" if stored else "hit"
        # spec: every line equals the clean build's line
        wantd = dict(l.split(" ", 1) for l in want)
        gotd = dict(l.split(" ", 1) for l in got)
        stale = sorted(k for k in set(wantd) | set(gotd) if wantd.get(k) != gotd.get(k))
        step = {"step": si, "edit": desc, "cmd": " ".join(cmd[1:]), "stale_lines": stale, "observed": observed, "model_line": len(model_lines) - 1,
                "_meta": step_meta,
                "_snap": {"kind": kind, "arg": arg, "hidden": bool(arg and kind in ("src-hidden", "revert") and mod.is_hidden(arg)), "edits_so_far": list(mod.log),
                          "command": cmd[1:], "env_CCFLAGS_extra": None if mod.K is None else "-DK=%d" % mod.K, "env_extra": dict(mod.envx),
                          "module_files": {rel: open(os.path.join(mod.root, rel)).read() for rel in mod.files()}}}
        steps.append(step)
        if stale and (rc != orc or 2 * len(stale) > len(wantd)):
            # not one input that is out of date: the program assembled from cached archives does not work like the clean build
            # (wrong exit status, or most lines differ)
            key = "cache:program-from-cached-archives-misbehaves"
            res["stale"][key] = res["stale"].get(key, 0) + 1
            ctx.report(key, "after `%s` the program linked from cached archives (cache decisions %s) exits with %s and prints %d lines that differ from the "
                       "clean build of the same inputs (exit %s), e.g. `%s %s` instead of `%s %s`"
                       % (desc, observed, rc, len(stale), orc, stale[0], gotd.get(stale[0]), stale[0], wantd.get(stale[0])),
                       {"history": hid, "compiler": "harness build (build.Do + -X)" if builder.is_harness else "llgo build", "edits_so_far": list(mod.log),
                        "step": si, "cache_decisions": observed, "exit_through_cache": rc, "exit_clean_build": orc, "through_cache": got, "clean_build": want,
                        "raw_output_through_cache": (sout + err)[-2000:], "command": cmd[1:], "env_CCFLAGS_extra": None if mod.K is None else "-DK=%d" % mod.K,
                        "env_extra": dict(mod.envx), "module_files": {rel: open(os.path.join(mod.root, rel)).read() for rel in mod.files()},
                        "how": "write the files, run the listed edits each followed by the command with ONE private XDG_CACHE_HOME (the last command "
                               "finds every package of the module in the cache); compare with the same command under an empty XDG_CACHE_HOME"})
            stale_to_classify = []
        else:
            stale_to_classify = stale
        for line in stale_to_classify:
            resp = Mod.RESP.get(line, "?")
            if resp in ("c/c.go", "a/a.go", "b/b.go", "a/extra.go", "cfg/cfg.go", "ext/ext.go") and mod.is_hidden(resp):
                key = KNOWN_CLASSES["mtime"]
            elif resp == "a/_wrap/w.c":
                key = KNOWN_CLASSES["side"]
            elif resp == "env:CCFLAGS":
                key = KNOWN_CLASSES["ccflags"]
            else:
                # unknown class: name the responsible input and the last edit that touched it
                tail = {"flag:-X": "xvar", "flag:-tags": "tag", "env:CCFLAGS": "ccflags"}.get(resp, resp)
                last = next((e for e in reversed(mod.log) if e.startswith(tail) or e.endswith(":" + tail)), mod.log[-1] if mod.log else "initial")
                key = "cache:stale:%s:after:%s" % (resp, last)
            res["stale"].setdefault(key, 0)
            res["stale"][key] += 1
            ctx.report(key, "after the edit `%s` the program built through the cache prints `%s %s`, a clean build of the same inputs prints `%s %s`"
                       % (desc, line, gotd.get(line), line, wantd.get(line)),
                       {"history": hid, "compiler": "harness build (build.Do + -X)" if builder.is_harness else "llgo build",
                        "edits_so_far": list(mod.log), "step": si, "line": line, "responsible_input": resp,
                        "through_cache": got, "clean_build": want, "command": cmd[1:], "env_CCFLAGS_extra": None if mod.K is None else "-DK=%d" % mod.K, "env_extra": dict(mod.envx),
                        "module_files": {rel: open(os.path.join(mod.root, rel)).read() for rel in mod.files()},
                        "how": "write the files, run the listed edits each followed by the command with a private XDG_CACHE_HOME; compare with the same command under an empty XDG_CACHE_HOME"})
    # the Lean model's buildProg over the same history: hit/miss and fresh/stale per package
    answers = model_lines_run(modeld, cfg, model_lines)
    seen_rel = {}          # package -> relevant-input hashes of every build since the cache was last empty
    stored_meta = {}       # (package, fingerprint) -> metadata the compiler computed when it built and stored the package
    for step in steps:
        ml = step.pop("model_line")
        snap = step.pop("_snap")
        meta = step.pop("_meta")
        if snap["kind"] == "clear":
            seen_rel = {}
            stored_meta = {}
        ans = answers[ml]
        mpred = {}
        if ans.startswith("ok"):
            for t in ans.split()[1:]:
                i, hm, fs, rh, kh = t.split(":")
                mpred[bytes.fromhex(i).decode().split("/")[-1]] = (hm, fs, rh, kh)
        else:
            res["model_errors"].append(ans)
        # "metadata recomputed on a miss equals metadata read back on a hit": what build.Do ends up with for a package
        # (need_rt, need_pyinit, link args) must not depend on whether the archive came from the cache
        if meta:
            res["metadata_compared"] = res.get("metadata_compared", 0)
            for pk in PKGS:
                m = mpred.get(pk)
                if m is None or pk not in meta:
                    continue
                hit, md = meta[pk]
                if not hit:
                    stored_meta[(pk, m[3])] = md
                elif (pk, m[3]) in stored_meta:
                    res["metadata_compared"] += 1
                    if stored_meta[(pk, m[3])] != md:
                        key = "cache:metadata-read-back-differs"
                        res["stale"][key] = res["stale"].get(key, 0) + 1
                        ctx.report(key, "package %s/%s: the build that compiled it ended with (need_rt, need_pyinit, link_args) = %s, the build that took the same "
                                   "archive from the cache (after `%s`) with %s" % (MODNAME, pk, stored_meta[(pk, m[3])], step["edit"], md),
                                   dict(snap, history=hid, step=step["step"], package=pk, on_miss=stored_meta[(pk, m[3])], on_hit=md,
                                        how="harness/c13 `build` mode = build.Do; VERIF_META_OUT=<file> makes it write NeedRt/NeedPyInit/LinkArgs/CacheHit "
                                            "of every package after the build; build, apply the edits, build again with the same XDG_CACHE_HOME"))
        # spec (second form): a package served from the cache although its relevant inputs differ from those of EVERY build
        # since the cache was empty - whatever archive was served, it was compiled from other inputs ("the next build
        # reflects the change" fails even where the program's output cannot show it, e.g. LLGO_OPTIMIZE=off)
        for pk in PKGS:
            m = mpred.get(pk)
            if m is None:
                continue
            if step["observed"][pk] == "hit" and seen_rel.get(pk) and m[2] not in seen_rel[pk] and not step["stale_lines"]:
                k0 = snap["kind"]
                if k0 == "cside":
                    key = KNOWN_CLASSES["side"]
                elif k0 == "ccflags":
                    key = KNOWN_CLASSES["ccflags"]
                elif snap["hidden"]:
                    key = KNOWN_CLASSES["mtime"]
                else:
                    key = "cache:hit-after-change:%s" % step["edit"]
                res["stale"][key] = res["stale"].get(key, 0) + 1
                ctx.report(key, "after the edit `%s` package %s/%s was served from the cache (no new archive) although its relevant inputs differ from those "
                           "of every earlier build with this cache: the archive linked was compiled from other inputs" % (step["edit"], MODNAME, pk),
                           dict(snap, history=hid, step=step["step"], package=pk, compiler="harness build (build.Do + -X)" if builder.is_harness else "llgo build",
                                how="write the files, run the listed edits each followed by the command with a private XDG_CACHE_HOME; watch "
                                    "<XDG_CACHE_HOME>/llgo/build/*/%s/%s/: no new <fingerprint>.a appears after the last edit" % (MODNAME, pk)))
            seen_rel.setdefault(pk, set()).add(m[2])
        step["model"] = {k: list(v[:2]) for k, v in mpred.items() if k in PKGS}
        for pk in PKGS:
            m = mpred.get(pk)
            if m is None:
                continue
            res["pkg_builds"] += 1
            where = {"history": hid, "step": step["step"], "edit": step["edit"], "pkg": pk}
            if m[0] == "miss" and step["observed"][pk] == "hit":
                res["real_coarser"].append(where)
            elif m[0] == "hit" and step["observed"][pk] == "miss":
                res["real_finer"].append(where)
            pk_stale = any(l.split(".")[0] == pk for l in step["stale_lines"])
            if m[1] == "stale":
                res["model_stale_predictions"] += 1
            if (m[1] == "stale") != pk_stale:
                res["stale_prediction_diff"].append(dict(where, model=m[1], observed_stale_lines=step["stale_lines"]))
    res["histories"].append({"id": hid, "compiler": "harness" if builder.is_harness else "llgo", "steps": steps})
    shutil.rmtree(root, ignore_errors=True)


def scan_map_ranges():
    """informational (never a verdict): `for … range x` sites in the emitting packages (cl, ssa) where x is declared as a map in
    the same package, and whether a sort follows within the next 12 lines"""
    out = {"sites": 0, "sorted_nearby": 0, "unsorted": []}
    for pkg in ("ssa", "cl"):
        files = [f for f in glob.glob(os.path.join(REPO, pkg, "*.go")) if not f.endswith("_test.go")]
        srcs = {f: open(f, errors="replace").read().split("\n") for f in files}
        maps = set()
        for lines in srcs.values():
            for l in lines:
                m = re.match(r"^\s*(\w+)\s+map\[", l) or re.match(r"^\s*(?:var\s+)?(\w+)\s*(?::=|=)\s*(?:make\()?map\[", l)
                if m:
                    maps.add(m.group(1))
        for f, lines in srcs.items():
            for i, l in enumerate(lines):
                m = re.search(r"\brange\s+([\w.]+)\s*\{", l)
                if m and m.group(1).split(".")[-1] in maps:
                    out["sites"] += 1
                    if any(re.search(r"\bsort\.|slices\.Sort", x) for x in lines[i:i + 12]):
                        out["sorted_nearby"] += 1
                    else:
                        out["unsorted"].append("%s/%s:%d %s" % (pkg, os.path.basename(f), i + 1, l.strip()[:80]))
    out["unsorted"] = out["unsorted"][:40]
    return out


def collect_ir(gocache):
    """{ModuleID: bytes} of the .ll files `-gen-llfiles` left next to the export files"""
    out = {}
    for f in glob.glob(os.path.join(gocache, "*", "*.ll")):
        data = open(f, "rb").read()
        m = re.match(rb"; ModuleID = '([^']*)'", data)
        mid = m.group(1).decode("utf-8", "replace") if m else os.path.basename(f)
        out[mid] = data
    return out


def reproducibility(ctx, builder, res, rounds=2):
    """same sources, same configuration, `rounds` fresh caches: every package's IR must be byte-identical"""
    root = os.path.join(ctx.scratch, "repro")
    mod = Mod(os.path.join(root, "mod"), ctx.rng, nfill=9)
    mod.write_all()
    # -O0: the dumped IR is llgo's own emission (cl/ssa), which is what the sorted loops order; with LLVM 14 the textual
    # -O2 IR of the runtime package does not re-parse in clang (`-gen-llfiles` switches to the textual route)
    mod.opt = "-O0"
    irs = []
    for k in range(rounds):
        for f in glob.glob(os.path.join(builder.gocache, "*", "*.ll")):
            os.remove(f)
        xdg = os.path.join(root, "xdg%d" % k)
        os.makedirs(xdg)
        p, cmd = builder.build(mod, xdg, os.path.join(root, "prog%d" % k), genll=True)
        if p.returncode != 0:
            raise RuntimeError("llgo build -gen-llfiles failed:\n" + (p.stdout + p.stderr)[-3000:])
        irs.append(collect_ir(builder.gocache))
        shutil.rmtree(xdg, ignore_errors=True)
    base = irs[0]
    res["ir_modules"] = sorted(base)
    res["ir_bytes"] = sum(len(v) for v in base.values())
    need = [MODNAME + "/a", MODNAME + "/b", MODNAME + "/c"]
    missing = [m for m in need if m not in base]
    if missing:
        raise HarnessBuildError("-gen-llfiles did not leave IR for %s (found %d modules)" % (missing, len(base)))
    ndiff = 0
    for k in range(1, rounds):
        for mid in sorted(set(base) | set(irs[k])):
            a, b = base.get(mid), irs[k].get(mid)
            if a == b:
                continue
            ndiff += 1
            if ndiff > 3:
                continue          # one cause usually shows in every package: three replays are enough
            da = (a or b"").decode("utf-8", "replace").split("\n")
            db = (b or b"").decode("utf-8", "replace").split("\n")
            diff = list(difflib.unified_diff(da, db, "build-0/" + mid, "build-%d/%s" % (k, mid), lineterm="", n=1))[:200]
            ctx.report("repro:ir-differs:" + mid, "two builds of the same sources with the same configuration (fresh caches) emit different IR for package %s" % mid,
                       {"package": mid, "command": cmd[1:], "diff": diff,
                        "module_files": {rel: open(os.path.join(mod.root, rel)).read() for rel in mod.files()},
                        "how": "build twice with `-gen-llfiles` under two empty XDG_CACHE_HOME directories and compare <export file>.ll of the package"})
    res["ir_differences"] = ndiff
    shutil.rmtree(root, ignore_errors=True)


EDIT_POOL_LLGO = [("src", "c/c.go"), ("src", "cfg/cfg.go"), ("src", "ext/ext.go"), ("src", "a/a.go"), ("src", "b/b.go"), ("src", "main.go"), ("tag", None), ("opt", None), ("addfile", None),
                  ("touch", "b/b.go"), ("revert", "c/c.go"), ("force", None), ("noop", None), ("clear", None), ("abi", None),
                  ("src-hidden", "a/a.go"), ("src-hidden", "c/c.go"), ("cside", None), ("ccflags", None)]
# which e2e edits exercise an input kind for which the manifest correspondence found the real key too coarse.  These
# histories run ONLY then (the unchanged tree never pays for them); they turn "the key lost an input" into a concrete program
# that is stale, or a concrete package served from the cache across a change the compiler honours.
OPT_EDITS = [("opt", None)]          # -O2 -> -O0: `a.opt` (clang's __OPTIMIZE__ in the C side file) must flip
TARGETED = {"rewrite-val": [("xvar", None)], "rewrite-add": [("xvar", None)],
            "dep-content": [("src", "cfg/cfg.go"), ("src", "c/c.go")],
            "tags": [("tag", None)], "abimode": [("abi", None)],
            "opt": OPT_EDITS, "cc": OPT_EDITS, "ccrest": OPT_EDITS, "cflags": OPT_EDITS, "ldflags": OPT_EDITS, "linker": OPT_EDITS,
            "file-mtime": [("touch", "b/b.go")], "file-content-size": [("src", "a/a.go")], "file-content-samesize": [("src-hidden", "c/c.go")],
            "file-add": [("addfile", None)], "file-remove": [("addfile", None)], "extra": [],
            # values the compiler honours (build.go isEnvOn accepts 1/true/on): tracing on shows as call lines of every package
            "env-listed": [("envvar", "LLGO_TRACE=on"), ("envvar", "LLGO_TRACE="), ("envvar", "LLGO_TRACE=1"), ("envvar", "LLGO_TRACE="),
                           ("envvar", "LLGO_OPTIMIZE=off")],
            "env-ccflags": [("ccflags", None)]}


def targeted_script(kinds):
    script = []
    for k in sorted(kinds):
        for e in TARGETED.get(k.split(":")[0], []):
            if not script or script[-1] != e or e[0] in ("xvar", "opt", "tag", "abi", "ccflags", "addfile"):
                script.append(e)
    return script


def random_script(rng, n, with_x):
    pool = list(EDIT_POOL_LLGO)
    if with_x:
        pool += [("xvar", None)] * 4
    script = []
    while len(script) < n:
        e = rng.choice(pool)
        if script and script[-1] == e and e[0] in ("noop", "clear", "force"):
            continue
        script.append(e)
    return script


def run(ctx, args):
    quick = ctx.tier == "quick"
    st = lean_check(ctx, ["LlgoVerif.Props.C13"], ["LlgoVerif/Props/C13.lean"],
                    extra_files=["LlgoVerif/Model/Cache.lean", "LlgoVerif/Lemmas/Cache.lean"], leanchecker=not quick)
    modeld = build_driver(ctx, "modeld_c13")
    harness = build_go_harness(ctx, "c13", overlay={"internal/build/zz_verif_c13.go": "overlay/zz_verif_c13.go.txt",
                                                    "ssa/zz_verif_c13_ssa.go": "overlay/zz_verif_c13_ssa.go.txt",
                                                    "ssa/zz_verif_opaque.go": os.path.join(E2E, "overlay", "zz_verif_opaque.go.txt")},
                               tags="llvm14,verif")
    out, rc, err = run_lines([harness], ["hello"] + ["use %d" % i for i in range(6)])
    if len(out) != 7 or not out[0].startswith("ok "):
        raise HarnessBuildError("harness c13 does not answer: %s %s" % (out, err[-1000:]))
    hello = {k: unhexs(v).decode() for k, v in (kv.split("=") for kv in out[0].split()[1:])}

    # ---- tie B-O (1): where the optimisation level enters the manifest — crosscompile.Use puts level.Flag() first
    broken = []
    use_model = model_lines_run(modeld, (True, True), ["use %d %s" % (i, ",".join(out[1 + i][3:].split(",")[1:]) or ".") for i in range(6)])
    for i in range(6):
        if out[1 + i] != use_model[i]:
            broken.append("crosscompile.Use CCFLAGS for level %d: real %s, model %s" % (i, out[1 + i], use_model[i]))
    # ---- reproducibility, in process: the same generated program compiled several times through the ssa API, then the entry
    # module's runtime-type list requested the way internal/build genMainModule does (InitAbiTypesFor + the real
    # filterAbiSymbol; -1 = unfiltered): entry module and user package IR must be byte-identical every time (the SPEC, judged
    # on the real output alone).  Correspondence: the order in which the real code lists the descriptors must be what the
    # Lean model `abiTypeNames` makes of the same symbol table (as one `range prog.abiSymbol` delivered it) and the same
    # filter verdicts - `abiTypeNames_listing`: THE strictly increasing listing of the selected set.  (Programs that make llgo
    # emit this list use reflect.StructOf/PointerTo/Method..., which cannot be built end to end here.)
    abistats, abibroken = abitypes_tie(ctx, harness, modeld, quick)
    broken += abibroken
    # ---- tie B-O (1b): what the cache keeps of a compiled package besides its fingerprint - the archive bytes and the
    # metadata (need_rt, need_pyinit, link args) - comes back unchanged: real saveToCache followed by real tryLoadFromCache on
    # a fresh package record with the same fingerprint.  SPEC: identity (`roundtrip_necessary`: anything else makes the no-op
    # rebuild differ from the clean build).  Correspondence: the Lean model's `loadArtifact (storeArtifact a)` on the same input.
    mreq, metabroken = metadata_tie(ctx, harness, modeld, quick)
    broken += metabroken
    # ---- which variant of the fingerprint code is this tree?  (Model/Cache.lean mirrors both: Cfg)
    cfg = probe_variant(harness, hello)
    ctx.log("fingerprint variant of the working tree: contentHash=%s ccflagsEnv=%s (%s)" % (cfg[0], cfg[1],
            {(True, True): "Cfg.fixed: keyCovers_partial_fixed / cache_sound_fixed apply", (False, False): "Cfg.legacy: keyCovers_partial / cache_sound_partial apply"}
            .get(cfg, "mixed: key_covers_of_hyp with the corresponding hypotheses")))
    # ---- tie B-O (2): real collectFingerprint vs the model's key, field by field and as a collision relation
    nb, nm = (60, 8) if quick else (1500, 12)
    cstats, field_mm, coarser, finer, nontrivial, sample = correspondence(ctx, harness, modeld, hello, nb, nm, cfg)
    cstats["variant"] = {"contentHash": cfg[0], "ccflagsEnv": cfg[1]}
    ctx.log("manifest correspondence: %d requests, %d field mismatches, %d pairs; real coarser than model: %d, finer: %d"
            % (cstats["requests"], len(field_mm), cstats["pairs"], len(coarser), len(finer)))
    if field_mm:
        broken.append("manifest fields differ from the model's key on %d package manifests, e.g. %s" % (len(field_mm), str(field_mm[0])[:1500]))
    harmful = [c for c in coarser if c[4]]
    if harmful:
        broken.append("the real fingerprint is the same where the model's key AND the relevant inputs differ (an input left the manifest): kinds %s, e.g. %s"
                      % (sorted(set(c[0] for c in harmful)), str(harmful[0])[:1500]))
    if len(coarser) > len(harmful):
        ctx.log("note: the real fingerprint identifies %d input pairs that the model's key separates although their relevant inputs are equal (kinds %s): "
                "harmless (the code ignores something that does not matter), the model should be updated"
                % (len(coarser) - len(harmful), sorted(set(c[0] for c in coarser if not c[4]))))
    if finer:
        ctx.log("note: the real fingerprint separates %d input pairs that the model's key identifies (kinds %s): the code's key became finer than the "
                "model; theorems proved for the coarser key still apply, the model should be updated" % (len(finer), sorted(set(c[0] for c in finer))))

    # ---- tie B-O (2b): listed files that are symbolic links - an edit of the link's target must reach the fingerprint whenever the
    # same edit of a regular file does (judged on the real code alone; the model's file is what stat reports, i.e. the target)
    lstats, lbroken = symlink_tie(ctx, harness, hello, quick)
    broken += lbroken
    cstats["symlink_tie"] = lstats
    ctx.log("symlinked sources: %d cases (%s); the edit changes some fingerprint %d times as a regular file, %d times through the link"
            % (lstats["cases"], {k: v["n"] for k, v in lstats["by_kind"].items()}, lstats["regular_separates"], lstats["link_separates"]))
    if lstats["cases"] and not lstats["regular_separates"]:
        broken.append("symlink tie is vacuous: no edit changed a fingerprint")

    # ---- tie B-E: histories
    build_llgo(ctx)
    res = {"steps": 0, "oracle_builds": 0, "edit_kinds": {}, "oracle_vs_expected": [], "model_errors": [], "pkg_builds": 0, "real_coarser": [],
           "real_finer": [], "stale_prediction_diff": [], "stale": {}, "histories": [], "model_stale_predictions": 0}
    b_llgo = Builder(ctx, ctx.llgo, False)
    b_harn = Builder(ctx, harness, True)
    rng = ctx.rng
    # corpus first: the kernel-checked counterexamples of Props/C13.lean, replayed on the real compiler
    plans = []
    corpus = json.load(open(os.path.join(VERIF, "corpus", "C13", "histories.json")))
    for h in corpus["histories"]:
        if h["tier"] == "quick" or not quick:
            plans.append((h["id"], b_harn if h["compiler"] == "harness" else b_llgo, [(k, a) for k, a in h["script"]], False))
    tscript = targeted_script(set(c[0] for c in harmful))
    if tscript:
        plans.append(("targeted", b_harn, tscript, False))
    nh, ns = (0, 0) if quick else (6, 10)      # quick: the corpus history `quick` only (about eight llgo builds)
    for i in range(nh):
        plans.append(("llgo-%d" % i, b_llgo, random_script(rng, ns, False), (not quick) and i % 4 == 0))
    for i in range(nh):
        plans.append(("x-%d" % i, b_harn, [("xvar", None)] + random_script(rng, ns - 1, True), False))
    for hid, builder, script, fresh in plans:
        t0 = time.time()
        run_history(ctx, builder, hello, modeld, hid, script, fresh, res, cfg, targeted=(hid == "targeted"))
        ctx.log("history %s (%s): %d steps in %.0f s; stale classes so far: %s" % (hid, "harness build" if builder.is_harness else "llgo build",
                                                                                 len(script) + 1, time.time() - t0, res["stale"]))
    reproducibility(ctx, b_llgo, res, rounds=2 if quick else 3)
    ctx.log("reproducibility: %d IR modules (%d bytes) compared, %d differences" % (len(res["ir_modules"]), res["ir_bytes"], res["ir_differences"]))

    if res["oracle_vs_expected"]:
        ctx.log("note: the clean-build oracle differs from the by-construction expectation in %d steps (not a cache matter), first: %s"
                % (len(res["oracle_vs_expected"]), res["oracle_vs_expected"][0]))
    if res["real_coarser"]:
        broken.append("e2e: packages served from the cache where the model's key changed: %s" % res["real_coarser"][:5])
    if res["real_finer"]:
        ctx.log("note: e2e cache misses where the model predicts a hit (the code's key is finer than the model): %s" % res["real_finer"][:5])
    if res["model_errors"]:
        broken.append("modeld_c13 rejected history requests: %s" % res["model_errors"][:2])

    for name, s in st.items():
        if s != "ok":
            ctx.log("theorem", name, s)
    for b in broken:
        ctx.broken.append(b)
    if not ctx.violations:
        if broken:
            ctx.report_broken("correspondence C13 real-vs-model", {"what": broken, "searched": "histories " + ", ".join(p[0] for p in plans)})
        bad = [n for n, s in st.items() if s != "ok"]
        if bad:
            ctx.report_broken("Props/C13: " + ", ".join(bad), st)

    ctx.coverage["samples"] = [sample, res["histories"][0]["steps"][:3] if res["histories"] else None]
    ctx.coverage["trusted_base"] += [
        "modelling assumption: a package archive is a function of `relevant` (Model/Cache.lean) — the declared dependency set; SHA-256 (manifest, overlay contents) "
        "is collision free (explicit hypotheses Function.Injective of the theorems); strings are valid UTF-8",
        "hand-written Lean model of collectFingerprint tied by (a) field-by-field comparison with the manifests the real code produces on generated package records, "
        "(b) agreement of the collision relations, (c) hit/miss per package and step in the end-to-end histories",
        "the clean build (no archive of the module's packages in the cache; completely empty cache in fresh-oracle histories) is the specification oracle",
        "Python generators in checks/c13.py; the harness's `build` mode re-implements the 12 lines of cmd/internal/build that fill build.Config (needed for -X)",
    ]
    ctx.assumptions += ["emission loops other than processPkg/getAbiTypesFor/orderedStringMap are covered only by the IR byte comparison",
                        "embed files: from code only (programs importing `embed` do not build in this sandbox)"]
    return ctx.finish("proof", {
        "evaluations": cstats["requests"] + res["steps"],
        "distinct_nontrivial": nontrivial + res["steps"],
        "rule": "B-O: one request = one generated build configuration with 1-4 package records (distinct by request text; every request carries at least one "
                "file); B-E: one evaluation = one history step = (edit, build through the cache, clean build, run both, compare line by line)",
        "input_distribution": {"manifest_correspondence": cstats, "history_edit_kinds": res["edit_kinds"], "history_steps": res["steps"],
                               "oracle_builds": res["oracle_builds"], "llgo_builds": b_llgo.nbuilds, "harness_builds": b_harn.nbuilds,
                               "package_cache_decisions_compared_with_model": res["pkg_builds"], "model_stale_predictions": res["model_stale_predictions"],
                               "metadata_roundtrips": len(mreq), "metadata_hit_vs_miss_compared": res.get("metadata_compared", 0)},
        "stale_lines_by_class": res["stale"],
        "entry_module_recompilations": abistats, "map_range_sites": scan_map_ranges(),
        "ir_modules_compared": len(res["ir_modules"]), "ir_bytes_compared": res["ir_bytes"], "ir_differences": res["ir_differences"],
        "correspondence_mismatches": len(field_mm) + len(harmful) + len(res["real_coarser"]),
        "model_finer_notes": len(finer) + len(res["real_finer"]), "harmless_coarser_notes": len(coarser) - len(harmful),
        "histories": res["histories"] if quick else res["histories"][:6],
    })
