import LlgoVerif.Util
import LlgoVerif.Model.Defer
import LlgoVerif.Spec.DeferSem
/-! Line-protocol driver for C04.

    `model <o2:0|1> <tlsfix:0|1> <fuel> <prog>`   run the model of llgo's machinery
    `spec <fuel> <prog>`                          run Go's rule
    `frame <stmts> <hist>`                        frame layer only: calls made by `Model.unwindView` and by `Spec.unwindView`
                                                  (`hist` = statement indices, comma separated, oldest first; payload = position)

    prog  := fn ('|' fn)*            fn := capR [entryFrame [implicitRun [noRun]]] ('.' droppedSite)* ';' stmts ';' events
    stmts := '' | stmt (',' stmt)*   stmt := kind '.' clo '.' nargs '.' fn        kind ∈ a c l x
    events:= '' | ev (',' ev)*       ev := d.k(.arg)* | c.g(.arg)* | m.int | p.arg | f | R | t | e | s.up.var.arg | a.up.var.arg | w.up.var
    arg   := l<int> | x | r | p<nat>
    answer: `<status> <flags> <trace>`; status ∈ ok, U:<v>, ub, stuck; trace lines joined by `|`, tokens by `.`  -/
open LlgoVerif LlgoVerif.Util LlgoVerif.Defer

def tail1 (s : String) : String := String.ofList (s.toList.drop 1)

def parseInt? (s : String) : Option Int :=
  if s.startsWith "-" then (tail1 s).toNat?.map (fun n => -(n : Int)) else s.toNat?.map (fun n => (n : Int))

def parseArg (s : String) : Option Arg :=
  if s = "x" then some .x
  else if s = "r" then some .r
  else if s.startsWith "l" then (parseInt? (tail1 s)).map .lit
  else if s.startsWith "p" then (tail1 s).toNat?.map .p
  else none

def parseVar (s : String) : Option Var :=
  if s = "x" then some .x else if s = "r" then some .r else none

def parseBool (s : String) : Option Bool :=
  if s = "1" then some true else if s = "0" then some false else none

def parseStmt (s : String) : Option Stmt :=
  match s.splitOn "." with
  | [k, c, n, f] => do
    let kind ← (if k = "a" then some Kind.always else if k = "c" then some Kind.cond else if k = "l" then some Kind.loop else if k = "x" then some Kind.ext else none)
    pure ⟨kind, ← parseBool c, ← n.toNat?, ← f.toNat?⟩
  | _ => none

def parseEv (s : String) : Option Ev :=
  match s.splitOn "." with
  | "d" :: k :: args => do pure (.defer (← k.toNat?) (← args.mapM parseArg))
  | "c" :: g :: args => do pure (.call (← g.toNat?) (← args.mapM parseArg))
  | ["m", n] => (parseInt? n).map .mark
  | ["p", a] => (parseArg a).map .panic
  | ["f"] => some .fault
  | ["R"] => some .recover
  | ["t"] => some .ret
  | ["e"] => some .entryEnd
  | ["s", u, v, a] => do pure (.set (← parseBool u) (← parseVar v) (← parseArg a))
  | ["a", u, v, a] => do pure (.add (← parseBool u) (← parseVar v) (← parseArg a))
  | ["w", u, v] => do pure (.show (← parseBool u) (← parseVar v))
  | _ => none

def parseList {α : Type} (f : String → Option α) (s : String) : Option (List α) :=
  if s = "" then some [] else (s.splitOn ",").mapM f

def parseFn (s : String) : Option Fn :=
  match s.splitOn ";" with
  | [c, ss, evs] =>
    -- header: flags, then the indices of dropped defer sites: `cei.k1.k2`
    match c.splitOn "." with
    | [] => none
    | c :: ds =>
    match ds.mapM String.toNat? with
    | none => none
    | some dropped =>
    (fun (r : Option Fn) => r.map fun f => { f with dropped := dropped }) <|
    match c.toList with
    | [a] => do pure ⟨← parseList parseStmt ss, ← parseList parseEv evs, ← parseBool (String.singleton a), false, false, [], false⟩
    | [a, b] => do pure ⟨← parseList parseStmt ss, ← parseList parseEv evs, ← parseBool (String.singleton a), ← parseBool (String.singleton b), false, [], false⟩
    | [a, b, c] => do pure ⟨← parseList parseStmt ss, ← parseList parseEv evs, ← parseBool (String.singleton a), ← parseBool (String.singleton b), ← parseBool (String.singleton c), [], false⟩
    | [a, b, c, d] => do pure ⟨← parseList parseStmt ss, ← parseList parseEv evs, ← parseBool (String.singleton a), ← parseBool (String.singleton b), ← parseBool (String.singleton c), [], ← parseBool (String.singleton d)⟩
    | _ => none
  | _ => none

def parseProg (s : String) : Option Prog := do
  let fns ← (s.splitOn "|").mapM parseFn
  pure ⟨fns⟩

def showInt (n : Int) : String := if n < 0 then "-" ++ toString n.natAbs else toString n.natAbs

def showLine (l : Line) : String :=
  let t := match l.tag with
    | .F => "F" | .M => "M" | .R => "R" | .Rnil => "Rnil" | .T => "T" | .V => "V"
  ".".intercalate (t :: l.vals.map showInt)

def showTrace (out : List Line) : String :=
  if out.isEmpty then "-" else "|".intercalate (out.reverse.map showLine)

def showFlag : Flag → String
  | .wrongNode => "wrongNode"
  | .unexecAlways => "unexecAlways"
  | .drainOrder => "drainOrder"
  | .staleFrame => "staleFrame"
  | .regResult => "regResult"
  | .resultBeforeRun => "resultBeforeRun"
  | .droppedDefer => "droppedDefer"
  | .frameInitSkipped => "frameInitSkipped"
  | .nodesLeft => "nodesLeft"
  | .frameNeverPopped => "frameNeverPopped"
  | .recoverIndirect => "recoverIndirect"
  | .nestedRecover => "nestedRecover"

def showFlags (fs : List Flag) : String :=
  if fs.isEmpty then "-" else ",".intercalate (fs.reverse.map showFlag)

def layoutsOk (p : Prog) : Bool := p.fns.all (fun f => layoutOk f.stmts)

def showCalls (cs : List (Call Nat)) : String :=
  if cs.isEmpty then "-" else
  ",".intercalate (cs.map fun c => match c.node with
    | none => toString c.stmt
    | some nd => toString c.stmt ++ ":" ++ toString nd.id ++ ":" ++ toString nd.val)

def numbered : Nat → List Nat → List (Nat × Nat)
  | _, [] => []
  | i, k :: t => (k, i) :: numbered (i + 1) t

def handle (line : String) : String :=
  match fields line with
  | ["model", o2, fx, fuel, prog] =>
    match parseBool o2, parseBool fx, fuel.toNat?, parseProg prog with
    | some o2, some fx, some fuel, some p =>
      if !layoutsOk p then "compile-error" else
      let (st, res) := Model.run ⟨o2, fx⟩ p fuel
      let status := match res with
        | .ret _ => "ok"
        | .esc (.exit v) => "U:" ++ showInt v
        | .esc .stuck => "stuck"
        | .esc _ => "ub"
      status ++ " " ++ showFlags st.flags ++ " " ++ showTrace st.out
    | _, _, _, _ => "bad-op"
  | ["spec", fuel, prog] =>
    match fuel.toNat?, parseProg prog with
    | some fuel, some p =>
      let (st, res) := Spec.run p fuel
      let status := match res with
        | .ret _ _ => "ok"
        | .panic v _ => "U:" ++ showInt v
        | .stuck => "stuck"
      status ++ " " ++ showFlags st.flags ++ " " ++ showTrace st.out
    | _, _ => "bad-op"
  | ["frame", ss, hist] =>
    match parseList parseStmt (if ss = "-" then "" else ss), parseList String.toNat? (if hist = "-" then "" else hist) with
    | some ss, some hist =>
      let h := numbered 0 hist
      let exec : Call Nat → Unit → Out Unit × Unit := fun _ _ => (.ok, ())
      let m := unwindView ss exec h ()
      let s := Spec.unwindView ss exec h ()
      showCalls m.2.1 ++ " " ++ showCalls s.2.1
    | _, _ => "bad-op"
  | _ => "bad-op"

def main : IO Unit := lineLoop handle
