import LlgoVerif.Util
import LlgoVerif.Model.Init
/-! Line-protocol driver for C12. One request per line, one answer per line.

    `host <calls> <pkg> <pkg> …`          trace of the top-level initialiser calls `calls` (c-archive host, or any test)
    `exe <main> <rt|-> <abi 0|1> <pkg> …` trace of the generated entry function
      calls : comma separated package numbers (`-` = none)
      pkg   : `<imports>` | `<imports>/c/<origImports>` (chained patched) | `<imports>/n/<origImports>` (skip-init patched);
              package number = position; import lists comma separated, `-` = empty
    answer: `ok ` + events: `b<p>` body of p's init, `o<p>` body of p's init$hasPatch, `py`, `abi`, `main`;
            `bad-topo` if some import is not smaller than its importer (the model is only meant for topological numberings) -/
open LlgoVerif LlgoVerif.Util LlgoVerif.Init

def natList (s : String) : Option (List Nat) :=
  if s = "-" then some [] else (s.splitOn ",").mapM String.toNat?

def parsePkg (s : String) : Option Pkg :=
  match s.splitOn "/" with
  | [i] => do pure { imports := (← natList i) }
  | [i, "c", o] => do pure { imports := (← natList i), kind := .chained (← natList o) }
  | [i, "n", o] => do pure { imports := (← natList i), kind := .noOld (← natList o) }
  | _ => none

def showEv : Ev → String
  | .body p false => "b" ++ toString p
  | .body p true => "o" ++ toString p
  | .pyInit => "py"
  | .abiTypes => "abi"
  | .mainMain => "main"

def showTrace (t : List Ev) : String :=
  if t.isEmpty then "ok ." else "ok " ++ " ".intercalate (t.map showEv)

def handle (line : String) : String :=
  match fields line with
  | "host" :: calls :: pkgs =>
    match natList calls, pkgs.mapM parsePkg with
    | some cs, some ps =>
      let P := ofList ps
      if !topoUpTo P ps.length then "bad-topo"
      else if cs.any (· ≥ ps.length) then "bad-op"
      else showTrace (callInits P (ps.length + 1) cs {}).trace
    | _, _ => "bad-op"
  | "exe" :: main :: rt :: abi :: pkgs =>
    match main.toNat?, (if rt = "-" then some none else rt.toNat?.map some), pkgs.mapM parsePkg with
    | some m, some r, some ps =>
      let P := ofList ps
      if !topoUpTo P ps.length then "bad-topo"
      else if m ≥ ps.length || (r.any (· ≥ ps.length)) then "bad-op"
      else showTrace (runEntry P (ps.length + 1) { main := m, rt := r, abiInit := abi = "1" }).trace
    | _, _, _ => "bad-op"
  | _ => "bad-op"

def main : IO Unit := lineLoop handle
