/-!
# Model of llgo's package initialisation (property C12)

What is modelled (all of it is *emitted code*, so the tie is the regenerated IR facts + whole programs):

* `cl/compile.go compileFuncDecl/compileBlock` compile go/ssa's synthetic package initialiser
  `func init()` unchanged:

      _llgo_0:  %g = load i1, @"p.init$guard";  br %g, _llgo_2, _llgo_1
      _llgo_1:  store i1 true, @"p.init$guard"          ; BEFORE the imports are initialised
                call @"q1.init"() … call @"qn.init"()     ; the imports, in go/types' import order
                <variable initialisers in dependency order, then init#1 … init#k>
                br _llgo_2
      _llgo_2:  ret

  The order *inside* the body (variables, `init#k`) is computed by go/types + go/ssa, not by llgo:
  the model treats a body as one event `Ev.body p false` and the observable trace is obtained by
  expanding each event into the package's action list (`expand`), i.e. the theorems say that llgo
  *preserves* that list and runs it once.

* patched standard packages (`pkgInPatch` / `pkgHasPatch` / `pkgFNoOldInit`, `initFnNameOfHasPatch`):
  the replacement package is compiled first; its `init` gets, right after the guard store
  (`compileBlock`, `i == 1 && doModInit && p.state == pkgInPatch`), a call to `p.init$hasPatch`;
  the original package is compiled second (`pkgHasPatch`), its `init` is renamed `p.init$hasPatch`
  and the successors of its guard test are swapped, so that its body runs iff the (shared) guard is
  ALREADY set. With `llgo:skipall` / `llgo:skip init` (`pkgFNoOldInit`) no call is emitted and the
  original initialiser is not compiled at all.

* `internal/build/main_module.go defineEntryFunction`: `Py_Initialize` (if needed), the llgo runtime
  package's `init` (if needed), `init$abitypes` (if needed), `runtime.init` (a weak no-op stub unless
  the patched std package `runtime` is linked), `main.init`, `main.main`.
  In `c-archive` / `c-shared` mode there is no entry function; the host calls the exported
  `<pkg>_init` functions, any number of times, in any order (`callInits`).

Packages are numbered topologically: every import of `p` is `< p` (`Topo`). Every acyclic import graph
has such a numbering (the Go tool chain rejects import cycles), and the check's generator emits one.
-/
namespace LlgoVerif.Init

/-- How a package is compiled (`pkgState` in cl/compile.go). -/
inductive Kind
  /-- `pkgNormal`: an ordinary package. -/
  | normal
  /-- patched std package whose original `init` is kept: the replacement's `init` calls the renamed
      original `init$hasPatch`; the argument is the import list of the ORIGINAL package. -/
  | chained (origImports : List Nat)
  /-- patched std package with `pkgFNoOldInit` (`llgo:skipall` or `llgo:skip init`): the original
      initialiser (whose imports are recorded here) is never compiled nor called. -/
  | noOld (origImports : List Nat)
  deriving DecidableEq, Repr

structure Pkg where
  /-- imports of the compiled `init` (for a patched package: of the replacement), in the order in which
      go/ssa emits the calls (go/types' `Package.Imports()`: first occurrence in the source files) -/
  imports : List Nat
  kind : Kind := .normal
  deriving Repr

abbrev Prog := Nat → Pkg

/-- imports of the original half of a chained package -/
def Prog.origImports (P : Prog) (p : Nat) : List Nat :=
  match (P p).kind with
  | .chained oi => oi
  | _ => []

/-- everything whose `init` is called from `p`'s `init` (directly or through `init$hasPatch`) -/
def Prog.deps (P : Prog) (p : Nat) : List Nat := P.origImports p ++ (P p).imports

/-- Observable events. `body p false`: the body (variables in dependency order, then `init#k`) of `p`'s
    compiled `init`; `body p true`: the body of the renamed original `init$hasPatch` of a patched package. -/
inductive Ev
  | body (p : Nat) (orig : Bool)
  | pyInit
  | abiTypes
  | mainMain
  deriving DecidableEq, Repr

structure St where
  /-- packages whose `init$guard` is set -/
  guard : List Nat := []
  /-- events so far -/
  trace : List Ev := []
  deriving Repr

def St.setGuard (s : St) (p : Nat) : St := { s with guard := p :: s.guard }
def St.emit (s : St) (e : Ev) : St := { s with trace := s.trace ++ [e] }

/-- the calls `q1.init() … qn.init()` at the head of a body -/
def initImports (call : Nat → St → St) (l : List Nat) (s : St) : St :=
  l.foldl (fun st q => call q st) s

/-- `p.init$hasPatch` (original initialiser of a patched package): the guard test has its successors
    swapped (`block.Succs[0], block.Succs[1] = block.Succs[1], block.Succs[0]`), so the body runs iff the
    guard is already set; the body stores the guard again, initialises the ORIGINAL's imports and runs
    the original's variables and `init#k`. -/
def initHasPatch (call : Nat → St → St) (origImports : List Nat) (p : Nat) (s : St) : St :=
  if p ∈ s.guard then
    (initImports call origImports (s.setGuard p)).emit (.body p true)
  else s

/-- The code of `p.init`, with the initialisers it calls abstracted as `call`. -/
def initStep (call : Nat → St → St) (pk : Pkg) (p : Nat) (s : St) : St :=
  if p ∈ s.guard then s else                                   -- _llgo_0: load guard; br
  let s1 := s.setGuard p                                       -- _llgo_1: store true
  let s2 := match pk.kind with                                 -- chained original initialiser
    | .chained oi => initHasPatch call oi p s1
    | _ => s1
  (initImports call pk.imports s2).emit (.body p false)        -- imports' init, then the body

/-- `p.init`. `fuel` bounds the call depth (any value `> p` is enough, see `fuel_irrelevant`). -/
def initPkg (P : Prog) : Nat → Nat → St → St
  | 0, _, s => s
  | fuel+1, p, s => initStep (fun q st => initPkg P fuel q st) (P p) p s

/-- A sequence of top-level calls of package initialisers (the entry function, or a C host in
    c-archive / c-shared mode). -/
def callInits (P : Prog) (fuel : Nat) (calls : List Nat) (s : St) : St :=
  initImports (fun q st => initPkg P fuel q st) calls s

/-- Configuration of the generated entry function (`genConfig` + what is linked). -/
structure Entry where
  pyInit : Bool := false
  /-- llgo's runtime package, when `cfg.rtInit` -/
  rt : Option Nat := none
  abiInit : Bool := false
  /-- the patched std package `runtime` when it is part of the program (otherwise `runtime.init` is the
      weak no-op stub of the entry module) -/
  stdRuntime : Option Nat := none
  main : Nat

def optCall (P : Prog) (fuel : Nat) (o : Option Nat) (s : St) : St :=
  match o with
  | some p => initPkg P fuel p s
  | none => s

/-- `defineEntryFunction`: the trace of a whole executable. -/
def runEntry (P : Prog) (fuel : Nat) (e : Entry) : St :=
  let s : St := {}
  let s := if e.pyInit then s.emit .pyInit else s
  let s := optCall P fuel e.rt s
  let s := if e.abiInit then s.emit .abiTypes else s
  let s := optCall P fuel e.stdRuntime s
  let s := initPkg P fuel e.main s
  s.emit .mainMain

/-- the init calls the entry function makes, in order -/
def Entry.calls (e : Entry) : List Nat := e.rt.toList ++ e.stdRuntime.toList ++ [e.main]

/-- `Topo`: the numbering is topological. -/
def Topo (P : Prog) : Prop := ∀ p q, q ∈ P.deps p → q < p

/-- decidable form for a program with packages `0 … n-1` -/
def topoUpTo (P : Prog) (n : Nat) : Bool :=
  (List.range n).all fun p => (P.deps p).all fun q => decide (q < p)

/-- `Reach P p q`: `q` is `p` or a transitive import of `p`. -/
inductive Reach (P : Prog) : Nat → Nat → Prop
  | refl (p : Nat) : Reach P p p
  | step {p q r : Nat} : q ∈ P.deps p → Reach P q r → Reach P p r

/-- `a` occurs in `l` strictly before the first `b` (if any). -/
def Bef (a b : Ev) (l : List Ev) : Prop := a ∈ l ∧ l.idxOf a < l.idxOf b

instance (a b : Ev) (l : List Ev) : Decidable (Bef a b l) := by unfold Bef; exact inferInstance

/-- Expansion of the package-level trace into observable actions: `acts p orig` is the list of
    actions (variable initialisers in dependency order, then `init#k`) go/ssa put into that body. -/
def expand {α : Type} (acts : Nat → Bool → List α) (other : Ev → List α) : List Ev → List α
  | [] => []
  | .body p o :: t => acts p o ++ expand acts other t
  | e :: t => other e ++ expand acts other t

/-- a finite program given as a table (driver, examples) -/
def ofList (l : List Pkg) : Prog := fun p => l.getD p { imports := [] }

end LlgoVerif.Init
