import LlgoVerif.Model.Slice
/-!
Specification vocabulary for C05 (what the property demands, independent of how the code does it):
`WF` (a slice's capacity window is allocated memory), `AppendSpec`/`AppendSpecAll` (Go's `append`),
`width`/`DecodeOk` (UTF-8 decoding), `Enumerates` (`for i, r := range s`).
-/
namespace LlgoVerif.Slice
open LlgoVerif.Utf8

/-- the slice is well formed in `m`: `0 ≤ len ≤ cap` and its capacity window lies inside allocated memory -/
structure WF (m : Mem) (s : Slice) (esz : Int) : Prop where
  len_nonneg : 0 ≤ s.len
  len_le_cap : s.len ≤ s.cap
  data_lt : s.data < m.next
  inb : s.data + (s.cap * esz).toNat ≤ m.next

/-- What Go demands of `append(s, vs...)`, the `num` appended values being the bytes at `data` *before* the call:
    the call succeeds; `len' = len + num`; `cap' ≥ len'`; the result holds the old elements followed by the appended
    values; it shares storage with `s` exactly when the capacity sufficed; memory allocated before the call is
    unchanged except for the appended window of a shared result; the result is well formed (so histories compose). -/
def AppendSpec (cfg : Cfg) (pol : Int → Int → Int) (m : Mem) (s : Slice) (data : Nat) (num esz : Int) : Prop :=
  ∃ m' s', SliceAppend cfg pol m s data num esz = .ok (m', s') ∧
    s'.len = s.len + num ∧ s'.len ≤ s'.cap ∧
    view m' s' esz = view m s esz ++ m.read data (num * esz).toNat ∧
    (s'.data = s.data ↔ s.len + num ≤ s.cap) ∧
    (∀ a, a < m.next →
      ¬ (s.len + num ≤ s.cap ∧ s.data + (s.len * esz).toNat ≤ a ∧ a < s.data + ((s.len + num) * esz).toNat) →
      m'.bytes a = m.bytes a) ∧
    WF m' s' esz ∧ m.next ≤ m'.next

/-- the property's demand on `append`: for every growth policy that returns enough room, every heap, every well-formed
    slice, every element size **including 0** and every position of the appended values **including overlap** with
    the destination -/
def AppendSpecAll (cfg : Cfg) : Prop :=
  ∀ (pol : Int → Int → Int) (m : Mem) (s : Slice) (data : Nat) (num esz : Int),
    (∀ a b, a ≤ pol a b) → 0 ≤ esz → 0 ≤ num → WF m s esz → data + (num * esz).toNat ≤ m.next →
    AppendSpec cfg pol m s data num esz

/-- canonical (shortest) UTF-8 width of a scalar value -/
def width (r : Nat) : Nat := if r ≤ 0x7F then 1 else if r ≤ 0x7FF then 2 else if r ≤ 0xFFFF then 3 else 4

/-- what a decoding step may return for the input `s`: the replacement character with width 1, or a valid non-ASCII
    scalar whose canonical encoding is exactly the consumed prefix (so no overlong form, surrogate or value above
    U+10FFFF is ever accepted) -/
def DecodeOk (s : List Nat) (p : Nat × Nat) : Prop :=
  p = (runeError, 1) ∨
  (validScalar p.1 ∧ 0x80 ≤ p.1 ∧ s.take p.2 = encodeRune p.1 ∧ p.2 = width p.1)

/-- `l` is the sequence of (byte offset, rune) pairs obtained by decoding `s` from left to right, the first
    byte of `s` having offset `off` (the specification of `for i, r := range str`) -/
inductive Enumerates : Nat → List Nat → List (Nat × Nat) → Prop
  | nil (off : Nat) : Enumerates off [] []
  | cons (off : Nat) (s : List Nat) (l : List (Nat × Nat)) : s ≠ [] →
      Enumerates (off + (nextRune s).2) (s.drop (nextRune s).2) l →
      Enumerates off s ((off, (nextRune s).1) :: l)

end LlgoVerif.Slice
