import LlgoVerif.Model.Slice64
import LlgoVerif.Lemmas.Slice
/-!
Lemmas for the machine-integer layer (`Model/Slice64.lean`): `math.MulUintptr` is exact, `MakeSlice` rejects exactly
the requests whose true size exceeds the limit, the int64 loop of `nextslicecap` terminates and returns a
representable capacity `≥ newLen`, and on sizes a process can hold the int64 functions coincide with the
mathematical-integer model of `Model/Slice.lean`.
-/
namespace LlgoVerif.Slice

/-! ## `math.MulUintptr`, `MakeSlice` -/

theorem mulUintptr_spec (a b : Nat) (ha : a < 2 ^ 64) (_hb : b < 2 ^ 64) :
    mulUintptr a b = (a * b % 2 ^ 64, decide (2 ^ 64 ≤ a * b)) := by
  unfold mulUintptr
  by_cases hf : (a < 2 ^ 32 ∧ b < 2 ^ 32) ∨ a = 0
  · rw [if_pos hf]
    have : a * b < 2 ^ 64 := by
      rcases hf with ⟨h1, h2⟩ | h0
      · calc a * b < 2 ^ 32 * 2 ^ 32 := Nat.mul_lt_mul'' h1 h2
          _ = 2 ^ 64 := by decide
      · subst h0; simp
    simp only [Prod.mk.injEq, true_and]
    rw [eq_comm, decide_eq_false_iff_not]; omega
  · rw [if_neg hf]
    have hapos : 0 < a := by omega
    have hiff : (2 ^ 64 - 1) / a < b ↔ 2 ^ 64 - 1 < b * a := Nat.div_lt_iff_lt_mul hapos
    simp only [Prod.mk.injEq, true_and, gt_iff_lt]
    rw [Nat.mul_comm b a] at hiff
    by_cases h : (2 ^ 64 - 1) / a < b
    · have := hiff.1 h
      simp only [h, decide_true]; rw [eq_comm, decide_eq_true_iff]; omega
    · have : ¬ 2 ^ 64 - 1 < a * b := fun x => h (hiff.2 x)
      simp only [h, decide_false]; rw [eq_comm, decide_eq_false_iff_not]; omega

/-- `uintptr(x)` of a non-negative `int` -/
theorem uintptr_nonneg (x : Int) (h : 0 ≤ x ∧ x < 2 ^ 64) : uintptr x = x.toNat := by unfold uintptr; omega

/-- **`MakeSlice` is exact on all of int64**: it succeeds iff `0 ≤ len ≤ cap` and the TRUE byte size `cap·etSize` is
    at most `maxAlloc`; the block it allocates then has exactly that size — a wrapped product is never allocated. -/
theorem makeSlice_exact' (m : Mem) (len cap esz : Int) (hc : InI64 cap) (he : 0 ≤ esz ∧ esz < 2 ^ 63) :
    (0 ≤ len ∧ len ≤ cap ∧ cap * esz ≤ 2 ^ 48 →
      MakeSlice m len cap esz = .ok ((allocZ m (cap * esz).toNat).2, ⟨m.next, len, cap⟩)) ∧
    (¬ (0 ≤ len ∧ len ≤ cap ∧ cap * esz ≤ 2 ^ 48) → MakeSlice m len cap esz = .error .panic) := by
  obtain ⟨hc1, hc2⟩ := hc
  have hu1 : uintptr esz = esz.toNat := uintptr_nonneg esz (by omega)
  by_cases hneg : cap < 0
  · have hp : ∀ l : Int, l < 0 ∨ l > cap := fun l => by omega
    constructor
    · intro h; omega
    · intro _
      unfold MakeSlice; simp only
      rw [if_pos (by have := hp len; omega)]
  · have hu2 : uintptr cap = cap.toNat := uintptr_nonneg cap (by omega)
    have hprod : ((esz.toNat * cap.toNat : Nat) : Int) = cap * esz := by
      rw [Int.natCast_mul, Int.toNat_of_nonneg he.1, Int.toNat_of_nonneg (by omega), Int.mul_comm]
    have hP0 : 0 ≤ cap * esz := Int.mul_nonneg (by omega) he.1
    have hPn : (cap * esz).toNat = esz.toNat * cap.toNat := by omega
    have hspec := mulUintptr_spec esz.toNat cap.toNat (by omega) (by omega)
    unfold MakeSlice
    simp only [hu1, hu2, hspec, maxAlloc]
    constructor
    · intro ⟨h0, h1, h2⟩
      have hlt : esz.toNat * cap.toNat ≤ 2 ^ 48 := by omega
      rw [if_neg (by
        simp only [decide_eq_true_eq, not_or]
        refine ⟨by omega, ?_, by omega, by omega⟩
        rw [Nat.mod_eq_of_lt (by omega)]; omega)]
      rw [Nat.mod_eq_of_lt (by omega), hPn]
      simp [allocZ, allocU]
    · intro h
      rw [if_pos]
      simp only [decide_eq_true_eq]
      by_cases hbig : 2 ^ 64 ≤ esz.toNat * cap.toNat
      · exact Or.inl hbig
      · rw [Nat.mod_eq_of_lt (by omega)]; omega

/-! ## the int64 loop of `nextslicecap` -/

/-- the loop ends (for every positive `newLen` and every capacity `≥ 0`) with a representable value that is negative
    (the "overflowed" signal) or `≥ newLen` -/
theorem capLoop64_spec (L : Int) (hL : 0 < L ∧ L < 2 ^ 63) :
    ∀ (n : Nat) (c : Int), capRank c = n → 0 ≤ c ∧ c < 2 ^ 63 →
      ∃ r, capLoop64 L c = some r ∧ InI64 r ∧ (r < 0 ∨ L ≤ r) := by
  intro n
  induction n using Nat.strongRecOn with
  | _ n ih =>
    intro c hn hc
    rw [capLoop64]
    have hwr : InI64 (wrap (c + wrap (c + 768) / 4)) := by unfold InI64 wrap; omega
    by_cases hx : toU (wrap (c + wrap (c + 768) / 4)) ≥ toU L
    · rw [dif_pos hx]
      refine ⟨_, rfl, hwr, ?_⟩
      rw [toU_nonneg L (by omega)] at hx
      by_cases hneg : wrap (c + wrap (c + 768) / 4) < 0
      · exact Or.inl hneg
      · right
        rw [toU_nonneg _ (by unfold InI64 at hwr; omega)] at hx
        exact hx
    · rw [dif_neg hx, dif_pos ⟨hL.1, hL.2, hc.1, hc.2⟩]
      have hstep := capRank_step L c ⟨hL.1, hL.2, hc.1, hc.2⟩ hx
      have hnn : 0 ≤ wrap (c + wrap (c + 768) / 4) := by
        rw [toU_nonneg L (by omega)] at hx
        by_cases hneg : wrap (c + wrap (c + 768) / 4) < 0
        · exfalso
          rw [toU_neg _ (by unfold InI64 at hwr; omega)] at hx
          unfold InI64 at hwr; omega
        · omega
      exact ih _ (by omega) _ rfl ⟨hnn, hwr.2⟩

/-- **`nextslicecap` on int64**: for every positive `newLen` and every old capacity `≥ 0` the function terminates and
    returns a representable, non-wrapped capacity that covers the request -/
theorem nextslicecap64_spec' (L oldCap : Int) (hL : 0 < L ∧ L < 2 ^ 63) (hc : 0 ≤ oldCap ∧ oldCap < 2 ^ 63) :
    ∃ r, nextslicecap64 L oldCap = some r ∧ L ≤ r ∧ r < 2 ^ 63 := by
  unfold nextslicecap64
  simp only
  by_cases h1 : L > wrap (oldCap + oldCap)
  · rw [if_pos h1]; exact ⟨L, rfl, by omega, hL.2⟩
  · rw [if_neg h1]
    by_cases h2 : oldCap < 256
    · rw [if_pos h2]
      rw [wrap_id _ (by omega)] at h1 ⊢
      exact ⟨_, rfl, by omega, by omega⟩
    · rw [if_neg h2]
      obtain ⟨r, hr, hin, hdis⟩ := capLoop64_spec L hL _ oldCap rfl hc
      rw [hr]
      simp only
      by_cases h3 : r ≤ 0
      · rw [if_pos h3]; exact ⟨L, rfl, by omega, hL.2⟩
      · rw [if_neg h3]; exact ⟨r, rfl, by omega, hin.2⟩

/-- below `2^62` nothing wraps: the int64 loop is the mathematical one -/
theorem capLoop64_eq (L : Int) (hL : 0 < L ∧ L ≤ 2 ^ 62) :
    ∀ (n : Nat) (c : Int), (L - c).toNat = n → 0 ≤ c ∧ c < L → capLoop64 L c = some (capLoop L c) := by
  intro n
  induction n using Nat.strongRecOn with
  | _ n ih =>
    intro c hn hc
    rw [capLoop64, capLoop]
    rw [wrap_id (c + 768) (by omega)]
    generalize hd : (c + 768) / 4 = d
    rw [wrap_id (c + d) (by omega)]
    rw [toU_nonneg L (by omega), toU_nonneg (c + d) (by omega)]
    by_cases hx : c + d ≥ L
    · rw [dif_pos hx, dif_neg (by omega)]
    · rw [dif_neg hx, dif_pos ⟨hL.1, by omega, hc.1, by omega⟩, dif_pos ⟨hc.1, by omega⟩]
      exact ih _ (by omega) _ rfl ⟨by omega, by omega⟩

/-- upper bound of the mathematical loop: the last step starts below `newLen` -/
theorem capLoop_le (L : Int) :
    ∀ (n : Nat) (c : Int), (L - c).toNat = n → 0 ≤ c ∧ c < L → capLoop L c ≤ L + (L + 768) / 4 := by
  intro n
  induction n using Nat.strongRecOn with
  | _ n ih =>
    intro c hn hc
    rw [capLoop]
    by_cases hx : 0 ≤ c ∧ c + (c + 768) / 4 < L
    · rw [dif_pos hx]
      exact ih _ (by omega) _ rfl ⟨by omega, hx.2⟩
    · rw [dif_neg hx]; omega

/-- the growth policy never asks for more than three times the needed length -/
theorem nextslicecap_le3 (L oldCap : Int) (hc : 0 ≤ oldCap ∧ oldCap < L) : nextslicecap L oldCap ≤ 3 * L := by
  unfold nextslicecap
  simp only
  by_cases h1 : L > oldCap + oldCap
  · rw [if_pos h1]; omega
  · rw [if_neg h1]
    by_cases h2 : oldCap < 256
    · rw [if_pos h2]; omega
    · rw [if_neg h2]
      have := capLoop_le L _ oldCap rfl hc
      split <;> omega

/-- on lengths up to `2^62` the int64 policy is the mathematical one -/
theorem nextslicecap64_eq' (L oldCap : Int) (hL : 0 < L ∧ L ≤ 2 ^ 62) (hc : 0 ≤ oldCap ∧ oldCap < L) :
    nextslicecap64 L oldCap = some (nextslicecap L oldCap) := by
  unfold nextslicecap64 nextslicecap
  simp only
  rw [wrap_id (oldCap + oldCap) (by omega)]
  by_cases h1 : L > oldCap + oldCap
  · rw [if_pos h1, if_pos h1]
  · rw [if_neg h1, if_neg h1]
    by_cases h2 : oldCap < 256
    · rw [if_pos h2, if_pos h2]
    · rw [if_neg h2, if_neg h2, capLoop64_eq L hL _ oldCap rfl hc]
      simp only
      split <;> rfl

/-! ## `GrowSlice` / `SliceAppend` on int64 -/

/-- what holds of a slice that exists in a process and of `num` appended values that exist: `0 ≤ len ≤ cap`, a
    non-negative count and element size, and byte sizes of the capacity window and of the appended values that a
    64-bit address space can hold (`2^60` is far above `maxAlloc = 2^48`; for zero-size elements the byte sizes are 0
    and `len`, `cap`, `num` are only bounded by int64) -/
def GrowLegit (s : Slice) (num esz : Int) : Prop :=
  0 ≤ s.len ∧ s.len ≤ s.cap ∧ s.cap < 2 ^ 63 ∧ 0 ≤ num ∧ num < 2 ^ 63 ∧ 0 ≤ esz ∧
  s.cap * esz ≤ 2 ^ 60 ∧ num * esz ≤ 2 ^ 60

instance (s : Slice) (num esz : Int) : Decidable (GrowLegit s num esz) := by unfold GrowLegit; infer_instance

/-- the statement Go makes about growing (for every slice and count as in `GrowLegit`, in allocated memory): the call
    panics and the true new length `len + num` is not representable, or it succeeds with exactly that length and enough
    capacity — a wrapped (negative) length is never returned -/
def GrowLenFull (lenCheck : Bool) : Prop :=
  ∀ (m : Mem) (s : Slice) (num esz : Int), GrowLegit s num esz → WF m s esz →
    (GrowSlice64 lenCheck m s num esz = .error .panic ∧ 2 ^ 63 ≤ s.len + num) ∨
    (∃ m' s', GrowSlice64 lenCheck m s num esz = .ok (m', s') ∧ s'.len = s.len + num ∧ s'.len ≤ s'.cap)

theorem legit_arith (s : Slice) (num esz : Int) (h : GrowLegit s num esz) :
    0 ≤ s.len * esz ∧ s.len * esz ≤ 2 ^ 60 ∧ 0 ≤ num * esz ∧ (s.len + num) * esz ≤ 2 ^ 61 ∧
    s.len * esz ≤ s.cap * esz ∧ (1 ≤ esz → s.len + num ≤ 2 ^ 61) := by
  obtain ⟨h0, h1, _, h3, _, h5, h6, h7⟩ := h
  have a1 : s.len * esz ≤ s.cap * esz := Int.mul_le_mul_of_nonneg_right h1 h5
  have a2 : 0 ≤ s.len * esz := Int.mul_nonneg h0 h5
  have a3 : 0 ≤ num * esz := Int.mul_nonneg h3 h5
  have a4 : (s.len + num) * esz = s.len * esz + num * esz := Int.add_mul ..
  refine ⟨a2, by omega, a3, by omega, a1, ?_⟩
  intro he
  have a5 : 0 ≤ (s.len + num) * (esz - 1) := Int.mul_nonneg (by omega) (by omega)
  rw [Int.mul_sub, Int.mul_one] at a5
  omega

theorem prod_bound (r L esz : Int) (hr : 0 ≤ r ∧ r ≤ 3 * L) (he : 0 ≤ esz) (hL : L * esz ≤ 2 ^ 61) :
    0 ≤ r * esz ∧ r * esz ≤ 3 * 2 ^ 61 := by
  have a1 : r * esz ≤ (3 * L) * esz := Int.mul_le_mul_of_nonneg_right hr.2 he
  rw [Int.mul_assoc] at a1
  exact ⟨Int.mul_nonneg hr.1 he, by omega⟩

/-- **bridge**: on every legitimate request whose new length is at most `2^62`, the int64 `GrowSlice` is the
    mathematical-integer `GrowSlice` of `Model/Slice.lean` with the code's own policy — no operation wraps -/
theorem growSlice64_eq_model' (lc : Bool) (m : Mem) (s : Slice) (num esz : Int) (h : GrowLegit s num esz)
    (hL : s.len + num ≤ 2 ^ 62) :
    GrowSlice64 lc m s num esz = lift64 (GrowSlice nextslicecap m s num esz) := by
  obtain ⟨a2, a2', a3, a4, a1, _⟩ := legit_arith s num esz h
  obtain ⟨h0, h1, h2, h3, h4, h5, h6, h7⟩ := h
  unfold GrowSlice64 GrowSlice
  simp only
  rw [wrap_id (s.len + num) (by omega)]
  rw [if_neg (by omega)]
  by_cases hg : s.len + num > s.cap
  · rw [if_pos hg, if_pos hg]
    rw [nextslicecap64_eq' _ _ ⟨by omega, hL⟩ ⟨by omega, by omega⟩]
    simp only
    have hge := nextslicecap_ge' (s.len + num) s.cap
    have hle := nextslicecap_le3 (s.len + num) s.cap ⟨by omega, by omega⟩
    obtain ⟨b1, b2⟩ := prod_bound (nextslicecap (s.len + num) s.cap) (s.len + num) esz ⟨by omega, hle⟩ h5 a4
    rw [wrap_id _ (by omega), uintptr_nonneg _ (by omega)]
    rw [wrap_id (s.len * esz) (by omega), uintptr_nonneg (s.len * esz) (by omega)]
    generalize (if s.len ≠ 0 then
        memcpy (allocZ m (nextslicecap (s.len + num) s.cap * esz).toNat).snd
          (allocZ m (nextslicecap (s.len + num) s.cap * esz).toNat).fst s.data (s.len * esz).toNat
      else Except.ok (allocZ m (nextslicecap (s.len + num) s.cap * esz).toNat).snd) = X
    cases X <;> rfl
  · rw [if_neg hg, if_neg hg]; rfl

/-- **`GrowSlice` on int64**, every legitimate request whose true new length is representable (zero-size elements with
    lengths up to `2^63 - 1` included): the call succeeds, the length is the true sum, the capacity is representable
    and sufficient, the storage is kept iff the capacity sufficed, and when it grows the block requested from the
    allocator has exactly the TRUE size `cap'·etSize` -/
theorem growSlice64_spec' (lc : Bool) (m : Mem) (s : Slice) (num esz : Int) (h : GrowLegit s num esz)
    (hwf : WF m s esz) (hsum : s.len + num < 2 ^ 63) :
    ∃ m' s', GrowSlice64 lc m s num esz = .ok (m', s') ∧ s'.len = s.len + num ∧ s'.len ≤ s'.cap ∧ s'.cap < 2 ^ 63 ∧
      (s'.data = s.data ↔ s.len + num ≤ s.cap) ∧
      (s.len + num ≤ s.cap → m' = m ∧ s'.cap = s.cap) ∧
      (s.len + num > s.cap → s'.data = m.next ∧ m'.next = m.next + (s'.cap * esz).toNat + 1) := by
  obtain ⟨a2, a2', a3, a4, a1, a5⟩ := legit_arith s num esz h
  obtain ⟨h0, h1, h2, h3, h4, h5, h6, h7⟩ := h
  obtain ⟨_, _, hdl, hinb⟩ := hwf
  unfold GrowSlice64
  simp only
  rw [wrap_id (s.len + num) (by omega)]
  rw [if_neg (by omega)]
  by_cases hg : s.len + num > s.cap
  · rw [if_pos hg]
    obtain ⟨r, hr, hrL, hr63⟩ := nextslicecap64_spec' (s.len + num) s.cap ⟨by omega, hsum⟩ ⟨by omega, h2⟩
    have hprod : 0 ≤ r * esz ∧ r * esz ≤ 3 * 2 ^ 61 := by
      by_cases hz : esz = 0
      · subst hz; simp
      · have hL61 := a5 (by omega)
        rw [nextslicecap64_eq' _ _ ⟨by omega, by omega⟩ ⟨by omega, by omega⟩] at hr
        have hle := nextslicecap_le3 (s.len + num) s.cap ⟨by omega, by omega⟩
        have : r = nextslicecap (s.len + num) s.cap := by injection hr with hr; exact hr.symm
        subst this
        exact prod_bound _ (s.len + num) esz ⟨by omega, hle⟩ h5 a4
    rw [hr]
    simp only
    rw [wrap_id _ (by omega), uintptr_nonneg _ (by omega)]
    rw [wrap_id (s.len * esz) (by omega), uintptr_nonneg (s.len * esz) (by omega)]
    have hnov : ¬ overlaps (allocZ m (r * esz).toNat).1 s.data (s.len * esz).toNat := by
      simp only [allocZ, allocU]; unfold overlaps; omega
    by_cases hz : s.len = 0
    · rw [if_neg (by simp [hz])]
      refine ⟨_, _, rfl, rfl, by simp only; omega, hr63, ?_, by omega, ?_⟩
      · simp only [allocZ, allocU]; omega
      · intro _; simp [allocZ, allocU, memset]
    · rw [if_pos hz, memcpy_ok _ _ _ _ hnov]
      refine ⟨_, _, rfl, rfl, by simp only; omega, hr63, ?_, by omega, ?_⟩
      · simp only [allocZ, allocU]; omega
      · intro _; simp [allocZ, allocU, memset, memmove]
  · rw [if_neg hg]
    refine ⟨m, _, rfl, rfl, by simp only; omega, by simp only; omega, ?_, ?_, by omega⟩
    · exact ⟨fun _ => by omega, fun _ => rfl⟩
    · intro _; exact ⟨rfl, rfl⟩

/-- with the guard of `fixes/C05-3.diff` the full statement holds -/
theorem growSlice64_len_fixed' : GrowLenFull true := by
  intro m s num esz h hwf
  by_cases hsum : s.len + num < 2 ^ 63
  · right
    obtain ⟨m', s', heq, hl, hc, _⟩ := growSlice64_spec' true m s num esz h hwf hsum
    exact ⟨m', s', heq, hl, hc⟩
  · left
    obtain ⟨h0, h1, h2, h3, h4, _⟩ := h
    refine ⟨?_, by omega⟩
    unfold GrowSlice64
    simp only
    rw [wrap_hi (s.len + num) (by omega)]
    rw [if_pos ⟨trivial, by omega⟩]

/-- **bridge for `SliceAppend`** (tree after `fixes/C05-1.diff`) -/
theorem sliceAppend64_eq_model' (lc : Bool) (m : Mem) (s : Slice) (data : Nat) (num esz : Int)
    (h : GrowLegit s num esz) (hL : s.len + num ≤ 2 ^ 62) :
    SliceAppend64 lc m s data num esz = lift64 (SliceAppend Cfg.fixed nextslicecap m s data num esz) := by
  obtain ⟨a2, a2', a3, a4, a1, _⟩ := legit_arith s num esz h
  unfold SliceAppend64 SliceAppend
  rw [growSlice64_eq_model' lc m s num esz h hL]
  obtain ⟨h0, h1, h2, h3, h4, h5, h6, h7⟩ := h
  simp only [Cfg.fixed]
  rw [if_neg (by simp)]
  rw [wrap_id (s.len * esz) (by omega), wrap_id (num * esz) (by omega), uintptr_nonneg (num * esz) (by omega)]
  cases GrowSlice nextslicecap m s num esz with
  | error e => rfl
  | ok p => obtain ⟨m1, s1⟩ := p; simp [lift64]

end LlgoVerif.Slice
