import LlgoVerif.Lemmas.CAbiLayout
/-!
# C09 — values cross the Go/C boundary intact (x86-64)

Property theorems only.  Model: `LlgoVerif/Model/CAbi.lean` (`internal/cabi` `TypeInfoAmd64.GetTypeInfo` — as it is
now, `Cfg.repaired`, and as it was before the nested-padding fix, `Cfg.legacy` —, `transformFuncType`, the scalar
calling convention, the C-string helpers); specification: `LlgoVerif/Spec/SysV.lean` (psABI classification, register
image, sequential register assignment); lemmas: `LlgoVerif/Lemmas/CAbi.lean`, `LlgoVerif/Lemmas/CAbiLayout.lean`.
-/
namespace LlgoVerif.CAbi
open LlgoVerif.SysV

/-! ## Classification of one aggregate -/

/-- **Classification soundness of the current code, for EVERY type of the universe** — structs of any number of
    fields, any nesting, arrays of structs, any padding (only zero-length arrays are excluded, `wf`): the pass kind
    llgo chooses carries every byte of the object in the register class the psABI assigns: same mode (memory for
    > 16 bytes, registers otherwise), same number of registers, register `k` has the class of eightbyte `k` and is
    loaded from object offset `8k`, no register is wider than an eightbyte, and every scalar leaf lies inside the
    bytes its register carries.  Both for parameters and results.
    (`goodView_of_wf`: mutual induction over the type with the layout cursor as invariant — aligned, disjoint, in
    order, no padding run covers a multiple of 8; `getTypeInfo_sound_good`: the classifier on such layouts.) -/
theorem amd64_classify_sound_repaired (t : CType) (h : t.wf = true) (isRet : Bool) :
    Sound (classify t isRet) t.view :=
  classifyV_sound_good t.view (goodView_of_wf t h) isRet

/-- in particular every flat struct — any list of scalar fields -/
theorem amd64_classify_sound_flat (fs : List Scalar) (isRet : Bool) :
    Sound (classify (.struct (fs.map .sc)) isRet) (CType.struct (fs.map .sc)).view :=
  amd64_classify_sound_repaired _ (wf_flat fs) isRet

/-- the statement for ALL value types of the universe, per configuration -/
def Amd64ClassifySoundFull (c : Cfg) : Prop := ∀ t : CType, t.wf = true → Sound (classifyC c t.view false) t.view

/-- true for the code as it is now -/
theorem amd64_classify_sound_full : Amd64ClassifySoundFull .repaired :=
  fun t h => amd64_classify_sound_repaired t h false

/-- false for the code before the fix: `struct { int8 a,b,c,d,e; struct { int8 x; int32 y; } i; }` (16 bytes; `i.x` at
    8, `i.y` at 12): the legacy split loop runs on the flattened list with a running offset that ignores the padding
    before the nested struct, the second half becomes `i32` loaded from byte 8, and `i.y` never crosses the boundary. -/
theorem amd64_classify_counterexample : ¬ Amd64ClassifySoundFull .legacy := by
  intro h
  exact absurd (h (.struct [.sc .i8, .sc .i8, .sc .i8, .sc .i8, .sc .i8, .struct [.sc .i8, .sc .i32]]) (by decide)) (by decide)

/-- (legacy) `struct { int8 x; struct { int8 a; int32 b; } i; }`: the second half was the integer type of width 0,
    which LLVM cannot generate code for -/
theorem amd64_classify_illformed :
    (classifyLegacy (.struct [.sc .i8, .struct [.sc .i8, .sc .i32]]) false).wellFormed = false := by decide

/-- (legacy) sound on every type whose flattened scalar list, laid out naturally, reproduces its real layout
    (induction over the flattened field list with the running-offset invariant of the old split loop) -/
theorem amd64_classify_sound_legacy (t : CType) (h : t.view.natural) (isRet : Bool) :
    Sound (classifyLegacy t isRet) t.view :=
  classifyV_sound t.view h isRet

/-- the fix changed no classification of a naturally laid out shape (in particular of any flat struct) -/
theorem amd64_repair_conservative (t : CType) (h : t.view.natural) (isRet : Bool) :
    classify t isRet = classifyLegacy t isRet :=
  classifyFixedV_eq_natural t.view h isRet

example : (CType.struct [.sc .f32, .array 3 (.sc .i16), .struct [.sc .i16], .sc .f32]).view.natural := by decide
example : ¬ (CType.struct [.sc .i8, .struct [.sc .i8, .sc .i32]]).view.natural := by decide
example : (CType.struct [.sc .i8, .array 2 (.struct [.sc .i16, .sc .i8]), .struct [.struct [], .sc .f32]]).wf = true := by decide

/-- objects of more than 16 bytes with ≥ 2 leaves go to memory (byval / sret) on both sides, whatever their nesting -/
theorem amd64_large_memory (t : CType) (h16 : 16 < t.size) (hn : 2 ≤ t.flatten.length) (isRet : Bool) :
    classify t isRet = .memory ∧ classifyAgg t.size t.elems = .memory := by
  constructor
  · unfold classify classifyV
    have h0 : t.view.size ≠ 0 := by show t.size ≠ 0; omega
    rw [if_neg h0]
    unfold getTypeInfo
    rw [if_pos (show t.view.types.length ≥ 2 from hn), if_pos (show t.view.size > 16 from h16)]
  · unfold classifyAgg
    rw [if_neg (by omega), if_pos h16]

/-! ## Placement of a whole parameter list (current code) -/

def sigWf (sig : Sig) : Prop := (∀ t ∈ sig.ret, t.wf = true) ∧ ∀ t ∈ sig.params, t.wf = true

instance (sig : Sig) : Decidable (sigWf sig) := by unfold sigWf; infer_instance

/-- **Placement soundness, full statement**: llgo's per-parameter classification followed by the x86-64
    convention for the resulting scalar list puts every eightbyte of every argument (and the result) where the
    psABI's sequential assignment puts it.  FALSE on the current tree. -/
def amd64_placement_sound : Prop := ∀ sig : Sig, sigWf sig → implPlace sig = place sig

/-- six `int64` then `struct { double d; int8 b; }`: the psABI passes the struct in memory as a whole (no
    INTEGER register is left for its second eightbyte); llgo passes `d` in XMM0 and `b` on the stack. -/
theorem amd64_placement_counterexample : ¬ amd64_placement_sound := by
  intro h
  exact absurd (h ⟨none, [.sc .i64, .sc .i64, .sc .i64, .sc .i64, .sc .i64, .sc .i64,
    .struct [.sc .f64, .sc .i8]]⟩ (by decide)) (by decide)

/-- **Placement, sharp form**: equal placement whenever no argument is *split* (all its eightbytes get
    registers, or none of them could) — for every signature over the universe. -/
theorem amd64_placement_nosplit (sig : Sig) (hn : sigWf sig) (h : noSplit sig = true) :
    implPlace sig = place sig := by
  have hret : implRetC classifyV (sig.ret.map CType.view) = placeRet (sig.ret.map CType.view) := by
    apply implRet_eq
    intro v hv
    simp only [Option.mem_def, Option.map_eq_some_iff] at hv
    obtain ⟨t, ht, rfl⟩ := hv
    exact clsOK_good _ (goodView_of_wf t (hn.1 t ht))
  unfold implPlace implPlaceC place placeV
  rw [hret]
  congr 1
  apply placeArgs_eq
  · constructor
    · simp only; split <;> omega
    · simp
  · intro v hv
    simp only [List.mem_map] at hv
    obtain ⟨t, ht, rfl⟩ := hv
    exact clsOK_good _ (goodView_of_wf t (hn.2 t ht))
  · exact h

/-- **Placement, partial**: under `fitsInRegs sig` — every aggregate that the psABI passes in registers still
    finds all the registers its eightbytes need — the placements agree. -/
theorem amd64_placement_partial (sig : Sig) (hn : sigWf sig) (h : fitsInRegs sig = true) :
    implPlace sig = place sig := by
  apply amd64_placement_nosplit sig hn
  unfold noSplit
  unfold fitsInRegs at h
  apply fitsArgs_noSplit
  · constructor
    · simp only; split <;> omega
    · simp
  · intro v hv
    simp only [List.mem_map] at hv
    obtain ⟨t, ht, rfl⟩ := hv
    exact (clsOK_good _ (goodView_of_wf t (hn.2 t ht))).few
  · exact h

/-- the hypotheses are satisfiable by a non-trivial signature: a 24-byte result (sret), scalars of both classes,
    a mixed two-eightbyte struct, a nested struct with padding, a three-float struct and a large struct -/
example :
    let sig : Sig := ⟨some (.struct [.sc .i64, .sc .i64, .sc .i64]),
      [.sc .i32, .struct [.sc .f64, .sc .i8], .sc .f32, .struct [.sc .i8, .struct [.sc .i8, .sc .i32]],
       .struct [.sc .f32, .sc .f32, .sc .f32], .struct [.sc .i64, .sc .i64, .sc .i64], .sc .ptr]⟩
    sigWf sig ∧ fitsInRegs sig = true := by decide

/-- not every register-exhausted signature is affected: both eightbytes INTEGER and no INTEGER register left -/
example :
    let sig : Sig := ⟨none, [.sc .i64, .sc .i64, .sc .i64, .sc .i64, .sc .i64, .sc .i64,
      .struct [.sc .i64, .sc .i64]]⟩
    fitsInRegs sig = false ∧ noSplit sig = true ∧ implPlace sig = place sig := by decide

/-! ## arm64 (model and specification only: nothing executes on the host) -/

/-- **arm64 classification soundness**: for every type of the universe `TypeInfoArm64.GetTypeInfo` chooses what
    AAPCS64 prescribes — a homogeneous floating-point aggregate of 1–4 members stays an aggregate of floats (SIMD
    registers), two pointer/`i64` leaves stay two general registers, any other composite of ≤ 16 bytes becomes
    `i64` / `[2 x i64]` (results ≤ 8 bytes: the integer of the object's width), and anything larger is passed
    through a pointer (results: `sret`, i.e. `x8`). -/
theorem arm64_classify_sound (t : CType) (h : t.wf = true) (isRet : Bool) :
    AAPCS64.Sound (classifyArm64 t isRet) t.view := by
  cases t with
  | sc s => exact arm64_sound_scalar s isRet
  | struct fs => exact arm64_sound_good _ (goodView_of_wf _ h) isRet
  | array n e => exact arm64_sound_good _ (goodView_of_wf _ h) isRet

example : classifyArm64 (.struct [.sc .f32, .array 2 (.sc .f32)]) false = .direct ∧
    classifyArm64 (.struct [.sc .f64, .sc .i8]) false = .coerceI64x2 ∧
    classifyArm64 (.struct [.sc .i8, .struct [.sc .i8, .sc .i32]]) true = .coerceI64x2 ∧
    classifyArm64 (.struct [.sc .i16, .sc .i8]) true = .coerceInt 4 := by decide

/-! ## C strings -/

/-- **C-string round trip.** Copying a Go string into any (dirty) memory region that has room for it plus
    the terminator (`CStrCopy`, used by `AllocaCStr`, `AllocCStr`, `CString`) and reading it back with
    `StringFromCStr` (`strlen` + copy) yields the original bytes, provided the string contains no NUL byte;
    the write stays inside `[dest, dest+len]`. -/
theorem cstr_roundtrip (m : Mem) (dest : Nat) (s : List UInt8)
    (hroom : dest + s.length + 1 ≤ m.length) (hnul : (0 : UInt8) ∉ s) :
    ∃ m', cstrCopy m dest s = some m' ∧ stringFromCStr m' dest = some s ∧
      m'.length = m.length ∧ m'.take dest = m.take dest ∧
      m'.drop (dest + s.length + 1) = m.drop (dest + s.length + 1) := by
  have hA : (m.take dest).length = dest := by simp [List.length_take]; omega
  have hAB : (m.take dest ++ s).length = dest + s.length := by simp [List.length_take]; omega
  have hABC : (m.take dest ++ s ++ [0]).length = dest + s.length + 1 := by simp [List.length_take]; omega
  refine ⟨m.take dest ++ s ++ [0] ++ m.drop (dest + s.length + 1), ?_, ?_, ?_, ?_, ?_⟩
  · unfold cstrCopy memWrite
    rw [if_pos (by omega)]
    simp only
    have hl1 : (m.take dest ++ s ++ m.drop (dest + s.length)).length = m.length := by
      simp [List.length_take, List.length_drop]; omega
    rw [if_pos (by rw [hl1]; simp; omega)]
    have htk : (m.take dest ++ s ++ m.drop (dest + s.length)).take (dest + s.length) = m.take dest ++ s :=
      take_append_len _ _ _ hAB
    have hdr : (m.take dest ++ s ++ m.drop (dest + s.length)).drop (dest + s.length + [(0 : UInt8)].length)
        = m.drop (dest + s.length + 1) := by
      have h1 : (m.take dest ++ s ++ m.drop (dest + s.length)).drop (dest + s.length + [(0 : UInt8)].length)
          = ((m.take dest ++ s ++ m.drop (dest + s.length)).drop (dest + s.length)).drop 1 := by
        simp [List.drop_drop]
      rw [h1, drop_append_len _ _ _ hAB, List.drop_drop]
    rw [htk, hdr]
  · unfold stringFromCStr strlen
    have hlen : dest ≤ (m.take dest ++ s ++ [0] ++ m.drop (dest + s.length + 1)).length := by
      simp [List.length_take]; omega
    rw [if_pos hlen]
    have hd : (m.take dest ++ s ++ [0] ++ m.drop (dest + s.length + 1)).drop dest
        = s ++ 0 :: m.drop (dest + s.length + 1) := by
      have : m.take dest ++ s ++ [0] ++ m.drop (dest + s.length + 1)
          = m.take dest ++ (s ++ 0 :: m.drop (dest + s.length + 1)) := by simp
      rw [this, drop_append_len _ _ _ hA]
    rw [hd, strlenFrom_append s _ hnul]
    simp
  · simp [List.length_take, List.length_drop]; omega
  · have : m.take dest ++ s ++ [0] ++ m.drop (dest + s.length + 1)
        = m.take dest ++ (s ++ 0 :: m.drop (dest + s.length + 1)) := by simp
    rw [this, take_append_len _ _ _ hA]
  · exact drop_append_len _ _ _ hABC

example : (2 + [104, 105].length + 1 ≤ (List.replicate 8 (0xAA : UInt8)).length) ∧ (0 : UInt8) ∉ ([104, 105] : List UInt8) := by
  decide

/-- the round trip for EVERY byte string — false: C strings cannot carry a NUL -/
def CStrRoundtripFull : Prop :=
  ∀ (m : Mem) (dest : Nat) (s : List UInt8), dest + s.length + 1 ≤ m.length →
    ∀ m', cstrCopy m dest s = some m' → stringFromCStr m' dest = some s

/-- `"A\x00B"` comes back as `"A"` -/
theorem cstr_roundtrip_counterexample : ¬ CStrRoundtripFull := by
  intro h
  have := h (List.replicate 6 0xAA) 1 [65, 0, 66] (by decide) [0xAA, 65, 0, 66, 0, 0xAA] (by decide)
  revert this
  decide

end LlgoVerif.CAbi
