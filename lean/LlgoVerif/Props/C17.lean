import LlgoVerif.Lemmas.Shell
/-!
# C17 — command lines, flags and directives are split and re-assembled without loss

Property theorems only.  Models: `LlgoVerif/Model/Shell.lean`; lemmas: `LlgoVerif/Lemmas/Shell.lean`.
-/
namespace LlgoVerif.Shell

/-- **Round trip, double-quote form.** Any list of arguments — whatever characters they contain —
    quoted in the documented way (`"…"` with `\"` and `\\`) and joined by single spaces is parsed
    back into exactly the original list. -/
theorem parse_quote (args : List (List Char)) : parse (join args) = .ok args := by
  cases args with
  | nil => simp [parse, join, run_nil]
  | cons a as =>
    unfold parse
    rw [show ({} : St) = { args := [], cur := [], inQ := false, q := ' ', has := false } from rfl,
        run_join as a []]
    simp
    exact List.dropLast_concat_getLast (by simp)

/-- **Round trip, single-quote form**, for arguments that contain no single quote. -/
theorem parse_squote (args : List (List Char)) (h : ∀ x ∈ args, '\'' ∉ x) :
    parse (sjoin args) = .ok args := by
  cases args with
  | nil => simp [parse, sjoin, run_nil]
  | cons a as =>
    unfold parse
    rw [show ({} : St) = { args := [], cur := [], inQ := false, q := ' ', has := false } from rfl,
        run_sjoin as a [] h]
    simp
    exact List.dropLast_concat_getLast (by simp)

example : (∀ x ∈ ["a b".toList, "c\"d\\".toList, []], '\'' ∉ x) := by decide

end LlgoVerif.Shell
