/-!
# `sync/atomic.Value` of llgo (`runtime/internal/lib/sync/atomic/value.go`) as a transition system

A `Value` is an interface word pair `(typ, data)`.  The first `Store` publishes it in three atomic steps:
`CAS(typ, nil, &firstStoreInProgress)`, `Store(data, d)`, `Store(typ, τ)` — the TYPE word last, so that a `Load` that sees
a real type also sees the data stored before it.  Threads park before every atomic access (the granularity of the
scheduler stand-in); one `step` = the access + the plain code up to the next access.

```go
func (v *Value) Load() (val any) {
    typ := LoadPointer(&vp.typ)                                          // lTyp
    if typ == nil || typ == &firstStoreInProgress { return nil }
    data := LoadPointer(&vp.data)                                        // lData τ
    return (typ, data)
}
func (v *Value) Store(val any) {
    for {
        typ := LoadPointer(&vp.typ)                                      // sLoad
        if typ == nil {
            if !CompareAndSwapPointer(&vp.typ, nil, &firstStoreInProgress) { continue }   // sCas
            StorePointer(&vp.data, vlp.data)                             // sData
            StorePointer(&vp.typ, vlp.typ)                               // sTyp
            return
        }
        if typ == &firstStoreInProgress { continue }
        if typ != vlp.typ { panic("… inconsistently typed value") }
        StorePointer(&vp.data, vlp.data)                                 // sData2
        return
    }
}
func (v *Value) Swap(new any) (old any)                 // wLoad, wCas, wData, wTyp (→ nil) | wSwap (→ (typ, SwapPointer(data)))
func (v *Value) CompareAndSwap(old, new any) bool       // cLoad, cCas, cData, cTyp (→ true) | cLoadData, cCas2
```

Values are pairs `(τ, d)` of a type id and a non-nil data word (pointer-shaped values: the interface's data word is the
pointer itself, and interface equality in `CompareAndSwap` is equality of both words).
-/
namespace LlgoVerif.AValue

abbrev Val := Nat × Nat

inductive TypW where
  | nil | inProgress | real (τ : Nat)
  deriving DecidableEq, Repr

inductive Op where
  | store (v : Val) | load | swap (v : Val) | cas (old : Option Val) (new : Val)
  deriving DecidableEq, Repr

inductive Pc where
  | done
  | sLoad (v : Val) | sCas (v : Val) | sData (v : Val) | sTyp (v : Val) | sData2 (v : Val)
  | lTyp | lData (τ : Nat)
  | wLoad (v : Val) | wCas (v : Val) | wData (v : Val) | wTyp (v : Val) | wSwap (v : Val)
  | cLoad (o : Option Val) (n : Val) | cCas (o : Option Val) (n : Val) | cData (n : Val) | cTyp (n : Val)
  | cLoadData (o : Option Val) (n : Val) | cCas2 (n : Val) (dat : Nat)
  deriving DecidableEq, Repr

structure Thread where
  pc : Pc
  prog : List Op
  opsDone : Nat
  deriving DecidableEq, Repr

/-- what a call returned (the driver's event column; `panicked` = "inconsistently typed value") -/
inductive Event where
  | stored | loaded (r : Option Val) | swapped (r : Option Val) | casResult (ok : Bool) | panicked
  deriving DecidableEq, Repr

structure Shared where
  typ : TypW
  data : Nat
  /-- ghost: every value whose data word reached `data` (it is the argument of the Store/Swap/CompareAndSwap doing it) -/
  written : List Val
  /-- ghost: every non-nil value a `Load` or a `Swap` returned -/
  observed : List Val
  /-- ghost: the thread whose CAS started the first store -/
  owner : Option Nat
  deriving DecidableEq, Repr

/-- the first parking point of a call; `CompareAndSwap` checks its arguments before touching the Value -/
def firstPc : Op → Option Pc
  | .store v => some (.sLoad v)
  | .load => some .lTyp
  | .swap v => some (.wLoad v)
  | .cas o n =>
    match o with
    | some ov => if ov.1 ≠ n.1 then none else some (.cLoad o n)      -- "inconsistently typed values": panics at once
    | none => some (.cLoad o n)

/-- the current call returned (or panicked): run on to the first parking point of the next call that has one -/
def startNext : List Op → Nat → Thread
  | [], k => { pc := .done, prog := [], opsDone := k }
  | o :: r, k =>
    match firstPc o with
    | some pc => { pc := pc, prog := r, opsDone := k }
    | none => startNext r (k + 1)

def Thread.finish (t : Thread) : Thread := startNext t.prog (t.opsDone + 1)
def Thread.goto (t : Thread) (pc : Pc) : Thread := { t with pc := pc }
def Thread.start (prog : List Op) : Thread := startNext prog 0

/-- one step of a thread: never blocked (the wait for a first store in progress is a spin loop of loads) -/
def stepThread (i : Nat) (sh : Shared) (t : Thread) : Option (Shared × Thread × Option Event) :=
  match t.pc with
  | .done => none
  -- ---- Store
  | .sLoad v =>
    match sh.typ with
    | .nil => some (sh, t.goto (.sCas v), none)
    | .inProgress => some (sh, t.goto (.sLoad v), none)
    | .real τ => if τ ≠ v.1 then some (sh, t.finish, some .panicked) else some (sh, t.goto (.sData2 v), none)
  | .sCas v =>
    if sh.typ = .nil then some ({ sh with typ := .inProgress, owner := some i }, t.goto (.sData v), none)
    else some (sh, t.goto (.sLoad v), none)
  | .sData v => some ({ sh with data := v.2, written := v :: sh.written }, t.goto (.sTyp v), none)
  | .sTyp v => some ({ sh with typ := .real v.1 }, t.finish, some .stored)
  | .sData2 v => some ({ sh with data := v.2, written := v :: sh.written }, t.finish, some .stored)
  -- ---- Load
  | .lTyp =>
    match sh.typ with
    | .real τ => some (sh, t.goto (.lData τ), none)
    | _ => some (sh, t.finish, some (.loaded none))
  | .lData τ => some ({ sh with observed := (τ, sh.data) :: sh.observed }, t.finish, some (.loaded (some (τ, sh.data))))
  -- ---- Swap
  | .wLoad v =>
    match sh.typ with
    | .nil => some (sh, t.goto (.wCas v), none)
    | .inProgress => some (sh, t.goto (.wLoad v), none)
    | .real τ => if τ ≠ v.1 then some (sh, t.finish, some .panicked) else some (sh, t.goto (.wSwap v), none)
  | .wCas v =>
    if sh.typ = .nil then some ({ sh with typ := .inProgress, owner := some i }, t.goto (.wData v), none)
    else some (sh, t.goto (.wLoad v), none)
  | .wData v => some ({ sh with data := v.2, written := v :: sh.written }, t.goto (.wTyp v), none)
  | .wTyp v => some ({ sh with typ := .real v.1 }, t.finish, some (.swapped none))
  | .wSwap v =>
    some ({ sh with data := v.2, written := v :: sh.written, observed := (v.1, sh.data) :: sh.observed }, t.finish,
          some (.swapped (some (v.1, sh.data))))
  -- ---- CompareAndSwap
  | .cLoad o n =>
    match sh.typ with
    | .nil => if o ≠ none then some (sh, t.finish, some (.casResult false)) else some (sh, t.goto (.cCas o n), none)
    | .inProgress => some (sh, t.goto (.cLoad o n), none)
    | .real τ => if τ ≠ n.1 then some (sh, t.finish, some .panicked) else some (sh, t.goto (.cLoadData o n), none)
  | .cCas o n =>
    if sh.typ = .nil then some ({ sh with typ := .inProgress, owner := some i }, t.goto (.cData n), none)
    else some (sh, t.goto (.cLoad o n), none)
  | .cData n => some ({ sh with data := n.2, written := n :: sh.written }, t.goto (.cTyp n), none)
  | .cTyp n => some ({ sh with typ := .real n.1 }, t.finish, some (.casResult true))
  | .cLoadData o n =>
    if o ≠ some (n.1, sh.data) then some (sh, t.finish, some (.casResult false))
    else some (sh, t.goto (.cCas2 n sh.data), none)
  | .cCas2 n dat =>
    if sh.data = dat then some ({ sh with data := n.2, written := n :: sh.written }, t.finish, some (.casResult true))
    else some (sh, t.finish, some (.casResult false))

structure State where
  sh : Shared
  threads : List Thread
  deriving DecidableEq, Repr

/-- thread `i` runs to its next parking point -/
def nextEv (s : State) (i : Nat) : Option (State × Option Event) :=
  match s.threads[i]? with
  | none => none
  | some t =>
    match stepThread i s.sh t with
    | none => none
    | some (sh', t', ev) => some ({ sh := sh', threads := s.threads.set i t' }, ev)

def next (s : State) (i : Nat) : Option State := (nextEv s i).map (·.1)

def run (s : State) : List Nat → Option State
  | [] => some s
  | i :: is =>
    match next s i with
    | some s' => run s' is
    | none => none

inductive Reachable (s0 : State) : State → Prop where
  | refl : Reachable s0 s0
  | step {s s' : State} (i : Nat) : Reachable s0 s → next s i = some s' → Reachable s0 s'

/-- a fresh `Value` and threads at the first parking points of their programs -/
def init (progs : List (List Op)) : State :=
  { sh := { typ := .nil, data := 0, written := [], observed := [], owner := none }, threads := progs.map Thread.start }

/-! ### what the driver prints -/

def Thread.parkedAt (t : Thread) : String :=
  match t.pc with
  | .done => "-"
  | .sLoad _ | .lTyp | .lData _ | .wLoad _ | .cLoad _ _ | .cLoadData _ _ => "ld"
  | .sCas _ | .wCas _ | .cCas _ _ | .cCas2 _ _ => "cas"
  | .sData _ | .sTyp _ | .sData2 _ | .wData _ | .wTyp _ | .cData _ | .cTyp _ => "st"
  | .wSwap _ => "swap"

end LlgoVerif.AValue
