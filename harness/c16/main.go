// Correspondence harness for C16: runs the real internal/goembed functions on protocol lines.
// The module path sits under github.com/goplus/llgo/internal/, so the internal package is importable
// (Go's internal rule is path based); nothing is added to /repo.
//
//	resolve DIR PAT…      goembed.ResolvePatterns(DIR, pats)          -> ok NAME=DATA,… | err
//	load FILE             parse FILE, goembed.LoadDirectives           -> ok VAR=NAME+NAME;VAR=… | ok . | err | parse-error
//	loadd FILE            the same with the bytes                      -> ok VAR=NAME:DATA+NAME:DATA;… | …
//	match PAT NAME        path.Match (the Go library, reference for the model's transcription) -> true|false|err
//	badname NAME          goembed.IsBadName                            -> true|false
//	validpat PAT          goembed.ValidPattern, path.Match(PAT,"") ok  -> t|f t|f
//	split ARGS            goembed.SplitArgs                            -> ok H H… | ok . | err
//	parsedir TEXT         goembed.ParsePatterns of one comment TEXT    -> nodirective | err | ok H H… | ok .
//	fsentries N=D,…       goembed.BuildFSEntries                       -> ok N=D,…
//	isletter N            unicode.IsLetter(rune(N))                    -> true|false
//
// All strings are hex (`-` = empty).
package main

import (
	"bufio"
	"encoding/hex"
	"fmt"
	"go/ast"
	"go/parser"
	"go/token"
	"os"
	"path"
	"path/filepath"
	"sort"
	"strconv"
	"strings"
	"unicode"

	"github.com/goplus/llgo/internal/goembed"
)

func unhex(h string) (string, bool) {
	if h == "-" {
		return "", true
	}
	b, err := hex.DecodeString(h)
	return string(b), err == nil
}

func hx(s string) string {
	if s == "" {
		return "-"
	}
	return hex.EncodeToString([]byte(s))
}

func hexList(l []string) string {
	if len(l) == 0 {
		return "."
	}
	o := make([]string, len(l))
	for i, s := range l {
		o[i] = hx(s)
	}
	return strings.Join(o, " ")
}

func hexFiles(fs []goembed.FileData) string {
	if len(fs) == 0 {
		return "."
	}
	o := make([]string, len(fs))
	for i, f := range fs {
		o[i] = hx(f.Name) + "=" + hx(string(f.Data))
	}
	return strings.Join(o, ",")
}

func flag(b bool) string {
	if b {
		return "t"
	}
	return "f"
}

func handle(line string) (out string) {
	defer func() {
		if e := recover(); e != nil {
			out = fmt.Sprintf("panic %v", e)
		}
	}()
	f := strings.Fields(line)
	if len(f) == 0 {
		return "bad-op"
	}
	var args []string
	for _, h := range f[1:] {
		s, ok := unhex(h)
		if !ok && f[0] != "fsentries" && f[0] != "isletter" {
			return "bad-op"
		}
		args = append(args, s)
	}
	switch {
	case f[0] == "resolve" && len(args) >= 1:
		fs, err := goembed.ResolvePatterns(args[0], args[1:])
		if err != nil {
			return "err"
		}
		return "ok " + hexFiles(fs)
	case (f[0] == "load" || f[0] == "loadd") && len(args) == 1:
		fset := token.NewFileSet()
		var files []*ast.File
		if st, serr := os.Stat(args[0]); serr == nil && st.IsDir() {
			// a whole package: every .go file of the directory, in name order (as the build hands them to LoadDirectives)
			ents, _ := os.ReadDir(args[0])
			for _, e := range ents {
				if e.IsDir() || !strings.HasSuffix(e.Name(), ".go") {
					continue
				}
				file, err := parser.ParseFile(fset, filepath.Join(args[0], e.Name()), nil, parser.ParseComments)
				if err != nil {
					return "parse-error"
				}
				files = append(files, file)
			}
		} else {
			file, err := parser.ParseFile(fset, args[0], nil, parser.ParseComments)
			if err != nil {
				return "parse-error"
			}
			files = append(files, file)
		}
		vm, err := goembed.LoadDirectives(fset, files)
		if err != nil {
			return "err"
		}
		var names []string
		for k := range vm {
			names = append(names, k)
		}
		sort.Strings(names)
		if len(names) == 0 {
			return "ok ."
		}
		var parts []string
		for _, k := range names {
			var fl []string
			for _, fd := range vm[k].Files {
				if f[0] == "loadd" {
					fl = append(fl, hx(fd.Name)+":"+hx(string(fd.Data)))
				} else {
					fl = append(fl, hx(fd.Name))
				}
			}
			parts = append(parts, hx(k)+"="+strings.Join(fl, "+"))
		}
		return "ok " + strings.Join(parts, ";")
	case f[0] == "match" && len(args) == 2:
		ok, err := path.Match(args[0], args[1])
		if err != nil {
			return "err"
		}
		return strconv.FormatBool(ok)
	case f[0] == "badname" && len(args) == 1:
		return strconv.FormatBool(goembed.IsBadName(args[0]))
	case f[0] == "validpat" && len(args) == 1:
		_, err := path.Match(args[0], "")
		return flag(goembed.ValidPattern(args[0])) + " " + flag(err == nil)
	case f[0] == "split" && len(args) == 1:
		l, err := goembed.SplitArgs(args[0])
		if err != nil {
			return "err"
		}
		return "ok " + hexList(l)
	case f[0] == "parsedir" && len(args) == 1:
		pats, has, err := goembed.ParsePatterns(&ast.CommentGroup{List: []*ast.Comment{{Text: args[0]}}})
		if err != nil {
			return "err"
		}
		if !has {
			return "nodirective"
		}
		return "ok " + hexList(pats)
	case f[0] == "fsentries" && len(f) == 2:
		var files []goembed.FileData
		if f[1] != "." {
			for _, kv := range strings.Split(f[1], ",") {
				p := strings.Split(kv, "=")
				if len(p) != 2 {
					return "bad-op"
				}
				k, ok1 := unhex(p[0])
				v, ok2 := unhex(p[1])
				if !ok1 || !ok2 {
					return "bad-op"
				}
				files = append(files, goembed.FileData{Name: k, Data: []byte(v)})
			}
		}
		return "ok " + hexFiles(goembed.BuildFSEntries(files))
	case f[0] == "isletter" && len(f) == 2:
		n, err := strconv.Atoi(f[1])
		if err != nil {
			return "bad-op"
		}
		return strconv.FormatBool(unicode.IsLetter(rune(n)))
	}
	return "bad-op"
}

func main() {
	sc := bufio.NewScanner(os.Stdin)
	sc.Buffer(make([]byte, 1<<20), 1<<26)
	w := bufio.NewWriter(os.Stdout)
	defer w.Flush()
	for sc.Scan() {
		fmt.Fprintln(w, handle(sc.Text()))
	}
}
