import LlgoVerif.Util
import LlgoVerif.Model.GoType
import LlgoVerif.Model.Iface
import LlgoVerif.Spec.TypeIdent
import LlgoVerif.Lemmas.GoType
import LlgoVerif.Spec.DynEq
/-! Line-protocol driver for C07 (executable only; SHA-256 and base64url live here, not in any theorem).

Type terms (prefix notation, blank separated; `H` = hex of UTF-8 bytes, `-` = empty, `~` = absent):
```
B kind | P t | S t | A n t | M k v | C d t            (d: 0 chan, 1 chan<-, 2 <-chan)
F variadic np nr t…                                     params then results
T n (nameH pkgH|~ emb tagH t)…                          struct
I n (nameH pkgH|~ sig)…                                 interface
N decl pkgH|~ nameH scope ntargs t…                     scope: g | s:i.j.k (innermost first) | p:pos
L nameH t                                               alias
```
Requests:
(`V` = variant of structHash the tree implements: two digits, tags written? embedded names written?  `00` = pinned tree)
* `name V T`              → `ok <hex TypeName>` | `unsupported`
* `pair V T | T`          → `<hex name1> <hex name2> <identical 0/1> <fragment 0/1>` (names `unsupported` when not covered;
                            fragment = the decidable hypotheses of `typeName_injective_partial` hold for the pair)
* `impl t:(nameH typ ifn)… | v:(…)` (or `v@kind:`) or `| none`   → `<implScan> <newItabOk> <spec> <itab function words | ->`
* `find v:(…) | nameH typ` → `<ifn> <found>` (via the itab of the one-method interface)
* `implspec MSET | T`     → `<implements 0/1>`   (MSET is an `I` term holding the method set)
* `closure X tid tclosure tf0 tnamed | vid vclosure vf0 vnamed` or `| none` → `<matchesClosure>` (X = 1: variant with fixes/C07-3.diff)
* `sha H`                 → base64url(sha256) (self test)

Dynamic equality / hashing (Model/DynEq.lean; tree syntax as in harness/c07/dyn.go and harness/c07/native/dyn.go.txt; the
three `memhash` routines of hash64.go are implemented HERE, executable only, and handed to the model as its parameter `H`):
* `endian 0|1` / `hkey a b c d` / `rnd r0 r1 …` / `D id <desc tree>`   → `ok`   (state: `goarch.BigEndian` of the tree, hashkey, fastrand script, descriptor memory)
* `eq <obj> | <obj>`              → `EfaceEqual`: `1` | `0` | `panic:uncomparable` | `wild`
* `heq id <obj> | <obj>`          → `t.Equal(p, q)`
* `hash iface|nilinter seed <obj>` → `<hex hash> <fastrand calls>` | `panic:unhashable` | `wild`
* `thash id seed <obj>`           → `typehash`
* `dynty <type term>`             → `<comparable> <layoutOK> <blankDirect> <desc tree of descOf>`  (the compiler side)
-/
open LlgoVerif LlgoVerif.Util LlgoVerif.Types

/-! ## SHA-256 + base64 RawURLEncoding -/

def shaK : Array UInt32 := #[
  0x428a2f98, 0x71374491, 0xb5c0fbcf, 0xe9b5dba5, 0x3956c25b, 0x59f111f1, 0x923f82a4, 0xab1c5ed5,
  0xd807aa98, 0x12835b01, 0x243185be, 0x550c7dc3, 0x72be5d74, 0x80deb1fe, 0x9bdc06a7, 0xc19bf174,
  0xe49b69c1, 0xefbe4786, 0x0fc19dc6, 0x240ca1cc, 0x2de92c6f, 0x4a7484aa, 0x5cb0a9dc, 0x76f988da,
  0x983e5152, 0xa831c66d, 0xb00327c8, 0xbf597fc7, 0xc6e00bf3, 0xd5a79147, 0x06ca6351, 0x14292967,
  0x27b70a85, 0x2e1b2138, 0x4d2c6dfc, 0x53380d13, 0x650a7354, 0x766a0abb, 0x81c2c92e, 0x92722c85,
  0xa2bfe8a1, 0xa81a664b, 0xc24b8b70, 0xc76c51a3, 0xd192e819, 0xd6990624, 0xf40e3585, 0x106aa070,
  0x19a4c116, 0x1e376c08, 0x2748774c, 0x34b0bcb5, 0x391c0cb3, 0x4ed8aa4a, 0x5b9cca4f, 0x682e6ff3,
  0x748f82ee, 0x78a5636f, 0x84c87814, 0x8cc70208, 0x90befffa, 0xa4506ceb, 0xbef9a3f7, 0xc67178f2]

@[inline] def rotr (x : UInt32) (n : UInt32) : UInt32 := (x >>> n) ||| (x <<< (32 - n))

def shaPad (msg : ByteArray) : ByteArray := Id.run do
  let bitLen : UInt64 := msg.size.toUInt64 * 8
  let mut m := msg.push 0x80
  while m.size % 64 != 56 do
    m := m.push 0
  for i in [0:8] do
    m := m.push ((bitLen >>> (8 * (7 - i)).toUInt64).toUInt8)
  return m

def sha256 (msg : ByteArray) : ByteArray := Id.run do
  let m := shaPad msg
  let mut h : Array UInt32 := #[0x6a09e667, 0xbb67ae85, 0x3c6ef372, 0xa54ff53a, 0x510e527f, 0x9b05688c, 0x1f83d9ab, 0x5be0cd19]
  for blk in [0:m.size / 64] do
    let mut w : Array UInt32 := Array.replicate 64 0
    for i in [0:16] do
      let b := blk * 64 + i * 4
      w := w.set! i ((m.get! b).toUInt32 <<< 24 ||| (m.get! (b+1)).toUInt32 <<< 16 ||| (m.get! (b+2)).toUInt32 <<< 8 ||| (m.get! (b+3)).toUInt32)
    for i in [16:64] do
      let w15 := w[i-15]!
      let w2 := w[i-2]!
      let s0 := rotr w15 7 ^^^ rotr w15 18 ^^^ (w15 >>> 3)
      let s1 := rotr w2 17 ^^^ rotr w2 19 ^^^ (w2 >>> 10)
      w := w.set! i (w[i-16]! + s0 + w[i-7]! + s1)
    let mut a := h[0]!
    let mut b := h[1]!
    let mut c := h[2]!
    let mut d := h[3]!
    let mut e := h[4]!
    let mut f := h[5]!
    let mut g := h[6]!
    let mut hh := h[7]!
    for i in [0:64] do
      let s1 := rotr e 6 ^^^ rotr e 11 ^^^ rotr e 25
      let ch := (e &&& f) ^^^ ((~~~ e) &&& g)
      let t1 := hh + s1 + ch + shaK[i]! + w[i]!
      let s0 := rotr a 2 ^^^ rotr a 13 ^^^ rotr a 22
      let mj := (a &&& b) ^^^ (a &&& c) ^^^ (b &&& c)
      let t2 := s0 + mj
      hh := g; g := f; f := e; e := d + t1; d := c; c := b; b := a; a := t1 + t2
    h := #[h[0]! + a, h[1]! + b, h[2]! + c, h[3]! + d, h[4]! + e, h[5]! + f, h[6]! + g, h[7]! + hh]
  let mut out := ByteArray.empty
  for x in h do
    out := out.push (x >>> 24).toUInt8
    out := out.push (x >>> 16).toUInt8
    out := out.push (x >>> 8).toUInt8
    out := out.push x.toUInt8
  return out

def b64Alphabet : Array Char := "ABCDEFGHIJKLMNOPQRSTUVWXYZabcdefghijklmnopqrstuvwxyz0123456789-_".toList.toArray

/-- base64.RawURLEncoding -/
def b64url (bs : ByteArray) : List Char := Id.run do
  let mut out : Array Char := #[]
  let n := bs.size
  let mut i := 0
  while i + 3 ≤ n do
    let v := (bs.get! i).toNat * 65536 + (bs.get! (i+1)).toNat * 256 + (bs.get! (i+2)).toNat
    out := out.push b64Alphabet[v / 262144 % 64]!
    out := out.push b64Alphabet[v / 4096 % 64]!
    out := out.push b64Alphabet[v / 64 % 64]!
    out := out.push b64Alphabet[v % 64]!
    i := i + 3
  if n - i == 1 then
    let v := (bs.get! i).toNat * 65536
    out := out.push b64Alphabet[v / 262144 % 64]!
    out := out.push b64Alphabet[v / 4096 % 64]!
  else if n - i == 2 then
    let v := (bs.get! i).toNat * 65536 + (bs.get! (i+1)).toNat * 256
    out := out.push b64Alphabet[v / 262144 % 64]!
    out := out.push b64Alphabet[v / 4096 % 64]!
    out := out.push b64Alphabet[v / 64 % 64]!
  return out.toList

/-- the text-level hash `nameC` is parameterised by -/
def hashText (cs : List Char) : List Char := b64url (sha256 (String.ofList cs).toUTF8)

/-! ## term parser -/

def strOfHex (h : String) : Option Str := do
  let bs ← unhex h
  let s ← String.fromUTF8? bs.toByteArray
  pure s.toList

def optStrOfHex (h : String) : Option (Option Str) :=
  if h = "~" then some none else (strOfHex h).map some

def hexOfStr (s : Str) : String := hex (String.ofList s).toUTF8.data.toList

def basicOfName : String → Option BasicKind
  | "bool" => some .bool | "int" => some .int | "int8" => some .int8 | "int16" => some .int16
  | "int32" => some .int32 | "int64" => some .int64 | "uint" => some .uint | "uint8" => some .uint8
  | "uint16" => some .uint16 | "uint32" => some .uint32 | "uint64" => some .uint64 | "uintptr" => some .uintptr
  | "float32" => some .float32 | "float64" => some .float64 | "complex64" => some .complex64
  | "complex128" => some .complex128 | "string" => some .string | "unsafe.Pointer" => some .unsafePointer
  | "byte" => some .byte | "rune" => some .rune
  | _ => none

def scopeOf (s : String) : Option Scope :=
  if s = "g" then some .pkg
  else if s.startsWith "s:" then
    let body := (s.drop 2).toString
    if body = "" then some (.path [])
    else ((body.splitOn ".").mapM String.toNat?).map Scope.path
  else if s.startsWith "p:" then (s.drop 2).toString.toNat?.map Scope.pos
  else none

mutual
partial def parseT : List String → Option (GoType × List String)
  | "B" :: k :: r => (basicOfName k).map fun b => (.basic b, r)
  | "P" :: r => do let (t, r) ← parseT r; pure (.pointer t, r)
  | "S" :: r => do let (t, r) ← parseT r; pure (.slice t, r)
  | "A" :: n :: r => do let n ← n.toNat?; let (t, r) ← parseT r; pure (.array n t, r)
  | "M" :: r => do let (k, r) ← parseT r; let (v, r) ← parseT r; pure (.map k v, r)
  | "C" :: d :: r => do
    let d ← (match d with | "0" => some ChanDir.both | "1" => some .send | "2" => some .recv | _ => none)
    let (t, r) ← parseT r; pure (.chan d t, r)
  | "F" :: v :: np :: nr :: r => do
    let np ← np.toNat?; let nr ← nr.toNat?
    let (ps, r) ← parseTL np r; let (rs, r) ← parseTL nr r
    pure (.func ps rs (v == "1"), r)
  | "T" :: n :: r => do let n ← n.toNat?; let (fs, r) ← parseFL n r; pure (.struct fs, r)
  | "I" :: n :: r => do let n ← n.toNat?; let (ms, r) ← parseML n r; pure (.iface ms, r)
  | "N" :: d :: pkg :: name :: sc :: nt :: r => do
    let d ← d.toNat?; let pkg ← optStrOfHex pkg; let name ← strOfHex name; let sc ← scopeOf sc
    let nt ← nt.toNat?; let (ts, r) ← parseTL nt r
    pure (.named d pkg name sc ts, r)
  | "L" :: name :: r => do let name ← strOfHex name; let (t, r) ← parseT r; pure (.alias name t, r)
  | _ => none
partial def parseTL : Nat → List String → Option (TList × List String)
  | 0, r => some (.nil, r)
  | n+1, r => do let (t, r) ← parseT r; let (ts, r) ← parseTL n r; pure (.cons t ts, r)
partial def parseFL : Nat → List String → Option (FList × List String)
  | 0, r => some (.nil, r)
  | n+1, name :: pkg :: emb :: tag :: r => do
    let name ← strOfHex name; let pkg ← optStrOfHex pkg; let tag ← strOfHex tag
    let (t, r) ← parseT r; let (fs, r) ← parseFL n r
    pure (.cons name pkg (emb == "1") tag t fs, r)
  | _, _ => none
partial def parseML : Nat → List String → Option (MList × List String)
  | 0, r => some (.nil, r)
  | n+1, name :: pkg :: r => do
    let name ← strOfHex name; let pkg ← optStrOfHex pkg
    let (t, r) ← parseT r; let (ms, r) ← parseML n r
    pure (.cons name pkg t ms, r)
  | _, _ => none
end

def parseWhole (toks : List String) : Option GoType :=
  match parseT toks with
  | some (t, []) => some t
  | _ => none

def splitBar (toks : List String) : List String × List String :=
  (toks.takeWhile (· ≠ "|"), (toks.dropWhile (· ≠ "|")).drop 1)

/-- `token.IsExported` on ASCII names -/
def exAscii (s : Str) : Bool := match s with | c :: _ => c.isUpper | [] => false

/-- the decidable hypotheses of `typeName_injective_partial` -/
def inFragment (cfg : Cfg) (t1 t2 : GoType) : Bool :=
  wfT cfg exAscii t1 && wfT cfg exAscii t2 && tagsOk cfg t1 && tagsOk cfg t2 &&
    decide (Coherent (declKeys t1 ++ declKeys t2))

def cfgOf (v : String) : Option Cfg :=
  match v with
  | "00" => some ⟨false, false⟩ | "10" => some ⟨true, false⟩
  | "01" => some ⟨false, true⟩ | "11" => some ⟨true, true⟩
  | _ => none

def nameOut (cfg : Cfg) (t : GoType) : String :=
  if supported t then hexOfStr (nameC cfg hashText false t) else "unsupported"

/-! ## method tables -/

def parseEnts : List String → Option (List Face.Ent)
  | [] => some []
  | n :: t :: f :: r => do
    let n ← unhex n; let t ← t.toNat?; let f ← f.toNat?
    let rest ← parseEnts r
    pure ({ name := n.map (·.toNat), typ := t, ifn := f } :: rest)
  | _ => none

def bstr (b : Bool) : String := if b then "1" else "0"

def specDec (t v : List Face.Ent) : Bool := t.all fun e => v.any fun m => m.name == e.name && m.typ == e.typ

/-- drop the table markers `t:` / `v:` / `iface:` the native driver's syntax carries -/
def dropMark (l : List String) : List String :=
  match l with
  | "t:" :: r => r
  | "v:" :: r => r
  | "iface:" :: r => r
  | m :: r => if m.startsWith "v@" then r else m :: r   -- `v@chan:` …: the descriptor kind does not matter to the scans
  | l => l

def parseDesc : List String → Option Face.Desc
  | [a, b, c, d] => do pure { id := (← a.toNat?), closure := b == "1", field0 := (← c.toNat?), named := d == "1" }
  | _ => none

def handle (line : String) : String :=
  match fields line with
  | "name" :: v :: toks =>
    match cfgOf v, parseWhole toks with
    | some cfg, some t => if supported t then "ok " ++ hexOfStr (nameC cfg hashText false t) else "unsupported"
    | _, _ => "bad-op"
  | "pair" :: v :: toks =>
    let (a, b) := splitBar toks
    match cfgOf v, parseWhole a, parseWhole b with
    | some cfg, some t1, some t2 =>
      nameOut cfg t1 ++ " " ++ nameOut cfg t2 ++ " " ++ bstr (identical t1 t2) ++ " " ++ bstr (inFragment cfg t1 t2)
    | _, _, _ => "bad-op"
  | "impl" :: toks =>
    let (a, b) := splitBar toks
    match parseEnts (dropMark a) with
    | some t =>
      if b = ["none"] then bstr (Face.implScan t none) ++ " " ++ bstr (Face.newItabOk t none) ++ " " ++ bstr t.isEmpty ++ " -"
      else match parseEnts (dropMark b) with
        | some v =>
          let funs := match Face.newItabFuns t v with
            | some (f :: fs) => if f != 0 then ",".intercalate ((f :: fs).map toString) else "-"
            | _ => "-"
          bstr (Face.implScan t (some v)) ++ " " ++ bstr (Face.newItabOk t (some v)) ++ " " ++ bstr (specDec t v) ++ " " ++ funs
        | none => "bad-op"
    | none => "bad-op"
  | "find" :: toks =>
    let (a, b) := splitBar toks
    match parseEnts (dropMark a), b with
    | some v, [n, t] =>
      match unhex n, t.toNat? with
      | some n, some t =>
        -- as the native driver does: the itab of the one-method interface (valid iff found with a non-nil code pointer)
        match Face.newItabFuns [{ name := n.map (·.toNat), typ := t }] v with
        | some [f] => if f != 0 then toString f ++ " 1" else "0 0"
        | _ => "0 0"
      | _, _ => "bad-op"
    | _, _ => "bad-op"
  | "implspec" :: toks =>
    let (a, b) := splitBar toks
    match parseWhole a, parseWhole b with
    | some (.iface ms), some i => bstr (implements ms i)
    | _, _ => "bad-op"
  | "closure" :: fx :: toks =>
    let (a, b) := splitBar toks
    match parseDesc a with
    | some t =>
      if b = ["none"] then bstr (Face.matchesClosure (fx == "1") t none)
      else match parseDesc b with
        | some v => bstr (Face.matchesClosure (fx == "1") t (some v))
        | none => "bad-op"
    | none => "bad-op"
  | ["sha", h] =>
    match unhex h with
    | some bs => String.ofList (b64url (sha256 bs.toByteArray))
    | none => "bad-op"
  | _ => "bad-op"

/-! ## dynamic equality / hashing -/

namespace Dyn
open LlgoVerif.DynEq

def m1 : UInt64 := 0xa0761d6478bd642f
def m2 : UInt64 := 0xe7037ed1a0b428db
def m3 : UInt64 := 0x8ebc6af09c88c6e3
def m4 : UInt64 := 0x589965cc75374cc3
def m5 : UInt64 := 0x1d8e4e27c47d124f

/-- hash64.go `mix`: high word xor low word of the 128-bit product -/
def mix (a b : UInt64) : UInt64 :=
  let p := a.toNat * b.toNat
  UInt64.ofNat (p / 2^64) ^^^ UInt64.ofNat (p % 2^64)

/-- alg.go `readUnaligned32/64`: `be` = the value of `goarch.BigEndian` in the working tree (the native driver reports it) -/
def rd (be : Bool) (d : Array UInt8) (off n : Nat) : UInt64 := Id.run do
  let mut r : UInt64 := 0
  for i in [0:n] do
    r := r ||| ((d.getD (off + i) 0).toUInt64 <<< (8 * (if be then n - 1 - i else i)).toUInt64)
  return r

/-- hash64.go `memhash(p, seed, s)` on the `s` bytes `d` -/
def memhash (be : Bool) (hk0 : UInt64) (bs : List UInt8) (seed0 : UInt64) : UInt64 := Id.run do
  let rd := rd be
  let d := bs.toArray
  let s := d.size
  let mut seed := seed0 ^^^ hk0 ^^^ m1
  let mut a : UInt64 := 0
  let mut b : UInt64 := 0
  if s == 0 then
    return seed
  else if s < 4 then
    a := (d.getD 0 0).toUInt64 ||| ((d.getD (s >>> 1) 0).toUInt64 <<< 8) ||| ((d.getD (s - 1) 0).toUInt64 <<< 16)
  else if s == 4 then
    a := rd d 0 4
    b := a
  else if s < 8 then
    a := rd d 0 4
    b := rd d (s - 4) 4
  else if s == 8 then
    a := rd d 0 8
    b := a
  else if s ≤ 16 then
    a := rd d 0 8
    b := rd d (s - 8) 8
  else
    let mut l := s
    let mut p := 0
    if l > 48 then
      let mut seed1 := seed
      let mut seed2 := seed
      while l > 48 do
        seed := mix (rd d p 8 ^^^ m2) (rd d (p + 8) 8 ^^^ seed)
        seed1 := mix (rd d (p + 16) 8 ^^^ m3) (rd d (p + 24) 8 ^^^ seed1)
        seed2 := mix (rd d (p + 32) 8 ^^^ m4) (rd d (p + 40) 8 ^^^ seed2)
        p := p + 48
        l := l - 48
      seed := seed ^^^ seed1 ^^^ seed2
    while l > 16 do
      seed := mix (rd d p 8 ^^^ m2) (rd d (p + 8) 8 ^^^ seed)
      p := p + 16
      l := l - 16
    a := rd d (p + l - 16) 8
    b := rd d (p + l - 8) 8
  return mix (m5 ^^^ UInt64.ofNat s) (mix (a ^^^ m2) (b ^^^ seed))

def memhash32 (be : Bool) (hk0 : UInt64) (bs : List UInt8) (seed : UInt64) : UInt64 :=
  let a := rd be bs.toArray 0 4
  mix (m5 ^^^ 4) (mix (a ^^^ m2) (a ^^^ seed ^^^ hk0 ^^^ m1))

def memhash64 (be : Bool) (hk0 : UInt64) (bs : List UInt8) (seed : UInt64) : UInt64 :=
  let a := rd be bs.toArray 0 8
  mix (m5 ^^^ 8) (mix (a ^^^ m2) (a ^^^ seed ^^^ hk0 ^^^ m1))

structure St where
  bigEndian : Bool := false
  hk0 : UInt64 := 1
  script : Array UInt32 := #[]
  descs : Array (Nat × Desc) := #[]

def St.D (st : St) (id : Nat) : Desc :=
  match st.descs.find? (·.1 == id) with
  | some (_, d) => d
  | none => default

def St.H (st : St) : Hashers := ⟨memhash st.bigEndian st.hk0, memhash32 st.bigEndian st.hk0, memhash64 st.bigEndian st.hk0⟩
def St.rnd (st : St) (k : Nat) : UInt32 := st.script.getD k 0

abbrev P := StateT (List String) Option

def tok : P String := do
  match (← get) with
  | [] => failure
  | t :: r => set r; pure t

def nat : P Nat := do
  let t ← tok
  match t.toNat? with
  | some n => pure n
  | none => failure

def hexB : P (List UInt8) := do
  let t ← tok
  match unhex t with
  | some b => pure b
  | none => failure

def eqFnOf : String → Option (Option EqFn)
  | "-" => some none
  | "memequal0" => some (some .memequal0) | "memequal8" => some (some .memequal8) | "memequal16" => some (some .memequal16)
  | "memequal32" => some (some .memequal32) | "memequal64" => some (some .memequal64) | "memequal128" => some (some .memequal128)
  | "memequalptr" => some (some .memequalptr) | "f32equal" => some (some .f32equal) | "f64equal" => some (some .f64equal)
  | "c64equal" => some (some .c64equal) | "c128equal" => some (some .c128equal) | "strequal" => some (some .strequal)
  | "interequal" => some (some .interequal) | "nilinterequal" => some (some .nilinterequal)
  | "structequal" => some (some .structequal) | "arrayequal" => some (some .arrayequal)
  | _ => none

def eqFnName : Option EqFn → String
  | none => "-"
  | some .memequal0 => "memequal0" | some .memequal8 => "memequal8" | some .memequal16 => "memequal16"
  | some .memequal32 => "memequal32" | some .memequal64 => "memequal64" | some .memequal128 => "memequal128"
  | some .memequalptr => "memequalptr" | some .f32equal => "f32equal" | some .f64equal => "f64equal"
  | some .c64equal => "c64equal" | some .c128equal => "c128equal" | some .strequal => "strequal"
  | some .interequal => "interequal" | some .nilinterequal => "nilinterequal"
  | some .structequal => "structequal" | some .arrayequal => "arrayequal"

def common : P Common := do
  let size ← nat
  let reg ← tok
  let dir ← tok
  let eq ← tok
  match eqFnOf eq with
  | some e => pure ⟨size, reg == "1", dir == "1", e⟩
  | none => failure

mutual
partial def pDesc : P Desc := do
  match (← tok) with
  | "P" =>
    let c ← common
    match (← tok) with
    | "f32" => pure (.plain c .float32) | "f64" => pure (.plain c .float64) | "c64" => pure (.plain c .complex64)
    | "c128" => pure (.plain c .complex128) | "str" => pure (.plain c .string) | "other" => pure (.plain c .other)
    | _ => failure
  | "I" => do let c ← common; let n ← nat; pure (.iface c n)
  | "A" => do let c ← common; let n ← nat; let e ← pDesc; pure (.array c e n)
  | "S" => do let c ← common; let n ← nat; let fs ← pDFields n; pure (.struct c fs)
  | _ => failure
partial def pDFields : Nat → P DFields
  | 0 => pure .nil
  | n+1 => do
    let blank ← tok
    let off ← nat
    let t ← pDesc
    let r ← pDFields n
    pure (.cons (blank == "1") off t r)
end

mutual
partial def pObj : P (Obj Nat) := do
  match (← tok) with
  | "b" => do let b ← hexB; pure (.bytes b)
  | "s" => do let p ← nat; let b ← hexB; pure (.str p b)
  | "n" => do let dw ← nat; pure (.enil (UInt64.ofNat dw))
  | "e" => do
    let tw ← nat; let tid ← nat; let dw ← nat; let box ← pObj
    pure (.eface tw tid (UInt64.ofNat dw) box)
  | "q" => do
    let n ← nat
    let ps ← pParts n
    let tail ← hexB
    pure (.seq ps tail)
  | _ => failure
partial def pParts : Nat → P (Parts Nat)
  | 0 => pure .nil
  | n+1 => do
    let pre ← hexB
    let o ← pObj
    let r ← pParts n
    pure (.cons pre o r)
end

def bar : P Unit := do
  if (← tok) == "|" then pure () else failure

def basicOf : String → Option Basic
  | "bool" => some .bool | "int8" => some .int8 | "int16" => some .int16 | "int32" => some .int32 | "int64" => some .int64
  | "uint8" => some .uint8 | "uint16" => some .uint16 | "uint32" => some .uint32 | "uint64" => some .uint64
  | "int" => some .int | "uint" => some .uint | "uintptr" => some .uintptr | "float32" => some .float32
  | "float64" => some .float64 | "complex64" => some .complex64 | "complex128" => some .complex128
  | "string" => some .string | "unsafe.Pointer" => some .unsafePointer
  | _ => none

mutual
partial def pTy : P Ty := do
  match (← tok) with
  | "b" => do
    match basicOf (← tok) with
    | some b => pure (.basic b)
    | none => failure
  | "p" => do
    let k ← tok
    let tag ← nat
    match k with
    | "pointer" => pure (.ptr .pointer tag) | "chan" => pure (.ptr .chan tag)
    | "map" => pure (.ptr .map tag) | "func" => pure (.ptr .func tag)
    | _ => failure
  | "l" => do let tag ← nat; pure (.slice tag)
  | "i" => do let n ← nat; let tag ← nat; pure (.iface n tag)
  | "a" => do let n ← nat; let e ← pTy; pure (.array n e)
  | "s" => do let size ← nat; let n ← nat; let fs ← pFs n; pure (.struct size fs)
  | "n" => do let id ← nat; let u ← pTy; pure (.named id u)
  | _ => failure
partial def pFs : Nat → P Fs
  | 0 => pure .nil
  | n+1 => do
    let name ← nat
    let off ← nat
    let t ← pTy
    let r ← pFs n
    pure (.cons name off t r)
end

def run {α : Type} (p : P α) (toks : List String) : Option α :=
  match p.run toks with
  | some (a, []) => some a
  | _ => none

def commonStr (c : Common) : String :=
  toString c.size ++ " " ++ bstr c.regular ++ " " ++ bstr c.direct ++ " " ++ eqFnName c.equal

mutual
partial def descStr : Desc → String
  | .plain c k =>
    "P " ++ commonStr c ++ " " ++ (match k with
      | .float32 => "f32" | .float64 => "f64" | .complex64 => "c64" | .complex128 => "c128" | .string => "str" | .other => "other")
  | .iface c n => "I " ++ commonStr c ++ " " ++ toString n
  | .array c e n => "A " ++ commonStr c ++ " " ++ toString n ++ " " ++ descStr e
  | .struct c fs => "S " ++ commonStr c ++ " " ++ toString (dfLen fs) ++ dfStr fs
partial def dfStr : DFields → String
  | .nil => ""
  | .cons b off t r => " " ++ bstr b ++ " " ++ toString off ++ " " ++ descStr t ++ dfStr r
partial def dfLen : DFields → Nat
  | .nil => 0
  | .cons _ _ _ r => dfLen r + 1
end

def hex16 (x : UInt64) : String :=
  String.ofList ((List.range 16).map fun i => hexDigit ((x.toNat / 16 ^ (15 - i)) % 16))

def eqOut : Except Err Bool → String
  | .ok true => "1" | .ok false => "0"
  | .error .uncomparable => "panic:uncomparable" | .error .unhashable => "panic:unhashable" | .error .wild => "wild"

def hashOut (k0 : Nat) : Except Err (UInt64 × Nat) → String
  | .ok (x, k) => hex16 x ++ " " ++ toString (k - k0)
  | .error .uncomparable => "panic:uncomparable" | .error .unhashable => "panic:unhashable" | .error .wild => "wild"

def handle (st : St) (line : String) : Option (St × String) :=
  match fields line with
  | "hkey" :: a :: _ => do
    let a ← a.toNat?
    -- SetHashkey ors 1 into every word
    pure ({ st with hk0 := UInt64.ofNat a ||| 1 }, "ok")
  | ["endian", b] => some ({ st with bigEndian := b == "1" }, "ok")
  | "rnd" :: r => do
    let vs ← r.mapM String.toNat?
    pure ({ st with script := (vs.map UInt32.ofNat).toArray }, "ok")
  | "D" :: id :: toks => do
    let id ← id.toNat?
    match run pDesc toks with
    | some d => pure ({ st with descs := (st.descs.filter (·.1 != id)).push (id, d) }, "ok")
    | none => pure (st, "bad-op")
  | "eq" :: toks =>
    match run (do let p ← pObj; bar; let q ← pObj; pure (p, q)) toks with
    | some (p, q) => some (st, eqOut (efaceEqual st.D p q))
    | none => some (st, "bad-op")
  | "heq" :: id :: toks =>
    match id.toNat?, run (do let p ← pObj; bar; let q ← pObj; pure (p, q)) toks with
    | some id, some (p, q) => some (st, eqOut (equalD st.D (st.D id) p q))
    | _, _ => some (st, "bad-op")
  | "hash" :: kind :: seed :: toks =>
    match seed.toNat?, run pObj toks with
    | some seed, some o =>
      let r := if kind == "iface" then interhash st.D st.H st.rnd o (UInt64.ofNat seed) 0
               else nilinterhash st.D st.H st.rnd o (UInt64.ofNat seed) 0
      some (st, hashOut 0 r)
    | _, _ => some (st, "bad-op")
  | "thash" :: id :: seed :: toks =>
    match id.toNat?, seed.toNat?, run pObj toks with
    | some id, some seed, some o => some (st, hashOut 0 (typehash st.D st.H st.rnd (st.D id) o (UInt64.ofNat seed) 0))
    | _, _, _ => some (st, "bad-op")
  | "dynty" :: toks =>
    match run pTy toks with
    | some t => some (st, bstr (comparable t) ++ " " ++ bstr (layoutOK t) ++ " " ++ bstr (directTy t && blankDirect t) ++ " " ++ descStr (descOf t))
    | none => some (st, "bad-op")
  | _ => none

end Dyn

def main : IO Unit :=
  lineLoopSt ({} : Dyn.St) fun st line =>
    match Dyn.handle st line with
    | some r => r
    | none => (st, handle line)
