import LlgoVerif.Model.LinkName
/-!
# Lemmas for C14: link-name rendering is prefix-unambiguous

`seg_eq` is the basic tool: a maximal run of characters satisfying `p` is determined by the string.
`path_split` recovers the package path from `path ++ "." ++ rest` when the last path element has no dot.
`tyStr_inj_prefix` / `tysStr_inj_prefix`: the rendering of (covered) type arguments is a prefix code.
-/
namespace LlgoVerif.LinkName

/-! ## runs -/

theorem takeWhile_append_all {α} {p : α → Bool} :
    ∀ (a r : List α), (∀ x ∈ a, p x = true) → (a ++ r).takeWhile p = a ++ r.takeWhile p
  | [], _, _ => rfl
  | x :: a, r, h => by
    have hx : p x = true := h x (by simp)
    simp [hx, takeWhile_append_all a r (fun y hy => h y (by simp [hy]))]

/-- `r` is empty or starts with a character on which `p` fails -/
def HeadNot {α} (p : α → Bool) (r : List α) : Prop := ∀ c ∈ r.head?, p c = false

theorem takeWhile_headNot {α} {p : α → Bool} {r : List α} (h : HeadNot p r) : r.takeWhile p = [] := by
  cases r with
  | nil => rfl
  | cons c r => simp [List.takeWhile, h c (by simp)]

theorem headNot_nil {α} {p : α → Bool} : HeadNot p ([] : List α) := by simp [HeadNot]

theorem headNot_cons {α} {p : α → Bool} {c : α} {r : List α} (h : p c = false) : HeadNot p (c :: r) := by
  simp [HeadNot, h]

/-- a maximal `p`-run at the start of a string is determined by the string -/
theorem seg_eq {α} {p : α → Bool} {a a' r r' : List α}
    (ha : ∀ x ∈ a, p x = true) (ha' : ∀ x ∈ a', p x = true) (hr : HeadNot p r) (hr' : HeadNot p r')
    (h : a ++ r = a' ++ r') : a = a' ∧ r = r' := by
  have h1 := congrArg (List.takeWhile p) h
  rw [takeWhile_append_all a r ha, takeWhile_append_all a' r' ha', takeWhile_headNot hr, takeWhile_headNot hr'] at h1
  simp at h1
  subst h1
  exact ⟨rfl, List.append_cancel_left h⟩


/-! ## characters -/

theorem ident_not_brk {c : Char} : identChar c = true → brk c = false := by
  intro h
  cases hb : brk c with
  | false => rfl
  | true =>
    simp only [brk, Bool.or_eq_true, beq_iff_eq] at hb
    rcases hb with (((((h1 | h1) | h1) | h1) | h1) | h1) | h1 <;> subst h1 <;> revert h <;> decide

theorem ident_ne {c d : Char} (hd : identChar d = false) : identChar c = true → c ≠ d := by
  intro h e; subst e; rw [h] at hd; cases hd

theorem path_not_brk {c : Char} : pathChar c = true → brk c = false := by
  intro h
  cases hb : brk c with
  | false => rfl
  | true =>
    simp only [brk, Bool.or_eq_true, beq_iff_eq] at hb
    rcases hb with (((((h1 | h1) | h1) | h1) | h1) | h1) | h1 <;> subst h1 <;> revert h <;> decide

theorem digit_ident {c : Char} (h : c.isDigit = true) : identChar c = true := by
  simp [identChar, Char.isAlphanum, h]

theorem natStr_digits (n : Nat) : ∀ c ∈ natStr n, c.isDigit = true :=
  fun _ hc => Nat.isDigit_of_mem_toDigits (by decide) (by decide) hc

theorem natStr_ident (n : Nat) : ∀ c ∈ natStr n, identChar c = true :=
  fun c hc => digit_ident (natStr_digits n c hc)

theorem natStr_ne_nil (n : Nat) : natStr n ≠ [] := Nat.toDigits_ne_nil

theorem natStr_inj {a b : Nat} (h : natStr a = natStr b) : a = b := by
  have := congrArg (fun l => Nat.ofDigitChars 10 l 0) h
  simpa [natStr, Nat.ofDigitChars_ten_toDigits] using this


/-! ## recovering the package path -/

/-- not a break character -/
def nb (c : Char) : Bool := !brk c

theorem lastElem_append_dot (P X : Str) (hX : ∀ c ∈ X, (c != '/') = true) :
    lastElem (P ++ '.' :: X) = lastElem P ++ '.' :: X := by
  unfold lastElem
  have h1 : (P ++ '.' :: X).reverse = (X.reverse ++ ['.']) ++ P.reverse := by simp
  rw [h1, takeWhile_append_all]
  · simp
  · intro c hc
    simp only [List.mem_append, List.mem_reverse, List.mem_singleton] at hc
    rcases hc with hc | hc
    · exact hX c hc
    · subst hc; decide

/-- **Path recovery.** If the last path element has no dot (and the path no break character), the string
    `path ++ "." ++ rest` determines `path` — provided `rest` has no `/` before its first break character
    (identifier, `$n` suffixes and scope indices qualify; a bracket starts the type arguments). -/
theorem path_split {P P' R R' : Str}
    (hP : ∀ c ∈ P, brk c = false) (hP' : ∀ c ∈ P', brk c = false)
    (hd : ∀ c ∈ lastElem P, (c != '.') = true) (hd' : ∀ c ∈ lastElem P', (c != '.') = true)
    (hR : ∀ c ∈ R.takeWhile nb, (c != '/') = true) (hR' : ∀ c ∈ R'.takeWhile nb, (c != '/') = true)
    (h : P ++ '.' :: R = P' ++ '.' :: R') : P = P' ∧ R = R' := by
  have hnb : ∀ Q : Str, (∀ c ∈ Q, brk c = false) → ∀ c ∈ Q ++ ['.'], nb c = true := by
    intro Q hQ c hc
    simp only [List.mem_append, List.mem_singleton] at hc
    rcases hc with hc | hc
    · simp [nb, hQ c hc]
    · subst hc; decide
  have h1 := congrArg (List.takeWhile nb) h
  have e1 : P ++ '.' :: R = (P ++ ['.']) ++ R := by simp
  have e2 : P' ++ '.' :: R' = (P' ++ ['.']) ++ R' := by simp
  rw [e1, e2, takeWhile_append_all _ _ (hnb P hP), takeWhile_append_all _ _ (hnb P' hP')] at h1
  simp only [List.append_assoc, List.singleton_append] at h1
  have h2 := congrArg lastElem h1
  rw [lastElem_append_dot _ _ hR, lastElem_append_dot _ _ hR'] at h2
  have h3 := seg_eq (p := fun c => c != '.') hd hd' (headNot_cons (by decide)) (headNot_cons (by decide)) h2
  have hX : R.takeWhile nb = R'.takeWhile nb := by simpa using h3.2
  rw [hX] at h1
  have h4 : P ++ ['.'] = P' ++ ['.'] := by
    apply List.append_cancel_right (bs := List.takeWhile nb R')
    simpa using h1
  have hPP : P = P' := List.append_cancel_right h4
  subst hPP
  exact ⟨rfl, by simpa using h⟩


/-! ## side conditions, unpacked -/

theorem identOK_iff {s : Str} : identOK s = true ↔ s ≠ [] ∧ ∀ c ∈ s, identChar c = true := by
  cases s <;> simp [identOK]

theorem pathOK_unpack {p : Str} (h : pathOK p = true) :
    p ≠ [] ∧ (∀ c ∈ p, pathChar c = true) ∧ pathOf p = p ∧ (∀ c ∈ lastElem p, (c != '.') = true) := by
  simp only [pathOK, pathValid, noDotInLastPathElem, Bool.and_eq_true, Bool.not_eq_true'] at h
  obtain ⟨⟨⟨h1, h2⟩, h3⟩, h4⟩ := h
  refine ⟨?_, ?_, ?_, ?_⟩
  · intro e; subst e; simp at h1
  · simpa using h2
  · simp [pathOf, trimPrefix, h3]
  · intro c hc
    have : c ≠ '.' := by
      intro e; subst e
      have := List.contains_iff_mem.mpr hc
      rw [h4] at this; cases this
    simpa using this

/-- what may follow a type argument: nothing, a comma, or the closing bracket -/
def StopB : Str → Bool
  | [] => true
  | c :: _ => c == ',' || c == ']'

theorem stop_headNot_ident {r : Str} (h : StopB r = true) : HeadNot identChar r := by
  cases r with
  | nil => exact headNot_nil
  | cons c r =>
    simp only [StopB, Bool.or_eq_true, beq_iff_eq] at h
    rcases h with h | h <;> subst h <;> exact headNot_cons (by decide)

theorem stop_headNot_nb {r : Str} (h : StopB r = true) : HeadNot nb r := by
  cases r with
  | nil => exact headNot_nil
  | cons c r =>
    simp only [StopB, Bool.or_eq_true, beq_iff_eq] at h
    rcases h with h | h <;> subst h <;> exact headNot_cons (by decide)

/-! ## scope indices and closure-nesting suffixes -/

theorem scopeStr_inj_prefix : ∀ (s₁ s₂ : List Nat) (r₁ r₂ : Str), StopB r₁ = true → StopB r₂ = true →
    scopeStr s₁ ++ r₁ = scopeStr s₂ ++ r₂ → s₁ = s₂ ∧ r₁ = r₂
  | [], [], _, _, _, _, h => ⟨rfl, by simpa [scopeStr] using h⟩
  | [], j :: s₂, r₁, r₂, h₁, _, h => by
    simp only [scopeStr, List.nil_append, List.cons_append] at h
    subst h; simp [StopB] at h₁
  | i :: s₁, [], r₁, r₂, _, h₂, h => by
    simp only [scopeStr, List.nil_append, List.cons_append] at h
    subst h; simp [StopB] at h₂
  | i :: s₁, j :: s₂, r₁, r₂, h₁, h₂, h => by
    simp only [scopeStr, List.cons_append, List.append_assoc, List.cons.injEq, true_and] at h
    have hn : ∀ (s : List Nat) (r : Str), StopB r = true → HeadNot identChar (scopeStr s ++ r) := by
      intro s r hr
      cases s with
      | nil => simpa [scopeStr] using stop_headNot_ident hr
      | cons k s => exact headNot_cons (by decide)
    have := seg_eq (natStr_ident i) (natStr_ident j) (hn s₁ r₁ h₁) (hn s₂ r₂ h₂) h
    have ij := natStr_inj this.1
    have := scopeStr_inj_prefix s₁ s₂ r₁ r₂ h₁ h₂ this.2
    exact ⟨by rw [ij, this.1], this.2⟩


/-! ## the rendering of type arguments is a prefix code -/

/-- which constructor a rendered type argument starts with, read off the string -/
def tagOf (s : Str) : Nat :=
  if s.head? = some '*' then 0
  else if s.head? = some '[' then (if (s.drop 1).head? = some ']' then 1 else 2)
  else if (s.takeWhile nb).contains '.' then 4
  else if s.takeWhile nb = ['m', 'a', 'p'] ∧ (s.drop 3).head? = some '[' then 3 else 5

def Ty.tag : Ty → Nat
  | .ptr _ => 0 | .slice _ => 1 | .array _ _ => 2 | .map _ _ => 3 | .named .. => 4 | .basic _ => 5
  | .chan .. => 6 | .other _ => 7

theorem takeWhile_nb_ident (n r : Str) (hn : ∀ c ∈ n, identChar c = true) (hr : StopB r = true) :
    (n ++ r).takeWhile nb = n := by
  rw [takeWhile_append_all _ _ (fun c hc => by simp [nb, ident_not_brk (hn c hc)]),
    takeWhile_headNot (stop_headNot_nb hr)]
  simp

theorem tagOf_of (s w : Str) (hw : s.takeWhile nb = w) : tagOf s =
    if s.head? = some '*' then 0
    else if s.head? = some '[' then (if (s.drop 1).head? = some ']' then 1 else 2)
    else if w.contains '.' then 4
    else if w = ['m', 'a', 'p'] ∧ (s.drop 3).head? = some '[' then 3 else 5 := by
  subst hw; rfl

theorem tag_correct (t : Ty) (r : Str) (ht : t.ok pathOK = true) (hr : StopB r = true) :
    tagOf (tyStr t ++ r) = t.tag := by
  cases t with
  | ptr e => simp [tyStr, tagOf, Ty.tag]
  | slice e => simp [tyStr, tagOf, Ty.tag]
  | array n e =>
    have : ∃ d ds, natStr n = d :: ds ∧ d ≠ ']' := by
      cases hn : natStr n with
      | nil => exact absurd hn (natStr_ne_nil n)
      | cons d ds =>
        refine ⟨d, ds, rfl, ?_⟩
        have := natStr_digits n d (by simp [hn])
        intro e; subst e; revert this; decide
    obtain ⟨d, ds, hn, hd⟩ := this
    simp [tyStr, tagOf, Ty.tag, hn, hd]
  | map k v =>
    have h1 : ∀ X : Str, List.takeWhile nb ('m' :: 'a' :: 'p' :: '[' :: X) = ['m', 'a', 'p'] := by
      intro X; simp [List.takeWhile, nb, brk]
    simp only [tyStr, Ty.tag, List.cons_append]
    rw [tagOf_of _ _ (h1 _)]
    simp
  | named p n ta sc =>
    simp only [Ty.ok, Bool.and_eq_true] at ht
    obtain ⟨⟨hp, hn⟩, _⟩ := ht
    obtain ⟨hp0, hpc, hpo, _⟩ := pathOK_unpack hp
    simp only [tyStr, hpo]
    cases p with
    | nil => exact absurd rfl hp0
    | cons c p =>
      have hc := hpc c (by simp)
      have c1 : c ≠ '*' := by intro e; subst e; revert hc; decide
      have c2 : c ≠ '[' := by intro e; subst e; revert hc; decide
      have hall : ∀ x ∈ (c :: p) ++ ['.'], nb x = true := by
        intro x hx
        simp only [List.mem_append, List.mem_singleton] at hx
        rcases hx with hx | hx
        · simp [nb, path_not_brk (hpc x hx)]
        · subst hx; decide
      have hdot : ((c :: p ++ '.' :: (n ++ (if ta.isEmpty = true then [] else '[' :: tysStr ta ++ [']']) ++ scopeStr sc) ++ r).takeWhile nb).contains '.' = true := by
        have e : c :: p ++ '.' :: (n ++ (if ta.isEmpty = true then [] else '[' :: tysStr ta ++ [']']) ++ scopeStr sc) ++ r
            = ((c :: p) ++ ['.']) ++ ((n ++ (if ta.isEmpty = true then [] else '[' :: tysStr ta ++ [']']) ++ scopeStr sc) ++ r) := by simp
        rw [e, takeWhile_append_all _ _ hall]
        simp
      simp only [Ty.tag]
      rw [tagOf_of _ _ rfl, hdot]
      simp [c1, c2]
  | basic n =>
    simp only [Ty.ok] at ht
    obtain ⟨hn0, hnc⟩ := identOK_iff.mp ht
    simp only [tyStr, Ty.tag]
    rw [tagOf_of _ _ (takeWhile_nb_ident n r hnc hr)]
    cases n with
    | nil => exact absurd rfl hn0
    | cons c n =>
      have hc := hnc c (by simp)
      have c1 : c ≠ '*' := by intro e; subst e; revert hc; decide
      have c2 : c ≠ '[' := by intro e; subst e; revert hc; decide
      have hd : (c :: n).contains '.' = false := by
        cases hcon : (c :: n).contains '.' with
        | false => rfl
        | true =>
          have := hnc '.' (List.contains_iff_mem.mp hcon)
          revert this; decide
      rw [hd]
      simp only [List.cons_append, List.head?_cons, Option.some.injEq, c1, c2, if_false, Bool.false_eq_true]
      have hm : ¬ (c :: n = ['m', 'a', 'p'] ∧ ((c :: n ++ r).drop 3).head? = some '[') := by
        rintro ⟨e, h3⟩
        rw [e] at h3
        simp only [List.cons_append, List.nil_append, List.drop_succ_cons, List.drop_zero] at h3
        cases r with
        | nil => simp at h3
        | cons x r =>
          simp only [List.head?_cons, Option.some.injEq] at h3
          subst h3; simp [StopB] at hr
      exact if_neg hm
  | chan d e => simp [Ty.ok] at ht
  | other s => simp [Ty.ok] at ht


theorem scopeStr_chars (sc : List Nat) : ∀ c ∈ scopeStr sc, identChar c = true ∨ c = '.' := by
  induction sc with
  | nil => simp [scopeStr]
  | cons i sc ih =>
    intro c hc
    simp only [scopeStr, List.mem_cons, List.mem_append] at hc
    rcases hc with (hc | hc) | hc
    · exact Or.inr hc
    · exact Or.inl (natStr_ident i c hc)
    · exact ih c hc

/-- the bracketed type-argument list of a named type, or nothing -/
def targsPart (ta : Tys) : Str := if ta.isEmpty then [] else '[' :: tysStr ta ++ [']']

theorem named_rest_noslash (n : Str) (ta : Tys) (sc : List Nat) (r : Str)
    (hn : ∀ c ∈ n, identChar c = true) (hr : StopB r = true) :
    ∀ c ∈ (n ++ targsPart ta ++ scopeStr sc ++ r).takeWhile nb, (c != '/') = true := by
  have key : ∀ (A B : Str), (∀ c ∈ A, identChar c = true ∨ c = '.') → HeadNot nb B →
      ∀ c ∈ (A ++ B).takeWhile nb, (c != '/') = true := by
    intro A B hA hB c hc
    rw [takeWhile_append_all _ _ (fun x hx => by
      rcases hA x hx with h | h
      · simp [nb, ident_not_brk h]
      · subst h; decide), takeWhile_headNot hB] at hc
    simp only [List.append_nil] at hc
    rcases hA c hc with h | h
    · have : c ≠ '/' := ident_ne (by decide) h
      simpa using this
    · subst h; decide
  unfold targsPart
  split
  · intro c hc
    have e : n ++ [] ++ scopeStr sc ++ r = (n ++ scopeStr sc) ++ r := by simp
    rw [e] at hc
    refine key _ _ ?_ (stop_headNot_nb hr) c hc
    intro x hx
    simp only [List.mem_append] at hx
    rcases hx with hx | hx
    · exact Or.inl (hn x hx)
    · exact scopeStr_chars sc x hx
  · intro c hc
    have e : n ++ ('[' :: tysStr ta ++ [']']) ++ scopeStr sc ++ r = n ++ ('[' :: (tysStr ta ++ [']'] ++ scopeStr sc ++ r)) := by simp
    rw [e] at hc
    exact key _ _ (fun x hx => Or.inl (hn x hx)) (headNot_cons (by decide)) c hc

theorem tyStr_named (p n : Str) (ta : Tys) (sc : List Nat) :
    tyStr (.named p n ta sc) = pathOf p ++ '.' :: (n ++ targsPart ta ++ scopeStr sc) := by
  simp [tyStr, targsPart]

/-- the `named` case of the prefix-code theorem, given the statement for its type-argument list -/
theorem named_inj_of_ih {p₁ n₁ : Str} {ta₁ : Tys} {s₁ : List Nat} {p₂ n₂ : Str} {ta₂ : Tys} {s₂ : List Nat} {r₁ r₂ : Str}
    (ih : ∀ (x₁ x₂ : Str), ta₂.ok pathOK = true → ta₁.isEmpty = false → ta₂.isEmpty = false →
      tysStr ta₁ ++ ']' :: x₁ = tysStr ta₂ ++ ']' :: x₂ → ta₁ = ta₂ ∧ x₁ = x₂)
    (h₁ : (Ty.named p₁ n₁ ta₁ s₁).ok pathOK = true) (h₂ : (Ty.named p₂ n₂ ta₂ s₂).ok pathOK = true)
    (hr₁ : StopB r₁ = true) (hr₂ : StopB r₂ = true)
    (h : tyStr (.named p₁ n₁ ta₁ s₁) ++ r₁ = tyStr (.named p₂ n₂ ta₂ s₂) ++ r₂) :
    Ty.named p₁ n₁ ta₁ s₁ = .named p₂ n₂ ta₂ s₂ ∧ r₁ = r₂ := by
  simp only [Ty.ok, Bool.and_eq_true] at h₁ h₂
  obtain ⟨⟨hp₁, hn₁⟩, hta₁⟩ := h₁
  obtain ⟨⟨hp₂, hn₂⟩, hta₂⟩ := h₂
  obtain ⟨_, hpc₁, hpo₁, hpd₁⟩ := pathOK_unpack hp₁
  obtain ⟨_, hpc₂, hpo₂, hpd₂⟩ := pathOK_unpack hp₂
  obtain ⟨_, hnc₁⟩ := identOK_iff.mp hn₁
  obtain ⟨_, hnc₂⟩ := identOK_iff.mp hn₂
  rw [tyStr_named, tyStr_named, hpo₁, hpo₂] at h
  have e : ∀ (p n : Str) (ta : Tys) (sc : List Nat) (r : Str),
      p ++ '.' :: (n ++ targsPart ta ++ scopeStr sc) ++ r = p ++ '.' :: (n ++ targsPart ta ++ scopeStr sc ++ r) := by
    intros; simp
  rw [e, e] at h
  obtain ⟨hp, hR⟩ := path_split (fun c hc => path_not_brk (hpc₁ c hc)) (fun c hc => path_not_brk (hpc₂ c hc)) hpd₁ hpd₂
    (named_rest_noslash n₁ ta₁ s₁ r₁ hnc₁ hr₁) (named_rest_noslash n₂ ta₂ s₂ r₂ hnc₂ hr₂) h
  subst hp
  -- the object name
  have hrest : ∀ (ta : Tys) (sc : List Nat) (r : Str), StopB r = true → HeadNot identChar (targsPart ta ++ scopeStr sc ++ r) := by
    intro ta sc r hr
    unfold targsPart
    split
    · cases sc with
      | nil => simpa [scopeStr] using stop_headNot_ident hr
      | cons k sc => exact headNot_cons (by decide)
    · exact headNot_cons (by decide)
  have e2 : ∀ (n : Str) (ta : Tys) (sc : List Nat) (r : Str),
      n ++ targsPart ta ++ scopeStr sc ++ r = n ++ (targsPart ta ++ scopeStr sc ++ r) := by intros; simp
  rw [e2, e2] at hR
  obtain ⟨hn, hT⟩ := seg_eq hnc₁ hnc₂ (hrest ta₁ s₁ r₁ hr₁) (hrest ta₂ s₂ r₂ hr₂) hR
  subst hn
  -- type arguments present or not: decided by the next character
  have hsc : ∀ (sc : List Nat) (r : Str), StopB r = true → ∀ X, scopeStr sc ++ r ≠ '[' :: X := by
    intro sc r hr X
    cases sc with
    | nil =>
      cases r with
      | nil => simp [scopeStr]
      | cons c r =>
        simp only [StopB, Bool.or_eq_true, beq_iff_eq] at hr
        rcases hr with hr | hr <;> subst hr <;> simp [scopeStr]
    | cons k sc => simp [scopeStr]
  unfold targsPart at hT
  cases he₁ : ta₁.isEmpty <;> cases he₂ : ta₂.isEmpty <;> simp only [he₁, he₂, if_true, if_false, Bool.false_eq_true] at hT
  · -- both instantiated
    simp only [List.cons_append, List.append_assoc, List.cons.injEq, true_and, List.nil_append] at hT
    obtain ⟨hta, hx⟩ := ih _ _ hta₂ he₁ he₂ hT
    subst hta
    obtain ⟨hs, hr⟩ := scopeStr_inj_prefix s₁ s₂ r₁ r₂ hr₁ hr₂ hx
    subst hs; subst hr
    exact ⟨rfl, rfl⟩
  · exact absurd hT.symm (by simpa using hsc s₂ r₂ hr₂ _)
  · exact absurd hT (by simpa using hsc s₁ r₁ hr₁ _)
  · simp only [List.nil_append] at hT
    obtain ⟨hs, hr⟩ := scopeStr_inj_prefix s₁ s₂ r₁ r₂ hr₁ hr₂ hT
    subst hs; subst hr
    cases ta₁ <;> cases ta₂ <;> simp [Tys.isEmpty] at he₁ he₂
    exact ⟨rfl, rfl⟩


theorem stop_of_comma (x : Str) : StopB (',' :: x) = true := rfl
theorem stop_of_close (x : Str) : StopB (']' :: x) = true := rfl

mutual
/-- **Prefix code.** A covered type argument, rendered and followed by `,`/`]`/nothing, can be read back uniquely. -/
theorem tyStr_inj_prefix : ∀ (t₁ t₂ : Ty) (r₁ r₂ : Str), t₁.ok pathOK = true → t₂.ok pathOK = true →
    StopB r₁ = true → StopB r₂ = true → tyStr t₁ ++ r₁ = tyStr t₂ ++ r₂ → t₁ = t₂ ∧ r₁ = r₂
  | .basic n₁, t₂, r₁, r₂, h₁, h₂, hr₁, hr₂, h => by
    have ht := congrArg tagOf h
    rw [tag_correct _ _ h₁ hr₁, tag_correct _ _ h₂ hr₂] at ht
    cases t₂ <;> simp [Ty.tag] at ht
    rename_i n₂
    simp only [Ty.ok] at h₁ h₂
    simp only [tyStr] at h
    obtain ⟨e, er⟩ := seg_eq (identOK_iff.mp h₁).2 (identOK_iff.mp h₂).2 (stop_headNot_ident hr₁) (stop_headNot_ident hr₂) h
    subst e; exact ⟨rfl, er⟩
  | .named p₁ n₁ ta₁ s₁, t₂, r₁, r₂, h₁, h₂, hr₁, hr₂, h => by
    have ht := congrArg tagOf h
    rw [tag_correct _ _ h₁ hr₁, tag_correct _ _ h₂ hr₂] at ht
    cases t₂ <;> simp [Ty.tag] at ht
    rename_i p₂ n₂ ta₂ s₂
    exact named_inj_of_ih (fun x₁ x₂ hok he₁ he₂ hx =>
      tysStr_inj_prefix ta₁ ta₂ x₁ x₂ (by simp only [Ty.ok, Bool.and_eq_true] at h₁; exact h₁.2) hok he₁ he₂ hx) h₁ h₂ hr₁ hr₂ h
  | .ptr e₁, t₂, r₁, r₂, h₁, h₂, hr₁, hr₂, h => by
    have ht := congrArg tagOf h
    rw [tag_correct _ _ h₁ hr₁, tag_correct _ _ h₂ hr₂] at ht
    cases t₂ <;> simp [Ty.tag] at ht
    rename_i e₂
    simp only [Ty.ok] at h₁ h₂
    simp only [tyStr, List.cons_append, List.cons.injEq, true_and] at h
    obtain ⟨e, er⟩ := tyStr_inj_prefix e₁ e₂ r₁ r₂ h₁ h₂ hr₁ hr₂ h
    subst e; exact ⟨rfl, er⟩
  | .slice e₁, t₂, r₁, r₂, h₁, h₂, hr₁, hr₂, h => by
    have ht := congrArg tagOf h
    rw [tag_correct _ _ h₁ hr₁, tag_correct _ _ h₂ hr₂] at ht
    cases t₂ <;> simp [Ty.tag] at ht
    rename_i e₂
    simp only [Ty.ok] at h₁ h₂
    simp only [tyStr, List.cons_append, List.cons.injEq, true_and] at h
    obtain ⟨e, er⟩ := tyStr_inj_prefix e₁ e₂ r₁ r₂ h₁ h₂ hr₁ hr₂ h
    subst e; exact ⟨rfl, er⟩
  | .array k₁ e₁, t₂, r₁, r₂, h₁, h₂, hr₁, hr₂, h => by
    have ht := congrArg tagOf h
    rw [tag_correct _ _ h₁ hr₁, tag_correct _ _ h₂ hr₂] at ht
    cases t₂ <;> simp [Ty.tag] at ht
    rename_i k₂ e₂
    simp only [Ty.ok] at h₁ h₂
    simp only [tyStr, List.cons_append, List.cons.injEq, true_and, List.append_assoc] at h
    obtain ⟨ek, ex⟩ := seg_eq (natStr_ident k₁) (natStr_ident k₂) (headNot_cons (by decide)) (headNot_cons (by decide)) h
    have ek := natStr_inj ek
    subst ek
    simp only [List.cons.injEq, true_and] at ex
    obtain ⟨e, er⟩ := tyStr_inj_prefix e₁ e₂ r₁ r₂ h₁ h₂ hr₁ hr₂ ex
    subst e; exact ⟨rfl, er⟩
  | .map k₁ v₁, t₂, r₁, r₂, h₁, h₂, hr₁, hr₂, h => by
    have ht := congrArg tagOf h
    rw [tag_correct _ _ h₁ hr₁, tag_correct _ _ h₂ hr₂] at ht
    cases t₂ <;> simp [Ty.tag] at ht
    rename_i k₂ v₂
    simp only [Ty.ok, Bool.and_eq_true] at h₁ h₂
    simp only [tyStr, List.cons_append, List.cons.injEq, true_and, List.append_assoc] at h
    obtain ⟨ek, ex⟩ := tyStr_inj_prefix k₁ k₂ _ _ h₁.1 h₂.1 (stop_of_close _) (stop_of_close _) h
    subst ek
    simp only [List.cons.injEq, true_and] at ex
    obtain ⟨ev, er⟩ := tyStr_inj_prefix v₁ v₂ r₁ r₂ h₁.2 h₂.2 hr₁ hr₂ ex
    subst ev; exact ⟨rfl, er⟩
  | .chan _ _, _, _, _, h₁, _, _, _, _ => by simp [Ty.ok] at h₁
  | .other _, _, _, _, h₁, _, _, _, _ => by simp [Ty.ok] at h₁
/-- the same for a non-empty comma-separated list followed by the closing bracket -/
theorem tysStr_inj_prefix : ∀ (ts₁ ts₂ : Tys) (x₁ x₂ : Str), ts₁.ok pathOK = true → ts₂.ok pathOK = true →
    ts₁.isEmpty = false → ts₂.isEmpty = false →
    tysStr ts₁ ++ ']' :: x₁ = tysStr ts₂ ++ ']' :: x₂ → ts₁ = ts₂ ∧ x₁ = x₂
  | .nil, _, _, _, _, _, he, _, _ => by simp [Tys.isEmpty] at he
  | .cons _ _, .nil, _, _, _, _, _, he, _ => by simp [Tys.isEmpty] at he
  | .cons t₁ .nil, .cons t₂ .nil, x₁, x₂, h₁, h₂, _, _, h => by
    simp only [Tys.ok, Bool.and_eq_true] at h₁ h₂
    simp only [tysStr] at h
    obtain ⟨e, er⟩ := tyStr_inj_prefix t₁ t₂ _ _ h₁.1 h₂.1 (stop_of_close _) (stop_of_close _) h
    subst e
    simp only [List.cons.injEq, true_and] at er
    exact ⟨rfl, er⟩
  | .cons t₁ .nil, .cons t₂ (.cons u₂ w₂), x₁, x₂, h₁, h₂, _, _, h => by
    simp only [Tys.ok, Bool.and_eq_true] at h₁ h₂
    simp only [tysStr, List.append_assoc, List.cons_append] at h
    obtain ⟨_, er⟩ := tyStr_inj_prefix t₁ t₂ _ _ h₁.1 h₂.1 (stop_of_close _) (stop_of_comma _) h
    simp at er
  | .cons t₁ (.cons u₁ w₁), .cons t₂ .nil, x₁, x₂, h₁, h₂, _, _, h => by
    simp only [Tys.ok, Bool.and_eq_true] at h₁ h₂
    simp only [tysStr, List.append_assoc, List.cons_append] at h
    obtain ⟨_, er⟩ := tyStr_inj_prefix t₁ t₂ _ _ h₁.1 h₂.1 (stop_of_comma _) (stop_of_close _) h
    simp at er
  | .cons t₁ (.cons u₁ w₁), .cons t₂ (.cons u₂ w₂), x₁, x₂, h₁, h₂, _, _, h => by
    simp only [Tys.ok, Bool.and_eq_true] at h₁ h₂
    simp only [tysStr, List.append_assoc, List.cons_append] at h
    obtain ⟨e, er⟩ := tyStr_inj_prefix t₁ t₂ _ _ h₁.1 h₂.1 (stop_of_comma _) (stop_of_comma _) h
    subst e
    simp only [List.cons.injEq, true_and] at er
    obtain ⟨e2, er2⟩ := tysStr_inj_prefix (.cons u₁ w₁) (.cons u₂ w₂) x₁ x₂ (by simp only [Tys.ok, Bool.and_eq_true]; exact h₁.2)
      (by simp only [Tys.ok, Bool.and_eq_true]; exact h₂.2) rfl rfl er
    rw [e2]; exact ⟨rfl, er2⟩
end


/-! ## entities in normal form -/

/-- the data a function-like entity's name is made of: declaring package, receiver, declared name, closure indices
    (outermost first), go/ssa type arguments -/
structure Flat where
  pkg : Str
  recv : Option Recv
  base : Str
  nest : List Nat
  targs : Option Tys

def nestStr : List Nat → Str
  | [] => []
  | i :: r => '$' :: natStr i ++ nestStr r

def recvStr : Option Recv → Str
  | none => []
  | some r =>
    if r.ptr then '(' :: '*' :: (r.name ++ targsPart r.targs ++ ')' :: '.' :: [])
    else r.name ++ targsPart r.targs ++ '.' :: []

/-- type-argument suffix: every instance except the method itself -/
def Flat.sfx (f : Flat) : Str :=
  match f.targs with
  | some ta => if f.nest.isEmpty && f.recv.isSome then [] else typeArgs ta
  | none => []

def Flat.rest (f : Flat) : Str := recvStr f.recv ++ (f.base ++ (nestStr f.nest ++ f.sfx))

def Flat.render (f : Flat) : Str := pathOf f.pkg ++ '.' :: f.rest

def Entity.flat : Entity → Flat
  | .func p n => ⟨p, none, n, [], none⟩
  | .method p r ta ptr n => ⟨p, some ⟨p, r, ta, ptr⟩, n, [], if ta.isEmpty then none else some ta⟩
  | .closure q i => { q.flat with nest := q.flat.nest ++ [i] }
  | .instance b ta => { b.flat with targs := some ta }
  | .global p n => ⟨p, none, n, [], none⟩
  | _ => ⟨[], none, [], [], none⟩

theorem nestStr_append (l : List Nat) (i : Nat) : nestStr (l ++ [i]) = nestStr l ++ '$' :: natStr i := by
  induction l with
  | nil => simp [nestStr]
  | cons j l ih => simp [nestStr, ih]

/-- function-like entities covered by the theorem -/
def Entity.fnLike : Entity → Bool
  | .func .. | .method .. | .closure .. | .instance .. => true
  | _ => false

theorem ok_closure {q : Entity} {i : Nat} (h : (Entity.closure q i).ok pathOK = true) : q.fnLike = true ∧ q.ok pathOK = true := by
  cases q <;> simp_all [Entity.ok, Entity.fnLike]

theorem ok_instance {b : Entity} {ta : Tys} (h : (Entity.instance b ta).ok pathOK = true) :
    (∃ p n, b = .func p n) ∧ b.ok pathOK = true ∧ ta.isEmpty = false ∧ ta.ok pathOK = true := by
  cases b <;> simp_all [Entity.ok]

theorem flat_facts : ∀ (e : Entity), e.ok pathOK = true → e.fnLike = true →
    e.flat.pkg = e.pkg ∧ e.flat.recv = e.recv ∧ e.baseName = e.flat.base ++ nestStr e.flat.nest ∧
    e.instArgs = e.flat.targs ∧ e.isMethod = (e.flat.nest.isEmpty && e.flat.recv.isSome)
  | .func p n, _, _ => by simp [Entity.flat, Entity.pkg, Entity.recv, Entity.baseName, Entity.instArgs, Entity.isMethod, nestStr]
  | .method p r ta ptr n, _, _ => by
    simp [Entity.flat, Entity.pkg, Entity.recv, Entity.baseName, Entity.instArgs, Entity.isMethod, nestStr]
  | .closure q i, h, _ => by
    obtain ⟨hq1, hq2⟩ := ok_closure h
    obtain ⟨a, b, c, d, _⟩ := flat_facts q hq2 hq1
    simp [Entity.flat, Entity.pkg, Entity.recv, Entity.baseName, Entity.instArgs, Entity.isMethod, nestStr_append, a, b, c, d]
  | .instance b ta, h, _ => by
    obtain ⟨⟨p, n, hb⟩, _, _, _⟩ := ok_instance h
    subst hb
    simp [Entity.flat, Entity.pkg, Entity.recv, Entity.baseName, Entity.instArgs, Entity.isMethod, nestStr]
  | .global .., _, h | .bound _, _, h | .thunk _, _, h | .wrapper _, _, h | .stub _, _, h | .routine .., _, h => by
    simp [Entity.fnLike] at h

theorem funcNameStr_eq (p name : Str) (rc : Option Recv) :
    funcNameStr p name rc false = pathOf p ++ '.' :: (recvStr rc ++ name) := by
  cases rc with
  | none => simp [funcNameStr, recvStr]
  | some r =>
    cases hp : r.ptr <;> simp [funcNameStr, recvStr, namedName, targsPart, hp] <;> split <;> simp

/-- the name of a covered entity, seen from its own package, is the rendering of its normal form -/
theorem linkName_eq_render (e : Entity) (h : e.ok pathOK = true) : linkName e = e.flat.render := by
  by_cases hf : e.fnLike = true
  · obtain ⟨a, b, c, d, m⟩ := flat_facts e h hf
    have : linkName e = declName e.pkg e := by
      cases e with
      | func p n => rfl
      | method p r ta ptr n => rfl
      | closure q i => rfl
      | «instance» b ta => rfl
      | _ => simp [Entity.fnLike] at hf
    rw [this]
    simp only [declName, funcNameStr_eq, Flat.render, Flat.rest, Flat.sfx, a, b, c, d, m]
    cases e.flat.targs with
    | none => simp
    | some ta => simp only []; split <;> simp_all
  · cases e with
    | global p n =>
      show pathOf p ++ '.' :: n = _
      simp [Entity.flat, Flat.render, Flat.rest, Flat.sfx, recvStr, nestStr]
    | func p n => exact absurd rfl hf
    | method p r ta ptr n => exact absurd rfl hf
    | closure q i => exact absurd rfl hf
    | «instance» b ta => exact absurd rfl hf
    | bound m => cases h
    | thunk m => cases h
    | wrapper m => cases h
    | stub m => cases h
    | routine p n => cases h

/-- well-formedness of a normal form (what `Entity.ok` gives) -/
structure FlatOK (f : Flat) : Prop where
  path : pathOK f.pkg = true
  base : identOK f.base = true
  recv : ∀ r, f.recv = some r → identOK r.name = true ∧ r.targs.ok pathOK = true ∧ r.pkg = f.pkg ∧
    f.targs = (if r.targs.isEmpty then none else some r.targs)
  targs : ∀ ta, f.targs = some ta → ta.ok pathOK = true ∧ ta.isEmpty = false

theorem flatOK_of_ok : ∀ (e : Entity), e.ok pathOK = true → FlatOK e.flat
  | .func p n, h => by
    simp only [Entity.ok, Bool.and_eq_true] at h
    exact ⟨h.1, h.2, by simp [Entity.flat], by simp [Entity.flat]⟩
  | .global p n, h => by
    simp only [Entity.ok, Bool.and_eq_true] at h
    exact ⟨h.1, h.2, by simp [Entity.flat], by simp [Entity.flat]⟩
  | .method p r ta ptr n, h => by
    simp only [Entity.ok, Bool.and_eq_true] at h
    obtain ⟨⟨⟨h1, h2⟩, h3⟩, h4⟩ := h
    refine ⟨h1, h4, ?_, ?_⟩
    · intro r' hr
      simp only [Entity.flat, Option.some.injEq] at hr
      subst hr
      exact ⟨h2, h3, rfl, rfl⟩
    · intro ta' hta
      simp only [Entity.flat] at hta
      split at hta
      · cases hta
      · simp only [Option.some.injEq] at hta
        subst hta
        exact ⟨h3, by simpa using ‹¬ta.isEmpty = true›⟩
  | .closure q i, h => by
    have := flatOK_of_ok q (ok_closure h).2
    exact ⟨this.path, this.base, this.recv, this.targs⟩
  | .instance b ta, h => by
    obtain ⟨⟨p, n, hb⟩, hbo, hne, hta⟩ := ok_instance h
    subst hb
    have := flatOK_of_ok _ hbo
    refine ⟨this.path, this.base, by simp [Entity.flat], ?_⟩
    intro ta' h'
    simp only [Entity.flat, Option.some.injEq] at h'
    subst h'
    exact ⟨hta, hne⟩
  | .bound _, h | .thunk _, h | .wrapper _, h | .stub _, h | .routine .., h => by simp [Entity.ok] at h


/-! ## the rendering of a normal form is injective -/

theorem nestStr_chars (l : List Nat) : ∀ c ∈ nestStr l, identChar c = true ∨ c = '$' := by
  induction l with
  | nil => simp [nestStr]
  | cons i l ih =>
    intro c hc
    simp only [nestStr, List.mem_cons, List.mem_append] at hc
    rcases hc with (hc | hc) | hc
    · exact Or.inr hc
    · exact Or.inl (natStr_ident i c hc)
    · exact ih c hc

/-- a run of identifier characters, dots and dollars, ended by a break character, contains no slash -/
theorem noslash_run (A B : Str) (hA : ∀ c ∈ A, identChar c = true ∨ c = '.' ∨ c = '$') (hB : HeadNot nb B) :
    ∀ c ∈ (A ++ B).takeWhile nb, (c != '/') = true := by
  intro c hc
  rw [takeWhile_append_all _ _ (fun x hx => by
    rcases hA x hx with h | h | h
    · simp [nb, ident_not_brk h]
    · subst h; decide
    · subst h; decide), takeWhile_headNot hB] at hc
  simp only [List.append_nil] at hc
  rcases hA c hc with h | h | h
  · have : c ≠ '/' := ident_ne (by decide) h
    simpa using this
  · subst h; decide
  · subst h; decide

/-- the type-argument suffix is empty or a bracketed list -/
theorem sfx_form (f : Flat) : f.sfx = [] ∨ ∃ ta, f.targs = some ta ∧ f.sfx = typeArgs ta := by
  unfold Flat.sfx
  cases f.targs with
  | none => exact Or.inl rfl
  | some ta =>
    simp only []
    split
    · exact Or.inl rfl
    · exact Or.inr ⟨ta, rfl, rfl⟩

theorem sfx_headNot_nb (f : Flat) : HeadNot nb f.sfx := by
  rcases sfx_form f with h | ⟨ta, _, h⟩ <;> rw [h]
  · exact headNot_nil
  · exact headNot_cons (by decide)

theorem sfx_headNot_ident (f : Flat) : HeadNot identChar f.sfx := by
  rcases sfx_form f with h | ⟨ta, _, h⟩ <;> rw [h]
  · exact headNot_nil
  · exact headNot_cons (by decide)

theorem rest_noslash (f : Flat) (hf : FlatOK f) : ∀ c ∈ f.rest.takeWhile nb, (c != '/') = true := by
  obtain ⟨_, hb⟩ := identOK_iff.mp hf.base
  have hbn : ∀ c ∈ f.base ++ nestStr f.nest, identChar c = true ∨ c = '.' ∨ c = '$' := by
    intro c hc
    simp only [List.mem_append] at hc
    rcases hc with hc | hc
    · exact Or.inl (hb c hc)
    · rcases nestStr_chars _ c hc with h | h
      · exact Or.inl h
      · exact Or.inr (Or.inr h)
  unfold Flat.rest
  cases hr : f.recv with
  | none =>
    simp only [recvStr, List.nil_append]
    rw [← List.append_assoc]
    exact noslash_run _ _ hbn (sfx_headNot_nb f)
  | some r =>
    obtain ⟨hn, _, _, _⟩ := hf.recv r hr
    obtain ⟨_, hnc⟩ := identOK_iff.mp hn
    simp only [recvStr]
    cases r.ptr with
    | true =>
      intro c hc
      simp [nb, brk] at hc
    | false =>
      simp only [Bool.false_eq_true, if_false]
      unfold targsPart
      split
      · have e : r.name ++ [] ++ ['.'] ++ (f.base ++ (nestStr f.nest ++ f.sfx))
            = (r.name ++ '.' :: (f.base ++ nestStr f.nest)) ++ f.sfx := by simp
        rw [e]
        refine noslash_run _ _ ?_ (sfx_headNot_nb f)
        intro c hc
        simp only [List.mem_append, List.mem_cons] at hc
        rcases hc with hc | hc | hc
        · exact Or.inl (hnc c hc)
        · exact Or.inr (Or.inl hc)
        · exact hbn c (by simpa using hc)
      · simp only [List.append_assoc, List.cons_append]
        exact noslash_run _ _ (fun c hc => Or.inl (hnc c hc)) (headNot_cons (by decide))

theorem nestStr_inj_prefix : ∀ (n₁ n₂ : List Nat) (s₁ s₂ : Str), HeadNot identChar s₁ → HeadNot identChar s₂ →
    (∀ x, s₁ ≠ '$' :: x) → (∀ x, s₂ ≠ '$' :: x) →
    nestStr n₁ ++ s₁ = nestStr n₂ ++ s₂ → n₁ = n₂ ∧ s₁ = s₂
  | [], [], _, _, _, _, _, _, h => ⟨rfl, by simpa [nestStr] using h⟩
  | [], j :: n₂, s₁, s₂, _, _, d₁, _, h => by
    simp only [nestStr, List.nil_append, List.cons_append] at h
    exact absurd h (d₁ _)
  | i :: n₁, [], s₁, s₂, _, _, _, d₂, h => by
    simp only [nestStr, List.nil_append, List.cons_append] at h
    exact absurd h.symm (d₂ _)
  | i :: n₁, j :: n₂, s₁, s₂, h₁, h₂, d₁, d₂, h => by
    simp only [nestStr, List.cons_append, List.append_assoc, List.cons.injEq, true_and] at h
    have hn : ∀ (n : List Nat) (s : Str), HeadNot identChar s → HeadNot identChar (nestStr n ++ s) := by
      intro n s hs
      cases n with
      | nil => simpa [nestStr] using hs
      | cons k n => exact headNot_cons (by decide)
    have := seg_eq (natStr_ident i) (natStr_ident j) (hn n₁ s₁ h₁) (hn n₂ s₂ h₂) h
    have ij := natStr_inj this.1
    have := nestStr_inj_prefix n₁ n₂ s₁ s₂ h₁ h₂ d₁ d₂ this.2
    exact ⟨by rw [ij, this.1], this.2⟩

/-- optional bracketed type arguments followed by a fixed non-bracket character -/
theorem targsPart_split {ta₁ ta₂ : Tys} {c : Char} {B₁ B₂ : Str} (hc : c ≠ '[')
    (h₁ : ta₁.ok pathOK = true) (h₂ : ta₂.ok pathOK = true)
    (h : targsPart ta₁ ++ c :: B₁ = targsPart ta₂ ++ c :: B₂) : ta₁ = ta₂ ∧ B₁ = B₂ := by
  unfold targsPart at h
  cases he₁ : ta₁.isEmpty <;> cases he₂ : ta₂.isEmpty <;>
    simp only [he₁, he₂, if_true, if_false, Bool.false_eq_true, List.nil_append, List.cons_append, List.append_assoc] at h
  · simp only [List.cons.injEq, true_and] at h
    obtain ⟨e, ex⟩ := tysStr_inj_prefix ta₁ ta₂ _ _ h₁ h₂ he₁ he₂ h
    simp only [List.cons.injEq, true_and] at ex
    exact ⟨e, ex⟩
  · simp only [List.cons.injEq] at h
    exact absurd h.1.symm hc
  · simp only [List.cons.injEq] at h
    exact absurd h.1 hc
  · simp only [List.cons.injEq, true_and] at h
    cases ta₁ <;> cases ta₂ <;> simp [Tys.isEmpty] at he₁ he₂
    exact ⟨rfl, h⟩


theorem tail_cases (f : Flat) (hf : FlatOK f) :
    nestStr f.nest ++ f.sfx = [] ∨ (∃ x, nestStr f.nest ++ f.sfx = '$' :: x) ∨
    (∃ ta, ta.ok pathOK = true ∧ ta.isEmpty = false ∧ nestStr f.nest ++ f.sfx = typeArgs ta) := by
  cases hn : f.nest with
  | cons i l => exact Or.inr (Or.inl ⟨natStr i ++ (nestStr l ++ f.sfx), by simp [nestStr]⟩)
  | nil =>
    simp only [nestStr, List.nil_append]
    rcases sfx_form f with h | ⟨ta, ht, h⟩
    · exact Or.inl h
    · exact Or.inr (Or.inr ⟨ta, (hf.targs ta ht).1, (hf.targs ta ht).2, h⟩)

theorem ident_head {s : Str} (h : identOK s = true) : ∃ c s', s = c :: s' ∧ identChar c = true := by
  obtain ⟨h0, hc⟩ := identOK_iff.mp h
  cases s with
  | nil => exact absurd rfl h0
  | cons c s' => exact ⟨c, s', rfl, hc c (by simp)⟩

theorem recv_none_some {b₁ t₁ : Str} {r₂ : Recv} {B₂ : Str}
    (hb : identOK b₁ = true)
    (ht : t₁ = [] ∨ (∃ x, t₁ = '$' :: x) ∨ (∃ ta, ta.ok pathOK = true ∧ ta.isEmpty = false ∧ t₁ = typeArgs ta))
    (hn : identOK r₂.name = true) (hta : r₂.targs.ok pathOK = true)
    (h : b₁ ++ t₁ = recvStr (some r₂) ++ B₂) : False := by
  obtain ⟨c, b', hb', hc⟩ := ident_head hb
  simp only [recvStr] at h
  cases hp : r₂.ptr with
  | true =>
    simp only [hp, if_true, hb', List.cons_append, List.cons.injEq] at h
    have := h.1; subst this; revert hc; decide
  | false =>
    simp only [hp, Bool.false_eq_true, if_false, List.append_assoc, List.cons_append, List.nil_append] at h
    have ht₁ : HeadNot identChar t₁ := by
      rcases ht with e | ⟨x, e⟩ | ⟨ta, _, _, e⟩ <;> rw [e]
      · exact headNot_nil
      · exact headNot_cons (by decide)
      · exact headNot_cons (by decide)
    have ht₂ : HeadNot identChar (targsPart r₂.targs ++ '.' :: B₂) := by
      unfold targsPart; split
      · exact headNot_cons (by decide)
      · exact headNot_cons (by decide)
    obtain ⟨_, e⟩ := seg_eq (identOK_iff.mp hb).2 (identOK_iff.mp hn).2 ht₁ ht₂ h
    unfold targsPart at e
    rcases ht with e1 | ⟨x, e1⟩ | ⟨ta, hok, hne, e1⟩ <;> rw [e1] at e
    · split at e <;> simp at e
    · split at e <;> simp at e
    · split at e
      · simp [typeArgs] at e
      · rename_i hne2
        simp only [typeArgs, List.cons_append, List.cons.injEq, true_and, List.append_assoc, List.nil_append] at e
        have := tysStr_inj_prefix ta r₂.targs [] ('.' :: B₂) hok hta hne (by simpa using hne2) e
        simp at this

theorem recv_some_some {r₁ r₂ : Recv} {B₁ B₂ : Str}
    (hn₁ : identOK r₁.name = true) (hta₁ : r₁.targs.ok pathOK = true) (hn₂ : identOK r₂.name = true) (hta₂ : r₂.targs.ok pathOK = true)
    (h : recvStr (some r₁) ++ B₁ = recvStr (some r₂) ++ B₂) :
    r₁.name = r₂.name ∧ r₁.targs = r₂.targs ∧ r₁.ptr = r₂.ptr ∧ B₁ = B₂ := by
  obtain ⟨c₁, b₁, hb₁, hc₁⟩ := ident_head hn₁
  obtain ⟨c₂, b₂, hb₂, hc₂⟩ := ident_head hn₂
  have hrest : ∀ (ta : Tys) (c : Char) (X : Str), identChar c = false → HeadNot identChar (targsPart ta ++ c :: X) := by
    intro ta c X hc
    unfold targsPart; split
    · exact headNot_cons hc
    · exact headNot_cons (by decide)
  simp only [recvStr] at h
  cases hp₁ : r₁.ptr <;> cases hp₂ : r₂.ptr <;>
    simp only [hp₁, hp₂, if_true, if_false, Bool.false_eq_true, List.append_assoc, List.cons_append, List.nil_append] at h
  · obtain ⟨en, e⟩ := seg_eq (identOK_iff.mp hn₁).2 (identOK_iff.mp hn₂).2 (hrest _ _ _ (by decide)) (hrest _ _ _ (by decide)) h
    obtain ⟨et, eb⟩ := targsPart_split (by decide) hta₁ hta₂ e
    exact ⟨en, et, rfl, eb⟩
  · rw [hb₁] at h
    simp only [List.cons_append, List.cons.injEq] at h
    have := h.1; subst this; exact absurd hc₁ (by decide)
  · rw [hb₂] at h
    simp only [List.cons_append, List.cons.injEq] at h
    have := h.1; subst this; exact absurd hc₂ (by decide)
  · simp only [List.cons.injEq, true_and] at h
    obtain ⟨en, e⟩ := seg_eq (identOK_iff.mp hn₁).2 (identOK_iff.mp hn₂).2 (hrest _ _ _ (by decide)) (hrest _ _ _ (by decide)) h
    obtain ⟨et, eb⟩ := targsPart_split (by decide) hta₁ hta₂ e
    simp only [List.cons.injEq, true_and] at eb
    exact ⟨en, et, rfl, eb⟩


theorem sfx_not_dollar (f : Flat) : ∀ x, f.sfx ≠ '$' :: x := by
  intro x
  rcases sfx_form f with h | ⟨ta, _, h⟩ <;> rw [h] <;> simp [typeArgs]

/-- **Injectivity of the rendering** on well-formed normal forms whose last path element has no dot. -/
theorem render_inj {f₁ f₂ : Flat} (h₁ : FlatOK f₁) (h₂ : FlatOK f₂) (h : f₁.render = f₂.render) : f₁ = f₂ := by
  obtain ⟨_, hpc₁, hpo₁, hpd₁⟩ := pathOK_unpack h₁.path
  obtain ⟨_, hpc₂, hpo₂, hpd₂⟩ := pathOK_unpack h₂.path
  unfold Flat.render at h
  rw [hpo₁, hpo₂] at h
  obtain ⟨hpkg, hrest⟩ := path_split (fun c hc => path_not_brk (hpc₁ c hc)) (fun c hc => path_not_brk (hpc₂ c hc)) hpd₁ hpd₂
    (rest_noslash f₁ h₁) (rest_noslash f₂ h₂) h
  unfold Flat.rest at hrest
  -- receiver
  have hrecv : (f₁.recv = none ∧ f₂.recv = none ∨
      ∃ r₁ r₂, f₁.recv = some r₁ ∧ f₂.recv = some r₂ ∧ r₁.name = r₂.name ∧ r₁.targs = r₂.targs ∧ r₁.ptr = r₂.ptr) ∧
      f₁.base ++ (nestStr f₁.nest ++ f₁.sfx) = f₂.base ++ (nestStr f₂.nest ++ f₂.sfx) := by
    cases hr₁ : f₁.recv with
    | none =>
      cases hr₂ : f₂.recv with
      | none =>
        rw [hr₁, hr₂] at hrest
        exact ⟨Or.inl ⟨rfl, rfl⟩, by simpa [recvStr] using hrest⟩
      | some r₂ =>
        rw [hr₁, hr₂] at hrest
        obtain ⟨a, b, _, _⟩ := h₂.recv r₂ hr₂
        exact (recv_none_some h₁.base (tail_cases f₁ h₁) a b (by simpa [recvStr] using hrest)).elim
    | some r₁ =>
      obtain ⟨a₁, b₁, _, _⟩ := h₁.recv r₁ hr₁
      cases hr₂ : f₂.recv with
      | none =>
        rw [hr₁, hr₂] at hrest
        exact (recv_none_some h₂.base (tail_cases f₂ h₂) a₁ b₁ (by simpa [recvStr] using hrest.symm)).elim
      | some r₂ =>
        rw [hr₁, hr₂] at hrest
        obtain ⟨a₂, b₂, _, _⟩ := h₂.recv r₂ hr₂
        obtain ⟨e1, e2, e3, e4⟩ := recv_some_some a₁ b₁ a₂ b₂ hrest
        exact ⟨Or.inr ⟨r₁, r₂, rfl, rfl, e1, e2, e3⟩, e4⟩
  obtain ⟨hrc, hB⟩ := hrecv
  -- declared name, closure indices, type-argument suffix
  have htl : ∀ f : Flat, HeadNot identChar (nestStr f.nest ++ f.sfx) := by
    intro f
    cases f.nest with
    | nil => simpa [nestStr] using sfx_headNot_ident f
    | cons i l => exact headNot_cons (by decide)
  obtain ⟨hbase, htail⟩ := seg_eq (identOK_iff.mp h₁.base).2 (identOK_iff.mp h₂.base).2 (htl f₁) (htl f₂) hB
  obtain ⟨hnest, hsfx⟩ := nestStr_inj_prefix _ _ _ _ (sfx_headNot_ident f₁) (sfx_headNot_ident f₂)
    (sfx_not_dollar f₁) (sfx_not_dollar f₂) htail
  -- go/ssa type arguments
  have htargs : f₁.targs = f₂.targs := by
    rcases hrc with ⟨n₁, n₂⟩ | ⟨r₁, r₂, s₁, s₂, _, et, _⟩
    · unfold Flat.sfx at hsfx
      rw [n₁, n₂] at hsfx
      cases t₁ : f₁.targs with
      | none =>
        cases t₂ : f₂.targs with
        | none => rfl
        | some ta₂ => rw [t₁, t₂] at hsfx; simp [typeArgs] at hsfx
      | some ta₁ =>
        cases t₂ : f₂.targs with
        | none => rw [t₁, t₂] at hsfx; simp [typeArgs] at hsfx
        | some ta₂ =>
          rw [t₁, t₂] at hsfx
          simp only [Option.isSome_none, Bool.and_false, Bool.false_eq_true, if_false, typeArgs, List.cons_append, List.cons.injEq, true_and] at hsfx
          obtain ⟨o₁, e₁⟩ := h₁.targs ta₁ t₁
          obtain ⟨o₂, e₂⟩ := h₂.targs ta₂ t₂
          have := tysStr_inj_prefix ta₁ ta₂ [] [] o₁ o₂ e₁ e₂ hsfx
          rw [this.1]
    · rw [(h₁.recv r₁ s₁).2.2.2, (h₂.recv r₂ s₂).2.2.2, et]
  -- assemble
  have hrecv' : f₁.recv = f₂.recv := by
    rcases hrc with ⟨n₁, n₂⟩ | ⟨r₁, r₂, s₁, s₂, en, et, ep⟩
    · rw [n₁, n₂]
    · rw [s₁, s₂]
      have p₁ := (h₁.recv r₁ s₁).2.2.1
      have p₂ := (h₂.recv r₂ s₂).2.2.1
      cases r₁; cases r₂
      simp_all
  cases f₁; cases f₂
  simp_all

theorem fnLike_no_clash {a b : Entity} (ha : a.fnLike = true) (hb : b.fnLike = true) : a.declClash b = false := by
  cases a <;> cases b <;> simp_all [Entity.fnLike, Entity.declClash]

theorem nest_closure_ne (q : Entity) (i : Nat) : (Entity.closure q i).flat.nest ≠ [] := by
  simp [Entity.flat]

/-- distinct covered entities have distinct normal forms (up to Go's own function/variable clash) -/
theorem flat_inj : ∀ (e₁ e₂ : Entity), e₁.ok pathOK = true → e₂.ok pathOK = true → e₁.flat = e₂.flat →
    e₁ = e₂ ∨ e₁.declClash e₂ = true
  | .closure q₁ i₁, e₂, h₁, h₂, h => by
    cases e₂ with
    | closure q₂ i₂ =>
      obtain ⟨f₁, o₁⟩ := ok_closure h₁
      obtain ⟨f₂, o₂⟩ := ok_closure h₂
      have hn : q₁.flat.nest ++ [i₁] = q₂.flat.nest ++ [i₂] := by
        have := congrArg Flat.nest h; simpa [Entity.flat] using this
      have hn' := List.append_inj' hn rfl
      have hq : q₁.flat = q₂.flat := by
        have a := congrArg Flat.pkg h
        have b := congrArg Flat.recv h
        have c := congrArg Flat.base h
        have d := congrArg Flat.targs h
        simp only [Entity.flat] at a b c d
        cases hq₁ : q₁.flat; cases hq₂ : q₂.flat
        simp_all
      rcases flat_inj q₁ q₂ o₁ o₂ hq with e | e
      · left; rw [e]; simp at hn'; rw [hn'.2]
      · rw [fnLike_no_clash f₁ f₂] at e; cases e
    | func p n => exact absurd (congrArg Flat.nest h) (by simp [Entity.flat])
    | method p r ta ptr n => exact absurd (congrArg Flat.nest h) (by simp [Entity.flat])
    | global p n => exact absurd (congrArg Flat.nest h) (by simp [Entity.flat])
    | «instance» b ta =>
      obtain ⟨⟨p, n, hb⟩, _⟩ := ok_instance h₂
      subst hb
      exact absurd (congrArg Flat.nest h) (by simp [Entity.flat])
    | bound m => cases h₂
    | thunk m => cases h₂
    | wrapper m => cases h₂
    | stub m => cases h₂
    | routine p n => cases h₂
  | .func p n, e₂, h₁, h₂, h => by
    cases e₂ with
    | closure q₂ i₂ => exact absurd (congrArg Flat.nest h).symm (by simp [Entity.flat])
    | func p' n' => left; simp [Entity.flat] at h; rw [h.1, h.2]
    | method p' r ta ptr n' => simp [Entity.flat] at h
    | global p' n' => right; simp [Entity.flat] at h; simp [Entity.declClash, h.1, h.2]
    | «instance» b ta => simp [Entity.flat] at h
    | bound m => cases h₂
    | thunk m => cases h₂
    | wrapper m => cases h₂
    | stub m => cases h₂
    | routine p n => cases h₂
  | .global p n, e₂, h₁, h₂, h => by
    cases e₂ with
    | closure q₂ i₂ => exact absurd (congrArg Flat.nest h).symm (by simp [Entity.flat])
    | func p' n' => right; simp [Entity.flat] at h; simp [Entity.declClash, h.1, h.2]
    | method p' r ta ptr n' => simp [Entity.flat] at h
    | global p' n' => left; simp [Entity.flat] at h; rw [h.1, h.2]
    | «instance» b ta => simp [Entity.flat] at h
    | bound m => cases h₂
    | thunk m => cases h₂
    | wrapper m => cases h₂
    | stub m => cases h₂
    | routine p n => cases h₂
  | .method p r ta ptr n, e₂, h₁, h₂, h => by
    cases e₂ with
    | closure q₂ i₂ => exact absurd (congrArg Flat.nest h).symm (by simp [Entity.flat])
    | func p' n' => simp [Entity.flat] at h
    | method p' r' ta' ptr' n' =>
      left
      simp only [Entity.flat, Flat.mk.injEq, Option.some.injEq, Recv.mk.injEq] at h
      obtain ⟨a, ⟨_, b, c, d⟩, e, _⟩ := h
      rw [a, b, c, d, e]
    | global p' n' => simp [Entity.flat] at h
    | «instance» b ta' =>
      obtain ⟨⟨p', n', hb⟩, _⟩ := ok_instance h₂
      subst hb
      simp [Entity.flat] at h
    | bound m => cases h₂
    | thunk m => cases h₂
    | wrapper m => cases h₂
    | stub m => cases h₂
    | routine p n => cases h₂
  | .instance b ta, e₂, h₁, h₂, h => by
    obtain ⟨⟨p, n, hb⟩, _⟩ := ok_instance h₁
    subst hb
    cases e₂ with
    | closure q₂ i₂ => exact absurd (congrArg Flat.nest h).symm (by simp [Entity.flat])
    | func p' n' => simp [Entity.flat] at h
    | method p' r' ta' ptr' n' => simp [Entity.flat] at h
    | global p' n' => simp [Entity.flat] at h
    | «instance» b' ta' =>
      obtain ⟨⟨p', n', hb'⟩, _⟩ := ok_instance h₂
      subst hb'
      left
      simp only [Entity.flat, Flat.mk.injEq, Option.some.injEq] at h
      obtain ⟨a, _, c, _, e⟩ := h
      rw [a, c, e]
    | bound m => cases h₂
    | thunk m => cases h₂
    | wrapper m => cases h₂
    | stub m => cases h₂
    | routine p n => cases h₂
  | .bound _, _, h₁, _, _ | .thunk _, _, h₁, _, _ | .wrapper _, _, h₁, _, _ | .stub _, _, h₁, _, _ | .routine .., _, h₁, _, _ => by
    cases h₁

/-! ## the repaired naming of synthetic functions (`Cfg.fixed`, fixes/C14-1.diff) -/

theorem synthName_legacy (cur name : Str) (rc : Option Recv) :
    synthName Cfg.legacy cur name rc = funcNameStr cur name rc false := by
  cases rc with
  | none => rfl
  | some r =>
    cases hp : r.ptr <;> simp [synthName, wrapperName, funcNameStr, Cfg.legacy, Recv.toW, hp]

/-- rendering of a receiver whose type belongs to another package than the one being compiled -/
def qrecvStr (p r : Str) (ta : Tys) (ptr : Bool) : Str :=
  '(' :: ((if ptr then ['*'] else []) ++ (p ++ '.' :: (r ++ (targsPart ta ++ ')' :: '.' :: []))))

theorem wrapperName_fixed_eq (cur name p r : Str) (ta : Tys) (ptr : Bool) (hp : pathOK p = true) :
    wrapperName Cfg.fixed cur name ⟨p, r, ta, [], ptr⟩ =
      pathOf cur ++ '.' :: ((if p = pathOf cur then recvStr (some ⟨p, r, ta, ptr⟩) else qrecvStr p r ta ptr) ++ name) := by
  obtain ⟨_, _, hpo, _⟩ := pathOK_unpack hp
  unfold wrapperName
  simp only [Cfg.fixed, hpo, Bool.true_and, scopeStr, List.append_nil, if_true]
  by_cases hc : p = pathOf cur
  · have hb : (p != pathOf cur) = false := by simp [hc]
    simp only [hb, hc, if_true, Bool.false_eq_true, if_false]
    cases ptr <;> simp [recvStr, namedName, targsPart] <;> split <;> simp
  · have hb : (p != pathOf cur) = true := by simp [hc]
    simp only [hb, hc, if_true, if_false]
    cases ptr <;> simp [qrecvStr, namedName, targsPart] <;> split <;> simp

theorem path_head {p : Str} (hp : pathOK p = true) : ∃ c p', p = c :: p' ∧ pathChar c = true := by
  obtain ⟨h0, hc, _, _⟩ := pathOK_unpack hp
  cases p with
  | nil => exact absurd rfl h0
  | cons c p' => exact ⟨c, p', rfl, hc c (by simp)⟩

theorem targs_close_headNot_nb (ta : Tys) (X : Str) : HeadNot nb (targsPart ta ++ ')' :: X) := by
  unfold targsPart; split
  · exact headNot_cons (by decide)
  · exact headNot_cons (by decide)

theorem targs_close_headNot_ident (ta : Tys) (X : Str) : HeadNot identChar (targsPart ta ++ ')' :: X) := by
  unfold targsPart; split
  · exact headNot_cons (by decide)
  · exact headNot_cons (by decide)

/-- two qualified receivers -/
theorem qrecv_inj {p₁ p₂ r₁ r₂ : Str} {ta₁ ta₂ : Tys} {ptr₁ ptr₂ : Bool} {N₁ N₂ : Str}
    (hp₁ : pathOK p₁ = true) (hp₂ : pathOK p₂ = true) (hr₁ : identOK r₁ = true) (hr₂ : identOK r₂ = true)
    (ht₁ : ta₁.ok pathOK = true) (ht₂ : ta₂.ok pathOK = true)
    (h : qrecvStr p₁ r₁ ta₁ ptr₁ ++ N₁ = qrecvStr p₂ r₂ ta₂ ptr₂ ++ N₂) :
    p₁ = p₂ ∧ r₁ = r₂ ∧ ta₁ = ta₂ ∧ ptr₁ = ptr₂ ∧ N₁ = N₂ := by
  obtain ⟨c₁, q₁, e₁, hc₁⟩ := path_head hp₁
  obtain ⟨c₂, q₂, e₂, hc₂⟩ := path_head hp₂
  obtain ⟨_, hpc₁, _, hpd₁⟩ := pathOK_unpack hp₁
  obtain ⟨_, hpc₂, _, hpd₂⟩ := pathOK_unpack hp₂
  have hstar : ∀ c, pathChar c = true → c ≠ '*' := by
    intro c hc e; subst e; exact absurd hc (by decide)
  have same : ∀ (N₁ N₂ : Str), p₁ ++ '.' :: (r₁ ++ (targsPart ta₁ ++ ')' :: '.' :: [])) ++ N₁ =
      p₂ ++ '.' :: (r₂ ++ (targsPart ta₂ ++ ')' :: '.' :: [])) ++ N₂ → p₁ = p₂ ∧ r₁ = r₂ ∧ ta₁ = ta₂ ∧ N₁ = N₂ := by
    intro N₁ N₂ h
    have a : ∀ (p r : Str) (ta : Tys) (N : Str), p ++ '.' :: (r ++ (targsPart ta ++ ')' :: '.' :: [])) ++ N
        = p ++ '.' :: (r ++ (targsPart ta ++ ')' :: '.' :: N)) := by intros; simp
    rw [a, a] at h
    obtain ⟨hp, hR⟩ := path_split (fun c hc => path_not_brk (hpc₁ c hc)) (fun c hc => path_not_brk (hpc₂ c hc)) hpd₁ hpd₂
      (noslash_run _ _ (fun c hc => Or.inl ((identOK_iff.mp hr₁).2 c hc)) (targs_close_headNot_nb _ _))
      (noslash_run _ _ (fun c hc => Or.inl ((identOK_iff.mp hr₂).2 c hc)) (targs_close_headNot_nb _ _)) h
    obtain ⟨hr, hT⟩ := seg_eq (identOK_iff.mp hr₁).2 (identOK_iff.mp hr₂).2 (targs_close_headNot_ident _ _) (targs_close_headNot_ident _ _) hR
    obtain ⟨hta, hN⟩ := targsPart_split (by decide) ht₁ ht₂ hT
    simp only [List.cons.injEq, true_and] at hN
    exact ⟨hp, hr, hta, hN⟩
  unfold qrecvStr at h
  cases ptr₁ <;> cases ptr₂ <;>
    simp only [if_true, if_false, Bool.false_eq_true, List.nil_append, List.cons_append, List.cons.injEq, true_and] at h
  · obtain ⟨a, b, c, d⟩ := same N₁ N₂ h
    exact ⟨a, b, c, rfl, d⟩
  · rw [e₁] at h
    simp only [List.cons_append, List.cons.injEq] at h
    exact absurd h.1 (hstar c₁ hc₁)
  · rw [e₂] at h
    simp only [List.cons_append, List.cons.injEq] at h
    exact absurd h.1.symm (hstar c₂ hc₂)
  · obtain ⟨a, b, c, d⟩ := same N₁ N₂ h
    exact ⟨a, b, c, rfl, d⟩

/-- a receiver of the compiled package is never rendered like a qualified one -/
theorem recv_ne_qrecv {pl rl : Str} {tal : Tys} {ptrl : Bool} {p r : Str} {ta : Tys} {ptr : Bool} {N₁ N₂ : Str}
    (hp : pathOK p = true) (hrl : identOK rl = true) (hr : identOK r = true)
    (h : recvStr (some ⟨pl, rl, tal, ptrl⟩) ++ N₁ = qrecvStr p r ta ptr ++ N₂) : False := by
  obtain ⟨c, q, e, hc⟩ := path_head hp
  obtain ⟨d, rl', el, hd⟩ := ident_head hrl
  obtain ⟨_, hpc, _, _⟩ := pathOK_unpack hp
  unfold qrecvStr at h
  simp only [recvStr] at h
  cases ptrl with
  | false =>
    -- starts with an identifier character, the other side with '('
    simp only [Bool.false_eq_true, if_false, el, List.cons_append, List.cons.injEq] at h
    have := h.1; subst this; exact absurd hd (by decide)
  | true =>
    cases ptr with
    | false =>
      simp only [if_true, Bool.false_eq_true, if_false, List.nil_append, List.cons_append, List.cons.injEq, true_and, e] at h
      have := h.1; subst this; exact absurd hc (by decide)
    | true =>
      simp only [if_true, List.cons_append, List.cons.injEq, true_and, List.nil_append, List.append_assoc] at h
      -- "(*" then: identifier up to '[' or ')'  versus  path "." identifier
      have h1 := congrArg (List.takeWhile nb) h
      have l : (rl ++ (targsPart tal ++ ')' :: '.' :: N₁)).takeWhile nb = rl := by
        rw [takeWhile_append_all _ _ (fun x hx => by simp [nb, ident_not_brk ((identOK_iff.mp hrl).2 x hx)]),
          takeWhile_headNot (targs_close_headNot_nb _ _)]; simp
      have rr : (p ++ '.' :: (r ++ (targsPart ta ++ ')' :: '.' :: N₂))).takeWhile nb = p ++ '.' :: r := by
        have a : p ++ '.' :: (r ++ (targsPart ta ++ ')' :: '.' :: N₂)) = (p ++ '.' :: r) ++ (targsPart ta ++ ')' :: '.' :: N₂) := by simp
        rw [a, takeWhile_append_all _ _ (fun x hx => by
          simp only [List.mem_append, List.mem_cons] at hx
          rcases hx with hx | hx | hx
          · simp [nb, path_not_brk (hpc x hx)]
          · subst hx; decide
          · simp [nb, ident_not_brk ((identOK_iff.mp hr).2 x hx)]), takeWhile_headNot (targs_close_headNot_nb _ _)]
        simp
      have h1' : (rl ++ (targsPart tal ++ ')' :: '.' :: N₁)).takeWhile nb = (p ++ '.' :: (r ++ (targsPart ta ++ ')' :: '.' :: N₂))).takeWhile nb := by
        simpa using h1
      rw [l, rr] at h1'
      have : '.' ∈ rl := by rw [h1']; simp
      exact absurd ((identOK_iff.mp hrl).2 '.' this) (by decide)

end LlgoVerif.LinkName
