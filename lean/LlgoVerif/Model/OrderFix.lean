/-!
# Model of `internal/build/ssa_order_fix.go` : `fixSSAOrderBlock`

The pass works on one go/ssa basic block.  For every result of the block's (last) `Return` that is a load `*a` of a
local `Alloc` `a` sitting earlier in the same block, it looks for the LAST call instruction between the load and the
`Return` that has `a` itself among its operands; if there is one, and no `Store` between load and `Return` writes
through an address derived from `a`, and no instruction between them uses the loaded value, the load is moved to
right after that call.

The model keeps of an instruction exactly what the pass looks at:

* `id`    identity of the instruction (go/ssa: the pointer; here a number) — also the name of the value it defines;
* `kind`  `load a` (UnOp MUL whose operand is the Alloc `a`), `call as` (a CallInstruction — Call, Go, Defer — with the
          allocs `as` among the operands of its CallCommon), `store as` (a Store whose address depends, through operand
          chains, on the allocs `as`), `effect` (any other instruction with a side effect: Send, MapUpdate, Panic, …),
          `pure` (anything else), `ret` (Return);
* `uses`  the ids of the operand values (for `ret`: the results, in order).

The functions below mirror the Go code loop by loop (indices, `indexOfInstr`, the "last call" scan, `moveInstr`).
The second pass of the file (`fixSingleCaseSelectRecvAssignBlock`) only fires for single-case `select` receive
statements, which are outside the core fragment of C01 (channels: C10); it is not modelled.
-/
namespace LlgoVerif.OrderFix

inductive Kind where
  | load (a : Nat)
  | call (allocs : List Nat)
  | store (allocs : List Nat)
  | effect
  | pure
  | ret
deriving DecidableEq, Repr, Inhabited

structure Instr where
  id : Nat
  kind : Kind
  uses : List Nat
deriving DecidableEq, Repr, Inhabited

def isRet (i : Instr) : Bool :=
  match i.kind with
  | .ret => true
  | _ => false

/-- `callUsesValue(ci, alloc)` -/
def callUses (a : Nat) (i : Instr) : Bool :=
  match i.kind with
  | .call as => as.contains a
  | _ => false

/-- `storeWritesAlloc(ins, alloc)` -/
def storeWrites (a : Nat) (i : Instr) : Bool :=
  match i.kind with
  | .store as => as.contains a
  | _ => false

/-- `instrUsesValue(ins, v)` -/
def usesVal (v : Nat) (i : Instr) : Bool := i.uses.contains v

/-- `indexOfInstr` -/
def indexOfId : List Instr → Nat → Option Nat
  | [], _ => none
  | x :: xs, v => if x.id = v then some 0 else (indexOfId xs v).map (· + 1)

/-- `for i := len(b.Instrs)-1; i >= 0; i-- { if Return … break }` : index of the last Return -/
def lastRetIdx : List Instr → Option Nat
  | [] => none
  | x :: xs =>
    match lastRetIdx xs with
    | some i => some (i + 1)
    | none => if isRet x then some 0 else none

/-- body of `for i := lo+1; i < hi; i++ { if p(b[i]) { last = i } }` -/
def lastStep (b : List Instr) (lo : Nat) (p : Instr → Bool) (acc : Option Nat) (i : Nat) : Option Nat :=
  if lo < i then
    match b[i]? with
    | some x => if p x then some i else acc
    | none => acc
  else acc

/-- `for i := lo+1; i < hi; i++ { if p(b[i]) { last = i } }` -/
def lastIdxIn (b : List Instr) (lo hi : Nat) (p : Instr → Bool) : Option Nat :=
  (List.range hi).foldl (lastStep b lo p) none

/-- `for i := lo+1; i < hi; i++ { if p(b[i]) { found = true; break } }` -/
def anyIn (b : List Instr) (lo hi : Nat) (p : Instr → Bool) : Bool :=
  (List.range hi).any (fun i => decide (lo < i) && (match b[i]? with | some x => p x | none => false))

/-- `moveInstr(instrs, from, to)`: remove the element at `from`, insert it before what was position `to` -/
def moveInstr (b : List Instr) (frm to : Nat) : List Instr :=
  match b[frm]? with
  | none => b
  | some x =>
    let to := if to > b.length then b.length else to
    if frm = to ∨ frm + 1 = to then b
    else
      let removed := b.take frm ++ b.drop (frm + 1)
      let to' := if to > frm then to - 1 else to
      removed.take to' ++ x :: removed.drop to'

/-- one iteration of `for _, rv := range ret.Results` -/
def fixOne (b : List Instr) (retIdx : Nat) (rv : Nat) : List Instr :=
  match indexOfId b rv with
  | none => b
  | some loadIdx =>
    match b[loadIdx]? with
    | some ⟨_, .load a, _⟩ =>
      if loadIdx ≥ retIdx then b
      else
        match lastIdxIn b loadIdx retIdx (callUses a) with
        | none => b
        | some lastCall =>
          if anyIn b loadIdx retIdx (storeWrites a) then b
          else if anyIn b loadIdx retIdx (usesVal rv) then b
          else moveInstr b loadIdx (lastCall + 1)
    | _ => b

/-- the loop over the results; `retIdx` is recomputed with `indexOfInstr(b.Instrs, ret)` after every iteration -/
def fixResults (retId : Nat) : List Nat → List Instr → Nat → List Instr
  | [], b, _ => b
  | rv :: rvs, b, retIdx =>
    let b' := fixOne b retIdx rv
    fixResults retId rvs b' ((indexOfId b' retId).getD retIdx)

/-- `fixSSAOrderBlock` -/
def fixBlock (b : List Instr) : List Instr :=
  match lastRetIdx b with
  | none => b
  | some r =>
    match b[r]? with
    | some ret => fixResults ret.id ret.uses b r
    | none => b

/-! ### text form used by the driver and the Go harness:
    `id:K:uses` with K ∈ `L<a>` | `C<a.a…>` | `S<a.a…>` | `E` | `P` | `R`, uses = dot-separated ids or empty -/

def parseNats (s : String) : Option (List Nat) :=
  if s.isEmpty then some [] else (s.splitOn ".").mapM (·.toNat?)

def parseKind (s : String) : Option Kind :=
  match s.toList with
  | 'L' :: rest => (String.ofList rest).toNat?.map .load
  | 'C' :: rest => (parseNats (String.ofList rest)).map .call
  | 'S' :: rest => (parseNats (String.ofList rest)).map .store
  | ['E'] => some .effect
  | ['P'] => some .pure
  | ['R'] => some .ret
  | _ => none

def parseInstr (s : String) : Option Instr :=
  match s.splitOn ":" with
  | [i, k, u] => do
    let id ← i.toNat?
    let kind ← parseKind k
    let uses ← parseNats u
    pure ⟨id, kind, uses⟩
  | _ => none

def showInstr (i : Instr) : String := toString i.id

end LlgoVerif.OrderFix
