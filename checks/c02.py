"""C02 — numeric operators and conversions are exact for every operand value.

Tie A (regenerated model): a generated package of one-operator functions is compiled by the llgo built from the
working tree (-O0, -gen-llfiles); its IR is translated 1:1 into Lean (harness/irgen/ir2lean.py ->
lean/LlgoVerif/Gen/C02_*.lean) and every function gets the obligation `f x y = <Go spec>` for ALL operands,
proved by instantiating width-generic lemmas (Lemmas/Arith.lean).
Tie E: the same package, linked into an llgo-compiled evaluator (-O0 and -O2), is executed on boundary and random
operands and compared with the Lean evaluation of the specification (modeld_c02): this finds the failing operand
pair when an obligation breaks, validates the translator, and covers the optimised code."""
import glob
import os
import sys

from vlib.common import *
from vlib.e2e import *

sys.path.insert(0, os.path.join(VERIF, "harness", "irgen"))
import ir2lean  # noqa: E402
import obligations  # noqa: E402
import opsgen  # noqa: E402
import fopsgen  # noqa: E402

NFILES = 16
GEN_DIR = os.path.join(LEAN, "LlgoVerif", "Gen")


def boundary(w):
    vals = set()
    for k in [0, 1, 2, 3, 7, 8, 15, 16, 31, 32, 33, 63, 64, 65, 127, 128, 129, 255, 256]:
        vals.add(k)
    for e in [7, 8, 15, 16, 31, 32, 63, 64]:
        for d in (-1, 0, 1):
            vals.add((1 << e) + d)
    vals.update([-1, -2, -3, -7, -8, -128, -129])
    m = (1 << w) - 1
    return sorted(set(v & m for v in vals))


def operands(ctx, o, quick):
    """operand pairs (bit patterns) for obligation o"""
    rng = ctx.rng
    w = o["w"]
    wy = o.get("w2", w) if o["cls"] in ("shl", "shr") else w
    bx, by = boundary(w), boundary(wy)
    if o["cls"] in ("quox", "remx"):      # constant dividend, variable divisor: the operand travels in the y slot
        return [(0, y) for y in bx + [rng.getrandbits(w) for _ in range(8)]]
    unary = o["cls"] in ("neg", "not", "conv", "quoc", "remc", "shlc", "shrc")
    if quick:
        bx = [v for i, v in enumerate(bx) if i % 3 == 0 or v in (0, 1, (1 << (w - 1)), (1 << w) - 1, (1 << (w - 1)) - 1)]
    xs = bx + [rng.getrandbits(w) for _ in range(4 if quick else 16)]
    if unary:
        return [(x, 0) for x in xs]
    ys = by + [rng.getrandbits(wy) for _ in range(4 if quick else 16)]
    if quick and o["cls"] not in ("shl", "shr", "quo", "rem"):
        ys = [v for i, v in enumerate(ys) if i % 2 == 0]
    return [(x, y) for x in xs for y in ys]


def spec_line(o, x, y):
    return "%s %d %d %d %d %d %d %d" % (o["cls"], 1 if o["s"] else 0, o["w"], 1 if o.get("s2") else 0, o.get("w2", o["w"]), o.get("c", 0), x, y)


def result_width(o):
    if o["cls"] in ("eq", "ne", "lt", "le", "gt", "ge"):
        return 1
    if o["cls"] == "conv":
        return o["w2"]
    return o["w"]


def run(ctx, args):
    quick = ctx.tier == "quick"
    build_llgo(ctx)
    src, obs = opsgen.generate()
    d = os.path.join(ctx.scratch, "ops")
    write_module(d, {"main.go": opsgen.evaluator_main(obs), "ops/ops.go": src})
    env = llgo_env(ctx)

    # ---- compile: -O0 with IR dump (the regenerated model), then -O2
    p0 = run_cmd([ctx.llgo, "build", "-tags", "nogc", "-O0", "-gen-llfiles", "-o", os.path.join(d, "prog0"), "."], d, env)
    if p0.returncode != 0:
        raise HarnessBuildError("llgo could not compile the generated one-operator package:\n" + (p0.stdout + p0.stderr)[-3000:])
    pl = run_cmd(["go", "list", "-export", "-f", "{{.Export}}", "./ops"], d, env)
    ll = pl.stdout.strip() + ".ll"
    if not os.path.exists(ll):
        # fall back: search llgo's temp dir for the module
        cands = [f for f in glob.glob(os.path.join(ctx.llgo_dir, "**", "*.ll"), recursive=True) if "ModuleID = 'verifprog/ops'" in open(f).read(300)]
        if not cands:
            raise HarnessBuildError("IR of the generated package not found (llgo build -gen-llfiles)")
        ll = cands[0]
    irtext = open(ll).read()
    p2 = run_cmd([ctx.llgo, "build", "-tags", "nogc", "-O2", "-o", os.path.join(d, "prog2"), "."], d, env)
    have_o2 = p2.returncode == 0
    if not have_o2:
        ctx.log("note: -O2 build failed:", (p2.stdout + p2.stderr)[-500:])

    # ---- regenerate Gen/C02_*.lean (delete first)
    os.makedirs(GEN_DIR, exist_ok=True)
    for f in glob.glob(os.path.join(GEN_DIR, "C02_*.lean")):
        os.remove(f)
    fns = ir2lean.parse_functions(irtext)
    untranslated = {}
    chunks = [[] for _ in range(NFILES)]
    for i, o in enumerate(obs):
        nm = "verifprog/ops." + o["name"]
        try:
            if nm not in fns:
                raise ir2lean.Unsupported("function missing from the IR")
            text = ir2lean.translate_function(nm, o["name"], *fns[nm])
            chunks[i % NFILES].append(text + "\n" + obligations.theorem(o))
        except ir2lean.Unsupported as e:
            untranslated[o["name"]] = str(e)
    gen_files = []
    for k, ch in enumerate(chunks):
        rel = "LlgoVerif/Gen/C02_%02d.lean" % k
        with open(os.path.join(LEAN, rel), "w") as f:
            f.write("import LlgoVerif.Lemmas.Arith\n/-! REGENERATED on every run of ./check C02 from the IR llgo emits for harness/irgen/opsgen.py. Do not edit. -/\n"
                    "namespace LlgoVerif.Gen.C02\nopen LlgoVerif LlgoVerif.LLVM LlgoVerif.Arith\n\n" + "\n".join(ch) + "\nend LlgoVerif.Gen.C02\n")
        gen_files.append(rel)
    fl = float_build(ctx)
    frel = "LlgoVerif/Gen/C02_float.lean"
    fchunks = []
    for c in fl["cases"]:
        if not fopsgen.has_obligation(c):
            continue
        nm = "verifprog/fops." + c["name"]
        try:
            if nm not in fl["fns"]:
                raise ir2lean.Unsupported("function missing from the IR")
            fchunks.append(ir2lean.translate_function(nm, c["name"], *fl["fns"][nm]) + "\n" + fopsgen.theorem(c))
        except ir2lean.Unsupported as e:
            untranslated[c["name"]] = str(e)
    with open(os.path.join(LEAN, frel), "w") as f:
        f.write("import LlgoVerif.Lemmas.FloatOps\n/-! REGENERATED on every run of ./check C02 from the IR llgo emits for harness/irgen/fopsgen.py. Do not edit. -/\n"
                "namespace LlgoVerif.Gen.C02F\nopen LlgoVerif LlgoVerif.LLVM LlgoVerif.FloatOps\n\n" + "\n".join(fchunks) + "\nend LlgoVerif.Gen.C02F\n")
    gen_files.append(frel)
    mods = [g[:-5].replace("/", ".") for g in gen_files] + ["LlgoVerif.Props.C02", "LlgoVerif.Props.C02Float"]
    st = lean_check(ctx, mods, gen_files + ["LlgoVerif/Props/C02.lean", "LlgoVerif/Props/C02Float.lean"],
                    extra_files=["LlgoVerif/Lemmas/Arith.lean", "LlgoVerif/Model/LLVM.lean", "LlgoVerif/Spec/GoArith.lean", "LlgoVerif/Lemmas/FloatOps.lean",
                                 "LlgoVerif/Model/SoftFloat.lean", "LlgoVerif/Model/LLVMFloat.lean", "LlgoVerif/Spec/GoFloat.lean", "LlgoVerif/Model/GoComplex.lean"],
                    leanchecker=False)
    ctx.obligations += len(untranslated)
    for n, why in untranslated.items():
        ctx.broken.append("translation of %s: %s" % (n, why))
    failed_thms = sorted(n for n, s in st.items() if s != "ok")
    failed_fn = set(n.split(".")[-1][:-5] for n in failed_thms if n.endswith("_spec")) | set(untranslated)

    # ---- execution: real code vs Lean evaluation of the specification
    modeld = build_driver(ctx, "modeld_c02")
    lines_real, lines_spec, meta = [], [], []
    for i, o in enumerate(obs):
        ops_ = operands(ctx, o, quick and o["name"] not in failed_fn)
        for (x, y) in ops_:
            lines_real.append("%d %d %d" % (i, x, y))
            lines_spec.append(spec_line(o, x, y))
            meta.append((i, x, y))
    spec_out, _, _ = run_lines([modeld], lines_spec)
    progs = [("O0", os.path.join(d, "prog0"))] + ([("O2", os.path.join(d, "prog2"))] if have_o2 else [])
    n_eval = 0
    bad_fns = {}
    for lvl, prog in progs:
        # a process killed by a signal (e.g. SIGFPE from an unguarded sdiv) is an answer too: the request it died on
        # is the failing operand; the run resumes after it
        pos, real, deaths = 0, [], 0
        while pos < len(lines_real) and deaths < 40:
            out, err, rc = run_prog(prog, input="\n".join(lines_real[pos:]) + "\n", timeout=1800)
            got = [l for l in err.split("\n") if l and l.split(" ")[0].isdigit()]
            real += got[:len(lines_real) - pos]
            pos += len(got)
            if pos < len(lines_real):
                deaths += 1
                i, x, y = meta[pos]
                real.append("%d killed(rc=%s)" % (i, rc))
                pos += 1
        if len(real) != len(lines_real):
            ctx.report_broken("evaluator-%s" % lvl, "the llgo-compiled evaluator died %d times: %d/%d answers" % (deaths, len(real), len(lines_real)))
            continue
        for k, (r, sp) in enumerate(zip(real, spec_out)):
            n_eval += 1
            i, x, y = meta[k]
            o = obs[i]
            rf = r.split(" ")
            got = rf[1] if len(rf) == 2 else r
            if got != "panic" and not got.startswith("killed"):
                try:
                    got = str(int(got) & ((1 << result_width(o)) - 1))
                except ValueError:
                    pass
            if got != sp:
                bad_fns.setdefault(o["name"], []).append((lvl, x, y, got, sp))
    for name, lst in sorted(bad_fns.items()):
        lvl, x, y, got, sp = lst[0]
        o = [o for o in obs if o["name"] == name][0]
        ctx.report("arith:%s" % name, "%s(%d, %d) = %s at -%s, Go specifies %s" % (name, x, y, got, lvl, sp),
                   {"function": name, "go": [l for l in src.split("\n") if ("func " + name + "(") in l], "x": x, "y": y,
                    "llgo_result": got, "spec_result": sp, "opt": lvl, "more": lst[1:6], "obligation": o})
    # obligations that broke without any failing operand
    silent = [n for n in failed_thms if n.split(".")[-1][:-5] not in bad_fns]
    for n in untranslated:
        if n not in bad_fns:
            silent.append("translation:" + n)
    if silent:
        ctx.report_broken("C02 obligations: " + ", ".join(silent[:6]) + (" (+%d more)" % (len(silent) - 6) if len(silent) > 6 else ""),
                          {"theorems": {n: st.get(n, untranslated.get(n.split(":")[-1])) for n in silent[:50]}})
    fstats = float_phase(ctx, quick, fl, modeld, failed_fn)
    ctx.coverage["samples"] = [obligations.theorem(obs[0]).strip(), lines_real[0] + "  -> spec " + spec_out[0],
                               {"function": "Shl_int32_uint64", "ir_lean": [c for ch in chunks for c in ch if c.startswith("def Shl_int32_uint64 ")][:1]}]
    ctx.coverage["trusted_base"] += [
        "Lean semantics of the straight-line integer LLVM subset (Model/LLVM.lean, poison = none, UB = Trap.ub) and the textual IR->Lean translator harness/irgen/ir2lean.py (fails loudly outside the subset)",
        "Spec/GoArith.lean: Go's arithmetic stated on Int values (wrap, truncated division, 2^n shifts); evaluation-safe forms proved equal in Lemmas/Arith.lean",
        "execution tie: llgo-compiled evaluator (-O0%s) on boundary x boundary + random operands vs modeld_c02" % (", -O2" if have_o2 else ""),
        "floats: Model/SoftFloat.lean (IEEE-754 binary32/64, round to nearest even, exact intermediate + one rounding) is the meaning of BOTH the LLVM float instructions (Model/LLVMFloat.lean) and Go's float operators (Spec/GoFloat.lean): the regenerated float obligations therefore establish the SHAPE of the lowering (one operation in the operand's own format, the Go predicate, sitofp/uitofp by source signedness, float->int defined wherever Go defines it); that the hardware and LLVM agree with SoftFloat is checked by execution only",
        "complex numbers: Model/GoComplex.lean is a hand model of ssa/expr.go's complex lowering and runtime.Complex128Div, tied by execution (tie B) and cross-checked against the reference toolchain; no theorem quantifies over complex operands",
    ]
    ctx.assumptions += ["LLVM 14 code generation and optimiser implement the LangRef semantics of the instructions used"]
    return ctx.finish("proof", {
        "evaluations": n_eval, "distinct_nontrivial": len(set(lines_real)),
        "rule": "one (function, x, y) triple per line, boundary x boundary + random operands per generated function; distinct by triple; every triple exercises one operator at one type pair",
        "input_distribution": {"functions": len(obs), "translated": len(obs) - len(untranslated), "opt_levels": [l for l, _ in progs],
                               "lines_per_level": len(lines_real)},
        "functions_with_wrong_results": sorted(bad_fns)[:50],
        "float_complex_execution_tie": fstats,
        "checker_cmd": "cd /verif/lean && lake build LlgoVerif.Gen.C02_00 .. C02_%02d LlgoVerif.Props.C02 (regenerated from llgo's IR) + #print axioms audit" % (NFILES - 1),
    })


def canon(v, rw):
    """canonicalise NaN bit patterns (payload and sign are not fixed by the Go spec)"""
    if rw == 64 and (v & 0x7ff0000000000000) == 0x7ff0000000000000 and (v & 0x000fffffffffffff) != 0:
        return "nan"
    if rw == 32 and (v & 0x7f800000) == 0x7f800000 and (v & 0x007fffff) != 0:
        return "nan"
    return str(v)


def i2f_rounding(w, fw, rng):
    """integers around the rounding midpoints of the destination float format: exact ties (both parities of the kept
    bit), one below / one above a tie, and a tie +- a bit far below the float64 precision (double rounding through a
    wider or narrower intermediate format shows only there)"""
    m = {32: 24, 64: 53}[fw]
    out = []
    for e in range(m, w):                     # 2^e <= |x| < 2^(e+1); ulp = 2^(e-m+1); half = 2^(e-m)
        half = 1 << (e - m)
        for keep in (0, 1, rng.getrandbits(m - 2) << 1, (rng.getrandbits(m - 2) << 1) | 1):
            base = (1 << e) + ((keep % (1 << (m - 1))) << (e - m + 1))
            for d in (0, -1, 1, rng.getrandbits(max(e - m, 1)) % half if half > 1 else 0):
                v = base + half + d
                if v < (1 << w):
                    out += [v, ((1 << w) - v) % (1 << w)]     # and its two's-complement negation (signed sources)
    return out


def float_build(ctx):
    """compile the float/complex operator package: reference toolchain, llgo -O0 (with IR dump: the regenerated model) and -O2"""
    src, cases, files = fopsgen.generate()
    d = os.path.join(ctx.scratch, "fops")
    files = dict(files)
    files["fops/fops.go"] = src
    write_module(d, files)
    pr = run_cmd(["go", "build", "-tags", "goref", "-o", os.path.join(d, "ref"), "."], d, go_env())
    if pr.returncode != 0:
        raise RuntimeError("reference build of the float evaluator failed (generator bug):\n" + (pr.stdout + pr.stderr)[-2000:])
    progs = []
    for lvl in ("O0", "O2"):
        out = os.path.join(d, "prog" + lvl)
        p = llgo_build(ctx, d, out, "-" + lvl, extra_args=["-gen-llfiles"] if lvl == "O0" else [])
        if p.returncode != 0:
            raise HarnessBuildError("llgo could not compile the float/complex operator package at -%s:\n%s" % (lvl, (p.stdout + p.stderr)[-2000:]))
        progs.append((lvl, out))
    pl = run_cmd(["go", "list", "-export", "-f", "{{.Export}}", "./fops"], d, llgo_env(ctx))
    ll = pl.stdout.strip() + ".ll"
    fns = ir2lean.parse_functions(open(ll).read()) if os.path.exists(ll) else {}
    return {"src": src, "cases": cases, "dir": d, "progs": progs, "fns": fns}


def float_phase(ctx, quick, fl, modeld, failed_fn):
    """floats and complex numbers: llgo-compiled operators (-O0, -O2) vs (1) the Lean model (Spec/GoFloat.lean over
    Model/SoftFloat.lean; Model/GoComplex.lean for llgo's complex lowering and runtime.Complex128Div) and (2) the same
    source built by the reference Go toolchain"""
    rng = ctx.rng
    src, cases, d, progs = fl["src"], fl["cases"], fl["dir"], fl["progs"]
    lines, meta = [], []
    for i, c in enumerate(cases):
        k = c["kind"]
        w = c["w"]
        if k in ("fbin", "fcmp"):
            fb = fopsgen.fboundary(w) + [rng.getrandbits(w) for _ in range(4)]
            if quick:
                fb2 = fb[::2] + fb[-3:]
            else:
                fb2 = fb
            ops_ = [(a, b, 0, 0) for a in fb for b in fb2]
        elif k == "fun":
            ops_ = [(a, 0, 0, 0) for a in fopsgen.fboundary(w) + [rng.getrandbits(w) for _ in range(16)]]
        elif k == "i2f":
            ops_ = [(a, 0, 0, 0) for a in boundary(w) + [rng.getrandbits(w) for _ in range(8)] + i2f_rounding(w, c["fw"], rng)]
        elif k == "f2i":
            fw = c["fw"]
            cand = fopsgen.fboundary(fw) + [rng.getrandbits(fw) for _ in range(40)]
            ops_ = [(a, 0, 0, 0) for a in cand if fopsgen.representable(a, fw, w, c["s"])]
        elif k in ("cbin", "ccmp"):
            fb = fopsgen.fboundary(w)
            ops_ = [(rng.choice(fb), rng.choice(fb), rng.choice(fb), rng.choice(fb)) for _ in range(150 if quick else 3000)]
            ops_ += [(a, b, a, b) for a in fb[:12] for b in fb[:12]]
            # zero and infinite divisors/factors against every special dividend (the fix-up branches of Complex128Div)
            z0, zn = fb[0], fb[1]
            special = [v for v in fb if canon(v, w) == "nan" or v in (z0, zn)] + fb[2:6] + [v for v in fb if (v & ((1 << (w - 1)) - 1)) == ({64: 0x7ff0000000000000, 32: 0x7f800000}[w])]
            ops_ += [(a, b, c_, d_) for a in special for b in special for (c_, d_) in ((z0, z0), (zn, z0), (z0, zn), (zn, zn), (special[-1], z0), (z0, special[-1]))]
        else:  # cun
            fb = fopsgen.fboundary(w)
            ops_ = [(a, b, 0, 0) for a in fb for b in fb[::3]]
        for o4 in ops_:
            lines.append("%d %d %d %d %d" % ((i,) + o4))
            meta.append((i, o4))
    inp = "\n".join(lines) + "\n"
    _, ref_err, _ = run_prog(os.path.join(d, "ref"), input=inp, timeout=1800)
    ref = [l for l in ref_err.split("\n") if l]
    model_out, _, _ = run_lines([modeld], [fopsgen.model_line(cases[i], o4) for (i, o4) in meta])
    n_eval, bad, bad_model, n_model, n_impl = 0, {}, {}, 0, 0

    def rwidth(c):
        n = c["name"]
        if c["kind"] in ("fcmp", "ccmp", "f2i"):
            return 0
        if n == "Conv_float64_float32" or n == "Conv_complex128_complex64":
            return 32
        if n == "Conv_float32_float64" or n == "Conv_complex64_complex128":
            return 64
        if c["kind"] == "i2f":
            return c["fw"]
        return c["w"]      # (incl. Neg_complex*: same width as the operand)

    for lvl, prog in progs:
        _, err, rc = run_prog(prog, input=inp, timeout=1800)
        got = [l for l in err.split("\n") if l]
        if len(got) != len(lines) or len(ref) != len(lines):
            ctx.report_broken("float-evaluator-%s" % lvl, "evaluator answered %d/%d lines (reference %d), rc=%s" % (len(got), len(lines), len(ref), rc))
            continue
        for k_, (g, r) in enumerate(zip(got, ref)):
            n_eval += 1
            i, o4 = meta[k_]
            rw = rwidth(cases[i])
            gv = [canon(int(x), rw) if x.isdigit() else x for x in g.split(" ")[1:]]
            rv = [canon(int(x), rw) if x.isdigit() else x for x in r.split(" ")[1:]]
            if cases[i]["kind"] == "f2i":
                m = (1 << cases[i]["w"]) - 1
                gv = [str(int(x) & m) for x in gv]
                rv = [str(int(x) & m) for x in rv]
            if gv != rv:
                bad.setdefault(cases[i]["name"], []).append((lvl, o4, gv, rv))
            mo = model_out[k_] if k_ < len(model_out) else "missing"
            if mo == "impl":
                n_impl += 1
                continue
            n_model += 1
            mv = [canon(int(x), rw) if x.isdigit() else x for x in mo.split(" ")]
            if gv != mv:
                bad_model.setdefault(cases[i]["name"], []).append((lvl, o4, gv, mv))
    for name, lst in sorted(bad.items()):
        lvl, o4, gv, rv = lst[0]
        ctx.report("farith:%s" % name, "%s%s = %s at -%s (bit patterns), the reference toolchain gives %s" % (name, o4, gv, lvl, rv),
                   {"function": name, "operands_bits": o4, "llgo": gv, "reference": rv, "opt": lvl, "more": lst[1:6]})
    for name, lst in sorted(bad_model.items()):
        if name in bad:
            continue      # already reported against the reference toolchain
        lvl, o4, gv, mv = lst[0]
        ctx.report("fmodel:%s" % name, "%s%s = %s at -%s (bit patterns), the Lean model (IEEE-754 round-to-nearest-even / llgo's complex lowering) gives %s" % (name, o4, gv, lvl, mv),
                   {"function": name, "operands_bits": o4, "llgo": gv, "model": mv, "opt": lvl, "more": lst[1:6],
                    "model_request": fopsgen.model_line([c for c in cases if c["name"] == name][0], o4)})
    return {"functions": len(cases), "lines_per_level": len(lines), "evaluations": n_eval, "functions_with_wrong_results": sorted(bad),
            "model_evaluations": n_model, "model_left_open_by_go": n_impl, "functions_differing_from_the_lean_model": sorted(bad_model),
            "oracle": "same source built with the reference Go toolchain; NaN payloads canonicalised; float->int only on representable operands"}


def run_cmd(cmd, cwd, env):
    from vlib.common import run as _run
    return _run(cmd, cwd=cwd, env=env, timeout=1800)
