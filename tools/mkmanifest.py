#!/usr/bin/env python3
"""Regenerates /verif/MANIFEST.json from the table below (kept in one place so it stays valid)."""
import json, os
V = os.path.dirname(os.path.dirname(os.path.abspath(__file__)))
props = [json.loads(l) for l in open(os.path.join(V, "properties.jsonl"))]

CLAIMED = {
 "C17": dict(
   category="proof",
   text="Lean 4 theorems over an executable model of shellparse.Parse (round trip of the documented double- and single-quote forms for every argument list), with the model tied to the working tree by a differential run of the real Go functions (shellparse, safesplit, buildtags, env templates) against the compiled model on generated valid and malformed inputs; the specification (split(join(args)) = args) is judged on the real code's output.",
   design="DESIGN.md §4 C17",
   note="Trusted: Lean kernel (axioms propext/Classical.choice/Quot.sound only), the hand-written model's tie is differential testing (generator in checks/c17.py), go/build evaluates tag expressions (not llgo code). safesplit round-trip theorem holds only under the explicit WF predicate; three non-WF classes are listed known findings.",
   technique="Lean 4 proof over hand-written model + differential correspondence with the Go code"),
}

checks = []
for p in props:
    pid = p["id"]
    if pid in CLAIMED:
        c = CLAIMED[pid]
        checks.append({
            "property_id": pid,
            "quick_cmd": "./check %s --tier quick" % pid,
            "thorough_cmd": "./check %s --tier thorough" % pid,
            "evidence_file": "/verif/evidence/%s.json" % pid,
            "replay_cmd_template": "./check %s --replay {path}" % pid,
            "engine": "lean4+correspondence",
            "level_claimed": {"category": c["category"], "text": c["text"], "design_ref": c["design"]},
            "level_note": c["note"],
            "technique": c["technique"],
        })
na = [{"property_id": p["id"], "reason": "check not built yet in this round (planned, see DESIGN.md §4 %s); nothing is claimed for it until its Lean model, theorems and correspondence exist" % p["id"]}
      for p in props if p["id"] not in CLAIMED]
m = {
 "version": 1,
 "setup_cmd": "cd /verif/lean && lake build",
 "hooks": {"guard": "verif",
           "enable": "harnesses are built with `go build -tags verif -overlay <file>`: overlay files under /verif/harness/*/overlay add exported accessors to internal packages; nothing is committed to /repo for hooks",
           "baseline_off_cmd": "cd /repo && go build ./... && go test -vet=off -count=1 ./... ; cd /repo/runtime && go test -vet=off -count=1 ./...",
           "source_commits": [], "add_only": True},
 "engines": [{"name": "lean4+correspondence", "path": "/verif/lean", "serves_properties": sorted(CLAIMED),
              "kind_free_text": "Lean 4.33 lake project (models, specs, theorems, line-protocol drivers) + Go harnesses built from /repo's working tree + Python orchestration (./check)"}],
 "checks": checks,
 "not_applicable": na,
 "notes": "Technique family: machine-checked proof in Lean 4; see DESIGN.md. KNOWN_FINDINGS.jsonl lists genuine defects that are recorded rather than repaired.",
}
json.dump(m, open(os.path.join(V, "MANIFEST.json"), "w"), indent=1)
print("claimed:", sorted(CLAIMED), "n/a:", len(na))
