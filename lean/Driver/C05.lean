/-! placeholder driver (property C05 not built yet) -/
def main : IO Unit := IO.println "bad-op"
