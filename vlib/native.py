"""Native-copy route (DESIGN.md §2.2 B-N): copy llgo runtime sources VERBATIM from the working tree into a
scratch Go module, rewrite only their import paths to stand-ins, and compile them with the ordinary Go toolchain.

The scratch module is named github.com/goplus/llgo/runtime/internal/vn so that the real, pure-Go
`runtime/internal/runtime/{goarch,math}` and `runtime/abi` packages are importable unchanged.

Mechanical edits applied by the copier (all listed in the evidence):
  1. import paths  clite -> vn/clite, clite/pthread/sync -> vn/psync, clite/sync/atomic -> vn/catomic,
     clite/time -> vn/ctime, clite/bitcast -> vn/bitcast;
  2. `//go:linkname <local> <pkg>.<name>` PUSH directives (onto reflect / maps / sync …) are commented out
     (they would collide with the host Go runtime at link time);
  3. body-less C-bound declarations listed in `drop_decls` (e.g. fastrand, srand) and the functions listed in
     `drop_funcs` (e.g. stubs.go `init`) are removed; the harness supplies them (`extra` files).
"""
import os
import re
import shutil

from .common import REPO, VERIF, go_env, run, HarnessBuildError

STANDINS = os.path.join(VERIF, "harness", "native", "standins")
RT = "runtime/internal/runtime"
VN = "github.com/goplus/llgo/runtime/internal/vn"

IMPORT_MAP = [
    ('"github.com/goplus/llgo/runtime/internal/clite/pthread/sync"', '"%s/psync"' % VN, "sync"),
    ('"github.com/goplus/llgo/runtime/internal/clite/sync/atomic"', '"%s/catomic"' % VN, "atomic"),
    ('"github.com/goplus/llgo/runtime/internal/clite/time"', '"%s/ctime"' % VN, "time"),
    ('"github.com/goplus/llgo/runtime/internal/clite/bitcast"', '"%s/bitcast"' % VN, "bitcast"),
    ('"github.com/goplus/llgo/runtime/internal/clite"', '"%s/clite"' % VN, None),
]


def rewrite_source(src, drop_decls=(), drop_funcs=(), package=None):
    edits = []
    for old, new, alias in IMPORT_MAP:
        if old in src:
            # keep the local name the file uses: aliased imports keep their alias, plain ones get one
            def repl(m):
                pre = m.group(1)
                if pre.strip():
                    return pre + new
                return (alias + " " if alias else "") + new
            src2 = re.sub(r'((?:[A-Za-z_][A-Za-z0-9_]*\s+)?)' + re.escape(old), repl, src)
            if src2 != src:
                edits.append("import " + old + " -> " + new)
                src = src2
    # push linknames: directive followed by a function WITH body; pull ones are handled by drop_decls
    def lk(m):
        name = m.group(2)
        if name in drop_decls:
            return m.group(0)
        edits.append("commented out //go:linkname " + name)
        return "// (verif) " + m.group(1)
    src = re.sub(r'^(//go:linkname (\S+) (?!C\.)\S+)$', lk, src, flags=re.M)
    for d in drop_decls:
        # //go:linkname d C.x \n func d(...) ...   (body-less)
        pat = re.compile(r'^//go:linkname %s \S+\n(?://[^\n]*\n)*func %s\([^\n]*\n' % (re.escape(d), re.escape(d)), re.M)
        src, n = pat.subn("", src)
        if n:
            edits.append("dropped C-bound declaration " + d)
    for f in drop_funcs:
        # remove `func f(...) {` ... matching closing brace at column 0
        pat = re.compile(r'^func %s\([^\n]*\{\n.*?^\}\n' % re.escape(f), re.M | re.S)
        src, n = pat.subn("", src)
        if n:
            edits.append("dropped function " + f)
    if drop_funcs and "ctime" in src and not re.search(r"\btime\.[A-Z]", src):
        src += "\nvar _ = time.Time // (verif) keeps the import used after init was dropped\n"
    if package:
        src = re.sub(r'^package \w+', "package " + package, src, count=1, flags=re.M)
    return src, edits


def make_native(ctx, files, extra, main_files, drop_decls=("fastrand", "srand"), drop_funcs=("init",),
                other=None, name="native", tags="verif"):
    """files: runtime file names copied from REPO/runtime/internal/runtime into package `rt`.
    extra: {filename: go source} added to package rt (supplies fastrand, AllocZ, ...).
    main_files: {filename: go source} of the driver program (package main, imports VN/rt).
    other: {(repo relative path): (subdir, package)} more verbatim copies into their own packages.
    Returns path of the built binary."""
    d = os.path.join(ctx.scratch, name)
    shutil.rmtree(d, ignore_errors=True)
    os.makedirs(os.path.join(d, "rt"))
    for sub in os.listdir(STANDINS):
        shutil.copytree(os.path.join(STANDINS, sub), os.path.join(d, sub))
    all_edits = {}
    for fn in files:
        src = open(os.path.join(REPO, RT, fn)).read()
        dd = drop_decls if fn == "stubs.go" else ()
        df = drop_funcs if fn == "stubs.go" else ()
        out, edits = rewrite_source(src, dd, df)
        all_edits[fn] = edits
        open(os.path.join(d, "rt", fn), "w").write(out)
    for (rel, (sub, pkg)) in (other or {}).items():
        src = open(os.path.join(REPO, rel)).read()
        out, edits = rewrite_source(src, package=pkg)
        os.makedirs(os.path.join(d, sub), exist_ok=True)
        all_edits[rel] = edits
        open(os.path.join(d, sub, os.path.basename(rel)), "w").write(out)
    for fn, src in extra.items():
        open(os.path.join(d, "rt", fn), "w").write(src)
    for fn, src in main_files.items():
        p = os.path.join(d, fn)
        os.makedirs(os.path.dirname(p), exist_ok=True)
        open(p, "w").write(src)
    open(os.path.join(d, "go.mod"), "w").write(
        "module %s\n\ngo 1.24\n\nrequire github.com/goplus/llgo/runtime v0.0.0\n\nreplace github.com/goplus/llgo/runtime => %s/runtime\n" % (VN, REPO))
    p = run(["go", "build", "-tags", tags, "-o", os.path.join(d, "native.bin"), "."], cwd=d, env=go_env())
    if p.returncode != 0:
        raise HarnessBuildError("native copy of the runtime no longer compiles under the stand-ins:\n" + (p.stdout + p.stderr)[-6000:])
    ctx.coverage.setdefault("native_copy_edits", {}).update(all_edits)
    ctx.coverage["trusted_base"].append(
        "native-copy route: runtime sources copied verbatim from the working tree, only import paths rewritten to Go stand-ins "
        "(clite Memcpy/Memmove/Memset/Advance, psync scheduler, scripted fastrand, make-based AllocZ/AllocU); listed edits in native_copy_edits")
    return os.path.join(d, "native.bin")


# a default `extra` file supplying what stubs.go's dropped declarations and the allocator provide
RT_SUPPORT = '''package runtime

import "unsafe"

// ---- supplied by the /verif native harness ----

// FastrandScript is consumed first; afterwards a fixed LCG (deterministic).
var FastrandScript []uint32
var fastrandState uint32 = 12345
var FastrandCalls int

func fastrand() uint32 {
	FastrandCalls++
	if len(FastrandScript) > 0 {
		v := FastrandScript[0]
		FastrandScript = FastrandScript[1:]
		return v
	}
	fastrandState = fastrandState*1664525 + 1013904223
	return fastrandState >> 1
}

func srand(uint32) {}

var allocKeep [][]uint64

func allocBytes(size uintptr) unsafe.Pointer {
	if size == 0 {
		size = 1
	}
	b := make([]uint64, (size+7)/8)
	allocKeep = append(allocKeep, b)
	return unsafe.Pointer(&b[0])
}

// AllocU returns memory with DIRTY contents (0xAA pattern), as malloc may.
func AllocU(size uintptr) unsafe.Pointer {
	p := allocBytes(size)
	b := unsafe.Slice((*byte)(p), size)
	for i := range b {
		b[i] = 0xAA
	}
	return p
}

func AllocZ(size uintptr) unsafe.Pointer { return allocBytes(size) }

func SetHashkey(a, b, c, d uintptr) { hashkey = [4]uintptr{a | 1, b | 1, c | 1, d | 1} }
'''
