/-! placeholder driver (property C20 not built yet) -/
def main : IO Unit := IO.println "bad-op"
