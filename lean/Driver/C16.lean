import LlgoVerif.Util
import LlgoVerif.Model.Embed
/-! Line-protocol driver for C16 (model of `internal/goembed`).  One request per line, one answer per line.
    `H` = hex of bytes, `-` = empty.

    * `resolve C TREE H…`   `C` = `0` (code as it stands) | `1` (with fixes/C16-1.diff); patterns follow.
      `TREE` = `-` (empty directory) or comma-separated tokens in prefix order:
      `f:NAME:DATA` file, `d:NAME` … `e` directory, `l:NAME` + one node (what the link resolves to; its own
      name is ignored), `x:NAME` dangling link, `i:NAME` irregular file.
      → `ok NAME=DATA,NAME=DATA…` | `err` | `unsupported` (a name outside the `unicode.IsLetter` table)
    * `match PAT NAME` → `true` | `false` | `err`          (`path.Match`)
    * `badname NAME` → `true` | `false` | `unsupported`     (`IsBadName`)
    * `validpat PAT` → `V S` two flags `t`/`f`: `ValidPattern`, `path.Match(pat, "")` has no error
    * `split ARGS` → `ok H H…` | `ok .` | `err`             (`SplitArgs`)
    * `parsedir TEXT` → `nodirective` | `err` | `unsupported` | `ok H H…` | `ok .`   (`ParsePatterns` of one comment)
    * `fsentries NAME=DATA,…` → `ok NAME=DATA,…` | `unsupported` (a name that is not a clean relative path)
    * `isletter N` → `true` | `false` | `outside`
-/
open LlgoVerif LlgoVerif.Util LlgoVerif.Embed

def unhexStr (h : String) : Option Str := (unhex h).map fun bs => bs.map (·.toNat)
def hexStr (s : Str) : String := hex (s.map UInt8.ofNat)

def hexList (l : List Str) : String := if l.isEmpty then "." else " ".intercalate (l.map hexStr)

def hexFiles (fs : Seen) : String :=
  if fs.isEmpty then "." else ",".intercalate (fs.map fun f => hexStr f.1 ++ "=" ++ hexStr f.2)

/-- parse one node starting at the head token: `(name, node, remaining tokens)` -/
partial def parseNode : List String → Option (Str × Node × List String)
  | [] => none
  | tok :: rest =>
    match tok.splitOn ":" with
    | ["f", nm, dat] => do
      let nm ← unhexStr nm
      let dat ← unhexStr dat
      pure (nm, .file dat, rest)
    | ["d", nm] => do
      let nm ← unhexStr nm
      let (es, rest') ← parseEnts rest
      pure (nm, .dir es, rest')
    | ["l", nm] => do
      let nm ← unhexStr nm
      let (_, target, rest') ← parseNode rest
      pure (nm, .link target, rest')
    | ["x", nm] => do
      let nm ← unhexStr nm
      pure (nm, .dangling, rest)
    | ["i", nm] => do
      let nm ← unhexStr nm
      pure (nm, .irregular, rest)
    | _ => none
where
  /-- entries up to the closing `e` (or the end of input at top level) -/
  parseEnts : List String → Option (Ents × List String)
    | [] => some (.nil, [])
    | "e" :: rest => some (.nil, rest)
    | toks => do
      let (nm, n, rest) ← parseNode toks
      let (es, rest') ← parseEnts rest
      pure (.cons nm n es, rest')

def parseTree (s : String) : Option Node :=
  if s = "-" then some (.dir .nil) else
  match parseNode.parseEnts (s.splitOn ",") with
  | some (es, []) => some (.dir es)
  | _ => none

def supportedName (s : Str) : Bool := (runes s).all inLetterDomain

mutual
  partial def nodeSupported : Node → Bool
    | .dir es => entsSupported es
    | .link t => nodeSupported t
    | _ => true
  partial def entsSupported : Ents → Bool
    | .nil => true
    | .cons nm n rest => supportedName nm && nodeSupported n && entsSupported rest
end

def parseFiles (s : String) : Option Seen :=
  if s = "." then some [] else
  (s.splitOn ",").mapM fun kv =>
    match kv.splitOn "=" with
    | [k, v] => do pure ((← unhexStr k), (← unhexStr v))
    | _ => none

def flag (b : Bool) : String := if b then "t" else "f"

def handle (line : String) : String :=
  match fields line with
  | "resolve" :: c :: tree :: pats =>
    match parseTree tree, pats.mapM unhexStr with
    | some root, some ps =>
      if !nodeSupported root then "unsupported" else
      match resolve ⟨c = "1"⟩ root ps with
      | .ok fs => "ok " ++ hexFiles fs
      | .error _ => "err"
    | _, _ => "bad-op"
  | ["match", p, n] =>
    match unhexStr p, unhexStr n with
    | some p, some n =>
      match pathMatch p n with
      | .ok b => toString b
      | .error _ => "err"
    | _, _ => "bad-op"
  | ["badname", n] =>
    match unhexStr n with
    | some n => if !supportedName n then "unsupported" else toString (isBadName n)
    | none => "bad-op"
  | ["validpat", p] =>
    match unhexStr p with
    | some p => flag (validPattern p) ++ " " ++ flag (globSyntaxOK p)
    | none => "bad-op"
  | ["split", a] =>
    match unhexStr a with
    | some a =>
      match splitArgs a with
      | .ok l => "ok " ++ hexList l
      | .error _ => "err"
    | none => "bad-op"
  | ["parsedir", t] =>
    match unhexStr t with
    | some t =>
      match parseLine t with
      | .noDirective => "nodirective"
      | .err => "err"
      | .unsupported => "unsupported"
      | .pats ps => "ok " ++ hexList ps
    | none => "bad-op"
  | ["fsentries", fs] =>
    match parseFiles fs with
    | some files =>
      if files.all fun f => cleanRel f.1 then "ok " ++ hexFiles (buildFSEntries files) else "unsupported"
    | none => "bad-op"
  | ["isletter", n] =>
    match n.toNat? with
    | some r => if inLetterDomain r then toString (isLetter r) else "outside"
    | none => "bad-op"
  | _ => "bad-op"

def main : IO Unit := lineLoop handle
