import LlgoVerif.Lemmas.GoType
/-!
# C07: `nameC` is injective up to type identity on the covered fragment

`renderKey_inj` (a named type's rendering determines package path, name and scope indices),
the package bookkeeping of struct / interface prefixes, and the mutual structural induction
`inj_T` / `inj_L` / `inj_F` / `inj_M`.
-/
namespace LlgoVerif.Types

/-! ## rendering of a declaration key -/

def scopeIdx (idx : List Nat) : Str := idx.flatMap fun i => '.' :: dec i

/-- what `TypeName` writes after `_llgo_` for a named type without type arguments -/
def renderKey : Key → Str
  | (none, name, _) => name
  | (some p, name, idx) => p ++ '.' :: (name ++ scopeIdx idx)

theorem scopeIdx_cons (i : Nat) (r : List Nat) : scopeIdx (i :: r) = '.' :: dec i ++ scopeIdx r := by
  simp [scopeIdx]

theorem dec_nodot (i : Nat) : '.' ∉ dec i := by
  intro h; have := dec_isDigit i _ h; revert this; decide

theorem segs_name_scope : ∀ (idx : List Nat) (name : Str), '.' ∉ name →
    segs (name ++ scopeIdx idx) = name :: idx.map dec
  | [], name, h => by simp [scopeIdx, segs_nodot name h]
  | i :: r, name, h => by
    rw [scopeIdx_cons]
    have : name ++ ('.' :: dec i ++ scopeIdx r) = name ++ '.' :: (dec i ++ scopeIdx r) := by simp
    rw [this, segs_append_dot, segs_nodot name h, segs_name_scope r (dec i) (dec_nodot i)]
    simp

/-- first character is a digit -/
def headDigit (s : Str) : Prop := ∃ c r, s = c :: r ∧ isDigit c = true

theorem headDigit_dec (i : Nat) : headDigit (dec i) := by
  cases h : dec i with
  | nil => exact absurd h (dec_ne_nil i)
  | cons c r => exact ⟨c, r, rfl, dec_isDigit i c (by simp [h])⟩

theorem not_headDigit_ident {s : Str} (h : identOk s = true) : ¬ headDigit s := by
  rintro ⟨c, r, rfl, hd⟩
  simp [identOk, hd] at h

theorem map_dec_inj : ∀ (a b : List Nat), a.map dec = b.map dec → a = b
  | [], [], _ => rfl
  | [], _ :: _, h => by simp at h
  | _ :: _, [], h => by simp at h
  | x :: a, y :: b, h => by
    simp at h
    rw [dec_inj h.1, map_dec_inj a b h.2]

/-- a key as `keyOf` produces it for a well-formed named type -/
def KeyOk (k : Key) : Prop :=
  identOk k.2.1 = true ∧
  match k.1 with
  | none => k.2.2 = [] ∧ reserved.contains k.2.1 = false
  | some p => ∀ c ∈ p, pathChar c = true

theorem renderKey_inj {k₁ k₂ : Key} (h1 : KeyOk k₁) (h2 : KeyOk k₂) (h : renderKey k₁ = renderKey k₂) : k₁ = k₂ := by
  obtain ⟨p₁, n₁, i₁⟩ := k₁
  obtain ⟨p₂, n₂, i₂⟩ := k₂
  obtain ⟨hn₁, hk₁⟩ := h1
  obtain ⟨hn₂, hk₂⟩ := h2
  simp only at hn₁ hn₂ hk₁ hk₂
  cases p₁ with
  | none =>
    cases p₂ with
    | none =>
      simp only [renderKey] at h
      simp only at hk₁ hk₂
      rw [h, hk₁.1, hk₂.1]
    | some p₂ =>
      simp only [renderKey] at h
      have : '.' ∈ n₁ := by rw [h]; simp
      exact absurd this (identOk_notin hn₁).1
  | some p₁ =>
    cases p₂ with
    | none =>
      simp only [renderKey] at h
      have : '.' ∈ n₂ := by rw [← h]; simp
      exact absurd this (identOk_notin hn₂).1
    | some p₂ =>
      simp only [renderKey] at h
      have hs := congrArg segs h
      rw [segs_append_dot, segs_append_dot, segs_name_scope _ _ (identOk_notin hn₁).1,
        segs_name_scope _ _ (identOk_notin hn₂).1] at hs
      have hr := congrArg List.reverse hs
      simp only [List.reverse_append, List.reverse_cons, List.append_assoc, List.singleton_append] at hr
      have key := split_at_last_nonq headDigit _ _ _ _ _ _
        (by intro d hd; simp at hd; obtain ⟨i, _, rfl⟩ := hd; exact headDigit_dec i)
        (by intro d hd; simp at hd; obtain ⟨i, _, rfl⟩ := hd; exact headDigit_dec i)
        (not_headDigit_ident hn₁) (not_headDigit_ident hn₂) hr
      obtain ⟨hD, hN, hA⟩ := key
      have hp : p₁ = p₂ := segs_inj (by simpa using hA)
      have hi : i₁ = i₂ := map_dec_inj _ _ (by simpa using hD)
      rw [hp, hN, hi]

/-! ## `nameC` of a named type is the rendering of its key -/

theorem scopeStr_eq (p : Str) (sc : Scope) (h : scOk sc = true) :
    scopeStr (some p) sc = scopeIdx (scIdx sc) := by
  cases sc with
  | pkg => simp [scopeStr, scopeIdx, scIdx]
  | path idx => simp [scopeStr, scopeIdx, scIdx]
  | pos q => simp [scOk] at h

theorem scopeIdx_inj {a b : List Nat} (h : scopeIdx a = scopeIdx b) : a = b := by
  have h' : ([] : Str) ++ scopeIdx a = [] ++ scopeIdx b := by simpa using h
  have := congrArg segs h'
  rw [segs_name_scope _ _ (by simp), segs_name_scope _ _ (by simp)] at this
  exact map_dec_inj _ _ (by simpa using this)

theorem scopeIdx_clean (idx : List Nat) : Clean (scopeIdx idx) := by
  intro c hc
  simp [scopeIdx] at hc
  obtain ⟨i, _, h⟩ := hc
  rcases h with rfl | h
  · decide
  · exact isDigit_path (dec_isDigit i c h)

/-- what `TypeName` writes after `_llgo_` for a named type: the key with the bracketed type
    arguments between name and scope -/
def renderNamed (k : Key) (args : Str) : Str :=
  match k with
  | (none, name, _) => name ++ args
  | (some p, name, idx) => p ++ '.' :: (name ++ args ++ scopeIdx idx)

/-- an argument part: nothing, or a balanced text in brackets -/
def ArgsShape (a : Str) : Prop := a = [] ∨ ∃ A, a = '[' :: A ++ [']'] ∧ Balanced A

theorem renderNamed_nil (k : Key) : renderNamed k [] = renderKey k := by
  obtain ⟨p, n, i⟩ := k
  cases p <;> simp [renderNamed, renderKey]

theorem renderNamed_inj {k₁ k₂ : Key} {a₁ a₂ : Str} (h1 : KeyOk k₁) (h2 : KeyOk k₂)
    (s1 : ArgsShape a₁) (s2 : ArgsShape a₂) (n1 : k₁.1 = none → a₁ = []) (n2 : k₂.1 = none → a₂ = [])
    (h : renderNamed k₁ a₁ = renderNamed k₂ a₂) : k₁ = k₂ ∧ a₁ = a₂ := by
  obtain ⟨p₁, nm₁, i₁⟩ := k₁
  obtain ⟨p₂, nm₂, i₂⟩ := k₂
  have hn₁ := h1.1
  have hn₂ := h2.1
  simp only at hn₁ hn₂ n1 n2
  have both_nil : a₁ = [] → a₂ = [] → (p₁, nm₁, i₁) = (p₂, nm₂, i₂) ∧ a₁ = a₂ := by
    intro e1 e2
    subst e1; subst e2
    rw [renderNamed_nil, renderNamed_nil] at h
    exact ⟨renderKey_inj h1 h2 h, rfl⟩
  cases p₁ with
  | none =>
    have e1 := n1 rfl
    cases p₂ with
    | none => exact both_nil e1 (n2 rfl)
    | some q =>
      subst e1
      simp only [renderNamed, List.append_nil] at h
      have : '.' ∈ nm₁ := by rw [h]; simp
      exact absurd this (identOk_notin hn₁).1
  | some p =>
    cases p₂ with
    | none =>
      have e2 := n2 rfl
      subst e2
      simp only [renderNamed, List.append_nil] at h
      have : '.' ∈ nm₂ := by rw [← h]; simp
      exact absurd this (identOk_notin hn₂).1
    | some q =>
      have hp : Clean p := h1.2
      have hq : Clean q := h2.2
      have nob : ∀ (P nm : Str) (idx : List Nat), Clean P → identOk nm = true → '[' ∉ P ++ '.' :: (nm ++ scopeIdx idx) := by
        intro P nm idx hP hnm hm
        have hc : Clean (P ++ '.' :: (nm ++ scopeIdx idx)) :=
          clean_append hP (clean_cons (by decide) (clean_append (identOk_clean hnm) (scopeIdx_clean idx)))
        have := hc _ hm; revert this; decide
      rcases s1 with e1 | ⟨A₁, e1, b1⟩ <;> rcases s2 with e2 | ⟨A₂, e2, b2⟩
      · exact both_nil e1 e2
      · exfalso
        subst e1; subst e2
        simp only [renderNamed, List.append_nil] at h
        have : '[' ∈ p ++ '.' :: (nm₁ ++ scopeIdx i₁) := by rw [h]; simp
        exact nob p nm₁ i₁ hp hn₁ this
      · exfalso
        subst e1; subst e2
        simp only [renderNamed, List.append_nil] at h
        have : '[' ∈ q ++ '.' :: (nm₂ ++ scopeIdx i₂) := by rw [← h]; simp
        exact nob q nm₂ i₂ hq hn₂ this
      · subst e1; subst e2
        simp only [renderNamed] at h
        have h' : (p ++ '.' :: nm₁) ++ '[' :: (A₁ ++ ']' :: scopeIdx i₁) = (q ++ '.' :: nm₂) ++ '[' :: (A₂ ++ ']' :: scopeIdx i₂) := by
          simpa using h
        have nb1 : '[' ∉ p ++ '.' :: nm₁ := by
          have := nob p nm₁ [] hp hn₁; simpa [scopeIdx] using this
        have nb2 : '[' ∉ q ++ '.' :: nm₂ := by
          have := nob q nm₂ [] hq hn₂; simpa [scopeIdx] using this
        have sp := splitFirst '[' _ _ _ _ nb1 nb2 h'
        have sc := split_close_key b1 b2 sp.2
        have hk : ((some p, nm₁, ([] : List Nat)) : Key) = (some q, nm₂, []) := by
          apply renderKey_inj (k₁ := (some p, nm₁, [])) (k₂ := (some q, nm₂, [])) ⟨hn₁, h1.2⟩ ⟨hn₂, h2.2⟩
          simpa [renderKey, scopeIdx] using sp.1
        have hi := scopeIdx_inj sc.2
        simp only [Prod.mk.injEq, Option.some.injEq] at hk
        rw [hk.1, hk.2.1, hi, sc.1]
        exact ⟨rfl, rfl⟩

theorem name_named_eq (hc : Str → Str) {cfg : Cfg} {ex : Str → Bool} (d : Nat) (pkg : Option Str) (name : Str) (sc : Scope) (targs : TList)
    (h : wfT cfg ex (.named d pkg name sc targs) = true) :
    nameC cfg hc false (.named d pkg name sc targs) = llgoPrefix ++ renderNamed (keyOf pkg name sc) (argsPart targs) ∧
      KeyOk (keyOf pkg name sc) ∧ ArgsShape (argsPart targs) ∧ ((keyOf pkg name sc).1 = none → argsPart targs = []) := by
  obtain ⟨hn, ht, hs, hp, hq⟩ := name_named_shape d pkg name sc targs h
  have shape : ArgsShape (argsPart targs) := by
    unfold argsPart
    split
    · exact Or.inl rfl
    · exact Or.inr ⟨_, rfl, (argStrs_inv targs ht).bal⟩
  simp only [nameC, namedName_eq]
  cases pkg with
  | none =>
    have : targs = .nil := by
      rcases hq with hq | hq
      · simp at hq
      · exact hq
    subst this
    simp only [fullName, keyOf, renderNamed, scopeStr, List.append_nil]
    refine ⟨trivial, ⟨hn, rfl, ?_⟩, shape, fun _ => by simp [argsPart, TList.isNil]⟩
    simpa [namedPkgOk] using hp
  | some p =>
    simp only [fullName, keyOf, renderNamed, scopeStr_eq p sc hs]
    refine ⟨trivial, ⟨hn, pathOf_chars (pathOk_chars (namedPkgOk_some hp).1)⟩, shape, fun e => by simp at e⟩

/-! ## identity of field / method lists without the package component -/

def identicalFN : FList → FList → Bool
  | .nil, .nil => true
  | .cons n _ e g t r, .cons n' _ e' g' t' r' =>
    n == n' && e == e' && g == g' && identical t t' && identicalFN r r'
  | _, _ => false

def pkgsEqF : FList → FList → Bool
  | .nil, .nil => true
  | .cons _ p _ _ _ r, .cons _ p' _ _ _ r' => p == p' && pkgsEqF r r'
  | _, _ => false

def identicalMN : MList → MList → Bool
  | .nil, .nil => true
  | .cons n _ s r, .cons n' _ s' r' => n == n' && identical s s' && identicalMN r r'
  | _, _ => false

def pkgsEqM : MList → MList → Bool
  | .nil, .nil => true
  | .cons _ p _ r, .cons _ p' _ r' => p == p' && pkgsEqM r r'
  | _, _ => false

theorem identicalF_split : ∀ (a b : FList), identicalF a b = (identicalFN a b && pkgsEqF a b)
  | .nil, .nil => by simp [identicalF, identicalFN, pkgsEqF]
  | .nil, .cons _ _ _ _ _ _ => by simp [identicalF, identicalFN]
  | .cons _ _ _ _ _ _, .nil => by simp [identicalF, identicalFN]
  | .cons n p e g t r, .cons n' p' e' g' t' r' => by
    simp only [identicalF, identicalFN, pkgsEqF, identicalF_split r r']
    cases (n == n') <;> cases (p == p') <;> cases (e == e') <;> cases (g == g') <;>
      cases (identical t t') <;> cases (identicalFN r r') <;> cases (pkgsEqF r r') <;> rfl

theorem identicalM_split : ∀ (a b : MList), identicalM a b = (identicalMN a b && pkgsEqM a b)
  | .nil, .nil => by simp [identicalM, identicalMN, pkgsEqM]
  | .nil, .cons _ _ _ _ => by simp [identicalM, identicalMN]
  | .cons _ _ _ _, .nil => by simp [identicalM, identicalMN]
  | .cons n p s r, .cons n' p' s' r' => by
    simp only [identicalM, identicalMN, pkgsEqM, identicalM_split r r']
    cases (n == n') <;> cases (p == p') <;> cases (identical s s') <;>
      cases (identicalMN r r') <;> cases (pkgsEqM r r') <;> rfl

theorem firstPkgF_of_pkgsEq : ∀ (a b : FList), pkgsEqF a b = true → firstPkgF a = firstPkgF b
  | .nil, .nil, _ => rfl
  | .nil, .cons _ _ _ _ _ _, h => by simp [pkgsEqF] at h
  | .cons _ _ _ _ _ _, .nil, h => by simp [pkgsEqF] at h
  | .cons _ p _ _ _ r, .cons _ p' _ _ _ r', h => by
    simp only [pkgsEqF, Bool.and_eq_true, beq_iff_eq] at h
    obtain ⟨rfl, h⟩ := h
    have := firstPkgF_of_pkgsEq r r' h
    simp [firstPkgF, this]

theorem firstPkgM_of_pkgsEq : ∀ (a b : MList), pkgsEqM a b = true → firstPkgM a = firstPkgM b
  | .nil, .nil, _ => rfl
  | .nil, .cons _ _ _ _, h => by simp [pkgsEqM] at h
  | .cons _ _ _ _, .nil, h => by simp [pkgsEqM] at h
  | .cons _ p _ r, .cons _ p' _ r', h => by
    simp only [pkgsEqM, Bool.and_eq_true, beq_iff_eq] at h
    obtain ⟨rfl, h⟩ := h
    have := firstPkgM_of_pkgsEq r r' h
    simp [firstPkgM, this]

theorem pkgsEqF_of_uniform {cfg : Cfg} {ex : Str → Bool} (q : Str) : ∀ (a b : FList), wfF cfg ex a = true → wfF cfg ex b = true →
    uniformF q a = true → uniformF q b = true → identicalFN a b = true → pkgsEqF a b = true
  | .nil, .nil, _, _, _, _, _ => rfl
  | .nil, .cons _ _ _ _ _ _, _, _, _, _, h => by simp [identicalFN] at h
  | .cons _ _ _ _ _ _, .nil, _, _, _, _, h => by simp [identicalFN] at h
  | .cons n p e g t r, .cons n' p' e' g' t' r', w1, w2, u1, u2, h => by
    simp only [wfF, Bool.and_eq_true] at w1 w2
    simp only [uniformF, Bool.and_eq_true] at u1 u2
    simp only [identicalFN, Bool.and_eq_true, beq_iff_eq] at h
    obtain ⟨⟨⟨⟨hn, _⟩, _⟩, _⟩, hr⟩ := h
    have ih := pkgsEqF_of_uniform q r r' w1.2 w2.2 u1.2 u2.2 hr
    simp only [pkgsEqF, Bool.and_eq_true, beq_iff_eq, ih, and_true]
    have e1 := w1.1.1.1.2
    have e2 := w2.1.1.1.2
    subst hn
    cases p with
    | none =>
      cases p' with
      | none => rfl
      | some b => simp at e1 e2; rw [e1] at e2; cases e2
    | some a =>
      cases p' with
      | none => simp at e1 e2; rw [e2] at e1; cases e1
      | some b =>
        have ha : a = q := by simpa using u1.1
        have hb : b = q := by simpa using u2.1
        rw [ha, hb]

theorem pkgsEqM_of_uniform {cfg : Cfg} {ex : Str → Bool} (q : Str) : ∀ (a b : MList), wfM cfg ex a = true → wfM cfg ex b = true →
    uniformM q a = true → uniformM q b = true → identicalMN a b = true → pkgsEqM a b = true
  | .nil, .nil, _, _, _, _, _ => rfl
  | .nil, .cons _ _ _ _, _, _, _, _, h => by simp [identicalMN] at h
  | .cons _ _ _ _, .nil, _, _, _, _, h => by simp [identicalMN] at h
  | .cons n p s r, .cons n' p' s' r', w1, w2, u1, u2, h => by
    simp only [wfM, Bool.and_eq_true] at w1 w2
    simp only [uniformM, Bool.and_eq_true] at u1 u2
    simp only [identicalMN, Bool.and_eq_true, beq_iff_eq] at h
    obtain ⟨⟨hn, _⟩, hr⟩ := h
    have ih := pkgsEqM_of_uniform q r r' w1.2 w2.2 u1.2 u2.2 hr
    simp only [pkgsEqM, Bool.and_eq_true, beq_iff_eq, ih, and_true]
    have e1 := w1.1.1.1.2
    have e2 := w2.1.1.1.2
    subst hn
    cases p with
    | none =>
      cases p' with
      | none => rfl
      | some b => simp at e1 e2; rw [e1] at e2; cases e2
    | some a =>
      cases p' with
      | none => simp at e1 e2; rw [e2] at e1; cases e1
      | some b =>
        have ha : a = q := by simpa using u1.1
        have hb : b = q := by simpa using u2.1
        rw [ha, hb]

/-! ## hypothesis bundles -/

def Hyp (cfg : Cfg) (ex : Str → Bool) (E : List (Nat × Key)) (t : GoType) : Prop :=
  wfT cfg ex t = true ∧ tagsOk cfg t = true ∧ declKeys t ⊆ E
def HypL (cfg : Cfg) (ex : Str → Bool) (E : List (Nat × Key)) (l : TList) : Prop :=
  wfL cfg ex l = true ∧ tagsOkL cfg l = true ∧ declKeysL l ⊆ E
def HypF (cfg : Cfg) (ex : Str → Bool) (E : List (Nat × Key)) (l : FList) : Prop :=
  wfF cfg ex l = true ∧ tagsOkF cfg l = true ∧ declKeysF l ⊆ E
def HypM (cfg : Cfg) (ex : Str → Bool) (E : List (Nat × Key)) (l : MList) : Prop :=
  wfM cfg ex l = true ∧ tagsOkM cfg l = true ∧ declKeysM l ⊆ E

section
variable {cfg : Cfg} {ex : Str → Bool} {E : List (Nat × Key)}

theorem hyp_pointer {e : GoType} (h : Hyp cfg ex E (.pointer e)) : Hyp cfg ex E e := by
  simpa [Hyp, wfT, tagsOk, declKeys] using h
theorem hyp_slice {e : GoType} (h : Hyp cfg ex E (.slice e)) : Hyp cfg ex E e := by
  simpa [Hyp, wfT, tagsOk, declKeys] using h
theorem hyp_array {n : Nat} {e : GoType} (h : Hyp cfg ex E (.array n e)) : Hyp cfg ex E e := by
  simpa [Hyp, wfT, tagsOk, declKeys] using h
theorem hyp_chan {d : ChanDir} {e : GoType} (h : Hyp cfg ex E (.chan d e)) : Hyp cfg ex E e := by
  simpa [Hyp, wfT, tagsOk, declKeys] using h
theorem hyp_alias {n : Str} {a : GoType} (h : Hyp cfg ex E (.alias n a)) : Hyp cfg ex E a := by
  simpa [Hyp, wfT, tagsOk, declKeys] using h
theorem hyp_map {k v : GoType} (h : Hyp cfg ex E (.map k v)) : Hyp cfg ex E k ∧ Hyp cfg ex E v := by
  simp only [Hyp, wfT, tagsOk, declKeys, Bool.and_eq_true, List.append_subset] at h
  exact ⟨⟨h.1.1, h.2.1.1, h.2.2.1⟩, ⟨h.1.2, h.2.1.2, h.2.2.2⟩⟩
theorem hyp_func {ps rs : TList} {v : Bool} (h : Hyp cfg ex E (.func ps rs v)) : HypL cfg ex E ps ∧ HypL cfg ex E rs := by
  simp only [Hyp, wfT, tagsOk, declKeys, Bool.and_eq_true, List.append_subset] at h
  exact ⟨⟨h.1.1, h.2.1.1, h.2.2.1⟩, ⟨h.1.2, h.2.1.2, h.2.2.2⟩⟩
theorem hyp_struct {fs : FList} (h : Hyp cfg ex E (.struct fs)) : HypF cfg ex E fs ∧ uniformF (firstPkgF fs) fs = true := by
  simp only [Hyp, wfT, tagsOk, declKeys, Bool.and_eq_true] at h
  exact ⟨⟨h.1.1, h.2.1, h.2.2⟩, h.1.2⟩
theorem hyp_iface {ms : MList} (h : Hyp cfg ex E (.iface ms)) : HypM cfg ex E ms ∧ uniformM (firstPkgM ms) ms = true := by
  simp only [Hyp, wfT, tagsOk, declKeys, Bool.and_eq_true] at h
  exact ⟨⟨h.1.1, h.2.1, h.2.2⟩, h.1.2⟩
theorem hypL_cons {t : GoType} {r : TList} (h : HypL cfg ex E (.cons t r)) : Hyp cfg ex E t ∧ HypL cfg ex E r := by
  simp only [HypL, wfL, tagsOkL, declKeysL, Bool.and_eq_true, List.append_subset] at h
  exact ⟨⟨h.1.1, h.2.1.1, h.2.2.1⟩, ⟨h.1.2, h.2.1.2, h.2.2.2⟩⟩

theorem reduce_right (hc : Str → Str) (t₂ : GoType) (h2 : Hyp cfg ex E t₂) :
    ∃ u, (∀ n a, u ≠ .alias n a) ∧ Hyp cfg ex E u ∧ nameC cfg hc false t₂ = nameC cfg hc false u ∧
      (∀ t₁, identical t₁ t₂ = identical t₁ u) ∧ unalias u = u :=
  ⟨unalias t₂, unalias_ne_alias t₂,
    ⟨by rw [wfT_unalias]; exact h2.1, by rw [tagsOk_unalias cfg]; exact h2.2.1, by rw [declKeys_unalias]; exact h2.2.2⟩,
    nameC_unalias hc false t₂, fun t₁ => identical_unalias_r t₁ t₂, unalias_idem t₂⟩

theorem nameC_pub (hc : Str → Str) : ∀ (t : GoType), wfT cfg ex t = true → nameC cfg hc true t = nameC cfg hc false t
  | .alias _ a, h => by simp only [nameC]; exact nameC_pub hc a (by simpa [wfT] using h)
  | .struct fs, h => by
    simp only [wfT, Bool.and_eq_true] at h
    simp [nameC, isClosure_false fs h.1]
  | .basic _, _ => by simp [nameC]
  | .pointer _, _ => by simp [nameC]
  | .slice _, _ => by simp [nameC]
  | .array _ _, _ => by simp [nameC]
  | .map _ _, _ => by simp [nameC]
  | .chan _ _, _ => by simp [nameC]
  | .func _ _ _, _ => by simp [nameC]
  | .iface _, _ => by simp [nameC]
  | .named _ _ _ _ _, _ => by simp [nameC]

theorem identicalL_length : ∀ (a b : TList), identicalL a b = true → a.length = b.length
  | .nil, .nil, _ => rfl
  | .nil, .cons _ _, h => by simp [identicalL] at h
  | .cons _ _, .nil, h => by simp [identicalL] at h
  | .cons _ r, .cons _ r', h => by
    simp only [identicalL, Bool.and_eq_true] at h
    simp [TList.length, identicalL_length r r' h.2]

theorem identicalFN_length : ∀ (a b : FList), identicalFN a b = true → a.length = b.length
  | .nil, .nil, _ => rfl
  | .nil, .cons _ _ _ _ _ _, h => by simp [identicalFN] at h
  | .cons _ _ _ _ _ _, .nil, h => by simp [identicalFN] at h
  | .cons _ _ _ _ _ r, .cons _ _ _ _ _ r', h => by
    simp only [identicalFN, Bool.and_eq_true] at h
    simp [FList.length, identicalFN_length r r' h.2]

theorem identicalMN_length : ∀ (a b : MList), identicalMN a b = true → a.length = b.length
  | .nil, .nil, _ => rfl
  | .nil, .cons _ _ _ _, h => by simp [identicalMN] at h
  | .cons _ _ _ _, .nil, h => by simp [identicalMN] at h
  | .cons _ _ _ r, .cons _ _ _ r', h => by
    simp only [identicalMN, Bool.and_eq_true] at h
    simp [MList.length, identicalMN_length r r' h.2]

/-! ## embedded field names are determined by the (identical) types -/

theorem key_name (pkg : Option Str) (name : Str) (sc : Scope) : (keyOf pkg name sc).2.1 = name := by
  cases pkg <;> rfl

theorem named_same_name (hE : Coherent E) {d d' : Nat} {pkg pkg' : Option Str} {name name' : Str} {sc sc' : Scope}
    (h1 : (d, keyOf pkg name sc) ∈ E) (h2 : (d', keyOf pkg' name' sc') ∈ E) (hd : d = d') : name = name' := by
  have := (hE _ h1 _ h2).1 hd
  have := congrArg (fun k : Key => k.2.1) this
  simpa [key_name] using this

theorem embName_identical (hE : Coherent E) : ∀ (t t' : GoType) (n n' : Str), embName t = some n → embName t' = some n' →
    declKeys t ⊆ E → declKeys t' ⊆ E → identical t t' = true → n = n' := by
  intro t t' n n' h1 h2 s1 s2 hi
  cases t with
  | named d pkg name sc targs =>
    simp only [embName, Option.some.injEq] at h1
    subst h1
    cases t' with
    | named d' pkg' name' sc' targs' =>
      simp only [embName, Option.some.injEq] at h2
      subst h2
      simp only [identical, unalias, Bool.and_eq_true, beq_iff_eq] at hi
      exact named_same_name hE (pkg := pkg) (sc := sc) (pkg' := pkg') (sc' := sc') (s1 (by simp [declKeys])) (s2 (by simp [declKeys])) hi.1
    | pointer e' => simp [identical, unalias] at hi
    | basic k' => simp [identical, unalias] at hi
    | _ => simp [embName] at h2
  | pointer e =>
    cases e with
    | named d pkg name sc targs =>
      simp only [embName, Option.some.injEq] at h1
      subst h1
      cases t' with
      | pointer e' =>
        cases e' with
        | named d' pkg' name' sc' targs' =>
          simp only [embName, Option.some.injEq] at h2
          subst h2
          simp only [identical, unalias, Bool.and_eq_true, beq_iff_eq] at hi
          exact named_same_name hE (pkg := pkg) (sc := sc) (pkg' := pkg') (sc' := sc') (s1 (by simp [declKeys])) (s2 (by simp [declKeys])) hi.1
        | _ => simp [embName] at h2
      | named _ _ _ _ _ => simp [identical, unalias] at hi
      | basic k' => simp [identical, unalias] at hi
      | _ => simp [embName] at h2
    | _ => simp [embName] at h1
  | basic k =>
    cases t' with
    | basic k' =>
      simp only [identical, unalias, beq_iff_eq] at hi
      simp only [embName] at h1 h2
      split at h1
      · cases h1
      · split at h2
        · cases h2
        · simp only [Option.some.injEq] at h1 h2
          subst h1; subst h2
          have hk : k = k' := by
            revert hi
            cases k <;> cases k' <;> simp_all [normBasic]
          rw [hk]
    | named _ _ _ _ _ => simp [identical, unalias] at hi
    | pointer e' => simp [identical, unalias] at hi
    | _ => simp [embName] at h2
  | _ => simp [embName] at h1

end


/-! ## the `$`-atoms: prefix and hash are recovered from the name -/

section
variable {hc : Str → Str} (hclean : ∀ x, ∀ c ∈ hc x, hashChar c = true) {cfg : Cfg} {ex : Str → Bool}

theorem suffix_eq {α} {p q a b : List α} (hl : a.length = b.length) (h : p ++ a = q ++ b) : p = q ∧ a = b :=
  List.append_inj' h hl

/-- the common shape of `StructName` / `InterfaceName`: `lit0$H` without package, `P.tail$H` with one -/
theorem dollar_name_inj (lit0 tail : Str) (l0 : Str) (hsplit : lit0 = l0 ++ ('_' :: tail.drop 1))
    (htail : tail.head? = some '.') (hl0 : '$' ∉ lit0) (ht : '$' ∉ tail)
    {P₁ P₂ H₁ H₂ : Str} (hP₁ : '$' ∉ P₁) (hP₂ : '$' ∉ P₂)
    (h : (if P₁ = [] then lit0 ++ '$' :: H₁ else P₁ ++ (tail ++ '$' :: H₁)) =
         (if P₂ = [] then lit0 ++ '$' :: H₂ else P₂ ++ (tail ++ '$' :: H₂))) :
    P₁ = P₂ ∧ H₁ = H₂ := by
  cases tail with
  | nil => simp at htail
  | cons c tl =>
    simp only [List.head?_cons, Option.some.injEq] at htail
    subst htail
    simp only [List.drop_succ_cons, List.drop_zero] at hsplit
    have hlen : ('_' :: tl).length = ('.' :: tl).length := by simp
    have hne : ('_' :: tl) ≠ ('.' :: tl) := by simp
    by_cases h1 : P₁ = [] <;> by_cases h2 : P₂ = []
    · simp only [h1, h2, if_true] at h
      have := splitFirst '$' _ _ _ _ hl0 hl0 h
      exact ⟨by rw [h1, h2], this.2⟩
    · simp only [h1, h2, if_true, if_false] at h
      rw [← List.append_assoc] at h
      have := splitFirst '$' _ _ _ _ hl0 (by have ht' : '$' ∉ tl := fun m => ht (by simp [m]); simp [hP₂, ht']) h
      rw [hsplit] at this
      exact absurd (suffix_eq hlen this.1).2 hne
    · simp only [h1, h2, if_true, if_false] at h
      rw [← List.append_assoc] at h
      have := splitFirst '$' _ _ _ _ (by have ht' : '$' ∉ tl := fun m => ht (by simp [m]); simp [hP₁, ht']) hl0 h
      rw [hsplit] at this
      exact absurd (suffix_eq hlen this.1.symm).2 hne
    · simp only [h1, h2, if_false] at h
      rw [← List.append_assoc, ← List.append_assoc] at h
      have := splitFirst '$' _ _ _ _ (by have ht' : '$' ∉ tl := fun m => ht (by simp [m]); simp [hP₁, ht']) (by have ht' : '$' ∉ tl := fun m => ht (by simp [m]); simp [hP₂, ht']) h
      exact ⟨List.append_cancel_right this.1, this.2⟩

theorem struct_name_inj {fs₁ fs₂ : FList} (w1 : wfF cfg ex fs₁ = true) (w2 : wfF cfg ex fs₂ = true)
    (h : nameC cfg hc false (.struct fs₁) = nameC cfg hc false (.struct fs₂)) :
    firstPkgF fs₁ = firstPkgF fs₂ ∧
      hc (litStructHdr ++ dec fs₁.length ++ '\n' :: fieldsC cfg hc fs₁) = hc (litStructHdr ++ dec fs₂.length ++ '\n' :: fieldsC cfg hc fs₂) := by
  simp only [nameC, isClosure_false fs₁ w1, isClosure_false fs₂ w2, Bool.false_and, Bool.false_eq_true, if_false] at h
  have e1 : litStruct = ['_', 'l', 'l', 'g', 'o', '_', 's', 't', 'r', 'u', 'c', 't'] ++ ['$'] := rfl
  have e2 : litStructP = ['.', 's', 't', 'r', 'u', 'c', 't'] ++ ['$'] := rfl
  rw [e1, e2] at h
  simp only [List.append_assoc, List.singleton_append] at h
  exact dollar_name_inj _ ['.', 's', 't', 'r', 'u', 'c', 't'] ['_', 'l', 'l', 'g', 'o'] rfl rfl (by decide) (by decide)
    (pathChars_nodollar (firstPkgF_chars fs₁ w1)) (pathChars_nodollar (firstPkgF_chars fs₂ w2)) h

theorem iface_name_inj {ms₁ ms₂ : MList} (w1 : wfM cfg ex ms₁ = true) (w2 : wfM cfg ex ms₂ = true)
    (n1 : ms₁.isNil = false) (n2 : ms₂.isNil = false)
    (h : nameC cfg hc false (.iface ms₁) = nameC cfg hc false (.iface ms₂)) :
    firstPkgM ms₁ = firstPkgM ms₂ ∧
      hc (litIfaceHdr ++ dec ms₁.length ++ '\n' :: methodsC cfg hc ms₁) = hc (litIfaceHdr ++ dec ms₂.length ++ '\n' :: methodsC cfg hc ms₂) := by
  simp only [nameC, n1, n2, Bool.false_eq_true, if_false] at h
  have e1 : litIface = ['_', 'l', 'l', 'g', 'o', '_', 'i', 'f', 'a', 'c', 'e'] ++ ['$'] := rfl
  have e2 : litIfaceP = ['.', 'i', 'f', 'a', 'c', 'e'] ++ ['$'] := rfl
  rw [e1, e2] at h
  simp only [List.append_assoc, List.singleton_append] at h
  exact dollar_name_inj _ ['.', 'i', 'f', 'a', 'c', 'e'] ['_', 'l', 'l', 'g', 'o'] rfl rfl (by decide) (by decide)
    (pathChars_nodollar (firstPkgM_chars ms₁ w1)) (pathChars_nodollar (firstPkgM_chars ms₂ w2)) h

theorem dec_nosp (n : Nat) : ' ' ∉ dec n := by
  intro h; have := dec_isDigit n _ h; revert this; decide

theorem dec_nonl (n : Nat) : '\n' ∉ dec n := by
  intro h; have := dec_isDigit n _ h; revert this; decide

theorem boolStr_nonl (b : Bool) : '\n' ∉ boolStr b := by cases b <;> decide

theorem boolStr_inj {a b : Bool} (h : boolStr a = boolStr b) : a = b := by
  cases a <;> cases b <;> first | rfl | (revert h; decide)

end


/-! ## the induction -/

section
variable {hc : Str → Str} (hinj : Function.Injective hc) (hclean : ∀ x, ∀ c ∈ hc x, hashChar c = true)
  {cfg : Cfg} {ex : Str → Bool} {E : List (Nat × Key)} (hE : Coherent E)

/-- class mismatch between the two sides: neither names nor identity can agree -/
macro "mismatch" hc1:ident hc2:ident : tactic => `(tactic|
  (refine ⟨fun h => ?_, fun h => ?_⟩
   · have hx := ($hc1).symm.trans ((congrArg classOf h).trans $hc2)
     simp [typeClass, MList.isNil] at hx
   · simp [identical, unalias] at h))

/-! ## type arguments: `typeArgString` determines the argument (covered fragment `wfArg`) -/

/-- 1 = starts with `*`, 2 = starts with `[`, 0 = anything else -/
def argHead : Str → Nat
  | '*' :: _ => 1
  | '[' :: _ => 2
  | _ => 0

def argKind : GoType → Nat
  | .pointer _ => 1
  | .slice _ => 2
  | .alias _ a => argKind a
  | _ => 0

theorem argStr_unalias : ∀ (t : GoType), argStr t = argStr (unalias t)
  | .alias _ b => by rw [unalias, argStr]; exact argStr_unalias b
  | .basic _ => by simp [unalias]
  | .pointer _ => by simp [unalias]
  | .slice _ => by simp [unalias]
  | .array _ _ => by simp [unalias]
  | .map _ _ => by simp [unalias]
  | .chan _ _ => by simp [unalias]
  | .func _ _ _ => by simp [unalias]
  | .struct _ => by simp [unalias]
  | .iface _ => by simp [unalias]
  | .named _ _ _ _ _ => by simp [unalias]

theorem wfArg_unalias : ∀ (t : GoType), wfArg (unalias t) = wfArg t
  | .alias _ b => by rw [unalias, wfArg]; exact wfArg_unalias b
  | .basic _ => by simp [unalias]
  | .pointer _ => by simp [unalias]
  | .slice _ => by simp [unalias]
  | .array _ _ => by simp [unalias]
  | .map _ _ => by simp [unalias]
  | .chan _ _ => by simp [unalias]
  | .func _ _ _ => by simp [unalias]
  | .struct _ => by simp [unalias]
  | .iface _ => by simp [unalias]
  | .named _ _ _ _ _ => by simp [unalias]

/-- a named type argument renders as its key -/
theorem argStr_named (d : Nat) (pkg : Option Str) (name : Str) (sc : Scope) (targs : TList)
    (h : wfArg (.named d pkg name sc targs) = true) :
    argStr (.named d pkg name sc targs) = renderKey (keyOf pkg name sc) ∧ KeyOk (keyOf pkg name sc) ∧ targs = .nil ∧
      (∀ p, pkg = some p → pathOf p ≠ litUnsafeName) := by
  simp only [wfArg, Bool.and_eq_true] at h
  obtain ⟨⟨⟨ht, hn⟩, hs⟩, hp⟩ := h
  have htn : targs = .nil := by
    cases targs with
    | nil => rfl
    | cons _ _ => simp [TList.isNil] at ht
  subst htn
  simp only [argStr, TList.isNil, if_true, List.append_nil]
  cases pkg with
  | none =>
    simp only [keyOf, renderKey, scopeStr, List.append_nil]
    exact ⟨trivial, ⟨hn, rfl, by simpa [namedPkgOk] using hp⟩, trivial, fun p e => by cases e⟩
  | some p =>
    simp only [keyOf, renderKey, scopeStr_eq p sc hs]
    exact ⟨trivial, ⟨hn, pathOf_chars (pathOk_chars (namedPkgOk_some hp).1)⟩, trivial,
      fun q e => by cases e; exact (namedPkgOk_some hp).2⟩

theorem argHead_renderKey {k : Key} (hk : KeyOk k) : argHead (renderKey k) = 0 := by
  obtain ⟨p, nm, idx⟩ := k
  have hn := hk.1
  simp only at hn
  cases p with
  | none =>
    simp only [renderKey]
    cases nm with
    | nil => simp [identOk] at hn
    | cons c cs =>
      have hc := identOk_clean hn c (by simp)
      unfold argHead
      split
      · next h => simp only [List.cons.injEq] at h; rw [h.1] at hc; revert hc; decide
      · next h => simp only [List.cons.injEq] at h; rw [h.1] at hc; revert hc; decide
      · rfl
  | some P =>
    simp only [renderKey]
    have hP : Clean P := hk.2
    cases P with
    | nil =>
      simp [argHead]
    | cons c cs =>
      have hc := hP c (by simp)
      unfold argHead
      split
      · next h => simp only [List.cons_append, List.cons.injEq] at h; rw [h.1] at hc; revert hc; decide
      · next h => simp only [List.cons_append, List.cons.injEq] at h; rw [h.1] at hc; revert hc; decide
      · rfl

theorem argHead_argStr : ∀ (t : GoType), wfArg t = true → argHead (argStr t) = argKind t
  | .alias _ a, h => by simpa [argStr, argKind] using argHead_argStr a (by simpa [wfArg] using h)
  | .basic k, _ => by simp only [argStr, argKind]; cases k <;> decide
  | .pointer e, _ => by simp [argStr, argKind, argHead]
  | .slice e, _ => by simp [argStr, argKind, argHead]
  | .named d pkg name sc targs, h => by
    obtain ⟨e, hk, _, _⟩ := argStr_named d pkg name sc targs h
    rw [e, argHead_renderKey hk]; rfl
  | .array _ _, h => by simp [wfArg] at h
  | .map _ _, h => by simp [wfArg] at h
  | .chan _ _, h => by simp [wfArg] at h
  | .func _ _ _, h => by simp [wfArg] at h
  | .struct _, h => by simp [wfArg] at h
  | .iface _, h => by simp [wfArg] at h

/-- a canonical basic name is never the rendering of a named argument -/
theorem basic_ne_named (k : BasicKind) (hk : (k != .byte && k != .rune) = true) (d : Nat) (pkg : Option Str) (name : Str)
    (sc : Scope) (targs : TList) (h : wfArg (.named d pkg name sc targs) = true) :
    basicString k ≠ argStr (.named d pkg name sc targs) := by
  obtain ⟨e, hko, _, hun⟩ := argStr_named d pkg name sc targs h
  rw [e]
  intro heq
  cases pkg with
  | none =>
    simp only [keyOf, renderKey] at heq
    have hr := hko.2.2
    simp only [keyOf] at hr
    rw [← heq] at hr
    have hd := (identOk_notin hko.1).1
    simp only [keyOf] at hd
    rw [← heq] at hd
    revert hr hd; cases k <;> decide
  | some p =>
    -- only `unsaf`+`e.Pointer` contains a dot: it would have to be the type `Pointer` of package `unsaf`+`e`
    have hdot : '.' ∈ basicString k := by rw [heq]; simp [keyOf, renderKey]
    have hk' : k = .unsafePointer := by revert hdot hk; cases k <;> decide
    subst hk'
    have kk : KeyOk ((some litUnsafeName, ['P', 'o', 'i', 'n', 't', 'e', 'r'], []) : Key) := ⟨by decide, by decide⟩
    have : ((some litUnsafeName, ['P', 'o', 'i', 'n', 't', 'e', 'r'], []) : Key) = keyOf (some p) name sc :=
      renderKey_inj kk hko (by rw [← heq]; decide)
    simp only [keyOf, Prod.mk.injEq, Option.some.injEq] at this
    exact hun p rfl this.1.symm

include hE in
theorem argInj : ∀ (t₁ t₂ : GoType), wfArg t₁ = true → wfArg t₂ = true → declKeys t₁ ⊆ E → declKeys t₂ ⊆ E →
    (argStr t₁ = argStr t₂ ↔ identical t₁ t₂ = true)
  | .alias _ a, t₂, w1, w2, s1, s2 => by
    simp only [argStr, identical]
    exact argInj a t₂ (by simpa [wfArg] using w1) w2 (by simpa [declKeys] using s1) s2
  | .basic k, t₂, w1, w2, _, s2 => by
    rw [argStr_unalias t₂, identical_unalias_r]
    have w2' : wfArg (unalias t₂) = true := by rw [wfArg_unalias]; exact w2
    have hh := argHead_argStr (.basic k) w1
    have hh2 := argHead_argStr (unalias t₂) w2'
    have hna := unalias_ne_alias t₂
    generalize unalias t₂ = u at *
    cases u with
    | alias n a => exact absurd rfl (hna n a)
    | basic k' =>
      simp only [argStr, identical, unalias, beq_iff_eq]
      simp only [wfArg] at w1 w2'
      constructor
      · intro h; revert h w1 w2'; cases k <;> cases k' <;> decide
      · intro h; revert h w1 w2'; cases k <;> cases k' <;> decide
    | named d pkg name sc targs =>
      refine ⟨fun h => absurd h (basic_ne_named k (by simpa [wfArg] using w1) d pkg name sc targs w2'), fun h => by simp [identical, unalias] at h⟩
    | pointer e =>
      refine ⟨fun h => ?_, fun h => by simp [identical, unalias] at h⟩
      rw [h] at hh; rw [hh] at hh2; simp [argKind] at hh2
    | slice e =>
      refine ⟨fun h => ?_, fun h => by simp [identical, unalias] at h⟩
      rw [h] at hh; rw [hh] at hh2; simp [argKind] at hh2
    | array _ _ => simp [wfArg] at w2'
    | map _ _ => simp [wfArg] at w2'
    | chan _ _ => simp [wfArg] at w2'
    | func _ _ _ => simp [wfArg] at w2'
    | struct _ => simp [wfArg] at w2'
    | iface _ => simp [wfArg] at w2'
  | .pointer e, t₂, w1, w2, s1, s2 => by
    rw [argStr_unalias t₂, identical_unalias_r]
    have w2' : wfArg (unalias t₂) = true := by rw [wfArg_unalias]; exact w2
    have s2' : declKeys (unalias t₂) ⊆ E := by rw [declKeys_unalias]; exact s2
    have hh := argHead_argStr (.pointer e) w1
    have hh2 := argHead_argStr (unalias t₂) w2'
    have hna := unalias_ne_alias t₂
    generalize unalias t₂ = u at *
    cases u with
    | alias n a => exact absurd rfl (hna n a)
    | pointer e' =>
      simp only [argStr, identical, unalias, List.cons.injEq, true_and]
      exact argInj e e' (by simpa [wfArg] using w1) (by simpa [wfArg] using w2') (by simpa [declKeys] using s1) (by simpa [declKeys] using s2')
    | basic _ =>
      refine ⟨fun h => ?_, fun h => by simp [identical, unalias] at h⟩
      rw [h] at hh; rw [hh] at hh2; simp [argKind] at hh2
    | named _ _ _ _ _ =>
      refine ⟨fun h => ?_, fun h => by simp [identical, unalias] at h⟩
      rw [h] at hh; rw [hh] at hh2; simp [argKind] at hh2
    | slice _ =>
      refine ⟨fun h => ?_, fun h => by simp [identical, unalias] at h⟩
      rw [h] at hh; rw [hh] at hh2; simp [argKind] at hh2
    | array _ _ => simp [wfArg] at w2'
    | map _ _ => simp [wfArg] at w2'
    | chan _ _ => simp [wfArg] at w2'
    | func _ _ _ => simp [wfArg] at w2'
    | struct _ => simp [wfArg] at w2'
    | iface _ => simp [wfArg] at w2'
  | .slice e, t₂, w1, w2, s1, s2 => by
    rw [argStr_unalias t₂, identical_unalias_r]
    have w2' : wfArg (unalias t₂) = true := by rw [wfArg_unalias]; exact w2
    have s2' : declKeys (unalias t₂) ⊆ E := by rw [declKeys_unalias]; exact s2
    have hh := argHead_argStr (.slice e) w1
    have hh2 := argHead_argStr (unalias t₂) w2'
    have hna := unalias_ne_alias t₂
    generalize unalias t₂ = u at *
    cases u with
    | alias n a => exact absurd rfl (hna n a)
    | slice e' =>
      simp only [argStr, identical, unalias, List.cons.injEq, true_and]
      exact argInj e e' (by simpa [wfArg] using w1) (by simpa [wfArg] using w2') (by simpa [declKeys] using s1) (by simpa [declKeys] using s2')
    | basic _ =>
      refine ⟨fun h => ?_, fun h => by simp [identical, unalias] at h⟩
      rw [h] at hh; rw [hh] at hh2; simp [argKind] at hh2
    | named _ _ _ _ _ =>
      refine ⟨fun h => ?_, fun h => by simp [identical, unalias] at h⟩
      rw [h] at hh; rw [hh] at hh2; simp [argKind] at hh2
    | pointer _ =>
      refine ⟨fun h => ?_, fun h => by simp [identical, unalias] at h⟩
      rw [h] at hh; rw [hh] at hh2; simp [argKind] at hh2
    | array _ _ => simp [wfArg] at w2'
    | map _ _ => simp [wfArg] at w2'
    | chan _ _ => simp [wfArg] at w2'
    | func _ _ _ => simp [wfArg] at w2'
    | struct _ => simp [wfArg] at w2'
    | iface _ => simp [wfArg] at w2'
  | .named d pkg name sc targs, t₂, w1, w2, s1, s2 => by
    rw [argStr_unalias t₂, identical_unalias_r]
    have w2' : wfArg (unalias t₂) = true := by rw [wfArg_unalias]; exact w2
    have s2' : declKeys (unalias t₂) ⊆ E := by rw [declKeys_unalias]; exact s2
    have hh := argHead_argStr (.named d pkg name sc targs) w1
    have hh2 := argHead_argStr (unalias t₂) w2'
    have hna := unalias_ne_alias t₂
    obtain ⟨e1, k1, tn1, _⟩ := argStr_named d pkg name sc targs w1
    have m1 : (d, keyOf pkg name sc) ∈ E := s1 (by simp [declKeys])
    obtain ⟨u, hu⟩ : ∃ u, unalias t₂ = u := ⟨_, rfl⟩
    rw [hu] at w2' s2' hh2 hna ⊢
    clear hu
    cases u with
    | alias n a => exact absurd rfl (hna n a)
    | named d' pkg' name' sc' targs' =>
      obtain ⟨e2, k2, tn2, _⟩ := argStr_named d' pkg' name' sc' targs' w2'
      have m2 : (d', keyOf pkg' name' sc') ∈ E := s2' (by simp [declKeys])
      rw [e1, e2]
      subst tn1; subst tn2
      simp only [identical, unalias, identicalL, Bool.and_true, beq_iff_eq]
      constructor
      · intro h; exact (hE (d, keyOf pkg name sc) m1 (d', keyOf pkg' name' sc') m2).2 (renderKey_inj k1 k2 h)
      · intro h
        have := (hE (d, keyOf pkg name sc) m1 (d', keyOf pkg' name' sc') m2).1 h
        simp only at this
        rw [this]
    | basic k' =>
      refine ⟨fun h => absurd h.symm (basic_ne_named k' (by simpa [wfArg] using w2') d pkg name sc targs w1), fun h => by simp [identical, unalias] at h⟩
    | pointer _ =>
      refine ⟨fun h => ?_, fun h => by simp [identical, unalias] at h⟩
      rw [h] at hh; rw [hh] at hh2; simp [argKind] at hh2
    | slice _ =>
      refine ⟨fun h => ?_, fun h => by simp [identical, unalias] at h⟩
      rw [h] at hh; rw [hh] at hh2; simp [argKind] at hh2
    | array _ _ => simp [wfArg] at w2'
    | map _ _ => simp [wfArg] at w2'
    | chan _ _ => simp [wfArg] at w2'
    | func _ _ _ => simp [wfArg] at w2'
    | struct _ => simp [wfArg] at w2'
    | iface _ => simp [wfArg] at w2'
  | .array _ _, _, w1, _, _, _ => by simp [wfArg] at w1
  | .map _ _, _, w1, _, _, _ => by simp [wfArg] at w1
  | .chan _ _, _, w1, _, _, _ => by simp [wfArg] at w1
  | .func _ _ _, _, w1, _, _, _ => by simp [wfArg] at w1
  | .struct _, _, w1, _, _, _ => by simp [wfArg] at w1
  | .iface _, _, w1, _, _, _ => by simp [wfArg] at w1

include hE in
theorem argInjL : ∀ (l₁ l₂ : TList), wfArgs l₁ = true → wfArgs l₂ = true → declKeysL l₁ ⊆ E → declKeysL l₂ ⊆ E →
    (argStrs l₁ = argStrs l₂ ↔ identicalL l₁ l₂ = true)
  | .nil, .nil, _, _, _, _ => by simp [argStrs, identicalL]
  | .nil, .cons t r, _, w2, _, _ => by
    simp only [wfArgs, Bool.and_eq_true] at w2
    have ne := (argStr_inv t w2.1).2.2
    simp only [argStrs, identicalL, Bool.false_eq_true, iff_false]
    split
    · exact fun h => ne h.symm
    · intro h
      have := congrArg List.length h
      cases hl : argStr t with
      | nil => exact ne hl
      | cons _ _ => simp [hl] at this
  | .cons t r, .nil, w1, _, _, _ => by
    simp only [wfArgs, Bool.and_eq_true] at w1
    have ne := (argStr_inv t w1.1).2.2
    simp only [argStrs, identicalL, Bool.false_eq_true, iff_false]
    split
    · exact fun h => ne h
    · intro h
      have := congrArg List.length h
      cases hl : argStr t with
      | nil => exact ne hl
      | cons _ _ => simp [hl] at this
  | .cons t r, .cons t' r', w1, w2, s1, s2 => by
    simp only [wfArgs, Bool.and_eq_true] at w1 w2
    simp only [declKeysL, List.append_subset] at s1 s2
    have iht := argInj hE t t' w1.1 w2.1 s1.1 s2.1
    have ihr := argInjL r r' w1.2 w2.2 s1.2 s2.2
    have c1 := (argStr_inv t w1.1).2.1
    have c2 := (argStr_inv t' w2.1).2.1
    simp only [argStrs, identicalL, Bool.and_eq_true]
    cases r with
    | nil =>
      cases r' with
      | nil => simp only [TList.isNil, if_true]; simpa [identicalL] using iht
      | cons u r2 =>
        simp only [TList.isNil, if_true, Bool.false_eq_true, if_false, identicalL, and_false, iff_false]
        intro h
        have : ',' ∈ argStr t := by rw [h]; simp
        exact c1 this
    | cons u r2 =>
      cases r' with
      | nil =>
        simp only [TList.isNil, if_true, Bool.false_eq_true, if_false, identicalL, and_false, iff_false]
        intro h
        have : ',' ∈ argStr t' := by rw [← h]; simp
        exact c2 this
      | cons u' r3 =>
        simp only [TList.isNil, Bool.false_eq_true, if_false]
        constructor
        · intro h
          have sp := splitFirst ',' _ _ _ _ c1 c2 h
          exact ⟨iht.1 sp.1, ihr.1 sp.2⟩
        · intro h
          rw [iht.2 h.1, ihr.2 h.2]

theorem identicalL_isNil (l₁ l₂ : TList) (h : identicalL l₁ l₂ = true) : l₁.isNil = l₂.isNil := by
  cases l₁ <;> cases l₂ <;> simp_all [identicalL, TList.isNil]

include hclean in
theorem inj_basic (k : BasicKind) (t₂ : GoType) (h2 : Hyp cfg ex E t₂) :
    nameC cfg hc false (.basic k) = nameC cfg hc false t₂ ↔ identical (.basic k) t₂ = true := by
  obtain ⟨u, hna, h2', hN, hI, hu⟩ := reduce_right hc t₂ h2
  rw [hN, hI]
  have c1 := class_name hclean (cfg := cfg) (ex := ex) (.basic k) rfl
  have c2 := class_name hclean u h2'.1
  cases u with
  | alias n a => exact absurd rfl (hna n a)
  | basic k' =>
    simp only [nameC, identical, unalias, beq_iff_eq]
    constructor
    · intro h
      have := List.append_cancel_left h
      revert this
      cases k <;> cases k' <;> decide
    · intro h
      have : basicAbiName k = basicAbiName k' := by
        revert h; cases k <;> cases k' <;> decide
      rw [this]
  | iface ms =>
    cases ms with
    | nil =>
      refine ⟨fun h => ?_, fun h => by simp [identical, unalias] at h⟩
      exfalso
      simp only [nameC, MList.isNil, if_true] at h
      revert h; cases k <;> decide
    | cons _ _ _ _ => mismatch c1 c2
  | named d pkg name sc targs =>
    cases pkg with
    | some p => mismatch c1 c2
    | none =>
      refine ⟨fun h => ?_, fun h => by simp [identical, unalias] at h⟩
      exfalso
      obtain ⟨hn, hk, _, hnil⟩ := name_named_eq hc d none name sc targs h2'.1
      rw [hn] at h
      have ea : argsPart targs = [] := hnil rfl
      simp only [nameC, keyOf, renderNamed, ea, List.append_nil] at h
      have := List.append_cancel_left h
      have hr := hk.2.2
      simp only [keyOf] at hr
      rw [← this] at hr
      revert hr; cases k <;> decide
  | pointer _ => mismatch c1 c2
  | slice _ => mismatch c1 c2
  | array _ _ => mismatch c1 c2
  | map _ _ => mismatch c1 c2
  | chan d _ => cases d <;> mismatch c1 c2
  | func _ _ _ => mismatch c1 c2
  | struct _ => mismatch c1 c2


include hclean hE in
theorem inj_named (d : Nat) (pkg : Option Str) (name : Str) (sc : Scope) (targs : TList) (t₂ : GoType)
    (h1 : Hyp cfg ex E (.named d pkg name sc targs)) (h2 : Hyp cfg ex E t₂) :
    nameC cfg hc false (.named d pkg name sc targs) = nameC cfg hc false t₂ ↔ identical (.named d pkg name sc targs) t₂ = true := by
  obtain ⟨u, hna, h2', hN, hI, hu⟩ := reduce_right hc t₂ h2
  rw [hN, hI]
  have c1 := class_name hclean _ h1.1
  have c2 := class_name hclean u h2'.1
  obtain ⟨hn1, hk1, hs1, hz1⟩ := name_named_eq hc d pkg name sc targs h1.1
  obtain ⟨_, wa1, _, _, _⟩ := name_named_shape d pkg name sc targs h1.1
  have m1 : (d, keyOf pkg name sc) ∈ E := h1.2.2 (by simp [declKeys])
  have sa1 : declKeysL targs ⊆ E := fun x hx => h1.2.2 (by simp [declKeys, hx])
  cases u with
  | alias n a => exact absurd rfl (hna n a)
  | named d' pkg' name' sc' targs' =>
    obtain ⟨hn2, hk2, hs2, hz2⟩ := name_named_eq hc d' pkg' name' sc' targs' h2'.1
    obtain ⟨_, wa2, _, _, _⟩ := name_named_shape d' pkg' name' sc' targs' h2'.1
    have m2 : (d', keyOf pkg' name' sc') ∈ E := h2'.2.2 (by simp [declKeys])
    have sa2 : declKeysL targs' ⊆ E := fun x hx => h2'.2.2 (by simp [declKeys, hx])
    have ia := argInjL hE targs targs' wa1 wa2 sa1 sa2
    rw [hn1, hn2]
    simp only [identical, unalias, Bool.and_eq_true, beq_iff_eq]
    constructor
    · intro h
      obtain ⟨hkey, hargs⟩ := renderNamed_inj hk1 hk2 hs1 hs2 hz1 hz2 (List.append_cancel_left h)
      refine ⟨(hE (d, keyOf pkg name sc) m1 (d', keyOf pkg' name' sc') m2).2 hkey, ?_⟩
      unfold argsPart at hargs
      cases hn : targs.isNil <;> cases hn' : targs'.isNil
      · simp only [hn, hn', Bool.false_eq_true, if_false] at hargs
        exact ia.1 (List.append_cancel_right (List.tail_eq_of_cons_eq hargs))
      · simp [hn, hn'] at hargs
      · simp [hn, hn'] at hargs
      · cases targs with
        | cons _ _ => simp [TList.isNil] at hn
        | nil =>
          cases targs' with
          | cons _ _ => simp [TList.isNil] at hn'
          | nil => simp [identicalL]
    · intro h
      have hkey := (hE (d, keyOf pkg name sc) m1 (d', keyOf pkg' name' sc') m2).1 h.1
      simp only at hkey
      have hs := ia.2 h.2
      have hnil := identicalL_isNil _ _ h.2
      rw [hkey]
      unfold argsPart
      rw [hnil, hs]
  | basic k' =>
    have := inj_basic hclean (cfg := cfg) (ex := ex) (E := E) k' (.named d pkg name sc targs) h1
    constructor
    · intro h
      have := this.1 h.symm
      simp [identical, unalias] at this
    · intro h; simp [identical, unalias] at h
  | iface ms =>
    cases ms with
    | nil =>
      refine ⟨fun h => ?_, fun h => by simp [identical, unalias] at h⟩
      exfalso
      cases pkg with
      | some p =>
        have hx := c1.symm.trans ((congrArg classOf h).trans c2)
        simp [typeClass, MList.isNil] at hx
      | none =>
        rw [hn1] at h
        have ea : argsPart targs = [] := hz1 rfl
        simp only [nameC, MList.isNil, if_true, keyOf, renderNamed, ea, List.append_nil] at h
        have hr := hk1.2.2
        simp only [keyOf] at hr
        have e : litAny = llgoPrefix ++ ['a', 'n', 'y'] := rfl
        rw [e] at h
        rw [List.append_cancel_left h] at hr
        revert hr; decide
    | cons _ _ _ _ => cases pkg <;> mismatch c1 c2
  | pointer _ => cases pkg <;> mismatch c1 c2
  | slice _ => cases pkg <;> mismatch c1 c2
  | array _ _ => cases pkg <;> mismatch c1 c2
  | map _ _ => cases pkg <;> mismatch c1 c2
  | chan d _ => cases pkg <;> cases d <;> mismatch c1 c2
  | func _ _ _ => cases pkg <;> mismatch c1 c2
  | struct _ => cases pkg <;> mismatch c1 c2

theorem hypF_cons {n : Str} {p : Option Str} {e : Bool} {g : Str} {t : GoType} {r : FList}
    (h : HypF cfg ex E (.cons n p e g t r)) :
    Hyp cfg ex E t ∧ HypF cfg ex E r ∧ identOk n = true ∧ (cfg.tags = true ∨ g = []) ∧
      (e = true → cfg.embNames = true ∨ embName t = some n) := by
  simp only [HypF, wfF, tagsOkF, declKeysF, Bool.and_eq_true, List.append_subset, beq_iff_eq, Bool.or_eq_true] at h
  refine ⟨⟨h.1.1.2, h.2.1.1.2, h.2.2.1⟩, ⟨h.1.2, h.2.1.2, h.2.2.2⟩, h.1.1.1.1.1.1, h.2.1.1.1, ?_⟩
  intro he
  have := h.1.1.1.2
  simpa [he] using this

theorem rowStart_fields (hc : Str → Str) : ∀ (fs : FList), wfF cfg ex fs = true → RowStart (fieldsC cfg hc fs)
  | .nil, _ => Or.inl rfl
  | .cons n p e g t r, h => by
    right
    simp only [wfF, Bool.and_eq_true] at h
    have hn := h.1.1.1.1.1
    simp only [fieldsC]
    cases e with
    | true =>
      simp only [if_true, embMark]
      split
      · exact ⟨'-', _, rfl, by decide⟩
      · exact ⟨'-', _, rfl, by decide⟩
    | false =>
      simp only [Bool.false_eq_true, if_false]
      cases n with
      | nil => simp [identOk] at hn
      | cons c cs =>
        refine ⟨c, _, rfl, ?_⟩
        have := (identOk_all hn).1
        simp only [List.all_cons, Bool.and_eq_true] at this
        intro hc'; rw [hc'] at this; exact absurd this.1 (by decide)

theorem hypM_cons {n : Str} {p : Option Str} {s : GoType} {r : MList}
    (h : HypM cfg ex E (.cons n p s r)) : Hyp cfg ex E s ∧ HypM cfg ex E r ∧ identOk n = true := by
  simp only [HypM, wfM, tagsOkM, declKeysM, Bool.and_eq_true, List.append_subset] at h
  exact ⟨⟨h.1.1.2, h.2.1.1, h.2.2.1⟩, ⟨h.1.2, h.2.1.2, h.2.2.2⟩, h.1.1.1.1.1.1⟩

set_option linter.unusedSectionVars false
include hinj hclean hE

mutual
theorem inj_T : ∀ (t₁ t₂ : GoType), Hyp cfg ex E t₁ → Hyp cfg ex E t₂ →
    (nameC cfg hc false t₁ = nameC cfg hc false t₂ ↔ identical t₁ t₂ = true)
  | .basic k, t₂, _, h2 => inj_basic hclean k t₂ h2
  | .named d pkg name sc targs, t₂, h1, h2 => inj_named hclean hE d pkg name sc targs t₂ h1 h2
  | .alias n a, t₂, h1, h2 => by
    simp only [nameC, identical]
    exact inj_T a t₂ (hyp_alias h1) h2
  | .pointer e, t₂, h1, h2 => by
    obtain ⟨u, hna, h2', hN, hI, hu⟩ := reduce_right hc t₂ h2
    rw [hN, hI]
    have c1 := class_name hclean _ h1.1
    have c2 := class_name hclean u h2'.1
    cases u with
    | alias n a => exact absurd rfl (hna n a)
    | pointer e' =>
      simp only [nameC, identical, unalias, List.cons.injEq, true_and]
      exact inj_T e e' (hyp_pointer h1) (hyp_pointer h2')
    | basic _ => mismatch c1 c2
    | slice _ => mismatch c1 c2
    | array _ _ => mismatch c1 c2
    | map _ _ => mismatch c1 c2
    | chan d _ => cases d <;> mismatch c1 c2
    | func _ _ _ => mismatch c1 c2
    | struct _ => mismatch c1 c2
    | iface ms => cases ms <;> mismatch c1 c2
    | named _ pkg _ _ _ => cases pkg <;> mismatch c1 c2
  | .slice e, t₂, h1, h2 => by
    obtain ⟨u, hna, h2', hN, hI, hu⟩ := reduce_right hc t₂ h2
    rw [hN, hI]
    have c1 := class_name hclean _ h1.1
    have c2 := class_name hclean u h2'.1
    cases u with
    | alias n a => exact absurd rfl (hna n a)
    | slice e' =>
      simp only [nameC, identical, unalias, List.cons.injEq, true_and]
      exact inj_T e e' (hyp_slice h1) (hyp_slice h2')
    | basic _ => mismatch c1 c2
    | pointer _ => mismatch c1 c2
    | array _ _ => mismatch c1 c2
    | map _ _ => mismatch c1 c2
    | chan d _ => cases d <;> mismatch c1 c2
    | func _ _ _ => mismatch c1 c2
    | struct _ => mismatch c1 c2
    | iface ms => cases ms <;> mismatch c1 c2
    | named _ pkg _ _ _ => cases pkg <;> mismatch c1 c2
  | .array n e, t₂, h1, h2 => by
    obtain ⟨u, hna, h2', hN, hI, hu⟩ := reduce_right hc t₂ h2
    rw [hN, hI]
    have c1 := class_name hclean _ h1.1
    have c2 := class_name hclean u h2'.1
    cases u with
    | alias n a => exact absurd rfl (hna n a)
    | array n' e' =>
      simp only [nameC, identical, unalias, Bool.and_eq_true, beq_iff_eq]
      have ih := inj_T e e' (hyp_array h1) (hyp_array h2')
      constructor
      · intro h
        have hb : ∀ m : Nat, ']' ∉ dec m := fun m hm => (isDigit_ne (dec_isDigit m _ hm)).2.1 rfl
        have := splitFirst ']' _ _ _ _ (hb n) (hb n') (List.tail_eq_of_cons_eq h)
        exact ⟨dec_inj this.1, ih.1 this.2⟩
      · intro h
        rw [h.1, ih.2 h.2]
    | basic _ => mismatch c1 c2
    | pointer _ => mismatch c1 c2
    | slice _ => mismatch c1 c2
    | map _ _ => mismatch c1 c2
    | chan d _ => cases d <;> mismatch c1 c2
    | func _ _ _ => mismatch c1 c2
    | struct _ => mismatch c1 c2
    | iface ms => cases ms <;> mismatch c1 c2
    | named _ pkg _ _ _ => cases pkg <;> mismatch c1 c2
  | .map k v, t₂, h1, h2 => by
    obtain ⟨u, hna, h2', hN, hI, hu⟩ := reduce_right hc t₂ h2
    rw [hN, hI]
    have c1 := class_name hclean _ h1.1
    have c2 := class_name hclean u h2'.1
    cases u with
    | alias n a => exact absurd rfl (hna n a)
    | map k' v' =>
      simp only [nameC, identical, unalias, Bool.and_eq_true]
      have ihk := inj_T k k' (hyp_map h1).1 (hyp_map h2').1
      have ihv := inj_T v v' (hyp_map h1).2 (hyp_map h2').2
      constructor
      · intro h
        simp only [List.append_assoc] at h
        have := split_close_key (name_inv hclean k (hyp_map h1).1.1).2 (name_inv hclean k' (hyp_map h2').1.1).2
          (List.append_cancel_left h)
        exact ⟨ihk.1 this.1, ihv.1 this.2⟩
      · intro h
        rw [ihk.2 h.1, ihv.2 h.2]
    | basic _ => mismatch c1 c2
    | pointer _ => mismatch c1 c2
    | slice _ => mismatch c1 c2
    | array _ _ => mismatch c1 c2
    | chan d _ => cases d <;> mismatch c1 c2
    | func _ _ _ => mismatch c1 c2
    | struct _ => mismatch c1 c2
    | iface ms => cases ms <;> mismatch c1 c2
    | named _ pkg _ _ _ => cases pkg <;> mismatch c1 c2
  | .chan d e, t₂, h1, h2 => by
    obtain ⟨u, hna, h2', hN, hI, hu⟩ := reduce_right hc t₂ h2
    rw [hN, hI]
    have c1 := class_name hclean _ h1.1
    have c2 := class_name hclean u h2'.1
    cases u with
    | alias n a => exact absurd rfl (hna n a)
    | chan d' e' =>
      have ih := inj_T e e' (hyp_chan h1) (hyp_chan h2')
      cases d <;> cases d' <;>
        first
        | (simp only [nameC, identical, unalias, chanDirStr, Bool.and_eq_true, beq_iff_eq, true_and]
           constructor
           · intro h; exact ih.1 (by simpa using h)
           · intro h; rw [ih.2 h])
        | mismatch c1 c2
    | basic _ => cases d <;> mismatch c1 c2
    | pointer _ => cases d <;> mismatch c1 c2
    | slice _ => cases d <;> mismatch c1 c2
    | array _ _ => cases d <;> mismatch c1 c2
    | map _ _ => cases d <;> mismatch c1 c2
    | func _ _ _ => cases d <;> mismatch c1 c2
    | struct _ => cases d <;> mismatch c1 c2
    | iface ms => cases d <;> cases ms <;> mismatch c1 c2
    | named _ pkg _ _ _ => cases d <;> cases pkg <;> mismatch c1 c2
  | .func ps rs v, t₂, h1, h2 => by
    obtain ⟨u, hna, h2', hN, hI, hu⟩ := reduce_right hc t₂ h2
    rw [hN, hI]
    have c1 := class_name hclean _ h1.1
    have c2 := class_name hclean u h2'.1
    cases u with
    | alias n a => exact absurd rfl (hna n a)
    | func ps' rs' v' =>
      simp only [nameC, identical, unalias, Bool.and_eq_true, beq_iff_eq]
      have hp1 := (hyp_func h1).1
      have hr1 := (hyp_func h1).2
      have hp2 := (hyp_func h2').1
      have hr2 := (hyp_func h2').2
      constructor
      · intro h
        have h := hinj (List.append_cancel_left h)
        simp only [List.append_assoc, List.cons_append] at h
        have h := List.append_cancel_left h
        have s1 := splitFirst ' ' _ _ _ _ (dec_nosp _) (dec_nosp _) h
        have s2 := splitFirst ' ' _ _ _ _ (dec_nosp _) (dec_nosp _) s1.2
        have s3 := splitFirst '\n' _ _ _ _ (boolStr_nonl _) (boolStr_nonl _) s2.2
        have l1 := dec_inj s1.1
        have l2 := dec_inj s2.1
        have i1 := (inj_L ps ps' hp1 hp2 l1 _ _).1 s3.2
        have i2 := (inj_L rs rs' hr1 hr2 l2 [] []).1 (by simpa using i1.2)
        exact ⟨⟨boolStr_inj s3.1, i1.1⟩, i2.1⟩
      · intro h
        obtain ⟨⟨hv, hps⟩, hrs⟩ := h
        have l1 := identicalL_length _ _ hps
        have l2 := identicalL_length _ _ hrs
        have i2 := (inj_L rs rs' hr1 hr2 l2 [] []).2 ⟨hrs, rfl⟩
        simp only [List.append_nil] at i2
        have i1 := (inj_L ps ps' hp1 hp2 l1 (tupleC cfg hc rs) (tupleC cfg hc rs')).2 ⟨hps, i2⟩
        rw [l1, l2, hv, i1]
    | basic _ => mismatch c1 c2
    | pointer _ => mismatch c1 c2
    | slice _ => mismatch c1 c2
    | array _ _ => mismatch c1 c2
    | map _ _ => mismatch c1 c2
    | chan d _ => cases d <;> mismatch c1 c2
    | struct _ => mismatch c1 c2
    | iface ms => cases ms <;> mismatch c1 c2
    | named _ pkg _ _ _ => cases pkg <;> mismatch c1 c2
  | .struct fs, t₂, h1, h2 => by
    obtain ⟨u, hna, h2', hN, hI, hu⟩ := reduce_right hc t₂ h2
    rw [hN, hI]
    have c1 := class_name hclean _ h1.1
    have c2 := class_name hclean u h2'.1
    cases u with
    | alias n a => exact absurd rfl (hna n a)
    | struct fs' =>
      obtain ⟨hf1, u1⟩ := hyp_struct h1
      obtain ⟨hf2, u2⟩ := hyp_struct h2'
      have ih := inj_F fs fs' hf1 hf2
      simp only [identical, unalias, identicalF_split, Bool.and_eq_true]
      constructor
      · intro h
        obtain ⟨hp, hh⟩ := struct_name_inj hf1.1 hf2.1 h
        have hh := hinj hh
        simp only [List.append_assoc] at hh
        have hh := List.append_cancel_left hh
        have s1 := splitFirst '\n' _ _ _ _ (dec_nonl _) (dec_nonl _) hh
        have hfn := ih.1 s1.2
        rw [hp] at u1
        exact ⟨hfn, pkgsEqF_of_uniform _ fs fs' hf1.1 hf2.1 u1 u2 hfn⟩
      · intro h
        have hl := identicalFN_length _ _ h.1
        have hp := firstPkgF_of_pkgsEq _ _ h.2
        have hfc := ih.2 h.1
        simp [nameC, isClosure_false fs hf1.1, isClosure_false fs' hf2.1, hp, hl, hfc]
    | basic _ => mismatch c1 c2
    | pointer _ => mismatch c1 c2
    | slice _ => mismatch c1 c2
    | array _ _ => mismatch c1 c2
    | map _ _ => mismatch c1 c2
    | chan d _ => cases d <;> mismatch c1 c2
    | func _ _ _ => mismatch c1 c2
    | iface ms => cases ms <;> mismatch c1 c2
    | named _ pkg _ _ _ => cases pkg <;> mismatch c1 c2
  | .iface ms, t₂, h1, h2 => by
    obtain ⟨u, hna, h2', hN, hI, hu⟩ := reduce_right hc t₂ h2
    rw [hN, hI]
    have c1 := class_name hclean _ h1.1
    have c2 := class_name hclean u h2'.1
    cases u with
    | alias n a => exact absurd rfl (hna n a)
    | iface ms' =>
      obtain ⟨hm1, u1⟩ := hyp_iface h1
      obtain ⟨hm2, u2⟩ := hyp_iface h2'
      have ih := inj_M ms ms' hm1 hm2
      cases hn1 : ms.isNil <;> cases hn2 : ms'.isNil
      · -- both non-empty
        simp only [identical, unalias, identicalM_split, Bool.and_eq_true]
        constructor
        · intro h
          obtain ⟨hp, hh⟩ := iface_name_inj hm1.1 hm2.1 hn1 hn2 h
          have hh := hinj hh
          simp only [List.append_assoc] at hh
          have hh := List.append_cancel_left hh
          have s1 := splitFirst '\n' _ _ _ _ (dec_nonl _) (dec_nonl _) hh
          have hmn := ih.1 s1.2
          rw [hp] at u1
          exact ⟨hmn, pkgsEqM_of_uniform _ ms ms' hm1.1 hm2.1 u1 u2 hmn⟩
        · intro h
          have hl := identicalMN_length _ _ h.1
          have hp := firstPkgM_of_pkgsEq _ _ h.2
          have hmc := ih.2 h.1
          simp only [nameC, hn1, hn2, hp, hl, hmc]
      · cases ms with
        | nil => simp [MList.isNil] at hn1
        | cons _ _ _ _ =>
          cases ms' with
          | cons _ _ _ _ => simp [MList.isNil] at hn2
          | nil =>
            refine ⟨fun h => ?_, fun h => by simp [identical, unalias, identicalM] at h⟩
            have hx := c1.symm.trans ((congrArg classOf h).trans c2)
            simp [typeClass, MList.isNil] at hx
      · cases ms' with
        | nil => simp [MList.isNil] at hn2
        | cons _ _ _ _ =>
          cases ms with
          | cons _ _ _ _ => simp [MList.isNil] at hn1
          | nil =>
            refine ⟨fun h => ?_, fun h => by simp [identical, unalias, identicalM] at h⟩
            have hx := c1.symm.trans ((congrArg classOf h).trans c2)
            simp [typeClass, MList.isNil] at hx
      · cases ms with
        | cons _ _ _ _ => simp [MList.isNil] at hn1
        | nil =>
          cases ms' with
          | cons _ _ _ _ => simp [MList.isNil] at hn2
          | nil => simp [identical, unalias, identicalM]
    | basic k' =>
      have := inj_basic hclean (cfg := cfg) (ex := ex) (E := E) k' (.iface ms) h1
      constructor
      · intro h
        have := this.1 h.symm
        simp [identical, unalias] at this
      · intro h; simp [identical, unalias] at h
    | named d' pkg' name' sc' targs' =>
      have := inj_named hclean hE d' pkg' name' sc' targs' (.iface ms) h2' h1
      constructor
      · intro h
        have := this.1 h.symm
        simp [identical, unalias] at this
      · intro h; simp [identical, unalias] at h
    | pointer _ => cases ms <;> mismatch c1 c2
    | slice _ => cases ms <;> mismatch c1 c2
    | array _ _ => cases ms <;> mismatch c1 c2
    | map _ _ => cases ms <;> mismatch c1 c2
    | chan d _ => cases ms <;> cases d <;> mismatch c1 c2
    | func _ _ _ => cases ms <;> mismatch c1 c2
    | struct _ => cases ms <;> mismatch c1 c2
theorem inj_L : ∀ (l₁ l₂ : TList), HypL cfg ex E l₁ → HypL cfg ex E l₂ → l₁.length = l₂.length → ∀ X Y : Str,
    (tupleC cfg hc l₁ ++ X = tupleC cfg hc l₂ ++ Y ↔ (identicalL l₁ l₂ = true ∧ X = Y))
  | .nil, .nil, _, _, _, X, Y => by simp [tupleC, identicalL]
  | .nil, .cons _ _, _, _, hl, _, _ => by simp [TList.length] at hl
  | .cons _ _, .nil, _, _, hl, _, _ => by simp [TList.length] at hl
  | .cons t r, .cons t' r', h1, h2, hl, X, Y => by
    obtain ⟨ht1, hr1⟩ := hypL_cons h1
    obtain ⟨ht2, hr2⟩ := hypL_cons h2
    have iht := inj_T t t' ht1 ht2
    have ihr := inj_L r r' hr1 hr2 (by simpa [TList.length] using hl) X Y
    simp only [tupleC, nameC_pub hc t ht1.1, nameC_pub hc t' ht2.1, identicalL, Bool.and_eq_true,
      List.append_assoc, List.cons_append]
    constructor
    · intro h
      have := splitFirst '\n' _ _ _ _ (name_inv hclean t ht1.1).1 (name_inv hclean t' ht2.1).1 h
      have r := ihr.1 this.2
      exact ⟨⟨iht.1 this.1, r.1⟩, r.2⟩
    · intro h
      rw [iht.2 h.1.1, ihr.2 ⟨h.1.2, h.2⟩]
theorem inj_F : ∀ (f₁ f₂ : FList), HypF cfg ex E f₁ → HypF cfg ex E f₂ →
    (fieldsC cfg hc f₁ = fieldsC cfg hc f₂ ↔ identicalFN f₁ f₂ = true)
  | .nil, .nil, _, _ => by simp [fieldsC, identicalFN]
  | .nil, .cons _ _ _ _ _ _, _, _ => by simp [fieldsC, identicalFN]
  | .cons _ _ _ _ _ _, .nil, _, _ => by simp [fieldsC, identicalFN]
  | .cons n p e g t r, .cons n' p' e' g' t' r', h1, h2 => by
    obtain ⟨ht1, hr1, hn1, hg1, he1⟩ := hypF_cons h1
    obtain ⟨ht2, hr2, hn2, hg2, he2⟩ := hypF_cons h2
    have iht := inj_T t t' ht1 ht2
    have ihr := inj_F r r' hr1 hr2
    have mark_sp : ∀ m : Str, identOk m = true → ' ' ∉ embMark cfg m := by
      intro m hm
      unfold embMark
      split
      · have := (identOk_notin hm).2.2.1; simp [this]
      · decide
    have nm1 : ' ' ∉ (if e = true then embMark cfg n else n) := by
      split
      · exact mark_sp n hn1
      · exact (identOk_notin hn1).2.2.1
    have nm2 : ' ' ∉ (if e' = true then embMark cfg n' else n') := by
      split
      · exact mark_sp n' hn2
      · exact (identOk_notin hn2).2.2.1
    have mark_dash : ∀ m : Str, ∃ r, embMark cfg m = '-' :: r := by
      intro m; unfold embMark; split
      · exact ⟨m, rfl⟩
      · exact ⟨[], rfl⟩
    simp only [fieldsC, identicalFN, Bool.and_eq_true, beq_iff_eq, List.append_assoc, List.cons_append]
    constructor
    · intro h
      have s1 := splitFirst ' ' _ _ _ _ nm1 nm2 h
      have s2 := splitFirst '\n' _ _ _ _ (name_inv hclean t ht1.1).1 (name_inv hclean t' ht2.1).1 s1.2
      have hid := iht.1 s2.1
      have htag := tag_step cfg g g' _ _ hg1 hg2 (rowStart_fields hc r hr1.1) (rowStart_fields hc r' hr2.1) s2.2
      have hrr := ihr.1 htag.2
      have hee : e = e' := by
        cases e <;> cases e' <;> try rfl
        · obtain ⟨r0, hr0⟩ := mark_dash n'
          have s := s1.1
          simp only [Bool.false_eq_true, if_false, if_true, hr0] at s
          have := (identOk_notin hn1).2.2.2; rw [s] at this; simp at this
        · obtain ⟨r0, hr0⟩ := mark_dash n
          have s := s1.1
          simp only [Bool.false_eq_true, if_false, if_true, hr0] at s
          have := (identOk_notin hn2).2.2.2; rw [← s] at this; simp at this
      subst hee
      have hnn : n = n' := by
        cases e with
        | false => simpa using s1.1
        | true =>
          have s := s1.1
          simp only [if_true, embMark] at s
          cases hem : cfg.embNames with
          | true => simp only [hem, if_true, List.cons.injEq, true_and] at s; exact s
          | false =>
            have a1 := (he1 rfl).resolve_left (by simp [hem])
            have a2 := (he2 rfl).resolve_left (by simp [hem])
            exact embName_identical hE t t' n n' a1 a2 ht1.2.2 ht2.2.2 hid
      exact ⟨⟨⟨⟨hnn, rfl⟩, htag.1⟩, hid⟩, hrr⟩
    · intro h
      obtain ⟨⟨⟨⟨hn, he⟩, hg⟩, hid⟩, hrr⟩ := h
      rw [hn, he, hg, iht.2 hid, ihr.2 hrr]
theorem inj_M : ∀ (m₁ m₂ : MList), HypM cfg ex E m₁ → HypM cfg ex E m₂ →
    (methodsC cfg hc m₁ = methodsC cfg hc m₂ ↔ identicalMN m₁ m₂ = true)
  | .nil, .nil, _, _ => by simp [methodsC, identicalMN]
  | .nil, .cons _ _ _ _, _, _ => by simp [methodsC, identicalMN]
  | .cons _ _ _ _, .nil, _, _ => by simp [methodsC, identicalMN]
  | .cons n p s r, .cons n' p' s' r', h1, h2 => by
    obtain ⟨hs1, hr1, hn1⟩ := hypM_cons h1
    obtain ⟨hs2, hr2, hn2⟩ := hypM_cons h2
    have ihs := inj_T s s' hs1 hs2
    have ihr := inj_M r r' hr1 hr2
    simp only [methodsC, identicalMN, Bool.and_eq_true, beq_iff_eq, List.append_assoc, List.cons_append]
    constructor
    · intro h
      have s1 := splitFirst ' ' _ _ _ _ (identOk_notin hn1).2.2.1 (identOk_notin hn2).2.2.1 h
      have s2 := splitFirst '\n' _ _ _ _ (name_inv hclean s hs1.1).1 (name_inv hclean s' hs2.1).1 s1.2
      exact ⟨⟨s1.1, ihs.1 s2.1⟩, ihr.1 s2.2⟩
    · intro h
      rw [h.1.1, ihs.2 h.1.2, ihr.2 h.2]
end

end

end LlgoVerif.Types
