import LlgoVerif.Model.CAbi
/-!
# C09 — specification: AAPCS64 (arm64) parameter passing for the C09 universe

My reading of the Procedure Call Standard for the Arm 64-bit Architecture, §6.8.2 (B.2–B.4, C.2, C.12–C.15) and
§6.9, restricted to aggregates of `{i8,i16,i32,i64,ptr,f32,f64}` with natural layout (no 16-byte alignment):

* a Homogeneous Floating-point Aggregate — 1 to 4 members, all `float` or all `double`, after flattening nested
  structs and arrays — travels in consecutive SIMD/FP registers, one member per register;
* any other composite larger than 16 bytes is copied to memory by the caller and passed by reference (results:
  indirect through `x8`);
* any other composite of at most 16 bytes travels in ⌈size/8⌉ consecutive general registers, register `k` holding the
  object bytes `[8k, 8k+8)`.

Validated every run against clang-14 `--target=aarch64-linux-gnu -S -emit-llvm -O0`; nothing executes.
-/
namespace LlgoVerif.AAPCS64
open LlgoVerif.CAbi

inductive Class where
  | none                              -- zero-size: not passed
  | hfa (n : Nat) (double : Bool)     -- n SIMD/FP registers
  | gpr (n : Nat)                     -- n general registers
  | memory
deriving DecidableEq, Repr

def isHFA (types : List Scalar) : Option (Nat × Bool) :=
  if types.length = 0 ∨ 4 < types.length then Option.none
  else if allEq types .f32 then some (types.length, false)
  else if allEq types .f64 then some (types.length, true)
  else Option.none

def classify (size : Nat) (elems : List Elem) : Class :=
  if size = 0 then .none
  else match isHFA (elems.map (·.2)) with
    | some (n, d) => .hfa n d
    | Option.none => if size > 16 then .memory else .gpr ((size + 7) / 8)

/-- what LLVM's AArch64 convention does with the leaves of an aggregate that llgo leaves unchanged (`direct`), when that
    coincides with an AAPCS64 class: all `float`/all `double` (≤ 4) → SIMD registers; 8-byte integer leaves at
    offsets 0, 8 → general registers; a single integer leaf → one general register.  `Option.none` = no such class. -/
def directImage (elems : List Elem) : Option Class :=
  if elems = [] then some .none
  else match isHFA (elems.map (·.2)) with
    | some (n, d) => some (.hfa n d)
    | Option.none =>
      match elems with
      | [(0, s)] => if s.isSSE then Option.none else some (.gpr 1)
      | [(0, a), (8, b)] => if isPtrOrI64 a && isPtrOrI64 b then some (.gpr 2) else Option.none
      | _ => Option.none

def kindImage (pk : PassKind64) (v : View) : Option Class :=
  match pk with
  | .void => some .none
  | .direct => directImage v.elems
  | .coerceInt b => if v.size ≤ b ∧ b ≤ 8 then some (.gpr 1) else Option.none   -- carries bytes [0, b)
  | .coerceI64 => if v.size ≤ 8 then some (.gpr 1) else Option.none
  | .coerceI64x2 => if v.size ≤ 16 then some (.gpr 2) else Option.none          -- register k = bytes [8k, 8k+8)
  | .memory => some .memory

/-- **the pass kind carries the object as AAPCS64 prescribes** -/
def Sound (pk : PassKind64) (v : View) : Prop := kindImage pk v = some (classify v.size v.elems)

instance (pk : PassKind64) (v : View) : Decidable (Sound pk v) := by unfold Sound; infer_instance

end LlgoVerif.AAPCS64
