"""Lean statement + proof script of the lowering obligation for each generated one-operator function.

The proof scripts instantiate the width-generic shape lemmas of LlgoVerif/Lemmas/Arith.lean by `exact`:
the regenerated definition must have exactly the shape the lemma describes (up to definitional unfolding),
otherwise the obligation does not check."""


def b(v):
    return "true" if v else "false"


D = "(by decide)"


def theorem(o):
    """-> Lean text of `theorem <name>_spec ...` for obligation o (a dict from opsgen.generate)."""
    n, cls, w, s = o["name"], o["cls"], o["w"], o["s"]
    X = "(x : BitVec %d)" % w
    XY = "(x y : BitVec %d)" % w
    head = None
    if cls in ("add", "sub", "mul"):
        head = "%s : %s x y = .ok (GoArith.%s %s x y)" % (XY, n, cls, b(s))
        proof = "exact %s_p %s x y" % (cls, b(s))
    elif cls in ("and", "or", "xor"):
        op = {"and": "&&&", "or": "|||", "xor": "^^^"}[cls]
        head = "%s : %s x y = .ok (x %s y)" % (XY, n, op)
        proof = "exact %s_p x y" % cls
    elif cls == "andnot":
        head = "%s : %s x y = .ok (x &&& ~~~y)" % (XY, n)
        proof = "exact andnot_p x y _ %s" % D
    elif cls == "neg":
        head = "%s : %s x = .ok (GoArith.neg %s x)" % (X, n, b(s))
        proof = "exact neg_p %s x _ %s" % (b(s), D)
    elif cls == "not":
        head = "%s : %s x = .ok (~~~x)" % (X, n)
        proof = "exact not_p x _ %s" % D
    elif cls == "eq":
        head = "%s : %s x y = .ok (ofBool (GoArith.eq %s x y))" % (XY, n, b(s))
        proof = "exact eq_p %s x y" % b(s)
    elif cls == "ne":
        head = "%s : %s x y = .ok (ofBool (!GoArith.eq %s x y))" % (XY, n, b(s))
        proof = "exact ne_p %s x y" % b(s)
    elif cls in ("lt", "le", "gt", "ge"):
        f = {"lt": "GoArith.lt %s x y", "le": "GoArith.le %s x y", "gt": "GoArith.lt %s y x", "ge": "GoArith.le %s y x"}[cls] % b(s)
        head = "%s : %s x y = .ok (ofBool (%s))" % (XY, n, f)
        proof = "exact %s%s_p x y" % ("s" if s else "u", cls)
    elif cls in ("quo", "rem"):
        head = "%s : %s x y = specM (GoArith.%s %s x y)" % (XY, n, cls, b(s))
        if s:
            proof = "exact %s_s x y _ _ _ _ _ %s" % (cls, " ".join([D] * 6))
        else:
            proof = "exact %s_u x y _ _ %s %s" % (cls, D, D)
    elif cls in ("quoc", "remc"):
        c = o["c"]
        base = "quo" if cls == "quoc" else "rem"
        head = "%s : %s x = specM (GoArith.%s %s x (BitVec.ofInt %d (%d)))" % (X, n, base, b(s), w, c)
        if s and c == -1:
            proof = "exact %s_s_m1 x _ _ _ _ _ %s" % (base, " ".join([D] * 6))
        elif s:
            proof = "exact %s_s_const x _ %s %s" % (base, D, D)
        else:
            proof = "exact %s_u_const x _ %s" % (base, D)
    elif cls in ("quox", "remx"):
        c = o["c"]
        base = "quo" if cls == "quox" else "rem"
        head = "(y : BitVec %d) : %s y = specM (GoArith.%s %s (BitVec.ofInt %d (%d)) y)" % (w, n, base, b(s), w, c)
        if not s:
            proof = "exact %s_u _ y _ _ %s %s" % (base, D, D)
        elif c == -(1 << (w - 1)):
            proof = "exact %s_s_xmin y _ _ _ _ _ _ %s" % (base, " ".join([D] * 7))
        else:
            proof = "exact %s_s_xconst _ y _ _ %s %s %s" % (base, D, D, D)
    elif cls in ("shl", "shr"):
        w2, s2 = o["w2"], o["s2"]
        head = "(x : BitVec %d) (y : BitVec %d) : %s x y = specM (GoArith.%s %s %s x y)" % (w, w2, n, cls, b(s), b(s2))
        if w2 == w:
            hc = "(fun _ _ => rfl)" if s2 else "(fun _ => rfl)"
        elif w2 < w:
            hc = "(fun h0 _ => cnt_sext y %s h0)" % D if s2 else "(fun _ => cnt_zext y %s)" % D
        else:
            hc = "(fun _ h => cnt_trunc y h)" if s2 else "(fun h => cnt_trunc y h)"
        if cls == "shl":
            proof = ("exact shl_s %s x _ _ y _ _ %s %s %s %s" % (b(s), D, D, D, hc)) if s2 else ("exact shl_u %s x _ _ y _ %s %s %s" % (b(s), D, D, hc))
        elif s:
            proof = ("exact ashr_s x _ _ y _ _ %s %s %s %s %s" % (D, D, D, D, hc)) if s2 else ("exact ashr_u x _ _ y _ %s %s %s %s" % (D, D, D, hc))
        else:
            proof = ("exact lshr_s x _ _ y _ _ %s %s %s %s" % (D, D, D, hc)) if s2 else ("exact lshr_u x _ _ y _ %s %s %s" % (D, D, hc))
    elif cls == "shlc":
        head = "%s : %s x = .ok (GoArith.shlMath %s x %d)" % (X, n, b(s), o["c"])
        if o["c"] >= w:
            proof = "exact shl_const_big %s x _ _ _ %s %s %d %s" % (b(s), D, D, o["c"], D)
        else:
            proof = "exact shl_const %s x _ _ _ %s %s %d %s" % (b(s), D, D, o["c"], D)
    elif cls == "shrc":
        head = "%s : %s x = .ok (GoArith.shrMath %s x %d)" % (X, n, b(s), o["c"])
        if s:
            proof = ("exact ashr_const_big x _ %s %s %d %s" % (D, D, o["c"], D)) if o["c"] >= w else ("exact ashr_const x _ %s %d %s" % (D, o["c"], D))
        else:
            proof = ("exact lshr_const_big x _ _ _ %s %s %d %s" % (D, D, o["c"], D)) if o["c"] >= w else ("exact lshr_const x _ _ _ %s %s %d %s" % (D, D, o["c"], D))
    elif cls == "conv":
        w2 = o["w2"]
        head = "%s : %s x = .ok (GoArith.conv %s %d x)" % (X, n, b(s), w2)
        if w2 == w:
            proof = "exact conv_id %s x" % b(s)
        elif w2 > w:
            proof = "exact conv_sext x" if s else "exact conv_zext x"
        else:
            proof = "exact conv_trunc %s x %s" % (b(s), D)
    else:
        raise ValueError(cls)
    return "theorem %s_spec %s := by\n  unfold %s\n  %s\n" % (n, head, n, proof)
