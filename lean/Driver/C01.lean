import LlgoVerif.Util
import LlgoVerif.Model.CoreGo
import LlgoVerif.Model.OrderFix
import LlgoVerif.Model.Blocks
import LlgoVerif.Model.TypeCvt
import LlgoVerif.Model.EfaceEq
/-! Line-protocol driver for C01.
    `run FUEL <program s-expression>`  ->  `ok <hex of output bytes> normal|exit:N|panic:<hex>` | `stuck <msg>` | `timeout`
    `fix <block>`                      ->  the order the model of fixSSAOrderBlock produces (see Model/OrderFix.lean)
    `blocks <succs> <preds> <infos>`   ->  `ok` | reason: the validator of cl/blocks output (see Model/Blocks.lean)
    `cvt (decls D*) (order T*)`        ->  the lowered types (Model/TypeCvt.lean: ssa/type_cvt.go), one shared memo
    `efeq TV TU HASEQ DIRECT SAME EQ`  ->  `t`|`f`|`p`: Model/EfaceEq.lean on the abstraction of two interface values
    `iter <hex>`                       ->  the (index, rune) pairs `for i, r := range s` sees (CoreGo.runesOf)
    The s-expression grammar is documented in /verif/design/C01.md and produced by /verif/harness/c01/gen.py. -/
open LlgoVerif LlgoVerif.Util LlgoVerif.CoreGo

inductive Sexp where
  | atom (s : String)
  | list (l : List Sexp)
deriving Inhabited

partial def parseSexps (cs : List Char) (acc : List Sexp) : Option (List Sexp × List Char) :=
  match cs with
  | [] => some (acc.reverse, [])
  | ' ' :: rest => parseSexps rest acc
  | '(' :: rest =>
    match parseSexps rest [] with
    | some (items, rest') => parseSexps rest' (.list items :: acc)
    | none => none
  | ')' :: rest => some (acc.reverse, rest)
  | _ =>
    let tok := cs.takeWhile (fun c => c != ' ' && c != '(' && c != ')')
    parseSexps (cs.drop tok.length) (.atom (String.ofList tok) :: acc)

abbrev P := Except String

def fail {α : Type} (msg : String) : P α := .error msg

def pNat : Sexp → P Nat
  | .atom s => match s.toNat? with
    | some n => pure n
    | none => fail s!"nat expected: {s}"
  | _ => fail "nat expected"

def pInt : Sexp → P Int
  | .atom s => match s.toInt? with
    | some n => pure n
    | none => fail s!"int expected: {s}"
  | _ => fail "int expected"

def pBool : Sexp → P Bool
  | .atom "1" => pure true
  | .atom "0" => pure false
  | _ => fail "bool expected"

def pName : Sexp → P String
  | .atom "-" => pure ""
  | .atom s => pure s
  | _ => fail "name expected"

def pOptNat : Sexp → P (Option Nat)
  | .atom "-" => pure none
  | s => do pure (some (← pNat s))

def pKind : Sexp → P IntKind
  | .atom "int" => pure .int | .atom "i8" => pure .i8 | .atom "i16" => pure .i16 | .atom "i32" => pure .i32
  | .atom "i64" => pure .i64 | .atom "uint" => pure .uint | .atom "u8" => pure .u8 | .atom "u16" => pure .u16
  | .atom "u32" => pure .u32 | .atom "u64" => pure .u64 | .atom "uptr" => pure .uptr
  | _ => fail "int kind expected"

partial def pTy : Sexp → P Ty
  | .atom "bool" => pure .bool
  | .atom "str" => pure .str
  | .atom "rterr" => pure .rtErr
  | .atom "f64" => pure .float
  | .list [.atom "int", k] => do pure (.int (← pKind k))
  | .list [.atom "named", n] => do pure (.named (← pNat n))
  | .list [.atom "ptr", t] => do pure (.ptr (← pTy t))
  | .list [.atom "slice", t] => do pure (.slice (← pTy t))
  | .list [.atom "arr", n, t] => do pure (.arr (← pNat n) (← pTy t))
  | .list [.atom "func", n] => do pure (.func (← pNat n))
  | _ => fail "type expected"

def pBinOp : Sexp → P BinOp
  | .atom "add" => pure .add | .atom "sub" => pure .sub | .atom "mul" => pure .mul | .atom "quo" => pure .quo
  | .atom "rem" => pure .rem | .atom "and" => pure .and | .atom "or" => pure .or | .atom "xor" => pure .xor
  | .atom "andnot" => pure .andNot | .atom "shl" => pure .shl | .atom "shr" => pure .shr | .atom "eq" => pure .eq
  | .atom "ne" => pure .ne | .atom "lt" => pure .lt | .atom "le" => pure .le | .atom "gt" => pure .gt
  | .atom "ge" => pure .ge
  | _ => fail "binary operator expected"

def pUnOp : Sexp → P UnOp
  | .atom "neg" => pure .neg | .atom "not" => pure .not | .atom "compl" => pure .compl
  | _ => fail "unary operator expected"

def pSeq : Sexp → P SeqKind
  | .atom "arr" => pure .arr | .atom "slice" => pure .slice | .atom "str" => pure .str | .atom "ptrarr" => pure .ptrArr
  | _ => fail "sequence kind expected"

def pBytes : Sexp → P (List Nat)
  | .atom h => match unhex h with
    | some bs => pure (bs.map (·.toNat))
    | none => fail "hex expected"
  | _ => fail "hex expected"

mutual
partial def pExpr : Sexp → P Expr
  | .atom "_" => pure .blank
  | .list [.atom "i", k, v] => do pure (.intLit (← pKind k) (← pInt v))
  | .list [.atom "b", b] => do pure (.boolLit (← pBool b))
  | .list [.atom "s", h] => do pure (.strLit (← pBytes h))
  | .list [.atom "f", bits] => do pure (.floatLit (← pNat bits))
  | .list [.atom "nil", .atom "ptr"] => pure (.nil .ptr)
  | .list [.atom "nil", .atom "slice"] => pure (.nil .slice)
  | .list [.atom "nil", .atom "iface"] => pure (.nil .iface)
  | .list [.atom "nil", .atom "func"] => pure (.nil .func)
  | .list [.atom "v", x] => do pure (.var (← pNat x))
  | .list [.atom "g", x] => do pure (.glob (← pNat x))
  | .list [.atom "bin", op, a, b] => do pure (.bin (← pBinOp op) (← pExpr a) (← pExpr b))
  | .list [.atom "un", op, a] => do pure (.un (← pUnOp op) (← pExpr a))
  | .list [.atom "land", a, b] => do pure (.land (← pExpr a) (← pExpr b))
  | .list [.atom "lor", a, b] => do pure (.lor (← pExpr a) (← pExpr b))
  | .list [.atom "conv", k, a] => do pure (.conv (← pKind k) (← pExpr a))
  | .list [.atom "strofbytes", a] => do pure (.strOfBytes (← pExpr a))
  | .list [.atom "bytesofstr", a] => do pure (.bytesOfStr (← pExpr a))
  | .list [.atom "strofrune", a] => do pure (.strOfRune (← pExpr a))
  | .list [.atom "fref", f] => do pure (.funcRef (← pNat f))
  | .list [.atom "flit", f] => do pure (.funcLit (← pNat f))
  | .list (.atom "call" :: f :: args) => do pure (.call (← pNat f) (← pExprs args))
  | .list (.atom "callv" :: f :: args) => do pure (.callv (← pExpr f) (← pExprs args))
  | .list (.atom "mcall" :: r :: t :: n :: args) => do pure (.mcall (← pExpr r) (← pTy t) (← pName n) (← pExprs args))
  | .list (.atom "icall" :: r :: n :: args) => do pure (.icall (← pExpr r) (← pName n) (← pExprs args))
  | .list [.atom "mval", r, t, n] => do pure (.mval (← pExpr r) (← pTy t) (← pName n))
  | .list [.atom "imval", r, n] => do pure (.imval (← pExpr r) (← pName n))
  | .list (.atom "struct" :: fs) => do pure (.structLit (← pExprs fs))
  | .list [.atom "blankf", e] => do pure (.blankF (← pExpr e))
  | .list [.atom "zeroarr", n, z] => do pure (.zeroArr (← pNat n) (← pExpr z))
  | .list (.atom "arr" :: es) => do pure (.arrLit (← pExprs es))
  | .list (.atom "slice" :: es) => do pure (.sliceLit (← pExprs es))
  | .list [.atom "make", z, l] => do pure (.make (← pExpr z) (← pExpr l) none)
  | .list [.atom "make", z, l, c] => do pure (.make (← pExpr z) (← pExpr l) (some (← pExpr c)))
  | .list [.atom "new", e] => do pure (.new (← pExpr e))
  | .list [.atom "addr", e] => do pure (.addr (← pExpr e))
  | .list [.atom "deref", e] => do pure (.deref (← pExpr e))
  | .list [.atom "sel", e, t, n] => do pure (.sel (← pExpr e) (← pTy t) (← pName n))
  | .list [.atom "index", k, e, i] => do pure (.index (← pSeq k) (← pExpr e) (← pExpr i))
  | .list [.atom "sliceof", k, e, lo, hi, mx] => do
    pure (.sliceOf (← pSeq k) (← pExpr e) (← pOptExpr lo) (← pOptExpr hi) (← pOptExpr mx))
  | .list [.atom "len", k, e] => do pure (.len (← pSeq k) (← pExpr e))
  | .list [.atom "cap", k, e] => do pure (.cap (← pSeq k) (← pExpr e))
  | .list (.atom "append" :: s :: es) => do pure (.append (← pExpr s) (← pExprs es))
  | .list [.atom "appends", s, t] => do pure (.appendSlice (← pExpr s) (← pExpr t))
  | .list [.atom "copy", d, s] => do pure (.copy (← pExpr d) (← pExpr s))
  | .list [.atom "toiface", t, e] => do pure (.toIface (← pTy t) (← pExpr e))
  | .list [.atom "assert", e, t, two, z] => do pure (.assert (← pExpr e) (← pTy t) (← pBool two) (← pExpr z))
  | .list [.atom "asserti", e, n, two] => do pure (.assertI (← pExpr e) (← pNat n) (← pBool two))
  | .list [.atom "recover"] => pure .recover
  | .list (.atom h :: _) => fail s!"expression expected, got ({h} …)"
  | _ => fail "expression expected"
partial def pExprs : List Sexp → P (List Expr)
  | [] => pure []
  | e :: es => do pure ((← pExpr e) :: (← pExprs es))
partial def pOptExpr : Sexp → P (Option Expr)
  | .atom "-" => pure none
  | e => do pure (some (← pExpr e))
end

def pList {α : Type} (f : Sexp → P α) : Sexp → P (List α)
  | .list l => l.mapM f
  | _ => fail "list expected"

def pTyPat : Sexp → P TyPat
  | .atom "nil" => pure .nil
  | .list [.atom "ty", t] => do pure (.ty (← pTy t))
  | .list [.atom "iface", n] => do pure (.iface (← pNat n))
  | _ => fail "type pattern expected"

mutual
partial def pStmt : Sexp → P Stmt
  | .list [.atom "decl", xs, es] => do pure (.decl (← pList pNat xs) (← pList pExpr es))
  | .list [.atom "assign", ls, es] => do pure (.assign (← pList pExpr ls) (← pList pExpr es))
  | .list [.atom "opassign", op, l, e] => do pure (.opAssign (← pBinOp op) (← pExpr l) (← pExpr e))
  | .list [.atom "expr", e] => do pure (.exprS (← pExpr e))
  | .list (.atom "print" :: nl :: es) => do pure (.print (← pBool nl) (← pExprs es))
  | .list (.atom "block" :: ss) => do pure (.block (← pStmts ss))
  | .list [.atom "if", .list ini, c, .list t, .list e] => do
    pure (.ite (← pStmts ini) (← pExpr c) (← pStmts t) (← pStmts e))
  | .list [.atom "for", lbl, .list ini, c, .list post, .list body, ivs] => do
    pure (.loop (← pName lbl) (← pStmts ini) (← pOptExpr c) (← pStmts post) (← pStmts body) (← pList pNat ivs))
  | .list [.atom "rangeint", lbl, x, n, .list body] => do
    pure (.rangeInt (← pName lbl) (← pOptNat x) (← pExpr n) (← pStmts body))
  | .list [.atom "rangeseq", lbl, k, kx, vx, e, .list body] => do
    pure (.rangeSeq (← pName lbl) (← pSeq k) (← pOptNat kx) (← pOptNat vx) (← pExpr e) (← pStmts body))
  | .list [.atom "rangefunc", lbl, xs, f, body] => do
    pure (.rangeFunc (← pName lbl) (← pList pNat xs) (← pExpr f) (← pNat body))
  | .list (.atom "switch" :: lbl :: .list ini :: tag :: cases) => do
    pure (.switch (← pName lbl) (← pStmts ini) (← pOptExpr tag) (← pCases cases))
  | .list (.atom "tswitch" :: lbl :: x :: e :: cases) => do
    pure (.tswitch (← pName lbl) (← pOptNat x) (← pExpr e) (← pTCases cases))
  | .list [.atom "break", lbl] => do pure (.brk (← pName lbl))
  | .list [.atom "continue", lbl] => do pure (.cont (← pName lbl))
  | .list (.atom "return" :: es) => do pure (.ret (← pExprs es))
  | .list (.atom "defer" :: f :: args) => do pure (.defer (← pExpr f) (← pExprs args))
  | .list [.atom "panic", e] => do pure (.panic (← pExpr e))
  | .list [.atom "exit", e] => do pure (.exit (← pExpr e))
  | .list (.atom h :: _) => fail s!"statement expected, got ({h} …)"
  | _ => fail "statement expected"
partial def pStmts : List Sexp → P (List Stmt)
  | [] => pure []
  | s :: ss => do pure ((← pStmt s) :: (← pStmts ss))
partial def pCases : List Sexp → P (List SwCase)
  | [] => pure []
  | .list [.atom "case", d, es, .list body, fall] :: rest => do
    pure (.mk (← pBool d) (← pList pExpr es) (← pStmts body) (← pBool fall) :: (← pCases rest))
  | _ => fail "case expected"
partial def pTCases : List Sexp → P (List TsCase)
  | [] => pure []
  | .list [.atom "tcase", d, pats, u, .list body] :: rest => do
    pure (.mk (← pBool d) (← pList pTyPat pats) (← pBool u) (← pStmts body) :: (← pTCases rest))
  | _ => fail "tcase expected"
end

def pField : Sexp → P (String × Ty × Bool)
  | .list [n, t, e] => do pure (← pName n, ← pTy t, ← pBool e)
  | _ => fail "field expected"

def pTypeDecl : Sexp → P TypeDecl
  | .list [.atom "type", n, .list (.atom "struct" :: fs)] => do pure ⟨← pName n, .struct (← fs.mapM pField)⟩
  | .list [.atom "type", n, .list (.atom "iface" :: ms)] => do pure ⟨← pName n, .iface (← ms.mapM pName)⟩
  | .list [.atom "type", n, .list [.atom "basic", t]] => do pure ⟨← pName n, .basic (← pTy t)⟩
  | _ => fail "type declaration expected"

def pMethod : Sexp → P MethodDecl
  | .list [.atom "method", tid, n, p, f] => do pure ⟨← pNat tid, ← pName n, ← pBool p, ← pNat f⟩
  | _ => fail "method expected"

def pFunc : Sexp → P FuncDecl
  | .list [.atom "func", n, ps, rs, ri, .list body] => do
    pure ⟨← pName n, ← pList pNat ps, ← pList pNat rs, ← pList pExpr ri, ← pStmts body⟩
  | _ => fail "func expected"

def pRBody : Sexp → P RangeBody
  | .list [.atom "rbody", xs, lbl, .list body] => do pure ⟨← pList pNat xs, ← pName lbl, ← pStmts body⟩
  | _ => fail "rbody expected"

def pProgram : Sexp → P Program
  | .list [.atom "program", .list (.atom "types" :: ts), .list (.atom "methods" :: ms), .list (.atom "funcs" :: fs),
           .list (.atom "rbodies" :: rbs), .list (.atom "globals" :: gs), .list [.atom "main", m]] => do
    pure { types := (← ts.mapM pTypeDecl).toArray, methods := ← ms.mapM pMethod, funcs := (← fs.mapM pFunc).toArray,
           rbodies := (← rbs.mapM pRBody).toArray, globals := ← pExprs gs, main := ← pNat m }
  | _ => fail "program expected"

def hexNat (bs : List Nat) : String := hex (bs.map UInt8.ofNat)

def showOutcome (o : Outcome) : String :=
  let t := match o.term with
    | .normal => "normal"
    | .exit c => s!"exit:{c}"
    | .panic m => "panic:" ++ hexNat m
  "ok " ++ hexNat o.out.toList ++ " " ++ t

def handleRun (fuel : Nat) (items : List Sexp) : String :=
  match items with
  | [sx] =>
    match pProgram sx with
    | .error e => "bad-program " ++ e
    | .ok prog =>
      match CoreGo.run prog fuel with
      | none => "timeout"
      | some (.error m) => "stuck " ++ m
      | some (.ok o) => showOutcome o
  | _ => "bad-op"

/-- `fix K1 K2 …` : see `OrderFix.parseInstr` for the instruction syntax -/
def handleFix (toks : List String) : String :=
  match toks.mapM OrderFix.parseInstr with
  | some blk => " ".intercalate ((OrderFix.fixBlock blk).map OrderFix.showInstr)
  | none => "bad-op"

/-- `blocks <succs> <preds> <infos>` : validate one output of the real blocks.Infos (see Model/Blocks.lean for the format) -/
def handleBlocks (toks : List String) : String :=
  match toks with
  | [ss, ps, is] =>
    match Blocks.parseCFG ss ps, (is.splitOn ",").mapM Blocks.parseInfo with
    | some g, some infos => Blocks.explain g infos
    | _, _ => "bad-op"
  | _ => "bad-op"

/-! ### `cvt (decls D*) (order T*)` : the Go-type -> raw-type lowering (Model/TypeCvt.lean) -/
namespace CvtDrv
open LlgoVerif.TypeCvt

def unhexStr (s : String) : String :=
  match unhex s with
  | some bs => String.fromUTF8! (ByteArray.mk bs.toArray)
  | none => ""

mutual
partial def pGTy : Sexp → P GTy
  | .list [.atom "b", .atom n] => pure (.basic n)
  | .list [.atom "p", t] => do pure (.ptr (← pGTy t))
  | .list [.atom "sl", t] => do pure (.slice (← pGTy t))
  | .list [.atom "ar", n, t] => do pure (.arr (← pNat n) (← pGTy t))
  | .list [.atom "m", k, v] => do pure (.map (← pGTy k) (← pGTy v))
  | .list [.atom "ch", d, t] => do pure (.chan (← pNat d) (← pGTy t))
  | .list [.atom "n", id, raw] => do pure (.named (← pNat id) (← pBool raw))
  | .list [.atom "f", .list ps, .list rs, v] => do pure (.sig (← ps.mapM pGTy) (← rs.mapM pGTy) (← pBool v))
  | .list (.atom "st" :: fs) => do pure (.struct (← fs.mapM pGField))
  | .list (.atom "if" :: ms) => do pure (.iface (← ms.mapM pGField))
  | _ => fail "type expected"
partial def pGField : Sexp → P Field
  | .list [.atom n, t, e, .atom tag] => do pure (.mk n (← pGTy t) (← pBool e) (unhexStr tag))
  | _ => fail "field expected"
end

def pDecl : Sexp → P Decl
  | .list (.atom "d" :: u :: ms) => do
    let ms ← ms.mapM (fun m => match m with
      | .list [.atom n, p] => do pure (n, ← pBool p)
      | _ => fail "method expected")
    pure ⟨← pGTy u, ms⟩
  | _ => fail "decl expected"

/-- convert the types of `order` one after the other with one shared memo, as a compilation does -/
def runOrder (D : Decls) (fuel : Nat) : List GTy → Memo → List String → Option (List String × Memo)
  | [], m, acc => some (acc.reverse, m)
  | t :: ts, m, acc =>
    match cvt D fuel t m with
    | none => none
    | some ((t', c), m') => runOrder D fuel ts m' ((showTy t' ++ " " ++ (if c then "1" else "0")) :: acc)

def handleCvt (items : List Sexp) : String :=
  match items with
  | [.list (.atom "decls" :: ds), .list (.atom "order" :: ts)] =>
    match ds.mapM pDecl, ts.mapM pGTy with
    | .ok decls, .ok order =>
      let arr := decls.toArray
      let D : Decls := fun i => arr[i]?
      match runOrder D 100000 order [] [] with
      | none => "out-of-fuel"
      | some (res, m) =>
        let twins := (List.range arr.size).map fun id =>
          match lookup m id with
          | some (some u) => showTy u
          | _ => "-"
        " | ".intercalate res ++ " || " ++ " | ".intercalate twins
    | .error e, _ => "bad-request " ++ e
    | _, .error e => "bad-request " ++ e
  | _ => "bad-op"
end CvtDrv

/-- `efeq TV TU HASEQ DIRECT SAME EQ`: descriptor identities of the two operands (0 = nil interface), what the left
    descriptor says, whether the data words are one word, and the answer of the descriptor's Equal function -/
def handleEfeq (toks : List String) : String :=
  match toks with
  | [tv, tu, he, di, same, eq] =>
    match tv.toNat?, tu.toNat? with
    | some tv, some tu =>
      let mk (t : Nat) (w : Nat) : EfaceEq.Eface :=
        ⟨if t = 0 then none else some ⟨t, he == "1", di == "1"⟩, w⟩
      let equal : EfaceEq.EqFn := fun _ _ _ => if eq == "t" then .ok true else if eq == "f" then .ok false else .error ()
      let one (r : Except Unit Bool) : String := match r with
        | .ok true => "t" | .ok false => "f" | .error _ => "p"
      let v := mk tv 1
      let u := mk tu (if same == "1" then 1 else 2)
      one (EfaceEq.efaceEqual equal v u) ++ " " ++ one (EfaceEq.nilInterEqual equal v u)
    | _, _ => "bad-op"
  | _ => "bad-op"

/-- `iter <hex>` -/
def handleIter (toks : List String) : String :=
  match toks with
  | [h] =>
    match unhex h with
    | some bs =>
      let s := bs.map (·.toNat)
      let items := CoreGo.runesOf s.length 0 s
      if items.isEmpty then "-" else ",".intercalate (items.map fun p => s!"{p.1}:{p.2}")
    | none => "bad-op"
  | _ => "bad-op"

def handle (line : String) : String :=
  match line.toList with
  | 'r' :: 'u' :: 'n' :: ' ' :: rest =>
    let fuelS := rest.takeWhile (· != ' ')
    match (String.ofList fuelS).toNat?, parseSexps (rest.drop fuelS.length) [] with
    | some fuel, some (items, []) => handleRun fuel items
    | _, _ => "bad-op"
  | 'c' :: 'v' :: 't' :: ' ' :: rest =>
    match parseSexps rest [] with
    | some (items, []) => CvtDrv.handleCvt items
    | _ => "bad-op"
  | 'e' :: 'f' :: 'e' :: 'q' :: ' ' :: rest => handleEfeq (fields (String.ofList rest))
  | 'i' :: 't' :: 'e' :: 'r' :: ' ' :: rest => handleIter (fields (String.ofList rest))
  | 'f' :: 'i' :: 'x' :: rest => handleFix (fields (String.ofList rest))
  | 'b' :: 'l' :: 'o' :: 'c' :: 'k' :: 's' :: ' ' :: rest => handleBlocks (fields (String.ofList rest))
  | _ => "bad-op"

def main : IO Unit := lineLoop handle
