import LlgoVerif.Lemmas.HMap
/-!
# C06 — maps behave as finite maps (work in progress: see design/C06.md for the stage table)
-/
namespace LlgoVerif.HMap
open LlgoVerif.AssocList
variable {K V : Type} [Inhabited K] [Inhabited V]

/-- one pass of `mapassign` on a chain whose old bucket is evacuated refines `insert` -/
theorem assign_core_refines {o : Ops K} (ho : HashOK o) {h : HMap K V} (hw : WF o h) {hash : UInt64} {k : K} {v : V}
    (hhome : Home h (bucketIdx hash h.B)) (hhash : o.eq k k = true → hash = o.hash h.hash0 k)
    (hunh : o.unhashable k = false) : AssignPost o h k v (assignCore o h hash k v) :=
  assignCore_spec ho hw hhome hhash hunh

end LlgoVerif.HMap
