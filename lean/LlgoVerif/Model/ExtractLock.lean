/-!
# The lock protocol of `checkDownloadAndExtractLib` as a transition system over any number of processes

```go
func checkDownloadAndExtractLib(url, dstDir, sub string) error {
    if _, err := os.Stat(dstDir); err == nil { return nil }          // stat1
    lockFile, err := acquireLock(dstDir + ".lock")                   // openLock (O_CREATE), flock (LOCK_EX, blocks)
    defer releaseLock(lockFile)                                      // unlock (LOCK_UN + Close), unlink (os.Remove(lockPath))
    if _, err := os.Stat(dstDir); err == nil { return nil }          // stat2
    tempExtractDir := dstDir + ".extract"
    if err := downloadAndExtractArchive(url, tempExtractDir, …)      // mkTmp (RemoveAll+MkdirAll of tempExtractDir+".temp"),
        ; err != nil { return err }                                  //   write × K (download, extraction), renTmp (temp → tempExtractDir)
    defer os.RemoveAll(tempExtractDir)
    if err := os.Rename(srcDir, dstDir); err != nil { return … }     // renDst
    return nil
}
```

Shared state: the three directories (`dst`, `ext` = `dst.extract`, `tmp` = `dst.extract.temp`; a directory's
content is the list of chunk writes it received, each tagged with the writing process), the inode the path
`dst.lock` currently names, and which process holds the `flock` on which inode.  `flock` locks belong to the
*inode* (open file description), not to the path: a process that opened the lock file before it was unlinked
still locks the old inode, while a later `O_CREATE` makes a new one — the unlink-after-unlock race is part of
the model.  Failures (`fail = true`: the download or an entry fails) are a parameter of `step`.
-/
namespace LlgoVerif.ExtractLock

inductive PC where
  | stat1
  | openLock
  | flock (ino : Nat)
  | stat2 (ino : Nat)
  | mkTmp (ino : Nat)
  | write (ino : Nat) (left : Nat)
  | renTmp (ino : Nat)
  | renDst (ino : Nat)
  | unlock (ino : Nat) (ok : Bool)
  | unlink (ok : Bool)
  | done (ok : Bool)
  deriving DecidableEq, Repr

structure State where
  pc : Nat → PC
  /-- inode ↦ the process holding the exclusive `flock` on it -/
  locks : Nat → Option Nat
  /-- the inode the path `dst.lock` names, if the file exists -/
  lockFile : Option Nat
  nextIno : Nat
  dst : Option (List Nat)
  ext : Option (List Nat)
  tmp : Option (List Nat)
  /-- how many extractions were started (= downloads requested from the server) -/
  started : Nat

def init : State :=
  { pc := fun _ => .stat1, locks := fun _ => none, lockFile := none, nextIno := 0,
    dst := none, ext := none, tmp := none, started := 0 }

def setPc (s : State) (p : Nat) (c : PC) : State :=
  { s with pc := fun q => if q = p then c else s.pc q }

def setLock (s : State) (i : Nat) (v : Option Nat) : State :=
  { s with locks := fun j => if j = i then v else s.locks j }

/-- One step of process `p`; `none` = `p` cannot move (blocked in `flock`, or finished).
    `K` = number of chunk writes of one extraction; `fail` = the download/extraction fails at this step
    (only looked at while chunks are being written). -/
def step (K : Nat) (s : State) (p : Nat) (fail : Bool) : Option State :=
  match s.pc p with
  | .stat1 => some (setPc s p (if s.dst.isSome then .done true else .openLock))
  | .openLock =>
    match s.lockFile with
    | some i => some (setPc s p (.flock i))
    | none => some (setPc { s with lockFile := some s.nextIno, nextIno := s.nextIno + 1 } p (.flock s.nextIno))
  | .flock i =>
    if s.locks i = none then some (setPc (setLock s i (some p)) p (.stat2 i)) else none
  | .stat2 i => some (setPc s p (if s.dst.isSome then .unlock i true else .mkTmp i))
  | .mkTmp i => some (setPc { s with tmp := some [], started := s.started + 1 } p (.write i K))
  | .write i 0 => some (setPc s p (.renTmp i))
  | .write i (n + 1) =>
    if fail then some (setPc { s with tmp := none } p (.unlock i false))   -- error return; deferred RemoveAll(temp)
    else match s.tmp with
      | some t => some (setPc { s with tmp := some (t ++ [p]) } p (.write i n))
      | none => some (setPc s p (.unlock i false))                         -- ENOENT: somebody removed temp
  | .renTmp i =>
    match s.tmp, s.ext with
    | some t, none => some (setPc { s with tmp := none, ext := some t } p (.renDst i))
    | _, _ => some (setPc { s with tmp := none } p (.unlock i false))      -- rename fails; deferred RemoveAll(temp)
  | .renDst i =>
    match s.ext, s.dst with
    | some t, none => some (setPc { s with ext := none, dst := some t } p (.unlock i true))
    | _, _ => some (setPc { s with ext := none } p (.unlock i false))      -- rename fails; deferred RemoveAll(ext)
  | .unlock i ok => some (setPc (setLock s i none) p (.unlink ok))
  | .unlink ok => some (setPc { s with lockFile := none } p (.done ok))
  | .done _ => none

/-- the states reachable from `init` under any interleaving; failures only if `allowFail` -/
inductive Reach (K : Nat) (allowFail : Bool) : State → Prop where
  | init : Reach K allowFail init
  | step {s s' : State} (p : Nat) (fail : Bool) : Reach K allowFail s → (fail = true → allowFail = true) →
      step K s p fail = some s' → Reach K allowFail s'

/-- run a schedule (executable; used by the driver and for the concrete witnesses) -/
def runSched (K : Nat) : State → List (Nat × Bool) → Option State
  | s, [] => some s
  | s, (p, f) :: rest =>
    match step K s p f with
    | some s' => runSched K s' rest
    | none => none

/-- `p` is between "found `dst` absent under the lock" and "published / gave up": it is extracting -/
def extracting : PC → Bool
  | .mkTmp _ | .write _ _ | .renTmp _ | .renDst _ => true
  | _ => false

/-- `p` holds (believes to hold) the lock on inode `i` -/
def holds : PC → Nat → Bool
  | .stat2 j, i | .mkTmp j, i | .write j _, i | .renTmp j, i | .renDst j, i | .unlock j _, i => j == i
  | _, _ => false

/-- `p` has the lock file open (between `OpenFile` and `os.Remove`) -/
def hasOpened : PC → Bool
  | .flock _ | .stat2 _ | .mkTmp _ | .write _ _ | .renTmp _ | .renDst _ | .unlock _ _ | .unlink _ => true
  | _ => false

/-- `p` has released the lock or returned -/
def released : PC → Bool
  | .unlink _ | .done _ => true
  | _ => false

def idle : PC → Bool
  | .stat1 | .done _ => true
  | _ => false

/-- the observable event `p`'s next step performs (system call and its outcome), for trace validation -/
def eventOf (s : State) (p : Nat) : String :=
  match s.pc p with
  | .stat1 => if s.dst.isSome then "stat-present" else "stat-absent"
  | .openLock => "open"
  | .flock _ => "flock"
  | .stat2 _ => if s.dst.isSome then "stat-present" else "stat-absent"
  | .mkTmp _ => "mktmp"
  | .write _ 0 => "written"
  | .write _ _ => "write"
  | .renTmp _ => "rentmp"
  | .renDst _ => "rendst"
  | .unlock _ _ => "unlock"
  | .unlink _ => "unlink"
  | .done _ => "none"

end LlgoVerif.ExtractLock
