import LlgoVerif.Model.CoreGo
/-! Helper lemmas for the CoreGo evaluator: running one layer is monotone in the oracle that answers its
    requests for sub-evaluations.  This is the only place where the free monad is unfolded; nothing here depends on
    which language constructs `step` implements. -/
namespace LlgoVerif.CoreGo

/-- `g₂` answers at least what `g₁` answers, identically -/
def Extends (g₁ g₂ : Task → State → Option RawRes) : Prop :=
  ∀ t s r, g₁ t s = some r → g₂ t s = some r

theorem Prog.run_mono {α : Type} {g₁ g₂ : Task → State → Option RawRes} (h : Extends g₁ g₂)
    (p : Prog α) (a : α) : p.run g₁ = some a → p.run g₂ = some a := by
  induction p with
  | pure b => intro hb; simpa [Prog.run] using hb
  | call t s k ih =>
    intro hr
    simp only [Prog.run] at hr ⊢
    cases h1 : g₁ t s with
    | none => simp [h1] at hr
    | some r =>
      rw [h1] at hr
      rw [h t s r h1]
      exact ih r hr

theorem eval_succ_extends (P : Program) (n : Nat) : Extends (eval P n) (eval P (n + 1)) := by
  induction n with
  | zero => intro t s r h; simp [eval] at h
  | succ n ih =>
    intro t s r h
    simp only [eval] at h ⊢
    exact Prog.run_mono ih _ _ h

theorem eval_le_extends (P : Program) {n m : Nat} (hnm : n ≤ m) : Extends (eval P n) (eval P m) := by
  induction hnm with
  | refl => intro t s r h; exact h
  | step _ ih => intro t s r h; exact eval_succ_extends P _ t s r (ih t s r h)

end LlgoVerif.CoreGo
