import LlgoVerif.Model.DynEq
/-!
# Specification for DynEq: Go's `==` on interface values (C07)

Go spec, "Comparison operators":
* interface values are equal if they have identical dynamic types and equal dynamic values, or if both are nil;
  "a comparison of two interface values with identical dynamic types causes a run-time panic if that type is not comparable";
* boolean, integer, pointer, channel values: equal values; floating point: IEEE-754 `==`; complex: both parts;
  string: same bytes;
* struct values: "equal if their corresponding non-blank field values are equal.  The fields are compared in source order,
  and comparison stops as soon as two field values differ (or all fields have been compared)";
* array values: element-wise, in increasing index order, stopping at the first difference;
* slice, map and function types are not comparable; a struct / array type is comparable iff all its field types /
  its element type are.

`V` is an abstract Go value: no padding, no addresses, **no content for blank fields** — the specification cannot even
mention what the run time must ignore.  `valOf ty o` reads the value denoted by a memory image; `fits ty o` says that the
image is a well-formed image of a value of type `ty` (what the compiler and allocator guarantee).  Type identity is equality of
`Ty` terms (the other half of C07 — `typeName_injective_partial` — is about making descriptor pointers coincide with it).
-/
namespace LlgoVerif.DynEq

mutual
inductive V
  | word (n : Nat)              -- bool, integer, float (bit pattern), pointer, channel
  | pair (re im : Nat)          -- complex (bit patterns)
  | str (s : List UInt8)
  | opq                         -- slice / map / func value (never compared)
  | inil                        -- nil interface
  | idyn (t : Ty) (v : V)       -- interface holding `v` of dynamic type `t`
  | agg (vs : Vs)               -- struct / array
  | skip                        -- a blank field: no value
  | bad
inductive Vs
  | nil
  | cons (v : V) (rest : Vs)
end

/-- the underlying type of a defined type -/
def under : Ty → Ty
  | .named _ u => under u
  | t => t

/-- Go spec: comparable types -/
def comparable : Ty → Bool
  | .basic _ => true
  | .ptr .pointer _ => true
  | .ptr .chan _ => true
  | .ptr .map _ => false
  | .ptr .func _ => false
  | .slice _ => false
  | .iface _ _ => true
  | .array _ e => comparable e
  | .struct _ fs => comparableFs fs
  | .named _ u => comparable u
where
  comparableFs : Fs → Bool
    | .nil => true
    | .cons _ _ t r => comparable t && comparableFs r

def Basic.isComplex : Basic → Bool
  | .complex64 | .complex128 => true
  | _ => false

/-! ## the value a memory image denotes -/

mutual
def valOf (ty : Ty) (o : Obj Ty) : V :=
  match o with
  | .bytes bs =>
    match under ty with
    | .basic .complex64 => .pair (leNat (bs.take 4)) (leNat (bs.drop 4))
    | .basic .complex128 => .pair (leNat (bs.take 8)) (leNat (bs.drop 8))
    | .basic .string => .bad
    | .basic _ => .word (leNat bs)
    | .ptr _ _ => .word (leNat bs)
    | .slice _ => .opq
    | _ => .bad
  | .str _ s =>
    match under ty with
    | .basic .string => .str s
    | _ => .bad
  | .enil _ =>
    match under ty with
    | .iface _ _ => .inil
    | _ => .bad
  | .eface _ t _ box =>
    match under ty with
    | .iface _ _ => .idyn t (valOf t box)
    | _ => .bad
  | .seq ps _ =>
    match under ty with
    | .array _ e => .agg (valElems e ps)
    | .struct _ fs => .agg (valFields fs ps)
    | _ => .bad
def valElems (e : Ty) (ps : Parts Ty) : Vs :=
  match ps with
  | .nil => .nil
  | .cons _ o rest => .cons (valOf e o) (valElems e rest)
def valFields (fs : Fs) (ps : Parts Ty) : Vs :=
  match ps with
  | .nil => .nil
  | .cons _ o rest =>
    match fs with
    | .nil => .nil
    | .cons name _ t fr => .cons (if name = 0 then .skip else valOf t o) (valFields fr rest)
end

/-! ## Go's `==` -/

mutual
/-- `v == w` for two values of type `ty` -/
def goEq (ty : Ty) (v w : V) : Except Err Bool :=
  match v, w with
  | .word a, .word b =>
    match under ty with
    | .basic .float32 => .ok (feq32 a b)
    | .basic .float64 => .ok (feq64 a b)
    | .basic .complex64 => .error .wild
    | .basic .complex128 => .error .wild
    | .basic .string => .error .wild
    | .basic _ => .ok (a == b)
    | .ptr .pointer _ => .ok (a == b)
    | .ptr .chan _ => .ok (a == b)
    | _ => .error .wild
  | .pair a b, .pair c d =>
    match under ty with
    | .basic .complex64 => .ok (feq32 a c && feq32 b d)
    | .basic .complex128 => .ok (feq64 a c && feq64 b d)
    | _ => .error .wild
  | .str s, .str t =>
    match under ty with
    | .basic .string => .ok (s == t)
    | _ => .error .wild
  | .inil, .inil => .ok true
  | .inil, .idyn _ _ => .ok false
  | .idyn _ _, .inil => .ok false
  | .idyn t v', .idyn u w' =>
    if t ≠ u then .ok false
    else if !comparable t then .error .uncomparable
    else goEq t v' w'
  | .agg vs, .agg ws =>
    match under ty with
    | .array _ e => goEqElems e vs ws
    | .struct _ fs => goEqFields fs vs ws
    | _ => .error .wild
  | _, _ => .error .wild
def goEqElems (e : Ty) (vs ws : Vs) : Except Err Bool :=
  match vs, ws with
  | .nil, .nil => .ok true
  | .cons v vr, .cons w wr =>
    match goEq e v w with
    | .error x => .error x
    | .ok false => .ok false
    | .ok true => goEqElems e vr wr
  | _, _ => .error .wild
def goEqFields (fs : Fs) (vs ws : Vs) : Except Err Bool :=
  match vs, ws with
  | .nil, .nil => .ok true
  | .cons v vr, .cons w wr =>
    match fs with
    | .nil => .error .wild
    | .cons name _ t fr =>
      if name = 0 then goEqFields fr vr wr
      else
        match goEq t v w with
        | .error x => .error x
        | .ok false => .ok false
        | .ok true => goEqFields fr vr wr
  | _, _ => .error .wild
end

/-- `a == b` for two interface values (`any` or a non-empty interface type) -/
def ifaceEq (a b : V) : Except Err Bool := goEq (.iface 0 0) a b

/-! ## well-formed memory images -/

/-- a direct-interface type whose data word lies (also) in a blank field: `struct{ _ *T }`, `[1]struct{ _ chan int }` … -/
def blankDirect : Ty → Bool
  | .array _ e => blankDirect e
  | .struct _ (.cons name _ t .nil) => name == 0 || blankDirect t
  | .named _ u => blankDirect u
  | _ => false

mutual
/-- what go/types' sizes guarantee and `IsRegularMemory` relies on without checking it: `struct{}` has size 0, the first
    field of a struct lies at offset 0 and a one-field struct is as large as its field (validated on every real descriptor by the check;
    layout itself is C08's subject) -/
def layoutOK : Ty → Bool
  | .array _ e => layoutOK e
  | .struct size fs =>
    (match fs with
     | .nil => size == 0
     | .cons _ off t .nil => off == 0 && size == tsize t
     | .cons _ off _ _ => off == 0) && layoutOKFs fs
  | .named _ u => layoutOK u
  | _ => true
def layoutOKFs : Fs → Bool
  | .nil => true
  | .cons _ _ t r => layoutOK t && layoutOKFs r
end

mutual
/-- `o` is the image of a value of type `ty`: sizes, field offsets, element strides are the descriptor's; the dynamic
    value of an interface is an image of ITS type, and for a direct type the data word is that image -/
def fits (ty : Ty) (o : Obj Ty) : Bool :=
  match o with
  | .bytes bs =>
    match under ty with
    | .basic .string => false
    | .basic b => bs.length == b.size
    | .ptr _ _ => bs.length == 8
    | .slice _ => bs.length == 24
    | _ => false
  | .str _ _ =>
    match under ty with
    | .basic .string => true
    | _ => false
  | .enil _ =>
    match under ty with
    | .iface _ _ => true
    | _ => false
  | .eface _ t dw box =>
    match under ty with
    | .iface _ _ => fits t box && layoutOK t && (!directTy t || flat box == le64 dw.toNat)
    | _ => false
  | .seq ps tail =>
    match under ty with
    | .array n e => tail.isEmpty && fitsElems e n ps
    | .struct size fs => fitsFields fs ps 0 && (flatParts ps).length + tail.length == size
    | _ => false
def fitsElems (e : Ty) (n : Nat) (ps : Parts Ty) : Bool :=
  match ps with
  | .nil => n == 0
  | .cons pre o rest =>
    match n with
    | 0 => false
    | n'+1 => pre.isEmpty && fits e o && flatLen o == tsize e && fitsElems e n' rest
def fitsFields (fs : Fs) (ps : Parts Ty) (cur : Nat) : Bool :=
  match ps with
  | .nil => match fs with | .nil => true | _ => false
  | .cons pre o rest =>
    match fs with
    | .nil => false
    | .cons _ off t fr => cur + pre.length == off && fits t o && flatLen o == tsize t && fitsFields fr rest (off + tsize t)
end

mutual
/-- no interface value inside `o` (or `o` itself) has a `blankDirect` dynamic type -/
def okDyn (o : Obj Ty) : Bool :=
  match o with
  | .eface _ t _ box => !blankDirect t && okDyn box
  | .seq ps _ => okDynParts ps
  | _ => true
def okDynParts (ps : Parts Ty) : Bool :=
  match ps with
  | .nil => true
  | .cons _ o rest => okDyn o && okDynParts rest
end

/-! ## hashability of a value (what `m[k]` panics on) -/

mutual
/-- the value contains, in a non-blank position, an interface holding a value of a non-comparable dynamic type -/
def unhashable (ty : Ty) (v : V) : Bool :=
  match v with
  | .idyn t v' => !comparable t || unhashable t v'
  | .agg vs =>
    match under ty with
    | .array _ e => unhashableElems e vs
    | .struct _ fs => unhashableFields fs vs
    | _ => false
  | _ => false
def unhashableElems (e : Ty) (vs : Vs) : Bool :=
  match vs with
  | .nil => false
  | .cons v r => unhashable e v || unhashableElems e r
def unhashableFields (fs : Fs) (vs : Vs) : Bool :=
  match vs with
  | .nil => false
  | .cons v r =>
    match fs with
    | .nil => false
    | .cons name _ t fr => (name != 0 && unhashable t v) || unhashableFields fr r
end

end LlgoVerif.DynEq
