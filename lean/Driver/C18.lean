import LlgoVerif.Util
import LlgoVerif.Model.Targets
import LlgoVerif.Spec.Targets
/-! Line-protocol driver for C18 (stateful: the state is the directory `FS` built so far).

    reset                               -> ok           forget all files
    bad  N                              -> ok           file N exists but is not parsable
    file N INH FIELD*                   -> ok           file N parses to a RawConfig; INH = `.` | H,H,…
                                                        FIELD = s:GoName=H | b:GoName | l:GoName=H,H,…
    load  N FUEL | loadv N FUEL | spec N FUEL
                                        -> ok CFG | err missing|parse|cycle H | diverge
                                           (`load` = model of the code as written, `loadv` = with the visited path,
                                            `spec` = specConfig of the lineage)
    lineage N FUEL                      -> ok H,H,… | err … | diverge
    acyclic N                           -> true | false
    fields                              -> ok GoName:gotype …     the fields the model has
    CFG = Name=H then the set fields in model order:  s:GoName=H  b:GoName  l:GoName=H,H,…
    (N, H = hex of UTF-8 bytes, `-` = empty string) -/
open LlgoVerif LlgoVerif.Util LlgoVerif.Targets

def setStr (c : Config) (v : String) : SField → Config
  | .llvmTarget => { c with llvmTarget := v }
  | .cpu => { c with cpu := v }
  | .features => { c with features := v }
  | .goos => { c with goos := v }
  | .goarch => { c with goarch := v }
  | .libc => { c with libc := v }
  | .rtLib => { c with rtLib := v }
  | .linker => { c with linker := v }
  | .linkerScript => { c with linkerScript := v }
  | .codeModel => { c with codeModel := v }
  | .targetABI => { c with targetABI := v }
  | .relocationModel => { c with relocationModel := v }
  | .binaryFormat => { c with binaryFormat := v }
  | .uf2FamilyID => { c with uf2FamilyID := v }
  | .flashMethod => { c with flashMethod := v }
  | .flashCommand => { c with flashCommand := v }
  | .flash1200BpsReset => { c with flash1200BpsReset := v }
  | .serial => { c with serial := v }
  | .msdFirmwareName => { c with msdFirmwareName := v }
  | .emulator => { c with emulator := v }
  | .openOCDInterface => { c with openOCDInterface := v }
  | .openOCDTransport => { c with openOCDTransport := v }
  | .openOCDTarget => { c with openOCDTarget := v }

def setList (c : Config) (v : List String) : LField → Config
  | .buildTags => { c with buildTags := v }
  | .cFlags => { c with cFlags := v }
  | .ldFlags => { c with ldFlags := v }
  | .extraFiles => { c with extraFiles := v }
  | .serialPort => { c with serialPort := v }
  | .msdVolumeName => { c with msdVolumeName := v }
  | .gdb => { c with gdb := v }


def unhexStr (h : String) : Option String := do
  let bs ← unhex h
  String.fromUTF8? (ByteArray.mk bs.toArray)

def hexStr (s : String) : String := hex s.toUTF8.toList

def hexStrs (l : List String) : String := ",".intercalate (l.map hexStr)

def unhexStrs (s : String) : Option (List String) := (s.splitOn ",").mapM unhexStr

def showConfig (c : Config) : String :=
  let ss := SField.all.filterMap fun f => if c.str f ≠ "" then some s!"s:{f.goName}={hexStr (c.str f)}" else none
  let bs := if c.rp2040BootPatch then ["b:RP2040BootPatch"] else []
  let ls := LField.all.filterMap fun f => if (c.list f).length > 0 then some s!"l:{f.goName}={hexStrs (c.list f)}" else none
  " ".intercalate (s!"Name={hexStr c.name}" :: (ss ++ bs ++ ls))

def showErr : Err → String
  | .missing n => s!"err missing {hexStr n}"
  | .parse n => s!"err parse {hexStr n}"
  | .cycle n => s!"err cycle {hexStr n}"

def showOutcome : Outcome Config → String
  | .ok c => "ok " ++ showConfig c
  | .error e => showErr e
  | .diverge => "diverge"

def parseField (c : Config) (tok : String) : Option Config :=
  match tok.splitOn ":" with
  | ["s", kv] =>
    match kv.splitOn "=" with
    | [k, v] => do
      let f ← SField.all.find? (fun f => f.goName = k)
      let v ← unhexStr v
      pure (setStr c v f)
    | _ => none
  | ["b", k] => if k = "RP2040BootPatch" then some { c with rp2040BootPatch := true } else none
  | ["l", kv] =>
    match kv.splitOn "=" with
    | [k, v] => do
      let f ← LField.all.find? (fun f => f.goName = k)
      let v ← unhexStrs v
      pure (setList c v f)
    | _ => none
  | _ => none

def handle (fs : FS) (line : String) : FS × String :=
  match fields line with
  | ["reset"] => ([], "ok")
  | ["fields"] => (fs, "ok " ++ " ".intercalate (modelFields.map fun f => s!"{f.1}:{f.2}"))
  | ["bad", n] =>
    match unhexStr n with
    | some n => (fs ++ [(n, .bad)], "ok")
    | none => (fs, "bad-op")
  | "file" :: n :: inh :: fl =>
    match unhexStr n, (if inh = "." then some [] else unhexStrs inh), fl.foldlM parseField ({} : Config) with
    | some n, some inh, some c => (fs ++ [(n, .good { inherits := inh, config := c })], "ok")
    | _, _, _ => (fs, "bad-op")
  | [op, n, fuel] =>
    match unhexStr n, fuel.toNat? with
    | some n, some fuel =>
      if op = "load" then (fs, showOutcome (load fs fuel n))
      else if op = "loadv" then (fs, showOutcome (loadV fs fuel [] n))
      else if op = "spec" then (fs, showOutcome (specResolve fs fuel n))
      else if op = "lineage" then
        (fs, match lineage fs fuel n with
          | .ok ds => "ok " ++ hexStrs (ds.map (·.1))
          | .error e => showErr e
          | .diverge => "diverge")
      else (fs, "bad-op")
    | _, _ => (fs, "bad-op")
  | ["acyclic", n] =>
    match unhexStr n with
    | some n => (fs, if acyclic fs n then "true" else "false")
    | none => (fs, "bad-op")
  | _ => (fs, "bad-op")

def main : IO Unit := lineLoopSt ([] : FS) handle
