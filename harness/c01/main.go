// Correspondence harness for C01 (operand-order fix-up): builds go/ssa for the Go files given as arguments exactly as
// llgo does (SanityCheckFunctions|InstantiateGenerics), and for every basic block prints
//
//	<func>#<block> | <abstract instruction list before the pass> | <instruction ids after the REAL fixSSAOrderBlock>
//
// The abstraction (id:kind:uses, see lean/LlgoVerif/Model/OrderFix.lean) is computed here, independently of the pass.
package main

import (
	"bufio"
	"fmt"
	"go/ast"
	"go/parser"
	"go/token"
	"go/types"
	"os"
	"sort"
	"strconv"
	"strings"

	"github.com/goplus/llgo/cl/blocks"
	"github.com/goplus/llgo/internal/build"
	llssa "github.com/goplus/llgo/ssa"
	"golang.org/x/tools/go/ssa"
	"golang.org/x/tools/go/ssa/ssautil"
)

// blocksLine prints the control-flow graph of f as blocks.Infos sees it and the REAL result of blocks.Infos:
//
//	<func> | succs per block (`;`-separated, `.` inside) | len(Preds) per block | kind:next per block
func blocksLine(out *bufio.Writer, f *ssa.Function) {
	if len(f.Blocks) == 0 {
		return
	}
	var ss, ps []string
	for _, b := range f.Blocks {
		var s []int
		for _, x := range b.Succs {
			s = append(s, x.Index)
		}
		ss = append(ss, join(s))
		ps = append(ps, strconv.Itoa(len(b.Preds)))
	}
	res := "panic"
	func() {
		defer func() {
			if e := recover(); e != nil {
				res = fmt.Sprintf("panic:%v", e)
			}
		}()
		infos := blocks.Infos(f.Blocks)
		var is []string
		for _, in := range infos {
			k := "?"
			switch in.Kind {
			case llssa.DeferAlways:
				k = "A"
			case llssa.DeferInCond:
				k = "C"
			case llssa.DeferInLoop:
				k = "L"
			}
			n := "-"
			if in.Next >= 0 {
				n = strconv.Itoa(in.Next)
			}
			is = append(is, k+":"+n)
		}
		res = strings.Join(is, ",")
	}()
	fmt.Fprintf(out, "%s | %s | %s | %s\n", strings.ReplaceAll(f.String(), " ", ""), strings.Join(ss, ";"), strings.Join(ps, "."), res)
}

func main() {
	out := bufio.NewWriter(os.Stdout)
	defer out.Flush()
	fset := token.NewFileSet()
	var files []*ast.File
	args := os.Args[1:]
	if len(args) > 0 && args[0] == "-cvt" {
		cvtMode(out, args[1:])
		return
	}
	blocksMode := len(args) > 0 && args[0] == "-blocks"
	if blocksMode {
		args = args[1:]
	}
	for _, fn := range args {
		f, err := parser.ParseFile(fset, fn, nil, parser.ParseComments)
		if err != nil {
			fmt.Fprintln(os.Stderr, "parse:", err)
			os.Exit(2)
		}
		files = append(files, f)
	}
	pkg := types.NewPackage("main", "main")
	ssapkg, _, err := ssautil.BuildPackage(&types.Config{Importer: unsafeOnly{}}, fset, pkg, files, ssa.SanityCheckFunctions|ssa.InstantiateGenerics)
	if err != nil {
		fmt.Fprintln(os.Stderr, "build:", err)
		os.Exit(2)
	}
	var fns []*ssa.Function
	seen := map[*ssa.Function]bool{}
	var add func(f *ssa.Function)
	add = func(f *ssa.Function) {
		if f == nil || seen[f] {
			return
		}
		seen[f] = true
		fns = append(fns, f)
		for _, a := range f.AnonFuncs {
			add(a)
		}
	}
	var names []string
	for n := range ssapkg.Members {
		names = append(names, n)
	}
	sort.Strings(names)
	for _, n := range names {
		switch m := ssapkg.Members[n].(type) {
		case *ssa.Function:
			add(m)
		case *ssa.Type:
			for _, t := range []types.Type{m.Type(), types.NewPointer(m.Type())} {
				ms := ssapkg.Prog.MethodSets.MethodSet(t)
				for i := 0; i < ms.Len(); i++ {
					add(ssapkg.Prog.MethodValue(ms.At(i)))
				}
			}
		}
	}
	if blocksMode {
		for _, f := range fns {
			blocksLine(out, f)
		}
		return
	}
	for _, f := range fns {
		ids := map[ssa.Instruction]int{}
		n := 0
		for _, b := range f.Blocks {
			for _, ins := range b.Instrs {
				ids[ins] = n
				n++
			}
		}
		extra := map[ssa.Value]int{}
		idOf := func(v ssa.Value) int {
			if ins, ok := v.(ssa.Instruction); ok {
				if id, ok := ids[ins]; ok {
					return id
				}
			}
			if id, ok := extra[v]; ok {
				return id
			}
			extra[v] = 100000 + len(extra)
			return extra[v]
		}
		for _, b := range f.Blocks {
			var before []string
			for _, ins := range b.Instrs {
				before = append(before, describe(ins, ids[ins], idOf))
			}
			build.VerifFixSSAOrderBlock(b)
			var after []string
			for _, ins := range b.Instrs {
				after = append(after, strconv.Itoa(ids[ins]))
			}
			fmt.Fprintf(out, "%s#%d | %s | %s\n", strings.ReplaceAll(f.String(), " ", ""), b.Index, strings.Join(before, " "), strings.Join(after, " "))
		}
	}
}

// the generated sources import nothing but "unsafe"
type unsafeOnly struct{}

func (unsafeOnly) Import(path string) (*types.Package, error) {
	if path == "unsafe" {
		return types.Unsafe, nil
	}
	return nil, fmt.Errorf("import of %q is outside the fragment", path)
}

func join(xs []int) string {
	s := make([]string, len(xs))
	for i, x := range xs {
		s[i] = strconv.Itoa(x)
	}
	return strings.Join(s, ".")
}

// allocsBehind: every Alloc reachable from v through operand chains of instructions
func allocsBehind(v ssa.Value, idOf func(ssa.Value) int) []int {
	seen := map[ssa.Value]bool{}
	set := map[int]bool{}
	var walk func(v ssa.Value)
	walk = func(v ssa.Value) {
		if v == nil || seen[v] {
			return
		}
		seen[v] = true
		if a, ok := v.(*ssa.Alloc); ok {
			set[idOf(a)] = true
		}
		if ins, ok := v.(ssa.Instruction); ok {
			for _, op := range ins.Operands(nil) {
				if op != nil {
					walk(*op)
				}
			}
		}
	}
	walk(v)
	var out []int
	for a := range set {
		out = append(out, a)
	}
	sort.Ints(out)
	return out
}

func describe(ins ssa.Instruction, id int, idOf func(ssa.Value) int) string {
	var uses []int
	for _, op := range ins.Operands(nil) {
		if op != nil && *op != nil {
			uses = append(uses, idOf(*op))
		}
	}
	kind := "P"
	switch x := ins.(type) {
	case *ssa.UnOp:
		if x.Op == token.MUL {
			if a, ok := x.X.(*ssa.Alloc); ok {
				kind = "L" + strconv.Itoa(idOf(a))
			}
		}
	case *ssa.Store:
		kind = "S" + join(allocsBehind(x.Addr, idOf))
	case *ssa.Return:
		kind = "R"
		uses = uses[:0]
		for _, r := range x.Results {
			uses = append(uses, idOf(r))
		}
	case *ssa.Send, *ssa.MapUpdate, *ssa.Panic, *ssa.RunDefers:
		kind = "E"
	}
	if ci, ok := ins.(ssa.CallInstruction); ok {
		var as []int
		for _, op := range ci.Common().Operands(nil) {
			if op != nil {
				if a, ok := (*op).(*ssa.Alloc); ok {
					as = append(as, idOf(a))
				}
			}
		}
		kind = "C" + join(as)
	}
	return fmt.Sprintf("%d:%s:%s", id, kind, join(uses))
}
