import LlgoVerif.Gen.C19Facts
import LlgoVerif.Props.C19
/-!
# C19, tie A: fixed obligations over the table regenerated from llgo's IR (`Gen/C19Facts.lean`)

`progs` holds, for every program generated in this run of `./check C19`, one `InitFact` per package (the
tokens of its `init` function as read from the -O0 IR plus the decomposition the extractor believes in),
the calls of the entry function, and the uses the check performs after initialisation.
The theorems below are re-checked by `lake build` against what the working tree emits NOW: loading the
symbols before the imports' initialisers, importing without the nil test, an import that is not stored,
a symbol load that misses a called function, a `Py_Initialize` that is not first … break one of them.
-/
namespace LlgoVerif.GenProofs.C19
open LlgoVerif.PyGuard LlgoVerif.Gen.C19

/-- everything that is checked about one generated program -/
def progOk (g : GenProg) : Bool :=
  g.wf && g.facts.all okShape && okEntry g.entry &&
  checkB g.prog (fun _ => true) (initOrder g.prog g.main) g.calls

/-- the table is not empty and every program has binding packages, ordinary users and symbol loads -/
theorem facts_present :
    progs.length ≥ 1 ∧ progs.all (fun g =>
      decide (g.facts.length ≥ 4) && g.facts.any (fun f => f.imp.isSome) &&
      g.facts.any (fun f => !f.loadGroups.isEmpty) && g.facts.any (fun f => !f.initUses.isEmpty)) = true := by
  decide

/-- every emitted `init` has the guarded shape (symbol loads after the imports' initialisers and before the
    body; a binding package ends with the nil-tested, stored import), the entry function starts with
    `Py_Initialize`, and the program satisfies every hypothesis of `import_once_before_use` for the order
    llgo's initialisers produce -/
theorem every_program_ok : progs.all progOk = true := by decide

/-- hence (by `shape_sound`) every emitted `init` executes exactly as the model's `initBody` … -/
theorem every_init_is_model_step :
    ∀ g ∈ progs, ∀ f ∈ g.facts, ∀ (imp : Mod → Bool) (s : St),
      execToks imp f.id f.toks s = initBody g.prog imp s f.id := by
  intro g hg f hf imp s
  have h := List.all_eq_true.1 every_program_ok g hg
  simp only [progOk, Bool.and_eq_true] at h
  obtain ⟨⟨⟨hwf, hshape⟩, _⟩, _⟩ := h
  exact shape_sound f (List.all_eq_true.1 hshape f hf) g.prog (g.prog_at hwf f hf) imp s

/-- … and (by `import_once_before_use`) every generated program, started with any `sys.modules`, runs
    without failure: each bound module imported once by its first binder, module bodies once, everything
    before its first use. -/
theorem generated_programs_guarded :
    ∀ g ∈ progs, ∀ pre : List Mod,
      ∃ s, run g.prog (fun _ => true) pre (initOrder g.prog g.main) g.calls = .ok s ∧
        GuardOk g.prog pre (initOrder g.prog g.main) s.trace := by
  intro g hg pre
  have h := List.all_eq_true.1 every_program_ok g hg
  simp only [progOk, Bool.and_eq_true] at h
  exact import_once_before_use_checked g.prog _ pre _ g.calls h.2

end LlgoVerif.GenProofs.C19
