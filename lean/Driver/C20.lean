import LlgoVerif.Util
import LlgoVerif.Model.Path
import LlgoVerif.Model.Extract
import LlgoVerif.Model.ExtractLock
/-! Line-protocol driver for C20. One request per line, one answer per line (H = hex of bytes, `-` = empty).

    clean H | dir H | join H H        -> ok H
    x CFG FMT ENTRIES                 -> ok|err LISTING         FMT = tgz | zip ; CFG = five 0/1 flags
                                         (tarAcceptRoot tarTrunc zipGuard zipAcceptRoot zipMkParents)
    lib CFG SUB FNAME ENTRIES         -> ok|err LISTING | nomodel
    lock N FAIL SCHEDULE              -> ok maxExtractors=K dst=… | stuck@i   (SCHEDULE = comma separated process numbers)
    ENTRIES = "." | K:NAME:DATA:LINK,…   LISTING = "." | PATH=d PATH=f:DATA …  (paths relative to the case directory) -/
open LlgoVerif LlgoVerif.Util LlgoVerif.Path LlgoVerif.Extract

def toStr (bs : List UInt8) : Str := bs.map fun b => Char.ofNat b.toNat
def ofStr (s : Str) : List UInt8 := s.map fun c => UInt8.ofNat c.toNat
def unhexStr (h : String) : Option Str := (unhex h).map toStr
def hexStr (s : Str) : String := hex (ofStr s)

def parseEntry (s : String) : Option Entry :=
  match s.splitOn ":" with
  | [k, n, d, l] => do
    let kind ← match k with
      | "d" => some Kind.dir | "f" => some Kind.reg | "s" => some Kind.sym | "h" => some Kind.other | "o" => some Kind.other
      | _ => none
    pure { kind := kind, name := (← unhexStr n), data := (← unhex d), link := (← unhex l) }
  | _ => none

def parseEntries (s : String) : Option (List Entry) :=
  if s = "." then some [] else (s.splitOn ",").mapM parseEntry

def parseCfg (s : String) : Option Cfg :=
  match s.toList.map (· == '1') with
  | [a, b, c, d, e] => if s.toList.all (fun ch => ch == '0' || ch == '1') then some ⟨a, b, c, d, e⟩ else none
  | _ => none

def keyStr (k : Key) : Str := joinSlash k

def listing (fs : FS) : String :=
  let items := (dedup fs []).map fun (k, n) =>
    hexStr (keyStr k) ++ (match n with | .dir => "=d" | .file d => "=f:" ++ hex d)
  if items.isEmpty then "." else " ".intercalate items

/-- the directories the harness creates before extracting -/
def destStr : Str := "/g1/g2/g3/root/a/b/dest".toList
def prefixesOf : Key → List Key
  | [] => []
  | c :: cs => [c] :: (prefixesOf cs).map (c :: ·)
def initFS : FS := (prefixesOf (comps destStr)).map fun k => (k, Node.dir)

open LlgoVerif.ExtractLock in
/-- replay a schedule of the lock-protocol model.  Items: `p` (step of process p), `p!` (failing step),
    `p:evt` (step that must perform the observable event `evt`, else `mismatch`). -/
def handleLock (k n : Nat) (sched : String) : String :=
  let items := if sched = "." then [] else sched.splitOn ","
  let countExt (s : State) : Nat := ((List.range n).filter fun p => extracting (s.pc p)).length
  let showTree (t : Option (List Nat)) : String :=
    match t with
    | none => "none"
    | some l => if l.length = k && (match l with | [] => true | p :: r => r.all (· == p)) then "complete" else "broken"
  let rec go (s : State) (i : Nat) (mx : Nat) : List String → String
    | [] =>
      let pcs := (List.range n).map fun p => match s.pc p with
        | .done true => "done-ok" | .done false => "done-err" | .stat1 => "idle" | _ => "active"
      s!"ok maxext={mx} started={s.started} dst={showTree s.dst} ext={showTree s.ext} tmp={showTree s.tmp} lockfile={if s.lockFile.isSome then 1 else 0} " ++ ",".intercalate pcs
    | it :: rest =>
      let (ps, evt) := match it.splitOn ":" with
        | [a, b] => (a, some b)
        | _ => (it, none)
      let fail := ps.endsWith "!"
      let ps := if fail then (ps.dropEnd 1).toString else ps
      match ps.toNat? with
      | none => "bad-op"
      | some p =>
        if p ≥ n then "bad-op" else
        match evt with
        | some e => if e ≠ eventOf s p then s!"mismatch@{i}:{eventOf s p}" else
          match step k s p fail with
          | some s' => go s' (i + 1) (max mx (countExt s')) rest
          | none => s!"stuck@{i}"
        | none =>
          match step k s p fail with
          | some s' => go s' (i + 1) (max mx (countExt s')) rest
          | none => s!"stuck@{i}"
  go init 0 0 items

def handle (line : String) : String :=
  match fields line with
  | ["clean", h] => match unhexStr h with
    | some s => "ok " ++ hexStr (clean s)
    | none => "bad-op"
  | ["dir", h] => match unhexStr h with
    | some s => "ok " ++ hexStr (dirOf s)
    | none => "bad-op"
  | ["join", a, b] => match unhexStr a, unhexStr b with
    | some a, some b => "ok " ++ hexStr (join a b)
    | _, _ => "bad-op"
  | ["x", c, f, es] =>
    let fmt := match f with | "tgz" => some Format.tgz | "zip" => some Format.zip | _ => none
    match parseCfg c, fmt, parseEntries es with
    | some cfg, some fmt, some ar =>
      match extract cfg fmt destStr initFS ar with
      | (fs, none) => "ok " ++ listing fs
      | (fs, some _) => "err " ++ listing fs
    | _, _, _ => "bad-op"
  | ["lib", c, sub, fname, es] =>
    match parseCfg c, unhexStr sub, unhexStr fname, parseEntries es with
    | some cfg, some sub, some fname, some ar =>
      match libResult cfg "/cache/lib".toList sub (fname, []) ar with
      | none => "nomodel"
      | some (true, fs) => "ok " ++ listing fs
      | some (false, fs) => "err " ++ listing fs
    | _, _, _, _ => "bad-op"
  | ["lock", k, n, sched] =>
    match k.toNat?, n.toNat? with
    | some k, some n => handleLock k n sched
    | _, _ => "bad-op"
  | _ => "bad-op"

def main : IO Unit := lineLoop handle
