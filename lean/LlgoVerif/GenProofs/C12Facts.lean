import LlgoVerif.Gen.C12Facts
import LlgoVerif.Props.C12
/-!
# C12, tie A: fixed obligations over the table regenerated from llgo's IR (`Gen/C12Facts.lean`)

`facts` holds every package initialiser llgo emitted for the generated module trees of this run (and for
the patched std package sync/atomic, first `nStd` entries), `entries` every generated entry function.
The theorems below are re-checked by `lake build` against what the working tree emits NOW: moving the
guard store after the import calls, dropping the guard, reordering or dropping import initialisers,
dropping or misplacing the `init$hasPatch` chain call, or reordering the entry sequence breaks one.
-/
namespace LlgoVerif.GenProofs.C12
open LlgoVerif.Init LlgoVerif.Gen.C12

/-- the table is not empty: ordinary packages, the chained patched package (both halves) and entries -/
theorem facts_present :
    (facts.drop nStd).length ≥ 3 ∧ entries.length ≥ 1 ∧
    (facts.take nStd).any (fun f => f.chained && !f.hasPatchFn) = true ∧
    (facts.take nStd).any (fun f => f.chained && f.hasPatchFn) = true := by decide

/-- every emitted initialiser has the guarded shape and calls exactly the imports' initialisers (the set
    `go list` reports, in go/types order) before its own body; a chained patched `init` calls
    `init$hasPatch` first; `init$hasPatch` tests the guard with swapped successors -/
theorem every_init_guarded : facts.all okShape = true := by decide

/-- every generated entry function is `[Py_Initialize] [runtime init] [init$abitypes] runtime.init main.init main.main` -/
theorem every_entry_ordered : entries.all okEntry = true := by decide

/-- hence (by `shape_sound`) every emitted `init` of the table executes exactly as the model's `initStep` -/
theorem every_init_is_model_step (call : Nat → St → St) (oi : List Nat) (s : St) :
    ∀ f ∈ facts, f.hasPatchFn = false →
      execInit call (initHasPatch call oi f.id) f.id false f.toks s =
        some (initStep call { imports := f.imports, kind := if f.chained then .chained oi else .normal } f.id s) := by
  intro f hf hp
  exact shape_sound f hp (List.all_eq_true.1 every_init_guarded f hf) call oi s

/-- … and every emitted `init$hasPatch` as the model's `initHasPatch` -/
theorem every_hasPatch_is_model (call : Nat → St → St) (hp : St → St) (s : St) :
    ∀ f ∈ facts, f.hasPatchFn = true →
      execInit call hp f.id true f.toks s = some (initHasPatch call f.imports f.id s) := by
  intro f hf h
  exact shape_sound_hasPatch f h (List.all_eq_true.1 every_init_guarded f hf) call hp s

end LlgoVerif.GenProofs.C12
