// Package psync: controllable-scheduler stand-in for clite/pthread/sync (DESIGN.md appendix B).
//
// Two modes.  Direct mode (default, no Spawn call): Mutex/Cond are plain no-ops suitable for
// single-threaded harnesses (Cond.Wait in direct mode panics: it would block forever).
// Scheduled mode: threads are created with Spawn, and Step(id) lets one thread run until its next
// scheduling point (Lock, Wait, explicit Yield).  The driver decides every choice, can inject
// spurious wake-ups, and chooses which waiter a Signal wakes.
package psync

import "fmt"

type MutexAttr struct{}
type CondAttr struct{}
type Once struct{ done bool }

func (o *Once) Do(f func()) {
	if !o.done {
		o.done = true
		f()
	}
}

type thread struct {
	id      int
	wake    chan struct{}
	done    bool
	waiting *Cond // non-nil while blocked in Cond.Wait (not yet signalled)
	wantMu  *Mutex
	panicv  interface{}
}

var (
	threads []*thread
	cur     *thread
	back    = make(chan struct{})
	Trace   func(string)
	// SignalPick chooses which of the waiters (thread ids, ascending) a Signal wakes; nil = lowest id.
	SignalPick func(waiters []int) int
)

func Scheduled() bool { return cur != nil || len(threads) > 0 }

func Reset() { threads = nil; cur = nil; SignalPick = nil }

func Spawn(f func()) int {
	t := &thread{id: len(threads), wake: make(chan struct{})}
	threads = append(threads, t)
	go func() {
		<-t.wake
		defer func() {
			if e := recover(); e != nil {
				t.panicv = e
			}
			t.done = true
			back <- struct{}{}
		}()
		f()
	}()
	return t.id
}

func Cur() int {
	if cur == nil {
		return -1
	}
	return cur.id
}

func Done(id int) bool          { return threads[id].done }
func Panic(id int) interface{}  { return threads[id].panicv }
func NumThreads() int           { return len(threads) }

// Runnable reports which threads can take a step.
func Runnable() (r []int) {
	for _, t := range threads {
		if t.done || t.waiting != nil {
			continue
		}
		if t.wantMu != nil && t.wantMu.owner != nil {
			continue
		}
		r = append(r, t.id)
	}
	return
}

// Waiting reports the threads blocked in Cond.Wait.
func Waiting() (r []int) {
	for _, t := range threads {
		if !t.done && t.waiting != nil {
			r = append(r, t.id)
		}
	}
	return
}

// Step lets thread id run until its next scheduling point.
func Step(id int) {
	cur = threads[id]
	cur.wake <- struct{}{}
	<-back
}

// SpuriousWake makes a cond-waiter runnable without a signal.
func SpuriousWake(id int) { threads[id].waiting = nil }

// Yield is an explicit scheduling point (used by the atomics stand-in).
func Yield(what string) {
	if cur == nil {
		return
	}
	yield(what)
}

func yield(what string) {
	if Trace != nil {
		Trace(fmt.Sprintf("t%d %s", cur.id, what))
	}
	me := cur
	back <- struct{}{}
	<-me.wake
	cur = me
}

type Mutex struct{ owner *thread }

func (m *Mutex) Init(*MutexAttr) {}
func (m *Mutex) Destroy()        {}
func (m *Mutex) Lock() {
	if cur == nil {
		return
	}
	cur.wantMu = m
	yield("lock?")
	if m.owner != nil {
		panic("scheduler ran a thread whose mutex is held")
	}
	cur.wantMu = nil
	m.owner = cur
}
func (m *Mutex) TryLock() bool {
	if cur == nil {
		return true
	}
	if m.owner != nil {
		return false
	}
	m.owner = cur
	return true
}
func (m *Mutex) Unlock() { m.owner = nil }

type Cond struct{ _ byte }

func (c *Cond) Init(*CondAttr) {}
func (c *Cond) Destroy()       {}
func (c *Cond) Wait(m *Mutex) {
	if cur == nil {
		panic("psync: Cond.Wait in direct (unscheduled) mode would block forever")
	}
	m.owner = nil
	cur.waiting = c
	cur.wantMu = m
	yield("wait")
	cur.wantMu = nil
	m.owner = cur
}
func (c *Cond) Signal() {
	var ws []int
	for _, t := range threads {
		if !t.done && t.waiting == c {
			ws = append(ws, t.id)
		}
	}
	if len(ws) == 0 {
		return
	}
	pick := ws[0]
	if SignalPick != nil {
		pick = SignalPick(ws)
	}
	threads[pick].waiting = nil
}
func (c *Cond) Broadcast() {
	for _, t := range threads {
		if t.waiting == c {
			t.waiting = nil
		}
	}
}
