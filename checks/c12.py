"""C12 - packages initialise once, dependencies first, variables in dependency order.

Lean: Model/Init.lean (guarded recursive init over a topologically numbered DAG, chained patched packages, entry
function), Lemmas/Init.lean, Spec/InitShape.lean (token semantics + decidable shape test of an emitted initialiser),
Props/C12.lean (init_once, deps_first, unreachable_never, patched_chain, body_preserved, init_idempotent,
entry_order, fuel_irrelevant, shape_sound, shape_sound_hasPatch - for ALL DAGs / call sequences).

Tie A (regenerated facts): generated module trees are compiled by the llgo built from the working tree with
`-O0 -gen-llfiles`; every package's `init` (and `init$hasPatch` of the patched std package sync/atomic) and the entry
function are read from the IR into lean/LlgoVerif/Gen/C12Facts.lean (deleted first); GenProofs/C12Facts.lean proves by
`decide` that every emitted initialiser passes `okShape` (guard load, branch, store true, [init$hasPatch], exactly the
imports' initialisers in go/types order = go list's set, then only body actions) and every entry passes `okEntry`.
Tie E: generated trees (2-8 packages, diamonds, cross-package initialisers, out-of-order declarations, several init per
file, several files, blank imports, sync/atomic) at -O0/-O2 and as c-archive with a C host calling initialisers
repeatedly; the stderr trace is compared with modeld_c12 (exact) and judged against the property using the SAME
module built by the reference Go toolchain as the oracle for the per-package order."""
import glob
import hashlib
import json
import os
import random
import re
import shutil
import sys

from vlib.common import *
from vlib.e2e import *

sys.path.insert(0, os.path.join(VERIF, "harness", "c12"))
import irfacts  # noqa: E402
import treegen  # noqa: E402

GEN = os.path.join(LEAN, "LlgoVerif", "Gen", "C12Facts.lean")
# packages for which llgo emits no initialiser call (cl/import.go pkgKindByPath) - hard-coded HERE on purpose: what an import
# needs is judged against go list's import set, not against llgo's own table
NOINIT = {"unsafe", "runtime/cgo"}
STD_OBSERVABLE = ["math/bits", "unicode/utf8"]


def _run(cmd, cwd, env, timeout=1800):
    from vlib.common import run as r
    return r(cmd, cwd=cwd, env=env, timeout=timeout)


# ---------------------------------------------------------------------------------------------- IR lookup
class IRIndex:
    """`llgo build -gen-llfiles` writes each package's final IR next to its export file in the Go build cache;
    the files are found by their `; ModuleID = '<pkgpath>'` line."""

    def __init__(self, ctx):
        self.root = os.path.join(ctx.llgo_dir, "xdg", "go-build")
        self.seen = {}

    def find(self, modid):
        best = None
        for f in glob.glob(os.path.join(self.root, "*", "*.ll")):
            if f not in self.seen:
                try:
                    with open(f, errors="replace") as fh:
                        m = re.match(r"; ModuleID = '(.*)'", fh.readline())
                    self.seen[f] = m.group(1) if m else None
                except OSError:
                    self.seen[f] = None
            if self.seen[f] == modid and (best is None or os.path.getmtime(f) > os.path.getmtime(best)):
                best = f
        return best


# ---------------------------------------------------------------------------------------------- patched std packages
def alt_pkgs():
    """patched std packages listed in runtime/build.go (altPkgs)"""
    src = open(os.path.join(REPO, "runtime", "build.go")).read()
    m = re.search(r"var altPkgs = map\[string\]altPkgMode\{(.*?)\n\}", src, re.S)
    return re.findall(r'"([^"]+)":', m.group(1)) if m else []


def patch_keeps_old_init(path):
    """cl/compile.go: pkgInPatch without pkgFNoOldInit <=> the replacement sources contain neither llgo:skipall nor
    `llgo:skip … init …`"""
    d = os.path.join(REPO, "runtime", "internal", "lib", path)
    for fn in sorted(glob.glob(os.path.join(d, "*.go"))):
        if fn.endswith("_test.go"):
            continue
        for line in open(fn, errors="replace"):
            m = re.match(r"\s*//\s?llgo:skip(all\b|\s+(.*))", line)
            if m and (m.group(1) == "all" or "init" in (m.group(2) or "").split()):
                return False
    return True


def has_initialiser(ctx, path, dirpath):
    """llgo emits no initialiser call for `unsafe` and for packages whose LLGoPackage constant is decl/noinit/link…"""
    if path == "unsafe":
        return False
    if dirpath and os.path.isdir(dirpath):
        for fn in glob.glob(os.path.join(dirpath, "*.go")):
            if re.search(r'LLGoPackage\s*=\s*"(decl|noinit|link)', open(fn, errors="replace").read()):
                return False
    return True


def go_list_imports(ctx, pkgs, cwd, env):
    """-> {importpath: (dir, [imports])}"""
    flags = [x for x in pkgs if x.startswith("-")]
    pkgs = [x for x in pkgs if not x.startswith("-")]
    p = _run(["go", "list", "-e", "-tags", "nogc"] + flags + ["-f", "{{.ImportPath}}\t{{.Dir}}\t{{join .Imports \",\"}}"] + list(pkgs), cwd, env)
    out = {}
    for line in p.stdout.split("\n"):
        f = line.split("\t")
        if len(f) == 3:
            out[f[0]] = (f[1], [x for x in f[2].split(",") if x])
    return out


# ---------------------------------------------------------------------------------------------- traces
def trace_of(stderr):
    return [l for l in stderr.split("\n") if l.strip()]


def projections(t, lines):
    """per tree package: its lines in order (the `main.main` / `count` lines excluded)"""
    proj = {p.id: [] for p in t.pkgs}
    for l in lines:
        lab = l.split(" ")[0]
        if lab in ("main.main", "count"):
            continue
        pid = treegen.pkg_of_label(t, lab)
        if pid is not None:
            proj[pid].append(l)
    return proj


def model_line(t, mode, calls=None):
    """request for modeld_c12.  model numbering: 0 = llgo runtime, then the std packages the tree imports (sync/atomic is a
    chained patched package; their bodies print nothing), then the tree's packages"""
    std = list(t.stdpkgs)
    off = 1 + len(std)
    ids = {p.path: p.id + off for p in t.pkgs}
    for i, sp in enumerate(std):
        ids[sp] = 1 + i
    specs = ["-"] + ["-/c/-" if sp == "sync/atomic" else "-" for sp in std]
    for p in t.pkgs:
        imps = [str(ids[x]) for x in t.imports_order[p.id]]
        specs.append(",".join(imps) if imps else "-")
    if mode == "exe":
        return "exe %d 0 0 %s" % (len(t.pkgs) - 1 + off, " ".join(specs)), off
    return "host %s %s" % (",".join(["0"] + [str(c + off) for c in calls]), " ".join(specs)), off      # the host calls llgo's runtime init first


def expand(events, off, bodies, main_lines):
    out = []
    for ev in events:
        if ev == "main":
            out += main_lines
        elif ev[0] == "b" and ev[1:].isdigit():
            k = int(ev[1:]) - off
            if k >= 0:
                out += bodies[k]
    return out


def judge(t, real, oracle, called=None):
    """The property, judged on the real trace, independent of the Lean model.
    oracle[p] = p's body lines according to the reference toolchain.  called = packages whose initialiser the host
    calls (None: executable, i.e. main).  -> (class, detail) of the first violation, or None"""
    n = len(t.pkgs)
    byp = {p.path: p.id for p in t.pkgs}
    deps = {p.id: [byp[x] for x in t.imports_order[p.id] if x in byp] for p in t.pkgs}
    if called is None:
        need = set(t.reachable)
    else:
        need, todo = set(), list(called)
        while todo:
            x = todo.pop()
            if x not in need:
                need.add(x)
                todo += deps[x]
    init_lines = [l for l in real if l.split(" ")[0] not in ("main.main", "count")]
    proj = projections(t, init_lines)
    for p in t.pkgs:
        want = oracle[p.id] if p.id in need else []
        got = proj[p.id]
        if got != want:
            if not want and got:
                return "unreachable-ran", "package %s is not reachable from the called initialisers but ran: %s" % (p.path, got[:4])
            if sorted(got) != sorted(want):
                labs = lambda ls: [l.split(" ")[0] for l in ls]
                if sorted(labs(got)) == sorted(labs(want)):
                    wv = dict((l.split(" ")[0], l) for l in want)
                    l = [l for l in got if wv[l.split(" ")[0]] != l][0]
                    return "wrong-value", ("package %s: %r, reference %r - something the initialiser reads (a package-level variable of an import, "
                                           "a table of a std package such as math/bits) was not initialised when it ran, or an assignment made by an init function of the package "
                                           "to a package-level variable (e.g. a reset to a zero constant) did not take effect" % (p.path, l, wv[l.split(" ")[0]]))
                more = [l for l in labs(got) if labs(got).count(l) > labs(want).count(l)]
                if more:
                    return "ran-twice", "package %s: %r printed %d times, reference %d" % (p.path, more[0], labs(got).count(more[0]), labs(want).count(more[0]))
                missing = [l for l in want if labs(got).count(l.split(" ")[0]) < labs(want).count(l.split(" ")[0])]
                return "not-run", "package %s: %r missing - the package was not (completely) initialised; got %s" % (p.path, missing[0], got[:6])
            return "order-in-package", "package %s: variables / init functions run in the order %s, reference %s" % (p.path, got, want)
    # every package's lines contiguous, and after the lines of every import
    first, last = {}, {}
    for i, l in enumerate(init_lines):
        pid = treegen.pkg_of_label(t, l.split(" ")[0])
        if pid is None:
            return "foreign-line", "unexpected line %r" % l
        first.setdefault(pid, i)
        last[pid] = i
    for pid in first:
        if last[pid] - first[pid] + 1 != len(proj[pid]):
            return "interleaved", "the initialisation of %s is interleaved with another package's" % t.pkgs[pid].path
        for q in deps[pid]:
            if q in first and last[q] > first[pid]:
                return "deps-first", "%s started before its import %s finished" % (t.pkgs[pid].path, t.pkgs[q].path)
    if called is None:
        tail = real[len(init_lines):]
        if real[:len(init_lines)] != init_lines or tail != ["main.main 0", "count %d" % (len(init_lines) + 1)]:
            return "entry-order", "main.main did not run exactly once after all initialisers: tail %s" % real[-3:]
    return None


# ---------------------------------------------------------------------------------------------- c-archive host
def c_name(path):
    return path.replace(".", "_").replace("/", "_") + "_init"


def host_source(t, libname, calls):
    lines = ['#include "%s.h"' % libname,
             'extern void gomain(void) __asm("%s.main");' % t.mod,
             "int main(void) {",
             "    github_com_goplus_llgo_runtime_internal_runtime_init();"]
    for c in calls:
        lines.append("    %s();" % c_name(t.pkgs[c].path))
    lines += ["    gomain();", "    return 0;", "}"]
    return "\n".join(lines) + "\n"


# ---------------------------------------------------------------------------------------------- batches
class Batch:
    """One Go module holding several generated trees (tree k: main package <mod>/tk, its libraries below it).
    All main packages of a batch are compiled by ONE llgo invocation (`llgo install ./t0 ./t1 …`): llgo loads and
    type-checks its whole runtime per invocation, which dominates the cost of a small program."""

    def __init__(self, ctx, work, mod, mode):
        self.ctx, self.mod, self.mode = ctx, mod, mode
        self.dir = os.path.join(work, mod)
        self.recs = []

    def add(self, rng, **kw):
        name = "t%d" % len(self.recs)
        t = treegen.gen_tree(rng, self.mod + "/" + name, **kw)
        rec = {"name": self.mod + "/" + name, "short": name, "tree": t, "mode": self.mode, "dir": os.path.join(self.dir, name)}
        self.recs.append(rec)
        return rec

    def write(self):
        files = {}
        for r in self.recs:
            for fn, content in r["tree"].files.items():
                files[r["short"] + "/" + fn] = content
        write_module(self.dir, files, modname=self.mod)

    def reference(self):
        """the same module built by the reference Go toolchain"""
        out = os.path.join(self.dir, "ref")
        os.makedirs(out, exist_ok=True)
        pr = _run(["go", "build", "-o", out + os.sep] + ["./" + r["short"] for r in self.recs], self.dir, go_env())
        if pr.returncode != 0:
            raise RuntimeError("the reference toolchain rejects a generated tree (generator bug): %s\n%s" % (self.mod, pr.stderr[-2000:]))
        for r in self.recs:
            _, rerr, _ = run_prog(os.path.join(out, r["short"]), timeout=300)
            r["ref"] = trace_of(rerr)

    def build(self, env, opt, genll=False):
        ctx = self.ctx
        gobin = os.path.join(self.dir, "bin")
        os.makedirs(gobin, exist_ok=True)
        flags = ["-tags", "nogc", opt] + (["-gen-llfiles"] if genll else [])
        e = dict(env)
        e["GOBIN"] = gobin
        pb = _run([ctx.llgo, "install"] + flags + ["./" + r["short"] for r in self.recs], self.dir, e)
        ok = pb.returncode == 0 and all(os.path.exists(os.path.join(gobin, r["short"])) for r in self.recs)
        for r in self.recs:
            r["build_rc"], r["build_err"] = (0, "") if ok else (pb.returncode or 1, (pb.stdout + pb.stderr)[-1500:])
            r["prog"] = os.path.join(gobin, r["short"])
        if not ok:      # isolate the tree(s) that do not compile
            ctx.log("batch %s failed as a whole, building its trees one by one" % self.mod)
            for r in self.recs:
                p1 = _run([ctx.llgo, "build"] + flags + ["-o", r["prog"], "./" + r["short"]], self.dir, env)
                r["build_rc"], r["build_err"] = p1.returncode, (p1.stdout + p1.stderr)[-1500:]
        for r in self.recs:
            if r["build_rc"] == 0:
                _, err, rc = run_prog(r["prog"], timeout=300)
                r["real"], r["rc"] = trace_of(err), rc


# ---------------------------------------------------------------------------------------------- the check
def run(ctx, args):
    quick = ctx.tier == "quick"
    rng = ctx.rng
    build_llgo(ctx)
    ctx.log("llgo built from", REPO)
    env = llgo_env(ctx)
    idx = IRIndex(ctx)
    work = os.path.join(ctx.scratch, "trees")
    os.makedirs(work)
    notes = []

    # ------------------------------------------------------------------ trees
    n_facts, n_o0, n_o2, n_arch = (2, 5, 2, 1) if quick else (6, 24, 6, 2)
    if os.environ.get("VERIF_C12_SMALL"):      # debugging aid (mutation experiments on a loaded machine): not a tier
        n_facts, n_o0, n_o2, n_arch = 2, 2, 0, 0
    L = treegen.LAYOUTS
    bf, be, bo = Batch(ctx, work, "c12f", "facts"), Batch(ctx, work, "c12e", "O0"), Batch(ctx, work, "c12o", "O2")
    # boundary trees (fixed structure, fixed seeds) always run first: work-free packages at 1, 2 and 3 consecutive levels above
    # packages with observable initialisation, inside diamonds, packages and std packages reachable only through them
    fixed_f = [("mixed", 101), ("chain3", 102)]                                   # compiled with -gen-llfiles: no sync/atomic
    fixed_e = [("chain12", 103), ("wfdiamond", 104), ("stddirect", 105)]
    for i in range(n_facts):
        if i < len(fixed_f):
            bf.add(random.Random(fixed_f[i][1]), layout=L[fixed_f[i][0]], atomic=False)
        else:
            bf.add(rng, atomic=False, std=STD_OBSERVABLE)
    for i in range(n_o0):
        if i < len(fixed_e):
            be.add(random.Random(fixed_e[i][1]), layout=L[fixed_e[i][0]], atomic=(fixed_e[i][0] == "stddirect"))
        else:
            be.add(rng, atomic=(True if i == len(fixed_e) else None), std=STD_OBSERVABLE if i % 2 else [])
    for i in range(n_o2):
        if i == 0:
            bo.add(rng, layout=L["chain3"], atomic=False)
        else:
            bo.add(rng, npk=rng.randint(5, 8), std=STD_OBSERVABLE)
    archs = []
    for i in range(n_arch):
        ba = Batch(ctx, work, "c12a%d" % i, "arch")
        ba.add(rng, npk=rng.randint(4, 7), atomic=(i % 2 == 1), std=STD_OBSERVABLE if i % 2 == 0 else [])
        archs.append(ba)

    # ------------------------------------------------------------------ tie A, part 1: the patched std package
    facts, entries, fact_names = [], [], []
    diag = []

    def add_fact(name, pid, toks, imports, golist, ids, has_patch_fn=False, chained=False):
        facts.append(irfacts.lean_fact(pid, toks, imports, golist, ids, has_patch_fn, chained, name))
        fact_names.append(name)
        why = irfacts.py_ok_shape(pid, toks, imports, golist, ids, has_patch_fn, chained)
        if why:
            diag.append("%s: %s; tokens %s" % (name, why, toks))

    alts = alt_pkgs()
    d = os.path.join(work, "atomfacts")
    write_module(d, {"main.go": 'package main\n\nimport "sync/atomic"\n\nvar c int32\n\nfunc main() { println(atomic.AddInt32(&c, 1)) }\n'}, modname="c12atom")
    p = _run([ctx.llgo, "build", "-tags", "nogc", "-O0", "-gen-llfiles", "-o", os.path.join(d, "prog"), "."], d, env)
    if p.returncode != 0:
        notes.append("sync/atomic does not link when compiled through textual IR (-gen-llfiles; LLVM 14 prints a cmpxchg it cannot parse) - "
                     "its IR is dumped before that step and is what tie A reads; the e2e trees importing it are built without -gen-llfiles")
    std_broken = None
    ll = idx.find("sync/atomic")
    if ll is None:
        std_broken = "llgo wrote no IR for sync/atomic: " + (p.stdout + p.stderr)[-600:]
    else:
        ir = open(ll, errors="replace").read()
        chained = "sync/atomic" in alts and patch_keeps_old_init("sync/atomic")
        orig = go_list_imports(ctx, ["sync/atomic"], d, env)
        patch = go_list_imports(ctx, ["./internal/lib/sync/atomic"], os.path.join(REPO, "runtime"), go_env())
        pimps = [x for v in patch.values() for x in v[1] if has_initialiser(ctx, x, None)]
        oimps = [x for v in orig.values() for x in v[1] if has_initialiser(ctx, x, None)]
        ids = {x: i for i, x in enumerate(sorted(set(pimps + oimps)))}
        me = len(ids)
        t_init = irfacts.init_tokens(ir, "sync/atomic", "init")
        t_old = irfacts.init_tokens(ir, "sync/atomic", "init$hasPatch")
        if t_init is None:
            std_broken = "no function sync/atomic.init in the IR"
        else:
            calls = [x[1] for x in t_init if x[0] == "callInit"]
            add_fact("sync/atomic.init (replacement, chained=%s)" % chained, me, t_init, calls, pimps, ids, False, chained)
            if chained:
                if t_old is None:
                    std_broken = "sync/atomic is a chained patched package but its IR has no init$hasPatch"
                else:
                    calls = [x[1] for x in t_old if x[0] == "callInit"]
                    add_fact("sync/atomic.init$hasPatch (original)", me, t_old, calls, oimps, ids, True, True)
            elif t_old is not None:
                std_broken = "sync/atomic skips the original init but an init$hasPatch was emitted"
    uncovered = []
    if not quick:
        # thorough tier: more patched std packages.  A program importing `runtime` does not link here (libuv), but llgo dumps the
        # IR of internal/abi, internal/runtime/maps, internal/runtime/sys (chained) and runtime (llgo:skipall) before it gives up.
        # Shape only: their import sets depend on llgo's build tags, so `imports`/`goList` are the calls found in the IR.
        d2 = os.path.join(work, "stdfacts")
        write_module(d2, {"main.go": 'package main\n\nimport "runtime"\n\nfunc main() { println(runtime.GOOS) }\n'}, modname="c12std")
        _run([ctx.llgo, "build", "-tags", "nogc", "-O0", "-gen-llfiles", "-o", os.path.join(d2, "prog"), "."], d2, env)
        for pk in ["internal/abi", "internal/runtime/maps", "internal/runtime/sys", "runtime"]:
            ll = idx.find(pk)
            if ll is None:
                uncovered.append("no IR dumped for the patched std package %s" % pk)
                continue
            ir = open(ll, errors="replace").read()
            chained = pk in alts and patch_keeps_old_init(pk)
            for fn in ("init", "init$hasPatch") if chained else ("init",):
                toks = irfacts.init_tokens(ir, pk, fn)
                if toks is None:
                    std_broken = "%s: function %s missing from the IR" % (pk, fn)
                    continue
                calls = [x[1] for x in toks if x[0] == "callInit"]
                ids = {x: i for i, x in enumerate(sorted(set(calls)))}
                add_fact("%s.%s (shape only, chained=%s)" % (pk, fn, chained), len(ids), toks, calls, calls, ids, fn != "init", chained)
            if not chained and irfacts.init_tokens(ir, pk, "init$hasPatch") is not None:
                std_broken = "%s skips the original init but an init$hasPatch was emitted" % pk
    n_std_facts = len(facts)
    ctx.log("patched std packages: %d IR facts" % n_std_facts, std_broken or "")

    # ------------------------------------------------------------------ build every tree (llgo + reference)
    for b, opt, genll in ((bf, "-O0", True), (be, "-O0", False), (bo, "-O2", False)):
        if b.recs:
            b.write()
            b.reference()
            b.build(env, opt, genll)
            ctx.log("batch %s: %d trees, %s%s" % (b.mod, len(b.recs), opt, " -gen-llfiles" if genll else ""))
    std_done = set()
    for r in bf.recs:
        t = r["tree"]
        if r.get("build_rc", 1) != 0:
            continue
        # the import set of EVERY package of the program (tree and std) is go list's; the expected order is go/types'
        gl = go_list_imports(ctx, ["-deps", "./" + r["short"]], bf.dir, env)
        stdp = [x for x in t.stdpkgs if x not in NOINIT]
        ids = {sp: i for i, sp in enumerate(stdp)}
        for pk in t.pkgs:
            ids[pk.path] = pk.id + len(stdp)
        for pk in t.pkgs:
            if pk.id not in t.reachable:
                continue
            ll = idx.find(pk.path)
            toks = irfacts.init_tokens(open(ll, errors="replace").read(), pk.path) if ll else None
            if toks is None:
                diag.append("%s: no IR / no init function found" % pk.path)
                toks = []
            golist = [x for x in gl.get(pk.path, ("", []))[1] if x not in NOINIT]
            add_fact(pk.path + ".init" + (" (work-free package)" if pk.workfree else ""), ids[pk.path], toks, t.imports_order[pk.id], golist, ids)
        for sp in stdp:       # std packages llgo compiles from source: their own initialiser, imports as go list reports them
            if sp in std_done:
                continue
            std_done.add(sp)
            ll = idx.find(sp)
            toks = irfacts.init_tokens(open(ll, errors="replace").read(), sp) if ll else None
            if toks is None:
                diag.append("%s: no IR / no init function found" % sp)
                toks = []
            golist = [x for x in gl.get(sp, ("", []))[1] if x not in NOINIT]
            sids = {x: i for i, x in enumerate(sorted(golist))}
            add_fact(sp + ".init (std package compiled by llgo)", len(sids), toks, sorted(golist), golist, sids)
        ll = idx.find(t.mod + ".main")
        et = irfacts.entry_tokens(open(ll, errors="replace").read(), t.mod) if ll else None
        if et is None:
            diag.append("%s: entry module not found" % t.mod)
            et = ["other"]
        entries.append("  -- %s\n  { calls := [%s] }" % (t.mod, ", ".join("." + x for x in et)))
        r["entry"] = et
    for ba in archs:
        ba.write()
        ba.reference()
        rec = ba.recs[0]
        t = rec["tree"]
        out = os.path.join(ba.dir, "out")
        os.makedirs(out)
        libname = "lib" + ba.mod
        lib = os.path.join(out, libname + ".a")
        pb = _run([ctx.llgo, "build", "-tags", "nogc", "-O0", "-buildmode=c-archive", "-o", lib, "./t0"], ba.dir, env)
        rec["build_rc"], rec["build_err"] = pb.returncode, (pb.stdout + pb.stderr)[-1500:]
        if pb.returncode == 0:
            reach = sorted(t.reachable)
            main = len(t.pkgs) - 1
            calls = [rng.choice(reach) for _ in range(rng.randint(1, 3))] + [main, rng.choice(reach), main]
            rec["calls"] = calls
            x = os.path.join(out, "x")
            os.makedirs(x)
            _run(["ar", "x", lib], x, env)
            open(os.path.join(out, "host.c"), "w").write(host_source(t, libname, calls))
            members = sorted(glob.glob(os.path.join(x, "*.o"))) + sorted(glob.glob(os.path.join(x, "*.a")))
            # clang, not gcc: GNU as rejects the `/` of Go symbol names in the header's __asm labels
            pl = _run(["clang", "-o", os.path.join(out, "host"), "host.c", "-Wl,--start-group"] + members +
                      ["-Wl,--end-group", "-lpthread", "-lm", "-ldl"], out, env)
            rec["link_rc"], rec["link_err"] = pl.returncode, (pl.stdout + pl.stderr)[-1500:]
            if pl.returncode == 0:
                _, err, rc = run_prog(os.path.join(out, "host"), timeout=300)
                rec["real"], rec["rc"] = trace_of(err), rc
        ctx.log("c-archive %s: build rc %s, link rc %s" % (ba.mod, rec.get("build_rc"), rec.get("link_rc")))
    results = be.recs + bf.recs + bo.recs + [ba.recs[0] for ba in archs]

    # ------------------------------------------------------------------ tie A, part 2: regenerate the table, prove
    if os.path.exists(GEN):
        os.remove(GEN)
    with open(GEN, "w") as f:
        f.write("import LlgoVerif.Spec.InitShape\n/-! REGENERATED on every run of ./check C12 from the IR llgo emits for generated module trees\n"
                "    (harness/c12/treegen.py, harness/c12/irfacts.py). Do not edit. -/\nnamespace LlgoVerif.Gen.C12\nopen LlgoVerif.Init\n\n"
                "/-- number of facts about patched std packages at the head of `facts` -/\ndef nStd : Nat := %d\n\n"
                "def facts : List InitFact := [\n%s]\n\ndef entries : List EntryFact := [\n%s]\n\nend LlgoVerif.Gen.C12\n"
                % (n_std_facts, ",\n".join(facts), ",\n".join(entries)))
    st = lean_check(ctx, ["LlgoVerif.Gen.C12Facts", "LlgoVerif.GenProofs.C12Facts", "LlgoVerif.Props.C12"],
                    ["LlgoVerif/GenProofs/C12Facts.lean", "LlgoVerif/Props/C12.lean"],
                    extra_files=["LlgoVerif/Model/Init.lean", "LlgoVerif/Lemmas/Init.lean", "LlgoVerif/Spec/InitShape.lean",
                                 "LlgoVerif/Gen/C12Facts.lean"],
                    leanchecker=(ctx.tier == "thorough"))
    failed = sorted(n for n, s in st.items() if s != "ok")
    for n in failed:
        ctx.log("theorem", n, st[n])
    for dg in diag:
        ctx.log("shape:", dg)
    modeld = build_driver(ctx, "modeld_c12")
    ctx.log("lean: %d/%d obligations" % (ctx.discharged, ctx.obligations))

    # ------------------------------------------------------------------ tie E: traces
    n_eval, n_lines, mismatches, spec_fail, indep_order = 0, 0, [], 0, 0
    stats = {"trees": len(results), "packages": 0, "work_free_packages": 0, "max_consecutive_work_free": 0, "with_sync_atomic": 0, "with_math_bits": 0,
             "with_unicode_utf8": 0, "with_unreachable": 0, "diamonds": 0, "init_resets_observable": 0, "modes": {}}
    samples = []
    spec_gen_mismatch = 0
    for rec in results:
        t, mode, name = rec["tree"], rec["mode"], rec["name"]
        stats["packages"] += len(t.pkgs)
        stats["with_sync_atomic"] += 1 if t.atomic else 0
        stats["with_math_bits"] += 1 if "math/bits" in t.stdpkgs else 0
        stats["with_unicode_utf8"] += 1 if "unicode/utf8" in t.stdpkgs else 0
        stats["work_free_packages"] += sum(1 for pk in t.pkgs if pk.workfree and pk.id in t.reachable)
        run_len = {}
        for pk in t.pkgs:       # longest chain of consecutive work-free packages ending at pk (topological order)
            run_len[pk.id] = (1 + max([run_len[q] for q in pk.deps] + [0])) if pk.workfree else 0
        stats["max_consecutive_work_free"] = max([stats["max_consecutive_work_free"]] + [v for k_, v in run_len.items() if k_ in t.reachable])
        stats["with_unreachable"] += 1 if len(t.reachable) < len(t.pkgs) else 0
        stats["init_resets_observable"] += 1 if t.reset_observable else 0     # trees whose trace changes if zero-constant stores of init functions are lost
        imported_by = {}
        for pk in t.pkgs:
            for q in pk.deps:
                imported_by.setdefault(q, set()).add(pk.id)
        stats["diamonds"] += 1 if any(len(v) > 1 for q, v in imported_by.items() if q != 0) else 0
        stats["modes"][mode] = stats["modes"].get(mode, 0) + 1
        ref = rec["ref"]
        oracle = projections(t, ref)
        for pk in t.pkgs:   # validation of the generator's own reading of the spec (not part of the verdict)
            if oracle[pk.id] != (t.spec_body[pk.id] if pk.id in t.reachable else []):
                spec_gen_mismatch += 1
        replay = {"tree": treegen.describe(t), "mode": mode, "reference_trace": ref}
        if rec.get("build_rc", 1) != 0:
            if mode == "arch":
                uncovered.append("c-archive: llgo build -buildmode=c-archive failed: " + rec.get("build_err", "")[-300:])
                continue
            ctx.report_broken("llgo cannot compile generated tree " + name, {"stderr": rec.get("build_err"), **replay})
            continue
        if mode == "arch" and rec.get("link_rc", 1) != 0:
            uncovered.append("c-archive: the archive does not link with the sandbox tool chain: " + rec.get("link_err", "")[-300:])
            continue
        real = rec.get("real", [])
        replay["llgo_trace"] = real
        if mode == "arch":
            line, off = model_line(t, "host", rec["calls"])
            replay["host_calls"] = [t.pkgs[c].path for c in rec["calls"]]
        else:
            line, off = model_line(t, "exe")
        out, _, _ = run_lines([modeld], [line])
        n_eval += 1
        n_lines += len(real)
        if not out or not out[0].startswith("ok"):
            ctx.report_broken("modeld_c12 rejects a generated tree", {"request": line, "answer": out, **replay})
            continue
        events = out[0][3:].split(" ") if out[0] != "ok ." else []
        n_init = len([l for l in real if l.split(" ")[0] not in ("main.main", "count")])
        main_lines = ["main.main 0", "count %d" % (n_init + 1)]
        model = expand(events, off, oracle, main_lines)
        if mode == "arch":
            model += main_lines
        if len(samples) < 3:
            samples.append({"tree": name, "mode": mode, "request": line, "model_events": out[0], "llgo_trace_head": real[:6]})
        # the property, judged on the real trace
        bad = judge(t, real, oracle, rec["calls"] if mode == "arch" else None)
        if rec.get("rc") != 0 and bad is None:
            bad = ("crash", "the program exited with %s" % rec.get("rc"))
        if bad is None and mode == "arch" and real[-2:] != main_lines:
            bad = ("entry-order", "host: main.main did not run last: %s" % real[-3:])
        if bad is not None:
            spec_fail += 1
            ctx.report("C12:%s:%s:%s:%s" % (bad[0], mode, name, hashlib.sha1(json.dumps(t.files, sort_keys=True).encode()).hexdigest()[:10]),
                       "%s (%s, %s): %s" % (name, mode, "llgo vs reference toolchain", bad[1]), replay)
            continue
        if real != model:
            mismatches.append((name, mode, line, out[0]))
            replay["model_trace"] = model
            replay["model_request"] = line
            rec["replay"] = replay
        if mode != "arch" and real != ref:
            indep_order += 1     # same bodies, imports first - only the order between independent packages differs

    if spec_gen_mismatch:
        notes.append("generator's reading of the Go spec differs from the reference toolchain on %d package bodies (the reference is the oracle)" % spec_gen_mismatch)
    if indep_order:
        notes.append("%d trees: llgo initialises INDEPENDENT packages depth-first in source import order, the reference toolchain (Go >= 1.21) in "
                     "import-path order; C12 does not fix that order, every package still runs once and after its imports" % indep_order)
    for u in uncovered:
        notes.append("uncovered: " + u)
    for n in notes:
        ctx.log("note:", n)

    # ------------------------------------------------------------------ verdict
    if mismatches and not ctx.violations:
        ctx.broken.append("correspondence llgo-compiled trees vs Lean model: %d trees differ, e.g. %s" % (len(mismatches), mismatches[0][0]))
        first = [r["replay"] for r in results if "replay" in r][:2]
        ctx.report_broken("correspondence C12 llgo-vs-model", {"n": len(mismatches), "first": first})
    if std_broken:
        ctx.broken.append("tie A (patched std package): " + std_broken)
    if (failed or std_broken) and not ctx.violations:
        ctx.report_broken("C12 obligations: " + ", ".join(failed[:6] + ([std_broken[:80]] if std_broken else [])),
                          {"theorems": {n: st[n] for n in failed}, "shape_diagnostics": diag[:20], "std": std_broken})

    ctx.coverage["samples"] = samples + [{"fact": facts[0] if facts else None}, {"entry": entries[0] if entries else None}]
    ctx.coverage["trusted_base"] += [
        "hand-written Lean model (Model/Init.lean) tied by (A) regenerated IR facts: %d initialiser functions (%d of the patched std package sync/atomic) + %d entry functions classified by harness/c12/irfacts.py and decided by okShape/okEntry in Lean, "
        "and (E) differential runs of %d llgo-compiled generated trees against modeld_c12" % (len(facts), n_std_facts, len(entries), n_eval),
        "the order INSIDE a package body (variables, init#k) is go/types + go/ssa's (not llgo code): taken from the reference toolchain's trace of the same module (oracle), cross-checked against the generator's own reading of the Go spec",
        "harness/c12/irfacts.py: syntactic classification of IR instructions into tokens (runs of other instructions collapsed into one `act`); harness/c12/treegen.py: generator, go/types import order (first occurrence, files by name)",
        "c-archive: llgo's libX.a is an archive of per-package archives; the check unpacks it (ar x) and links the members as a group with a clang-compiled C host",
    ]
    ctx.assumptions += ["the topological numbering exists because the Go tool chain rejects import cycles",
                        "patched std packages other than sync/atomic do not link in the sandbox (Go runtime dependencies): their chain is covered by the model + the sync/atomic IR facts only" + ("" if quick else " (+ thorough-tier IR facts)")]
    return ctx.finish("proof", {
        "evaluations": n_eval, "distinct_nontrivial": len(set(json.dumps(treegen.describe(r["tree"])["packages"]) for r in results if len(r["tree"].pkgs) > 2)),
        "rule": "one evaluation = one generated module tree compiled by llgo, run, and compared line by line with the model and the reference; non-trivial = more than 2 packages; distinct by package/import/file structure",
        "input_distribution": stats, "trace_lines_compared": n_lines,
        "init_functions_in_fact_table": len(facts), "entry_functions_in_fact_table": len(entries),
        "spec_failures_on_real_code": spec_fail, "correspondence_mismatches": len(mismatches),
        "independent_package_order_differs_from_reference": indep_order, "notes": notes, "uncovered": uncovered,
        "checker_cmd": "cd /verif/lean && lake build LlgoVerif.Gen.C12Facts LlgoVerif.GenProofs.C12Facts LlgoVerif.Props.C12 (facts regenerated from llgo's IR) + #print axioms audit",
    })
