import LlgoVerif.Lemmas.CoreGo
import LlgoVerif.Lemmas.OrderFix
import LlgoVerif.Lemmas.Blocks
/-!
# C01 — compiled programs behave as the Go language specifies (core language)

What is and is not a theorem here.  The property itself ("for every program of the fragment, the executable llgo
produces behaves like the reference semantics") would be compiler correctness; it is NOT proved.  It is checked by
translation validation: generated programs are run through llgo (-O0, -O2, 1–4 packages), through the reference Go
toolchain and through the reference evaluator `CoreGo.run` (checks/c01.py).  The theorems below are

* about the ORACLE: the fuel-indexed evaluator has at most one finished result per program, whatever the fuel
  (`eval_fuel_mono`, `eval_deterministic`, `run_fuel_mono`, `run_deterministic`) — "the" reference output exists;
* about one self-contained COMPILER COMPONENT, the operand-order fix-up of `internal/build/ssa_order_fix.go`
  (`fixOrder_safe` and its parts), for all blocks.
-/
namespace LlgoVerif.C01
open LlgoVerif.CoreGo LlgoVerif.OrderFix LlgoVerif.Blocks

/-! ## the reference evaluator -/

/-- more fuel never changes a finished result: for every task (expression, statement, loop, call), state and fuel -/
theorem eval_fuel_mono (P : Program) {n m : Nat} (h : n ≤ m) (t : Task) (s : State) (r : RawRes) :
    eval P n t s = some r → eval P m t s = some r :=
  eval_le_extends P h t s r

/-- two finished evaluations of the same task from the same state agree, whatever fuel each was given -/
theorem eval_deterministic (P : Program) (n m : Nat) (t : Task) (s : State) (r₁ r₂ : RawRes)
    (h₁ : eval P n t s = some r₁) (h₂ : eval P m t s = some r₂) : r₁ = r₂ := by
  have a := eval_fuel_mono P (Nat.le_max_left n m) t s r₁ h₁
  have b := eval_fuel_mono P (Nat.le_max_right n m) t s r₂ h₂
  rw [a] at b
  injection b

/-- whole programs: output and termination kind do not depend on the fuel once the run finishes -/
theorem run_fuel_mono (P : Program) {n m : Nat} (h : n ≤ m) (o : Except String Outcome) :
    run P n = some o → run P m = some o := by
  unfold run
  intro hn
  cases hr : eval P n (initTask P) {} with
  | none => simp [hr] at hn
  | some r =>
    rw [eval_fuel_mono P h _ _ r hr]
    rw [hr] at hn
    exact hn

theorem run_deterministic (P : Program) (n m : Nat) (o₁ o₂ : Except String Outcome)
    (h₁ : run P n = some o₁) (h₂ : run P m = some o₂) : o₁ = o₂ := by
  have a := run_fuel_mono P (Nat.le_max_left n m) o₁ h₁
  have b := run_fuel_mono P (Nat.le_max_right n m) o₂ h₂
  rw [a] at b
  injection b

/-- out of fuel is the only way not to finish: with no fuel nothing finishes (the hypotheses above are not vacuous:
    see the `example`s below, which finish) -/
theorem eval_zero (P : Program) (t : Task) (s : State) : eval P 0 t s = none := rfl

/-- `func main() { if int8(100)+int8(100) < int8(0) { println("ok") } }` prints `ok` and terminates normally -/
def demo : Program :=
  { types := #[], methods := [], rbodies := #[], globals := [], main := 0,
    funcs := #[{ name := "main", params := [], results := [], resultInit := [],
                 body := [.ite [] (.bin .lt (.bin .add (.intLit .i8 100) (.intLit .i8 100)) (.intLit .i8 0))
                            [.print true [.strLit [111, 107]]] []] }] }

def finished (r : Option (Except String Outcome)) : Option Outcome :=
  match r with
  | some (.ok o) => some o
  | _ => none

example : finished (run demo 10) = some ⟨#[111, 107, 10], .normal⟩ := by decide
example : run demo 3 = none := by decide

/-! ## the operand-order fix-up pass (`fixSSAOrderBlock`) -/

/-- instructions with a side effect: calls, stores, other effects, the return -/
def sideEffect (i : Instr) : Bool :=
  match i.kind with
  | .call _ | .store _ | .effect | .ret => true
  | _ => false

/-- the pass only performs permitted moves: each move delays a load of a local alloc that is a result of the block's
    `Return` past instructions that neither store through that alloc nor use the loaded value -/
theorem fixOrder_moves (b : List Instr) : Steps (retResults b) b (fixBlock b) := fixBlock_steps b

/-- the output is a permutation of the block -/
theorem fixOrder_perm (b : List Instr) : (fixBlock b).Perm b := (fixBlock_steps b).perm

/-- only the designated loads move: with them removed, the block is unchanged -/
theorem fixOrder_others_fixed (b : List Instr) :
    (fixBlock b).filter (fun i => !designated (retResults b) i) = b.filter (fun i => !designated (retResults b) i) :=
  (fixBlock_steps b).filter_eq _ (by intro i h; simp [h])

/-- no two side-effecting instructions change their relative order -/
theorem fixOrder_effects (b : List Instr) : (fixBlock b).filter sideEffect = b.filter sideEffect :=
  (fixBlock_steps b).filter_eq _ (by
    intro i h
    unfold designated at h
    unfold sideEffect
    split at h <;> simp_all)

/-- every value is still defined before it is used (in particular every moved load still precedes its use) -/
theorem fixOrder_def_before_use (b : List Instr) (h : DefBeforeUse b) : DefBeforeUse (fixBlock b) :=
  (fixBlock_steps b).defBeforeUse h

/-- all of the above, for ALL blocks -/
theorem fixOrder_safe (b : List Instr) :
    (fixBlock b).Perm b ∧
    (fixBlock b).filter (fun i => !designated (retResults b) i) = b.filter (fun i => !designated (retResults b) i) ∧
    (fixBlock b).filter sideEffect = b.filter sideEffect ∧
    (DefBeforeUse b → DefBeforeUse (fixBlock b)) ∧
    Steps (retResults b) b (fixBlock b) :=
  ⟨fixOrder_perm b, fixOrder_others_fixed b, fixOrder_effects b, fixOrder_def_before_use b, fixOrder_moves b⟩

/-- `var o T; return o, o.mutate()`: go/ssa emits  t1 = *o ; t2 = call mutate(o) ; return t1, t2.  The pass delays t1. -/
def demoBlock : List Instr :=
  [⟨0, .pure, []⟩, ⟨1, .load 0, [0]⟩, ⟨2, .call [0], [0]⟩, ⟨3, .ret, [1, 2]⟩]

example : (fixBlock demoBlock).map (·.id) = [0, 2, 1, 3] := by decide
example : DefBeforeUse demoBlock := by unfold DefBeforeUse demoBlock; decide
/-- a store to the alloc between load and return blocks the move -/
example : fixBlock [⟨0, .pure, []⟩, ⟨1, .load 0, [0]⟩, ⟨2, .call [0], [0]⟩, ⟨4, .store [0], [0]⟩, ⟨3, .ret, [1, 2]⟩]
    = [⟨0, .pure, []⟩, ⟨1, .load 0, [0]⟩, ⟨2, .call [0], [0]⟩, ⟨4, .store [0], [0]⟩, ⟨3, .ret, [1, 2]⟩] := by decide

/-! ## `cl/blocks` : block kinds and compilation order (validated output, see Model/Blocks.lean)

`blocks.Infos` itself is not modelled; what IS proved: the executable reachability closure decides paths, the blocks the
specification calls *always* are visited exactly once by every complete execution path, and every output the validator
`checkInfos` accepts (the check runs it on the REAL output for every generated function) has a compilation order that is a
permutation of the blocks, marks exactly the blocks lying on a cycle as *loop*, and marks only such once-visited blocks
as *always*. -/

/-- the executable reachability answer is the truth: `b` is reachable from `a` by a non-empty path iff it says so -/
theorem blocks_reach_spec (g : CFG) (a b : Nat) (r : Bool) (h : reaches? g a b = some r) : r = true ↔ Reach g a b :=
  reaches_spec h

/-- a block the specification calls *always* (the entry nothing jumps back to; the unique exit) is visited exactly once
    by every complete execution path of a well-formed graph -/
theorem blocks_always_once (g : CFG) (hwf : wellFormed g = true) (b : Nat) (h : alwaysSpec g b = true) :
    AlwaysOnce g b :=
  always_once (wf_of_wellFormed hwf) h

/-- soundness of the validator, for every graph and every claimed output -/
theorem blocks_check_sound (g : CFG) (infos : List Info) (h : checkInfos g infos = true) :
    (orderOf infos (g.length + 1) 0).Perm (List.range g.length) ∧
    ∀ b, b < g.length → ∃ i, infos[b]? = some i ∧
      (i.kind = .loop ↔ Reach g b b) ∧ (i.kind = .always → AlwaysOnce g b) := by
  obtain ⟨hwf, _, hperm, hk⟩ := check_parts h
  refine ⟨List.isPerm_iff.mp hperm, ?_⟩
  intro b hb
  obtain ⟨i, k, hi, hs, hik⟩ := kinds_of_check hk hb
  refine ⟨i, hi, ?_, ?_⟩
  · rw [hik]; exact specKind_loop hs
  · intro ha
    rw [hik] at ha
    subst ha
    exact always_once (wf_of_wellFormed hwf) (specKind_always hs)

/-- `for i := 0; i < n; i++ { … }; return` : entry 0 → header 1 → body 2 → 1, header → exit 3 -/
def loopCFG : CFG := [⟨[1], 0⟩, ⟨[2, 3], 2⟩, ⟨[1], 1⟩, ⟨[], 1⟩]

example : checkInfos loopCFG [⟨.always, some 1⟩, ⟨.loop, some 2⟩, ⟨.loop, some 3⟩, ⟨.always, none⟩] = true := by decide
/-- calling the loop body *cond* is rejected -/
example : checkInfos loopCFG [⟨.always, some 1⟩, ⟨.loop, some 2⟩, ⟨.cond, some 3⟩, ⟨.always, none⟩] = false := by decide
/-- an order that skips a block is rejected -/
example : checkInfos loopCFG [⟨.always, some 1⟩, ⟨.loop, some 3⟩, ⟨.loop, some 3⟩, ⟨.always, none⟩] = false := by decide

end LlgoVerif.C01
