import LlgoVerif.Lemmas.TypeStr
/-!
# C15 — reflect describes types as Go does: the COMPILER-EMITTED half

Property theorems only.  Model: `Model/TypeStr.lean` (`ssa/abi/type.go` `Str`/`TFlag`/`Kind`, the table
builders of `ssa/abitype.go`); lemmas: `Lemmas/TypeStr.lean`.  `reflectString env t` is what
`(*abi.Type).String()` returns for the descriptor llgo emits for `t`.

NOT covered (cannot be built or run in the sandbox): `runtime/internal/lib/reflect`, `fmt`.
-/
namespace LlgoVerif.Types

/-! ## type strings -/

/-- **Full statement**: the emitted type string is Go's `reflect.Type.String()` for every type.
    FALSE on the current code. -/
def typeString_grammar (q : Str → Str) : Prop :=
  ∀ (env : Env) (t : GoType), reflectString env t = goStr q env t

/-- an environment in which declaration `1` is `type Ptr *T` (its underlying type carries `ExtraStar`) -/
def envPtr : Env :=
  { pkgName := fun _ => ['p'], underStar := fun d => d == 1, underKind := fun _ => .pointer,
    underVariadic := fun _ => false, underClosure := fun _ => false }

/-- **Counterexample (named pointer types).** For `type Ptr *T` the flag `TFlagExtraStar` is inherited
    from the underlying type and `String()` prepends a star: `*p.Ptr` instead of `p.Ptr`.  Replayed
    on the real `ssa/abi` and on llgo's emitted IR by the check (finding `reflect:string:named-pointer-type`). -/
theorem typeString_grammar_counterexample (q : Str → Str) : ¬ typeString_grammar q := by
  intro h
  have := h envPtr (.named 1 (some ['p']) ['P', 't', 'r'] .pkg .nil)
  simp [reflectString, star, extraStar, strC, goStr, envPtr, TList.isNil] at this

/-- further witnesses outside the fragment: a pointer map key loses its star, `chan (<-chan int)` is
    not parenthesised, a tag is not printed — each for an arbitrary environment -/
theorem typeString_grammar_more_counterexamples (q : Str → Str) (env : Env) :
    reflectString env (.map (.pointer (.basic .int)) (.basic .string)) ≠ goStr q env (.map (.pointer (.basic .int)) (.basic .string)) ∧
    reflectString env (.chan .both (.chan .recv (.basic .int))) ≠ goStr q env (.chan .both (.chan .recv (.basic .int))) := by
  constructor
  · intro h
    have := congrArg List.length h
    simp [reflectString, star, extraStar, strC, goStr] at this
  · intro h
    have := congrArg List.length h
    simp [reflectString, star, extraStar, strC, goStr, chanParen, isRecvChan, unalias] at this
    omega

/-- **Partial theorem** (`typeString_grammar` on the fragment `strOk`): for every environment and
    every type without named-pointer types, tags, closure structs, star-flagged map keys,
    `chan (<-chan T)` and func/struct type arguments, the string `String()` computes from the emitted
    `Str_` and `TFlagExtraStar` is exactly Go's rendering — i.e. llgo's inverted star bookkeeping
    (`**` in `Str` of a pointer to a pointer, star added by flag) is consistent, through every
    nesting of pointer / slice / array / map / chan / func (incl. `...`) / struct / interface /
    generic instance. -/
theorem typeString_grammar_partial (q : Str → Str) (env : Env) (t : GoType) (h : strOk env t = true) :
    reflectString env t = goStr q env t := real_eq_go q env t h

/-- the hypothesis is satisfiable by a deeply nested type:
    `map[string][]**func(int, ...*p.T) (chan<- p.G[*vm/p.T], error)` -/
example :
    let env : Env := { pkgName := fun _ => ['p'], underStar := fun _ => false, underKind := fun _ => .struct,
                       underVariadic := fun _ => false, underClosure := fun _ => false }
    let pT : GoType := .named 1 (some ['v', 'm', '/', 'p']) ['T'] .pkg .nil
    strOk env (.map (.basic .string) (.slice (.pointer (.pointer (.func
      (.cons (.basic .int) (.cons (.slice (.pointer pT)) .nil))
      (.cons (.chan .send (.named 2 (some ['v', 'm', '/', 'p']) ['G'] .pkg (.cons (.pointer pT) .nil)))
        (.cons (.named 3 none ['e', 'r', 'r', 'o', 'r'] .pkg .nil) .nil)) true))))) = true := by decide

/-! ## method tables -/

/-- **The method table is sorted and duplicate-free** (the precondition of C07's
    `newItab_scan_correct` / `findMethod`): go/types delivers a method set strictly increasing by
    `Id`; when no method belongs to a package under the patch prefix, the emitted names are the
    `Id`s, so the emitted table is strictly increasing in Go's string order — for ALL method sets. -/
theorem methods_sorted_unique (ms : List MethodIn) (hs : SortedById ms) (hp : noPatchPkg ms = true) :
    (methodTable ms).Pairwise fun a b => strLt a.1 b.1 = true := methodTable_sorted ms hs hp

example : SortedById [⟨['M'], none, []⟩, ⟨['k'], some ['v', 'm', '/', 'p'], []⟩] ∧
    noPatchPkg [⟨['M'], none, []⟩, ⟨['k'], some ['v', 'm', '/', 'p'], []⟩] = true := by
  constructor
  · simp [SortedById]; decide
  · decide

/-- **The patch-prefix hypothesis matters**: two promoted unexported methods, one from a patched
    package, are in `Id` order but their emitted names (`PathOf` strips the prefix) are not sorted. -/
theorem methods_sorted_counterexample :
    ∃ ms : List MethodIn, SortedById ms ∧ ¬ (methodTable ms).Pairwise fun a b => strLt a.1 b.1 = true := by
  refine ⟨[⟨['m'], some (patchPrefix ++ ['s', 'y', 'n', 'c']), []⟩, ⟨['x'], some ['i', 'o'], []⟩], ?_, ?_⟩
  · simp [SortedById]; decide
  · decide

/-- the exported count is the number of exported methods of the set -/
theorem xcount_le (ms : List MethodIn) : xcount ms ≤ (methodTable ms).length := by
  simp [xcount, methodTable]; exact List.length_filter_le _ _

/-! ## field tables -/

/-- **Field tables are faithful**: `abiStructFields` emits one entry per field, in declaration
    order, with the declared name, tag and embedding flag (what it cannot do is give two tag
    variants different tables: they share a symbol — C07 `samename:tag`). -/
theorem fields_faithful (name : Str) (pkg : Option Str) (emb : Bool) (tag : Str) (t : GoType) (r : FList) :
    fieldTable (.cons name pkg emb tag t r) = (name, tag, emb) :: fieldTable r ∧
    (fieldTable (.cons name pkg emb tag t r)).length = (FList.cons name pkg emb tag t r).length := by
  exact ⟨rfl, fieldTable_length _⟩

end LlgoVerif.Types
