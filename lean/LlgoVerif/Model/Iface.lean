/-!
# Model of the interface-satisfaction scans of `runtime/internal/runtime/z_face.go` — C07

A method table is a list of entries `(name, typ, ifn)`: `name` is the emitted name (bytes of
`Name_`: the bare name of an exported method, `pkgpath.name` of an unexported one), `typ` stands for the
`*FuncType` pointer (descriptors are merged at link time, so two pointers are equal iff the
func types have the same `TypeName`), `ifn` for the code pointer (`0` = stripped).

* `implScan` mirrors BOTH loops of `Implements` (interface operand and concrete operand run the
  same two-index scan; the indices `i`, `j` are rendered as "what is left of each table").
* `findMethod` mirrors `findMethod` (linear search that stops at the first name `>=` the wanted one).
* `newItabFuns` / `newItabOk` mirror the fill loop of `NewItab` and the `fun[0] != 0` test of `getitab`.
* `matchesClosure`, `efaceTypeEq` mirror the pointer tests of `MatchesClosure` / `EfaceEqual`.
-/
namespace LlgoVerif.Face

structure Ent where
  name : List Nat     -- bytes of Name_
  typ  : Nat          -- *FuncType (pointer identity)
  ifn  : Nat := 1     -- Ifn_ (0 = nil)
  deriving DecidableEq, Repr

/-- do `(Name_, Mtyp_)` agree?  (`vm.Name_ == tm.Name_ && vm.Mtyp_ == tm.Typ_`) -/
def Ent.same (a b : Ent) : Bool := a.name == b.name && a.typ == b.typ

/-- Go's `<` on strings: bytewise lexicographic -/
def bytesLt : List Nat → List Nat → Bool
  | [], [] => false
  | [], _ :: _ => true
  | _ :: _, [] => false
  | a :: as, b :: bs => if a < b then true else if b < a then false else bytesLt as bs

/-- the loop of `Implements` after the `len(t.Methods) == 0` test: `t` = what is left of the
    interface's table from index `i`, `v` = what is left of the operand's table from index `j`.
    `[]` on the left is `i >= len(t.Methods)`: return true. -/
def scan : List Ent → List Ent → Bool
  | [], _ => true
  | _ :: _, [] => false
  | tm :: ts, vm :: vs => if vm.same tm then scan ts vs else scan (tm :: ts) vs

/-- `Implements(T, V)` for an interface `T` with table `t`; `v = none`: `V` has no uncommon type
    (concrete operand without methods) -/
def implScan (t : List Ent) (v : Option (List Ent)) : Bool :=
  if t.isEmpty then true
  else match v with
    | none => false
    | some v => scan t v

/-- `findMethod(mthds, im)` → `(Ifn_, matched)` -/
def findMethod : List Ent → Ent → Nat × Bool
  | [], _ => (0, false)
  | m :: ms, im =>
    if !bytesLt m.name im.name then            -- mName >= imName
      if m.name == im.name && m.typ == im.typ then (m.ifn, true) else (0, false)
    else findMethod ms im

/-- the fill loop of `NewItab`: `none` = some interface method is missing (`fun[0] = 0; break`);
    `some funs` = the function words written -/
def newItabFuns (t v : List Ent) : Option (List Nat) :=
  t.mapM fun im => let r := findMethod v im; if r.2 then some r.1 else none

/-- `getitab`'s success test `m.fun[0] != 0` (for a non-empty interface) -/
def newItabOk (t : List Ent) (v : Option (List Ent)) : Bool :=
  match v with
  | none => false
  | some v =>
    match newItabFuns t v with
    | some (f :: _) => f != 0
    | _ => false

/-- strictly increasing names -/
def sortedNames (l : List Ent) : Prop := l.Pairwise fun a b => bytesLt a.name b.name = true

/-- the specification both scans are supposed to decide: every interface entry `(name, typ)` occurs
    in the operand's table -/
def implSpec (t v : List Ent) : Prop := ∀ e ∈ t, ∃ m ∈ v, m.name = e.name ∧ m.typ = e.typ

/-- descriptor facts used by `MatchesClosure` -/
structure Desc where
  id : Nat               -- address
  closure : Bool := false
  field0 : Nat := 0      -- Fields[0].Typ (address), for struct types
  named : Bool := false  -- TFlagNamed (a defined func type `type F func()`)
  deriving DecidableEq, Repr

/-- `MatchesClosure(T, V)`; `v = none` is a nil `V`.  `namedFix = false` is the pinned tree: the NAME of
    a defined func type is ignored (`type F func() int` matches `func() int`, a listed finding);
    `namedFix = true` is `fixes/C07-3.diff`: a named closure type matches only itself. -/
def matchesClosure (namedFix : Bool) (t : Desc) (v : Option Desc) : Bool :=
  match v with
  | none => false       -- T == V is false for a nil V and non-nil T; `V == nil` → false
  | some v =>
    if t.id = v.id then true
    else if !v.closure then false
    else if namedFix && (t.named || v.named) then false
    else t.field0 = v.field0

end LlgoVerif.Face
