import LlgoVerif.Model.OrderFix
/-! Specification of what `fixSSAOrderBlock` may do to a block, and the proof that the model does exactly that. -/
namespace LlgoVerif.OrderFix

/-- may a load of alloc `a` defining value `lid` be delayed past `x`?  `x` must not store through an address derived from
    `a`, and must not use the loaded value. -/
def CanCross (a lid : Nat) (x : Instr) : Prop := storeWrites a x = false ∧ usesVal lid x = false

/-- one permitted move: a load `l` of a local alloc that is one of the `rets` values is delayed past the instructions `mid` -/
inductive Step (rets : List Nat) : List Instr → List Instr → Prop where
  | move (pre mid post : List Instr) (l : Instr) (a : Nat)
      (hk : l.kind = .load a) (hr : l.id ∈ rets) (hc : ∀ x ∈ mid, CanCross a l.id x) :
      Step rets (pre ++ l :: (mid ++ post)) (pre ++ (mid ++ l :: post))

inductive Steps (rets : List Nat) : List Instr → List Instr → Prop where
  | refl (b : List Instr) : Steps rets b b
  | head {b c d : List Instr} : Step rets b c → Steps rets c d → Steps rets b d

theorem Steps.single {rets : List Nat} {b c : List Instr} (h : Step rets b c) : Steps rets b c :=
  .head h (.refl c)

theorem Step.mono {r₁ r₂ : List Nat} (hsub : ∀ v ∈ r₁, v ∈ r₂) {b c : List Instr} (h : Step r₁ b c) : Step r₂ b c := by
  cases h with
  | move pre mid post l a hk hr hc => exact .move pre mid post l a hk (hsub _ hr) hc

theorem Steps.mono {r₁ r₂ : List Nat} (hsub : ∀ v ∈ r₁, v ∈ r₂) {b c : List Instr} (h : Steps r₁ b c) : Steps r₂ b c := by
  induction h with
  | refl b => exact .refl b
  | head hs _ ih => exact .head (hs.mono hsub) ih

/-! ### facts about the scanning loops -/

theorem lastIdxIn_some {b : List Instr} {lo : Nat} {p : Instr → Bool} :
    ∀ {hi i : Nat}, lastIdxIn b lo hi p = some i → lo < i ∧ i < hi ∧ ∃ x, b[i]? = some x := by
  intro hi
  induction hi with
  | zero => intro i h; simp [lastIdxIn] at h
  | succ n ih =>
    intro i h
    unfold lastIdxIn at h
    rw [List.range_succ, List.foldl_append] at h
    simp only [List.foldl_cons, List.foldl_nil] at h
    unfold lastStep at h
    split at h
    · rename_i hlo
      split at h
      · rename_i x hx
        split at h
        · injection h with h; subst h; exact ⟨hlo, Nat.lt_succ_self _, x, hx⟩
        · have := ih h; exact ⟨this.1, Nat.lt_succ_of_lt this.2.1, this.2.2⟩
      · have := ih h; exact ⟨this.1, Nat.lt_succ_of_lt this.2.1, this.2.2⟩
    · have := ih h; exact ⟨this.1, Nat.lt_succ_of_lt this.2.1, this.2.2⟩

theorem anyIn_false {b : List Instr} {lo hi : Nat} {p : Instr → Bool} (h : anyIn b lo hi p = false)
    {i : Nat} (h1 : lo < i) (h2 : i < hi) {x : Instr} (hx : b[i]? = some x) : p x = false := by
  unfold anyIn at h
  rw [List.any_eq_false] at h
  have := h i (List.mem_range.mpr h2)
  simp [h1, hx] at this
  exact this

theorem indexOfId_some : ∀ {b : List Instr} {v i : Nat}, indexOfId b v = some i → ∃ x, b[i]? = some x ∧ x.id = v := by
  intro b
  induction b with
  | nil => intro v i h; simp [indexOfId] at h
  | cons y ys ih =>
    intro v i h
    unfold indexOfId at h
    split at h
    · rename_i hy
      injection h with h; subst h
      exact ⟨y, by simp, hy⟩
    · cases hq : indexOfId ys v with
      | none => simp [hq] at h
      | some j =>
        simp [hq] at h
        subst h
        obtain ⟨x, hx, hid⟩ := ih hq
        exact ⟨x, by simpa using hx, hid⟩

/-- `moveInstr b frm (c+1)` for `frm < c < len`: the element at `frm` is delayed past the elements at `frm+1 … c` -/
theorem moveInstr_later {b : List Instr} {frm c : Nat} {l : Instr} (hl : b[frm]? = some l) (hfc : frm < c)
    (hc : c < b.length) :
    ∃ pre mid post, b = pre ++ l :: (mid ++ post) ∧ moveInstr b frm (c + 1) = pre ++ (mid ++ l :: post) ∧
      ∀ x ∈ mid, ∃ i, frm < i ∧ i ≤ c ∧ b[i]? = some x := by
  have hfl : frm < b.length := Nat.lt_trans hfc hc
  have hget : b[frm] = l := by
    have := List.getElem?_eq_getElem hfl
    rw [this] at hl; injection hl
  refine ⟨b.take frm, (b.drop (frm + 1)).take (c - frm), (b.drop (frm + 1)).drop (c - frm), ?_, ?_, ?_⟩
  · rw [List.take_append_drop]
    have : b.drop frm = l :: b.drop (frm + 1) := by
      rw [← hget]; exact List.drop_eq_getElem_cons hfl
    rw [← this, List.take_append_drop]
  · unfold moveInstr
    simp only [hl]
    have h1 : ¬ (c + 1 > b.length) := by omega
    have h2 : ¬ (frm = c + 1 ∨ frm + 1 = c + 1) := by omega
    have h3 : c + 1 > frm := by omega
    simp only [h1, if_false, h2, h3, if_true, Nat.add_sub_cancel]
    have hlen : (b.take frm).length = frm := by simp [List.length_take]; omega
    rw [List.take_append, List.drop_append, hlen]
    have ht : (b.take frm).take c = b.take frm := by
      rw [List.take_take]; congr 1; omega
    have hd : (b.take frm).drop c = [] := by
      apply List.drop_eq_nil_of_le; rw [hlen]; omega
    rw [ht, hd]
    simp
  · intro x hx
    rw [List.mem_iff_getElem?] at hx
    obtain ⟨j, hj⟩ := hx
    rw [List.getElem?_take] at hj
    split at hj
    · rename_i hjlt
      rw [List.getElem?_drop] at hj
      exact ⟨frm + 1 + j, by omega, by omega, hj⟩
    · simp at hj

/-! ### the pass performs only permitted moves -/

theorem fixOne_step (b : List Instr) (retIdx rv : Nat) :
    fixOne b retIdx rv = b ∨ Step [rv] b (fixOne b retIdx rv) := by
  unfold fixOne
  split
  · exact .inl rfl
  · rename_i loadIdx hidx
    split
    · rename_i lid a luses hl
      split
      · exact .inl rfl
      · rename_i hlt
        split
        · exact .inl rfl
        · rename_i lastCall hlast
          split
          · exact .inl rfl
          · rename_i hstore
            split
            · exact .inl rfl
            · rename_i huse
              right
              obtain ⟨h1, h2, y, hy⟩ := lastIdxIn_some hlast
              have hclen : lastCall < b.length := by
                rcases Nat.lt_or_ge lastCall b.length with h | h
                · exact h
                · rw [List.getElem?_eq_none h] at hy; cases hy
              obtain ⟨pre, mid, post, hb, hm, hmid⟩ := moveInstr_later hl h1 hclen
              obtain ⟨x0, hx0, hid0⟩ := indexOfId_some hidx
              rw [hl] at hx0
              injection hx0 with hx0
              have hidrv : lid = rv := by rw [← hx0] at hid0; exact hid0
              rw [hm]
              conv => lhs; rw [hb]
              refine Step.move pre mid post _ a rfl (by simp [hidrv]) ?_
              intro x hx
              obtain ⟨i, hi1, hi2, hxi⟩ := hmid x hx
              have hi3 : i < retIdx := Nat.lt_of_le_of_lt hi2 h2
              refine ⟨anyIn_false (Bool.not_eq_true _ ▸ hstore) hi1 hi3 hxi, ?_⟩
              show usesVal lid x = false
              rw [hidrv]
              exact anyIn_false (Bool.not_eq_true _ ▸ huse) hi1 hi3 hxi
    · exact .inl rfl

theorem fixResults_steps (retId : Nat) : ∀ (rvs : List Nat) (b : List Instr) (retIdx : Nat),
    Steps rvs b (fixResults retId rvs b retIdx) := by
  intro rvs
  induction rvs with
  | nil => intro b _; exact .refl b
  | cons rv rest ih =>
    intro b retIdx
    unfold fixResults
    have hrest := (ih (fixOne b retIdx rv) ((indexOfId (fixOne b retIdx rv) retId).getD retIdx)).mono
      (r₂ := rv :: rest) (fun v hv => List.mem_cons_of_mem _ hv)
    rcases fixOne_step b retIdx rv with h | h
    · rw [h] at hrest ⊢; exact hrest
    · exact .head (h.mono (fun v hv => by simp at hv; simp [hv])) hrest

/-- the results of the block's last `Return` (what the pass iterates over) -/
def retResults (b : List Instr) : List Nat :=
  match lastRetIdx b with
  | none => []
  | some r =>
    match b[r]? with
    | some ret => ret.uses
    | none => []

theorem fixBlock_steps (b : List Instr) : Steps (retResults b) b (fixBlock b) := by
  unfold fixBlock retResults
  cases h : lastRetIdx b with
  | none => exact .refl b
  | some r =>
    simp only []
    cases h2 : b[r]? with
    | none => simp only []; exact .refl b
    | some ret => simp only []; exact fixResults_steps _ _ _ _

/-! ### what permitted moves preserve -/

theorem Step.perm {rets : List Nat} {b c : List Instr} (h : Step rets b c) : c.Perm b := by
  cases h with
  | move pre mid post l a _ _ _ =>
    apply List.Perm.append_left
    rw [← List.cons_append]
    exact (List.perm_middle (a := l) (l₁ := mid) (l₂ := post))

theorem Steps.perm {rets : List Nat} {b c : List Instr} (h : Steps rets b c) : c.Perm b := by
  induction h with
  | refl b => exact List.Perm.refl b
  | head hs _ ih => exact ih.trans hs.perm

/-- the designated loads: loads of a local alloc whose value is a result of the `Return` -/
def designated (rets : List Nat) (i : Instr) : Bool :=
  match i.kind with
  | .load _ => rets.contains i.id
  | _ => false

theorem Step.filter_eq {rets : List Nat} {b c : List Instr} (h : Step rets b c) (p : Instr → Bool)
    (hp : ∀ i, designated rets i = true → p i = false) : c.filter p = b.filter p := by
  cases h with
  | move pre mid post l a hk hr _ =>
    have hl : p l = false := hp l (by simp [designated, hk, hr])
    simp [List.filter_append, hl]

theorem Steps.filter_eq {rets : List Nat} {b c : List Instr} (h : Steps rets b c) (p : Instr → Bool)
    (hp : ∀ i, designated rets i = true → p i = false) : c.filter p = b.filter p := by
  induction h with
  | refl b => rfl
  | head hs _ ih => rw [ih, hs.filter_eq p hp]

/-- `x` comes before `y` only if `x` does not use the value `y` defines -/
def DefBeforeUse (b : List Instr) : Prop := b.Pairwise (fun x y => usesVal y.id x = false)

theorem Step.defBeforeUse {rets : List Nat} {b c : List Instr} (h : Step rets b c) (hb : DefBeforeUse b) :
    DefBeforeUse c := by
  cases h with
  | move pre mid post l a hk hr hc =>
    unfold DefBeforeUse at hb ⊢
    rw [List.pairwise_append] at hb ⊢
    obtain ⟨h1, h2, h3⟩ := hb
    rw [List.pairwise_cons, List.pairwise_append] at h2
    obtain ⟨hl, hmid, hpost, hmp⟩ := h2
    refine ⟨h1, ?_, ?_⟩
    · rw [List.pairwise_append, List.pairwise_cons]
      refine ⟨hmid, ⟨fun y hy => hl y (List.mem_append_right _ hy), hpost⟩, ?_⟩
      intro x hx y hy
      rcases List.mem_cons.mp hy with rfl | hy
      · exact (hc x hx).2
      · exact hmp x hx y hy
    · intro x hx y hy
      apply h3 x hx y
      simp only [List.mem_append, List.mem_cons] at hy ⊢
      rcases hy with hy | rfl | hy
      · exact .inr (.inl hy)
      · exact .inl rfl
      · exact .inr (.inr hy)

theorem Steps.defBeforeUse {rets : List Nat} {b c : List Instr} (h : Steps rets b c) (hb : DefBeforeUse b) :
    DefBeforeUse c := by
  induction h with
  | refl b => exact hb
  | head hs _ ih => exact ih (hs.defBeforeUse hb)

end LlgoVerif.OrderFix
