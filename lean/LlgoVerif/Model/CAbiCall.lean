/-!
# C09 — executable model of the call-site rewriting of `internal/cabi` (`transformCallInstr`)

`/repo/internal/cabi/cabi.go` `transformCallInstr` turns a Go-level call `%r = call %T @f(args…)` into the call
the C ABI prescribes.  Two kinds of operand do not travel in registers but in **memory objects that belong to the
call**:

* a result of more than 16 bytes (`AttrPointer` result): the caller passes a hidden pointer (`sret`) to an object
  the callee fills in;
* an aggregate parameter of more than 16 bytes (`AttrPointer` parameter): the caller passes a pointer with the
  `byval` attribute; LLVM's x86-64 lowering copies the pointee into the outgoing argument area AT THE CALL, and that
  copy is from then on the callee's own variable.

The C ABI (psABI §3.2.3, "Returning of Values"; C11 6.5.2.2, 6.9.1p10) makes both objects **private to the call**:
the callee may write its result object early and piecemeal while it is still reading its inputs, and may modify
its parameter object at will.  The code as it is gives the result object a fresh `alloca` in the caller's frame
(`createAlloca`; `call; load`) and stores the argument VALUE into a fresh `alloca` whose address is passed `byval`
(`store; call` — "pass the loaded value", not the address it was loaded from, whose contents may have changed since
the load).  This file models

* the callee as an arbitrary program over registers, main memory (absolute and register-indirect addresses) and
  its private objects (`Prog`), with two semantics: the *abstract* one of the C abstract machine, where private
  objects are separate from main memory (`runA`), and the *concrete* one in which every private object lives at the
  address the caller chose (`runC`, placement `P`);
* the choice the caller makes (`lowerRet`, `lowerByval` — branch by branch `transformCallInstr`), with the variants
  that are NOT the current code (`RetCfg.elideIntoStore`: pass the destination of the following store as `sret`;
  `ByvalCfg.reuseLoadSource`: pass the address the argument was loaded from, so that the call copies what that
  memory holds NOW) kept for the counterexamples;
* the Go-level meaning of `*dst = f(args…)` (`specCall`) and what the rewritten call does (`implCall`).

Memory is word-granular (one cell per scalar leaf); only aliasing matters here, not layout (that is `Model/CAbi.lean`).
Core Lean only.
-/
namespace LlgoVerif.CAbiCall

/-- main memory -/
abbrev Cells := Nat → Nat

def Cells.set (m : Cells) (a : Nat) (v : Nat) : Cells := fun x => if x = a then v else m x

/-- the private objects of one call: object → offset → value.  Object 0 is the result object, object `i+1` the
    object of the `i`-th by-value aggregate parameter. -/
abbrev Priv := Nat → Nat → Nat

def Priv.set (p : Priv) (k off v : Nat) : Priv := fun k' o' => if k' = k ∧ o' = off then v else p k' o'

abbrev Regs := Nat → Nat

def Regs.set (r : Regs) (i v : Nat) : Regs := fun x => if x = i then v else r x

/-- what a callee can name -/
inductive Ref where
  | priv (obj off : Nat)      -- a cell of its result object / of one of its by-value parameter objects
  | abs (a : Nat)            -- a global
  | ind (r off : Nat)         -- through a pointer held in a register (pointer arguments arrive in registers)
deriving DecidableEq, Repr

inductive Op where
  | load (r : Nat) (l : Ref)
  | store (l : Ref) (r : Nat)
  | const (r v : Nat)
  | add (r a b : Nat)
deriving DecidableEq, Repr

/-- a callee: straight-line code with branches on register values -/
inductive Prog where
  | done
  | seq (o : Op) (k : Prog)
  | ifz (r : Nat) (t e : Prog)
deriving Repr

/-! ## Abstract semantics (the C abstract machine: private objects are objects of their own) -/

structure StA where
  regs : Regs
  mem : Cells
  priv : Priv

def readA (s : StA) (l : Ref) : Nat :=
  match l with
  | .priv k off => s.priv k off
  | .abs a => s.mem a
  | .ind r off => s.mem (s.regs r + off)

def writeA (s : StA) (l : Ref) (v : Nat) : StA :=
  match l with
  | .priv k off => { s with priv := s.priv.set k off v }
  | .abs a => { s with mem := s.mem.set a v }
  | .ind r off => { s with mem := s.mem.set (s.regs r + off) v }

def stepA (o : Op) (s : StA) : StA :=
  match o with
  | .load r l => { s with regs := s.regs.set r (readA s l) }
  | .store l r => writeA s l (s.regs r)
  | .const r v => { s with regs := s.regs.set r v }
  | .add r a b => { s with regs := s.regs.set r (s.regs a + s.regs b) }

def runA : Prog → StA → StA
  | .done, s => s
  | .seq o k, s => runA k (stepA o s)
  | .ifz r t e, s => if s.regs r = 0 then runA t s else runA e s

/-! ## Concrete semantics: private object `k` lives at `P.base k` of the one flat memory -/

/-- where the caller put the `n` private objects of the call -/
structure Placing where
  n : Nat
  base : Nat → Nat
  size : Nat → Nat

structure StC where
  regs : Regs
  mem : Cells

def Ref.addrC (P : Placing) (l : Ref) (regs : Regs) : Nat :=
  match l with
  | .priv k off => P.base k + off
  | .abs a => a
  | .ind r off => regs r + off

def stepC (P : Placing) (o : Op) (s : StC) : StC :=
  match o with
  | .load r l => { s with regs := s.regs.set r (s.mem (l.addrC P s.regs)) }
  | .store l r => { s with mem := s.mem.set (l.addrC P s.regs) (s.regs r) }
  | .const r v => { s with regs := s.regs.set r v }
  | .add r a b => { s with regs := s.regs.set r (s.regs a + s.regs b) }

def runC (P : Placing) : Prog → StC → StC
  | .done, s => s
  | .seq o k, s => runC P k (stepC P o s)
  | .ifz r t e, s => if s.regs r = 0 then runC P t s else runC P e s

/-! ## When is a placement invisible to the callee? -/

/-- `x` lies inside one of the placed objects -/
def InRanges (P : Placing) (x : Nat) : Prop := ∃ k, k < P.n ∧ P.base k ≤ x ∧ x < P.base k + P.size k

instance (P : Placing) (x : Nat) : Decidable (InRanges P x) := by unfold InRanges; infer_instance

/-- the placed objects do not overlap each other -/
def Disjoint (P : Placing) : Prop :=
  ∀ i, i < P.n → ∀ j, j < P.n → i ≠ j →
    P.base i + P.size i ≤ P.base j ∨ P.base j + P.size j ≤ P.base i

instance (P : Placing) : Decidable (Disjoint P) := by unfold Disjoint; infer_instance

/-- one access is fine: a private access stays inside an existing object; a main-memory access does not hit a
    placed object (the callee cannot reach the object through any other name) -/
def RefSafe (P : Placing) (l : Ref) (regs : Regs) : Prop :=
  match l with
  | .priv k off => k < P.n ∧ off < P.size k
  | .abs a => ¬ InRanges P a
  | .ind r off => ¬ InRanges P (regs r + off)

instance (P : Placing) (l : Ref) (regs : Regs) : Decidable (RefSafe P l regs) := by
  unfold RefSafe; cases l <;> infer_instance

def OpSafe (P : Placing) (o : Op) (s : StA) : Prop :=
  match o with
  | .load _ l => RefSafe P l s.regs
  | .store l _ => RefSafe P l s.regs
  | .const _ _ => True
  | .add _ _ _ => True

instance (P : Placing) (o : Op) (s : StA) : Decidable (OpSafe P o s) := by
  unfold OpSafe; cases o <;> infer_instance

/-- along the run of the C abstract machine the callee never touches a placed object through main memory (and
    stays inside its private objects) -/
def Safe (P : Placing) : Prog → StA → Prop
  | .done, _ => True
  | .seq o k, s => OpSafe P o s ∧ Safe P k (stepA o s)
  | .ifz r t e, s => if s.regs r = 0 then Safe P t s else Safe P e s

/-- `Safe` as a program (used by the driver) -/
def safeB (P : Placing) : Prog → StA → Bool
  | .done, _ => true
  | .seq o k, s => decide (OpSafe P o s) && safeB P k (stepA o s)
  | .ifz r t e, s => if s.regs r = 0 then safeB P t s else safeB P e s

/-! ## The call site: `*dst = f(args…)` -/

inductive Arg where
  | word (v : Nat)                               -- scalar or pointer: travels in a register
  | byval (vals : List Nat) (src : Nat)         -- aggregate > 16 bytes: its value (as loaded) and where it was loaded from
deriving Repr

structure CallSite where
  nres : Nat            -- cells of the result object
  args : List Arg
  dst : Nat            -- `store %T %r, ptr %dst` is what the Go code does with the result
deriving Repr

/-- registers at entry: the word arguments in order -/
def argRegs : List Arg → Nat → Regs
  | [], _ => fun _ => 0
  | .word v :: r, i => (argRegs r (i + 1)).set i v
  | .byval _ _ :: r, i => argRegs r i

/-- the by-value aggregate arguments in order: value and the address it was loaded from -/
def byvals : List Arg → List (List Nat × Nat)
  | [] => []
  | .word _ :: r => byvals r
  | .byval vals src :: r => (vals, src) :: byvals r

def bvVals (bv : List (List Nat × Nat)) (k : Nat) : List Nat := (bv.getD (k - 1) ([], 0)).1

/-- private objects at entry: object 0 (the result) holds indeterminate values `junk`; object `k ≥ 1` holds the
    value of the `k`-th by-value argument -/
def privInit (junk : Nat → Nat) (bv : List (List Nat × Nat)) : Priv :=
  fun k off => if k = 0 then junk off else (bvVals bv k).getD off 0

def writeCells (m : Cells) (a : Nat) : List Nat → Cells
  | [] => m
  | v :: r => writeCells (m.set a v) (a + 1) r

def readCells (m : Cells) (a : Nat) : Nat → List Nat
  | 0 => []
  | n + 1 => m a :: readCells m (a + 1) n

def privCells (p : Priv) (k : Nat) (off : Nat) : Nat → List Nat
  | 0 => []
  | n + 1 => p k off :: privCells p k (off + 1) n

def initA (junk : Nat → Nat) (c : CallSite) (m : Cells) : StA :=
  ⟨argRegs c.args 0, m, privInit junk (byvals c.args)⟩

/-- **Specification**: the Go-level meaning of `*dst = f(args…)`.  `f` runs on the C abstract machine (result and
    parameter objects are its own; the result object starts with indeterminate contents `junk`); afterwards the
    result VALUE is stored to `dst`. -/
def specCall (junk : Nat → Nat) (f : Prog) (c : CallSite) (m : Cells) : Cells :=
  writeCells (runA f (initA junk c m)).mem c.dst (privCells (runA f (initA junk c m)).priv 0 0 c.nres)

/-! ### What `transformCallInstr` does -/

/-- how the Go code uses the call's result -/
structure ResultUse where
  onlyUseIsNextStore : Bool     -- the result's only use is a `store` that directly follows the call
deriving DecidableEq, Repr

inductive RetCfg where
  | temp                -- the code as it is: `ret := createAlloca(T); call(ret, …); load ret`
  | elideIntoStore      -- NOT the current code: pass the destination of the directly following store as `sret`
deriving DecidableEq, Repr

inductive Slot where
  | temp | dest
deriving DecidableEq, Repr

/-- `case AttrPointer:` of the result switch of `transformCallInstr` -/
def lowerRet (cfg : RetCfg) (u : ResultUse) : Slot :=
  match cfg with
  | .temp => .temp
  | .elideIntoStore => if u.onlyUseIsNextStore then .dest else .temp

/-- how the argument value was produced -/
structure ArgDef where
  isLoad : Bool                 -- the argument is the result of a `load`
deriving DecidableEq, Repr

inductive ByvalCfg where
  | copy                -- the code as it is: `ptr := createAlloca(T); store param, ptr` ("pass the loaded value")
  | reuseLoadSource     -- NOT the current code: pass the load's source pointer
deriving DecidableEq, Repr

inductive ByvalSlot where
  | temp | source
deriving DecidableEq, Repr

/-- `case AttrPointer:` of the parameter switch of `transformCallInstr` -/
def lowerByval (cfg : ByvalCfg) (a : ArgDef) : ByvalSlot :=
  match cfg with
  | .copy => .temp
  | .reuseLoadSource => if a.isLoad then .source else .temp

/-- the frame of the caller: `frame k` is the address of the `alloca` made for private object `k` -/
abbrev Frame := Nat → Nat

/-- the placement a lowering produces: the result object where `slot` says; the object of the `k`-th by-value
    parameter is always the copy the call itself makes (`frame k` stands for the outgoing argument area; for the
    current code also for llgo's own temporary, which the callee never sees) -/
def placement (slot : Slot) (frame : Frame) (c : CallSite) : Placing where
  n := 1 + (byvals c.args).length
  base := fun k => if k = 0 then (match slot with | .temp => frame 0 | .dest => c.dst) else frame k
  size := fun k => if k = 0 then c.nres else (bvVals (byvals c.args) k).length

/-- what the call copies into the parameter objects: the argument VALUES (`store param, ptr` into llgo's temporary,
    then LLVM's copy), or — `source` — whatever the memory the value was loaded from holds when the call is made -/
def bvContents (bs : ByvalSlot) (m : Cells) (bv : List (List Nat × Nat)) : List (List Nat × Nat) :=
  bv.map fun vs => ((match bs with | .temp => vs.1 | .source => readCells m vs.2 vs.1.length), vs.2)

/-- fill the parameter objects `k`, `k+1`, … -/
def storeByvals (frame : Frame) : List (List Nat × Nat) → Nat → Cells → Cells
  | [], _, m => m
  | (vals, _) :: r, k, m => storeByvals frame r (k + 1) (writeCells m (frame k) vals)

def initC (bs : ByvalSlot) (frame : Frame) (c : CallSite) (m : Cells) : StC :=
  ⟨argRegs c.args 0, storeByvals frame (bvContents bs m (byvals c.args)) 1 m⟩

/-- **Implementation**: the rewritten call on the flat memory -/
def implCall (slot : Slot) (bs : ByvalSlot) (frame : Frame) (f : Prog) (c : CallSite) (m : Cells) : Cells :=
  match slot with
  | .temp =>      -- `call(ret, …)`; `load ret`; … `store %r, dst`
    writeCells (runC (placement slot frame c) f (initC bs frame c m)).mem c.dst
      (readCells (runC (placement slot frame c) f (initC bs frame c m)).mem (frame 0) c.nres)
  | .dest =>      -- `call(dst, …)`; the store was deleted
    (runC (placement slot frame c) f (initC bs frame c m)).mem

/-- the call as rewritten under a configuration -/
def implCallCfg (rc : RetCfg) (bc : ByvalCfg) (u : ResultUse) (a : ArgDef) (frame : Frame) (f : Prog) (c : CallSite)
    (m : Cells) : Cells :=
  implCall (lowerRet rc u) (lowerByval bc a) frame f c m

/-- the caller's fresh temporaries: one per private object (whether a lowering uses them or not) -/
def temps (frame : Frame) (c : CallSite) : Placing := placement .temp frame c

/-- the by-value arguments are the values their sources hold when the call is made -/
def ArgsLoaded (c : CallSite) (m : Cells) : Prop :=
  ∀ vs ∈ byvals c.args, readCells m vs.2 vs.1.length = vs.1

instance (c : CallSite) (m : Cells) : Decidable (ArgsLoaded c m) := by unfold ArgsLoaded; infer_instance

end LlgoVerif.CAbiCall
