"""C06 — maps behave as finite maps under every operation history and key type.

Lean: Model/HMap.lean (bucket-level transcription of map.go), Spec/AssocList.lean, Props/C06.lean.
Tie (B-N): llgo's map.go/alg.go/hash64.go/z_map.go/stubs.go are copied verbatim from the working tree and run
natively (vlib/native.py); one interpreter per key kind executes generated histories; `modeld_c06` is driven with
the same hashes and the same fastrand stream and every step is diffed (results, iteration order, count/flags/
B/noverflow/nevacuate/hash0/fastrand calls).  Independently the REAL outputs are judged against the finite-map
specification (a plain association table + the iteration rules) in `judge`.
"""
import json
import os
import struct
import subprocess

from vlib.common import *
from vlib import native

RT_FILES = ["map.go", "alg.go", "hash64.go", "z_map.go", "type.go", "errors.go", "stubs.go", "z_face.go", "z_type.go",
            "mbarrier.go", "z_error.go", "z_string.go", "utf8.go", "z_slice.go"]
KINDS = {  # name -> (reflexive, needKeyUpdate, hashMightPanic)   (ssa/abi/map.go MapTypeFlags for these key types)
    "int": (1, 0, 0), "str": (1, 1, 0), "f64": (0, 1, 0), "any": (0, 1, 1), "arr": (1, 0, 0), "stc": (1, 1, 0), "big": (1, 0, 0),
    # complex keys (== on complex: (x,+0) and (x,-0) are ONE key, a NaN part makes the key equal to nothing), a struct with
    # a complex field, and structs with tail / interior padding whose padding bytes are dirtied by the harness
    "c128": (0, 1, 0), "c64": (0, 1, 0), "cst": (0, 1, 0), "pad": (1, 0, 0), "ipd": (1, 0, 0)}
KNOWN_CLEAR = "mapclear:memclr-noop-stale-buckets"
KNOWN_NAN = "mapiter:nan-entry-of-retired-buckets-after-clear"
KNOWN_BIG = "abitype:indirect-key-elem-slot-size"


class Key:
    __slots__ = ("tok", "cls", "repr", "refl", "unh", "nank")

    def __init__(self, tok, cls, rep, refl=True, unh=False, nank="-"):
        self.tok, self.cls, self.repr, self.refl, self.unh, self.nank = tok, cls, rep, refl, unh, nank


def f64bits(x):
    return struct.unpack("<Q", struct.pack("<d", x))[0]


NANS = [0x7ff8000000000001, 0x7ff8000000000000, 0xfff8000000000000, 0x7ff0000000000001]


S64 = [0, 1 << 63, 0x7ff8000000000001, 0x7ff0000000000000, 0xfff0000000000000, 0x3ff0000000000000, 0xbff0000000000000]
S32 = [0, 1 << 31, 0x7fc00001, 0x7f800000, 0xff800000, 0x3f800000, 0xbf800000]


READ_SWAP = [False]    # how the runtime's readUnaligned32/64 order the bytes (probed from the real code by detect_read_order)


def _as_read(bits, w):
    return int.from_bytes(bits.to_bytes(w, "little"), "big") if READ_SWAP[0] else bits


def detect_read_order(binary):
    """llgo's goarch endian_*.go decide how memhash reads its operand; the model driver is handed the operand as the
    runtime reads it, so a change there does not disturb the correspondence.  Probe: hash of int64(5) under seed 100."""
    M = (1 << 64) - 1
    m1, m2, m5 = 0xa0761d6478bd642f, 0xe7037ed1a0b428db, 0x1d8e4e27c47d124f

    def mix(a, b):
        p = a * b
        return ((p >> 64) ^ (p & M)) & M
    ans = run_real(binary, ["kind int", "hashkey 4 6 8 10", "rand 100", "mk 0", "get i:5 0"])[0]
    got = parse_real(ans[-1])[1] if ans else ""
    for swap in (False, True):
        a = int.from_bytes((5).to_bytes(8, "little"), "big") if swap else 5
        if "%x" % mix(m5 ^ 8, mix(a ^ m2, a ^ 100 ^ 5 ^ m1)) == got:
            READ_SWAP[0] = swap
            return "byte-swapped" if swap else "native order"
    return "unknown (memhash64 changed)"


def _fpart(bits, w):
    """(part spec for the model driver, canonical value) of one float component of width w bytes"""
    if w == 8:
        nan = (bits >> 52) & 0x7ff == 0x7ff and bits & ((1 << 52) - 1) != 0
        zero = bits in (0, 1 << 63)
    else:
        nan = (bits >> 23) & 0xff == 0xff and bits & ((1 << 23) - 1) != 0
        zero = bits in (0, 1 << 31)
    if nan:
        return "n", None
    if zero:
        return "z", 0
    return "v%x" % _as_read(bits, w), bits


def classify(kind, tok):
    """(canonical form under Go's ==, reflexive, unhashable, NaN hashing spec) of a key token"""
    t, body = tok[0], tok[2:]
    box = "A" if kind == "any" else ""
    if t in "SFMU":
        return (t,), True, True, "-"
    if t == "f":
        p, c = _fpart(int(body, 16), 8)
        return (("f", c), True, False, "-") if c is not None else (None, False, False, "8%s:n" % box)
    if t in "cd":
        w = 8 if t == "c" else 4
        re, im = (int(x, 16) for x in body.split(","))
        (p1, c1), (p2, c2) = _fpart(re, w), _fpart(im, w)
        if c1 is None or c2 is None:
            return None, False, False, "%d%s:%s/%s" % (w, box, p1, p2)
        return (t, c1, c2), True, False, "-"
    if t == "C":
        re, im, b = body.split(",")
        (p1, c1), (p2, c2) = _fpart(int(re, 16), 8), _fpart(int(im, 16), 8)
        if c1 is None or c2 is None:
            return None, False, False, "8:%s/%s/u%x" % (p1, p2, _as_read(int(b) & 0xffffffff, 4))
        return ("C", c1, c2, int(b)), True, False, "-"
    return tok, True, False, "-"


def universe(rng, kind, n):
    """n distinct key tokens of the kind, with their equality class (what Go's == says)."""
    toks = []   # (tok, canonical, refl, unh, nank)

    def ints(m):
        base = [0, 1, -1, 2, 7, 8, 9, 255, 256, 1 << 31, -(1 << 31), (1 << 63) - 1, -(1 << 63)]
        out = base[:]
        while len(out) < m:
            r = rng.random()
            out.append(rng.randint(-50, 5000) if r < 0.6 else rng.getrandbits(64) - (1 << 63))
        return out[:m]

    def strs(m):
        out = [b"", b"a", b"b", b"ab", b"a\x00", b"\xff", b"x" * 16, b"x" * 17, b"x" * 33, b"y" * 200]
        while len(out) < m:
            ln = rng.choice([1, 2, 3, 4, 5, 7, 8, 9, 15, 16, 17, 31, 32, 33, 64, 65, 100])
            out.append(bytes(rng.getrandbits(8) for _ in range(ln)) if rng.random() < 0.5 else
                       ("k%d" % rng.randint(0, 10 * m)).encode())
        return out[:m]

    def floats(m):
        out = [0, 0x8000000000000000, f64bits(1.0), f64bits(-1.0), f64bits(float("inf")), f64bits(float("-inf")), 1, f64bits(1e-310)]
        while len(out) < m:
            out.append(f64bits(rng.choice([rng.random() * 1000, float(rng.randint(-1000, 100000)), rng.random()])))
        return out[:m]

    def hx(b):
        return b.hex() if b else "-"

    def isnan(bits):
        return (bits >> 52) & 0x7ff == 0x7ff and bits & ((1 << 52) - 1) != 0

    def fcanon(bits):
        return ("f", 0 if bits in (0, 0x8000000000000000) else bits)

    if kind == "int":
        toks = [("i:%d" % v, ("i", v), True, False, 0) for v in ints(n)]
    elif kind == "str":
        toks = [("s:" + hx(s), ("s", s), True, False, 0) for s in strs(n)]
    elif kind == "f64":
        for b in floats(n - len(NANS)):
            toks.append(("f:%x" % b, fcanon(b), True, False, 0))
        for b in NANS:
            toks.append(("f:%x" % b, ("nan", b), False, False, 0))
    elif kind == "arr":
        vs = ints(n)
        toks = [("a:%d,%d" % (vs[i], vs[(i * 7 + 3) % len(vs)] if i % 3 else 0), None, True, False, 0) for i in range(n)]
        toks = [(t, ("a", t), r, u, k) for (t, _, r, u, k) in toks]
    elif kind == "stc":
        ss = strs(n)
        toks = [("T:%d,%s" % (rng.randint(-3, 3) if i % 4 else i, hx(ss[i])), None, True, False, 0) for i in range(n)]
        toks = [(t, ("T", t), r, u, k) for (t, _, r, u, k) in toks]
    elif kind == "big":
        toks = [("g:%d" % v, ("g", v), True, False, 0) for v in ints(n) if abs(v) < 1 << 40]
    elif kind == "any":
        toks = [("n:", ("nil",), True, False, 0), ("b:0", ("b", 0), True, False, 0), ("b:1", ("b", 1), True, False, 0),
                ("S:x", ("S",), True, True, 0), ("F:x", ("F",), True, True, 0), ("M:x", ("M",), True, True, 0), ("U:x", ("U",), True, True, 0)]
        for b in NANS:
            toks.append(("f:%x" % b, ("nan", b), False, False, 1))
        for i in range(8):
            toks.append(("p:%d" % i, ("p", i), True, False, 0))
        m = max(4, (n - len(toks)) // 6)
        for v in ints(m):
            toks.append(("i:%d" % v, ("i", v), True, False, 0))
            if -(1 << 31) <= v < (1 << 31):
                toks.append(("j:%d" % v, ("j", v), True, False, 0))   # same number, other dynamic type: another key
        for s in strs(m):
            toks.append(("s:" + hx(s), ("s", s), True, False, 0))
        for b in floats(m):
            toks.append(("f:%x" % b, fcanon(b), True, False, 0))
        vs = ints(m)
        for i in range(m):
            toks.append(("a:%d,%d" % (vs[i], i), ("a", vs[i], i), True, False, 0))
            toks.append(("T:%d,%s" % (i, hx(b"t%d" % i)), ("T", i), True, False, 0))
    elif kind in ("c128", "c64"):
        t, S, w = ("c", S64, 16) if kind == "c128" else ("d", S32, 8)
        toks = [("%s:%x,%x" % (t, a, b),) for a in S for b in S]
        while len(toks) < n:
            a = f64bits(float(rng.randint(-300, 3000)) / rng.choice([1, 2, 4])) if kind == "c128" else \
                struct.unpack("<I", struct.pack("<f", float(rng.randint(-300, 3000)) / rng.choice([1, 2, 4])))[0]
            toks.append(("%s:%x,%x" % (t, a, rng.choice(S)),) if rng.random() < 0.7 else ("%s:%x,%x" % (t, rng.choice(S), a),))
    elif kind == "cst":
        toks = [("C:%x,%x,%d" % (a, b, c),) for a in S64 for b in S64[:5] for c in (0, 7)]
        while len(toks) < n:
            toks.append(("C:%x,%x,%d" % (f64bits(float(rng.randint(-50, 500))), rng.choice(S64), rng.randint(-3, 3)),))
    elif kind == "pad":
        toks = [("P:%d,%d,%d" % (v, rng.choice([0, 1, v]), rng.randint(-128, 127)),) for v in ints(n)]
    elif kind == "ipd":
        toks = [("Q:%d,%d" % (rng.randint(-128, 127), v),) for v in ints(n)]
    if kind == "any":
        # complex and padded-struct dynamic types inside the interface
        extra = ["c:%x,%x" % (a, b) for a in S64[:4] for b in S64[:4]] + ["d:%x,%x" % (a, b) for a in S32[:3] for b in S32[:3]]
        extra += ["P:%d,%d,%d" % (i, i % 3, i % 5) for i in range(12)] + ["Q:%d,%d" % (i % 7, i) for i in range(8)]
        toks = toks[:40] + [(x,) for x in extra] + toks[40:]
    seen, cls, out = set(), {}, []
    for tup in toks:
        t = tup[0]
        if t in seen:
            continue
        seen.add(t)
        canon, refl, unh, spec = classify(kind, t)
        c = cls.setdefault(canon if refl else ("nan", t), len(cls))
        out.append(Key(t, c, len(out), refl, unh, spec))
    return out


# ------------------------------------------------------------------------------------------------ generator
def gen_history(rng, kind, nops, with_clear, profile=None):
    """One history: list of ops.  op = (name, key or None, value or None, slot or None)."""
    profile = profile or rng.choice(["grow", "churn", "sawtooth", "small", "same-size"])
    target = {"grow": rng.choice([300, 1000, 2500]), "churn": rng.choice([100, 400]), "sawtooth": rng.choice([200, 900]),
              "small": rng.choice([6, 9, 20]), "same-size": 6 * 2 ** rng.choice([3, 3, 4, 5]) - 1}[profile]
    uni = universe(rng, kind, max(40, min(int(target * 2.2) + 30, 6000)))
    hashable = [k for k in uni if not k.unh]
    special = [k for k in uni if k.unh or not k.refl]
    bycls = {}
    for x in uni:
        if x.refl and not x.unh:
            bycls.setdefault(x.cls, []).append(x)
    special += [x for xs in bycls.values() if len(xs) > 1 for x in xs][:60]      # ±0 variants of one key
    ops = []
    if rng.random() < 0.5:   # nil-map segment
        ops.append(("nil", None, None, None))
        for _ in range(rng.randint(3, 10)):
            k = rng.choice(uni)
            ops.append(rng.choice([("get", k, None, None), ("get1", k, None, None), ("del", k, None, None), ("len", None, None, None),
                                   ("set", k, 1, None), ("clr", None, None, None), ("itn", None, None, "a")]))
    ops.append(("mk", None, rng.choice([0, 0, 0, 5, 8, 9, 14, 100, target]), None))
    present = {}      # cls -> Key (generator's own bookkeeping; the judge recomputes independently)
    order = []        # classes, for cheap random choice
    val = [0]
    slots = {}        # slot -> started (iterating)
    phase_up = True
    cleared = 0

    def pick_present():
        while order:
            i = rng.randrange(len(order))
            c = order[i]
            if c in present:
                return present[c]
            order[i] = order[-1]
            order.pop()
        return None

    def do_set(k):
        val[0] += 1
        ops.append(("set", k, val[0], None))
        if not k.unh and k.refl and k.cls not in present:
            present[k.cls] = k
            order.append(k.cls)

    def do_del(k):
        ops.append(("del", k, None, None))
        if k.refl:
            present.pop(k.cls, None)

    while len(ops) < nops:
        n = len(present)
        if profile in ("sawtooth", "same-size"):
            if n >= target:
                phase_up = False
            elif n <= (target // 8 if profile == "sawtooth" else target - max(6, target // 5)):
                phase_up = True
        r = rng.random()
        if profile == "grow":
            w_new, w_del = (0.7, 0.05) if n < target else (0.2, 0.2)
        elif profile == "churn":
            w_new, w_del = (0.6, 0.1) if n < target else (0.3, 0.32)
        elif profile == "small":
            w_new, w_del = (0.35, 0.3) if n < target else (0.1, 0.4)
        else:
            w_new, w_del = (0.65, 0.05) if phase_up else (0.05, 0.65)
        if r < w_new:
            do_set(rng.choice(hashable))
        elif r < w_new + w_del:
            k = pick_present() if rng.random() < 0.9 else rng.choice(uni)
            if k is not None:
                do_del(k)
        elif r < w_new + w_del + 0.06:
            k = pick_present()
            if k is not None:
                # update, possibly through an equal-but-not-identical key (+0/-0)
                alts = bycls.get(k.cls, [])
                do_set(rng.choice(alts) if alts and rng.random() < 0.5 else k)
        elif r < w_new + w_del + 0.16:
            k = pick_present() if rng.random() < 0.6 else rng.choice(uni)
            if k is not None:
                ops.append((rng.choice(["get", "get", "get1"]), k, None, None))
        elif r < w_new + w_del + 0.18 and special:
            k = rng.choice(special)
            rr = rng.random()
            if rr < 0.4:
                do_set(k)
            elif rr < 0.7:
                ops.append(("get", k, None, None))
            else:
                do_del(k)
        elif r < w_new + w_del + 0.20:
            ops.append(("len", None, None, None))
        elif r < w_new + w_del + 0.205 and with_clear and cleared < 3 and n > 0:
            ops.append(("clr", None, None, None))
            present.clear()
            del order[:]
            cleared += 1
        else:
            s = rng.choice("abc")
            if s not in slots or rng.random() < 0.03:
                ops.append(("itn", None, None, s))
                slots[s] = True
            else:
                for _ in range(rng.choice([1, 1, 2, 5, 20])):
                    ops.append(("itx", None, None, s))
    # drain one iterator completely and finish with lookups of everything the generator believes present
    ops.append(("itn", None, None, "z"))
    for _ in range(len(present) + 40):
        ops.append(("itx", None, None, "z"))
    ops.append(("len", None, None, None))
    for k in list(present.values())[:200]:
        ops.append(("get", k, None, None))
    return {"kind": kind, "profile": profile, "ops": ops,
            "hashkey": [rng.getrandbits(62) for _ in range(4)], "rand": [rng.getrandbits(32) for _ in range(rng.choice([0, 16, 200]))]}


def gen_adversarial(rng, kind, binary, nops):
    """History aimed at same-size growth: with the REAL hashes of the key universe (read from a probe run of the
    prefix `mk` + lookups), fill one bucket after the other past 8 cells and delete again, so that overflow buckets
    pile up (noverflow >= 2^B) while the load stays low; iterators run across the growth that follows."""
    b = rng.choice([3, 3, 4])
    uni = [k for k in universe(rng, kind, 2600) if not k.unh and k.refl]
    seen_cls, uniq = set(), []
    for k in uni:
        if k.cls not in seen_cls:
            seen_cls.add(k.cls)
            uniq.append(k)
    hist = {"kind": kind, "profile": "adversarial", "hashkey": [rng.getrandbits(62) for _ in range(4)],
            "rand": [rng.getrandbits(32) for _ in range(8)], "ops": [("mk", None, {3: 30, 4: 60}[b], None)]}
    hist["ops"] += [("get", k, None, None) for k in uniq]
    rl, pre = real_lines_of(hist)
    ra, _, _, _, _ = run_real(binary, rl)
    buckets = {}
    for i, k in enumerate(uniq):
        if pre + 1 + i < len(ra):
            hh = parse_real(ra[pre + 1 + i])[1]
            try:
                buckets.setdefault(int(hh, 16) % (1 << b), []).append(k)
            except ValueError:
                pass
    ops = hist["ops"]
    val = [0]
    live = []
    slots = set()

    def it_step():
        s = rng.choice("ab")
        if s not in slots or rng.random() < 0.1:
            slots.add(s)
            ops.append(("itn", None, None, s))
        else:
            ops.extend([("itx", None, None, s)] * rng.choice([1, 2, 4]))

    def setk(k):
        val[0] += 1
        ops.append(("set", k, val[0], None))

    while len(ops) < nops:
        progressed = False
        order = list(range(1 << b))
        rng.shuffle(order)
        for i in order:
            ks = buckets.get(i, [])
            if len(ks) < 9:
                continue
            take, buckets[i] = ks[:9], ks[9:]
            progressed = True
            for k in take:
                setk(k)
                if rng.random() < 0.15:
                    it_step()
            rng.shuffle(take)
            for k in take[:8]:
                ops.append(("del", k, None, None))
                if rng.random() < 0.1:
                    it_step()
            live.append(take[8])
        # noverflow has reached 2^B: the next insertion of a new key starts a same-size grow; walk through it
        for _ in range(6 << b):
            r = rng.random()
            pool = [k for ks in buckets.values() for k in ks[:2]]
            if r < 0.35 and pool:
                k = rng.choice(pool)
                for ks in buckets.values():
                    if k in ks:
                        ks.remove(k)
                setk(k)
                live.append(k)
            elif r < 0.55 and live:
                ops.append(("del", live.pop(rng.randrange(len(live))), None, None))
            elif r < 0.7 and live:
                ops.append(("get", rng.choice(live), None, None))
            elif r < 0.75:
                ops.append(("len", None, None, None))
            else:
                it_step()
        if not progressed:
            break
    ops.append(("itn", None, None, "z"))
    ops.extend([("itx", None, None, "z")] * (len(live) + 20))
    ops.append(("len", None, None, None))
    hist["_uniq"] = uniq
    return hist


def gen_clear_in_grow(rng, kind, binary, refill=400):
    """Directed history: fill and churn until the REAL map (watched through the harness' header accessor) is in the
    middle of a same-size grow (`oldbuckets != nil && sameSizeGrow`), `clear` it right there, refill it far past the
    load factor with fresh keys (several doubling grows), then read everything back, `len`, and a full range."""
    h = gen_adversarial(rng, kind, binary, 3000 + 900)
    rl, pre = real_lines_of(h)
    ra = run_real(binary, rl)[0]
    cands = []
    for i, op in enumerate(h["ops"]):
        if pre + i >= len(ra):
            break
        st = parse_real(ra[pre + i])[2].split(",")
        if op[0] in ("set", "del") and int(st[5]) == 1 and int(st[1]) & 8 and int(st[0]) > 0:
            cands.append(i)
    if not cands:
        return None
    cut = rng.choice(cands[:40])
    # the probe lookups of the prefix ran on the still empty map (no state, no fastrand): leave them out of the history
    npre = 1 + len(h["_uniq"])
    ops = [h["ops"][0]] + h["ops"][npre:cut + 1]
    ops.append(("clr", None, None, None))
    ops.append(("len", None, None, None))
    uniq = h["_uniq"]
    fresh = rng.sample(uniq, min(refill, len(uniq)))
    val = max([o[2] for o in ops if o[0] == "set"] + [0])
    for j, k in enumerate(fresh):
        val += 1
        ops.append(("set", k, val, None))
        if j % 97 == 50:
            ops.append(("len", None, None, None))
    ops.append(("len", None, None, None))
    for k in fresh:
        ops.append(("get", k, None, None))
    ops.append(("itn", None, None, "z"))
    ops.extend([("itx", None, None, "z")] * (len(fresh) + 20))
    for k in fresh[::3]:
        ops.append(("del", k, None, None))
    ops.append(("len", None, None, None))
    for k in fresh[:60]:
        ops.append(("get", k, None, None))
    return {"kind": kind, "profile": "clear-in-same-size-grow", "hashkey": h["hashkey"], "rand": h["rand"], "ops": ops}


def real_lines_of(hist):
    out = ["kind " + hist["kind"], "hashkey " + " ".join(str(x) for x in hist["hashkey"])]
    if hist["rand"]:
        out.append("rand " + " ".join(str(x) for x in hist["rand"]))
    pre = len(out)
    for (name, k, v, s) in hist["ops"]:
        nan = "1" if (k is not None and not k.refl) else "0"
        if name == "set":
            out.append("set %s %d %s" % (k.tok, v, nan))
        elif name in ("get", "get1", "del"):
            out.append("%s %s %s" % (name, k.tok, nan))
        elif name == "mk":
            out.append("mk %d" % v)
        elif name in ("itn", "itx"):
            out.append("%s %s" % (name, s))
        else:
            out.append(name)
    return out, pre


def run_real(binary, lines, timeout=30):
    """stdout and stderr interleaved (the runtime's throw() prints on stderr and CONTINUES);
    a corrupted map may also loop forever: the process is killed after `timeout` s and what it printed is kept.
    returns (answer lines, list of #fatal-lines seen before each answer, return code, tail, pending fatals)"""
    p = subprocess.Popen([binary], stdin=subprocess.PIPE, stdout=subprocess.PIPE, stderr=subprocess.STDOUT)
    data = ("\n".join(lines) + "\n").encode()
    try:
        out, _ = p.communicate(data, timeout=timeout)
        rc = p.returncode
    except subprocess.TimeoutExpired:
        p.kill()
        out, _ = p.communicate()
        rc = -9
    text = out.decode("utf-8", "replace")
    answers, fatals, pend, extra = [], [], 0, []
    for ln in text.split("\n"):
        if " | h=" in ln:
            answers.append(ln)
            fatals.append(pend)
            pend = 0
        elif ln.startswith("fatal error:"):
            pend += 1
        elif ln:
            extra.append(ln)
    if rc == -9:
        extra.append("killed after %d s (hang)" % timeout)
    return answers, fatals, rc, extra[-5:], pend


def parse_real(ln):
    ans, rest = ln.split(" | ", 1)
    f = dict(x.split("=", 1) for x in rest.split(" "))
    return ans, f["h"], f["st"], f["fr"]


def model_lines_of(hist, real_ans, pre):
    kind = hist["kind"]
    out = ["kind %d %d %d" % KINDS[kind], "hashkey %d" % hist["hashkey"][0]]
    if hist["rand"]:
        out.append("rand " + " ".join(str(x) for x in hist["rand"]))
    mpre = len(out)
    for i, (name, k, v, s) in enumerate(hist["ops"]):
        if k is not None:
            h = "0"
            unh = 1 if k.unh else 0
            if pre + i < len(real_ans):
                hh = parse_real(real_ans[pre + i])[1]
                if hh.startswith("panic"):
                    unh = 1
                elif hh not in ("nan", "-"):
                    h = hh
            ks = "%d,%d,%d,%d,%s,%s" % (k.cls, k.repr, 1 if k.refl else 0, unh, k.nank, h)
        if name == "set":
            out.append("set %s %d" % (ks, v))
        elif name in ("get", "get1", "del"):
            out.append("%s %s" % (name, ks))
        elif name == "mk":
            out.append("mk %d" % v)
        elif name in ("itn", "itx"):
            out.append("%s %s" % (name, s))
        else:
            out.append(name)
    return out, mpre


# ------------------------------------------------------------------------------------------------ the specification
def judge(hist, real_ans, pre):
    """Finite-map specification evaluated on the REAL outputs.  Independent of the Lean model: a plain association
    table (class -> value) plus the iteration rules of the Go spec.  Returns [(op index, message)]."""
    bytok = {}
    for (name, k, v, s) in hist["ops"]:
        if k is not None:
            bytok[k.tok] = k
    live = {}        # cls -> [value, incarnation]
    nans = {}        # value -> incarnation  (each NaN insertion is its own entry; values are unique per history)
    isnil = True
    inc = 0
    its = {}         # slot -> {"must": set(inc), "seen": set(inc), "done": bool}
    cleared_nans = set()   # values of NaN entries removed by clear()
    raw = []

    class _Bad(list):
        def append(self, t, tag="general"):
            list.append(self, (t[0], t[1], tag))
    bad = _Bad()

    def removed(incs):
        for it in its.values():
            it["must"] -= incs

    for i, (name, k, v, s) in enumerate(hist["ops"]):
        if pre + i >= len(real_ans):
            bad.append((i, "no answer (process ended): " + name))
            break
        ans = parse_real(real_ans[pre + i])[0]
        exp = None
        if name == "mk":
            live, nans, isnil, its = {}, {}, False, {}
            exp = "ok"
        elif name == "nil":
            live, nans, isnil, its = {}, {}, True, {}
            exp = "ok"
        elif name == "set":
            if isnil:
                exp = "panic:nilmap"
            elif k.unh:
                exp = "panic:unhashable"
            else:
                exp = "ok"
                inc += 1
                if not k.refl:
                    nans[v] = inc
                elif k.cls in live:
                    live[k.cls][0] = v
                else:
                    live[k.cls] = [v, inc]
        elif name in ("get", "get1"):
            if k.unh:
                exp = "panic:unhashable"
            else:
                e = live.get(k.cls) if k.refl else None
                val = e[0] if e else 0
                exp = "v=%d" % val + ((" ok=%d" % (1 if e else 0)) if name == "get" else "")
        elif name == "del":
            if k.unh:
                exp = "panic:unhashable"
            else:
                exp = "ok"
                if k.refl and k.cls in live:
                    removed({live.pop(k.cls)[1]})
        elif name == "clr":
            exp = "ok"
            removed(set(e[1] for e in live.values()) | set(nans.values()))
            cleared_nans |= set(nans.keys())
            live, nans = {}, {}
        elif name == "len":
            exp = "n=%d" % (len(live) + len(nans))
        elif name in ("itn", "itx"):
            if name == "itn":   # NewMapIter + first MapIterNext
                its[s] = {"must": set(e[1] for e in live.values()) | set(nans.values()), "seen": set(), "done": False}
            it = its.get(s)
            if it is None:
                if ans != "bad-op":
                    bad.append((i, "itx on unknown slot answered " + ans))
                continue
            if ans == "end":
                if not it["done"]:
                    it["done"] = True
                    missing = it["must"] - it["seen"]
                    if missing:
                        bad.append((i, "range ended without yielding %d entr%s present for the whole loop" % (len(missing), "y" if len(missing) == 1 else "ies")))
                continue
            if not ans.startswith("k="):
                bad.append((i, "itx answered " + ans))
                continue
            if it["done"]:
                continue     # a range loop never calls Next again after the first !ok (z_map.go ends a loop when count == 0)
            kt, vt = ans.split(" ")
            kk = bytok.get(kt[2:])
            try:
                vv = int(vt[2:])
            except ValueError:
                vv = None
            if kk is None or vv is None:
                bad.append((i, "range yields a key/value never stored: " + ans))
                continue
            if not kk.refl:
                e_inc = nans.get(vv)
            else:
                e = live.get(kk.cls)
                e_inc = e[1] if e and e[0] == vv else None
            if e_inc is None:
                bad.append((i, "range yields a deleted/overwritten entry: " + ans),
                           "nan-stale" if (not kk.refl and vv in cleared_nans) else "general")
            elif e_inc in it["seen"]:
                bad.append((i, "range yields an entry twice: " + ans))
            else:
                it["seen"].add(e_inc)
            continue
        if exp is not None and ans != exp:
            bad.append((i, "%s %s: got %r, specification says %r" % (name, k.tok if k else "", ans, exp)))
    return bad


def hist_json(hist, upto=None):
    ops = hist["ops"] if upto is None else hist["ops"][:upto + 1]
    return {"kind": hist["kind"], "hashkey": hist["hashkey"], "rand": hist["rand"],
            "ops": [[n, k.tok if k else None, v, s] for (n, k, v, s) in ops]}


def load_hist(obj):
    """history from a corpus / replay JSON (keys classified by the rules of their token)"""
    cls, ops, reps = {}, [], {}
    for (n, tok, v, s) in obj["ops"]:
        k = None
        if tok is not None:
            canon, refl, unh, spec = classify(obj["kind"], tok)
            c = cls.setdefault(canon if refl else ("nan", tok), len(cls))
            k = Key(tok, c, reps.setdefault(tok, len(reps)), refl, unh, spec)
        ops.append((n, k, v, s))
    return {"kind": obj["kind"], "profile": "corpus", "ops": ops, "hashkey": obj["hashkey"], "rand": obj["rand"]}


# ------------------------------------------------------------------------------------------------ one history through both
def run_history(binary, modeld, hist):
    rl, pre = real_lines_of(hist)
    real_ans, fatals, rc, extra, pend = run_real(binary, rl)
    ml, mpre = model_lines_of(hist, real_ans, pre)
    model_ans, mrc, merr = run_lines([modeld], ml)
    res = {"n": len(hist["ops"]), "rc": rc, "extra": extra, "fatal_lines": sum(fatals) + pend, "crashed": len(real_ans) < len(rl)}
    res["spec"] = judge(hist, real_ans, pre)
    # correspondence, line by line
    mism = None
    by_tok = {}
    for (n, k, v, s) in hist["ops"]:
        if k is not None:
            by_tok[k.tok] = k
    maxB = same = nov = 0
    th_prev = 0
    for i in range(len(hist["ops"])):
        if pre + i >= len(real_ans) or mpre + i >= len(model_ans):
            mism = mism or (i, "missing answer", "real %d/%d model %d/%d" % (len(real_ans), len(rl), len(model_ans), len(ml)))
            break
        ans, h, st, fr = parse_real(real_ans[pre + i])
        m = model_ans[mpre + i]
        if " | " not in m:
            mism = mism or (i, real_ans[pre + i], m)
            break
        mans, mrest = m.split(" | ", 1)
        mf = dict(x.split("=", 1) for x in mrest.split(" "))
        if ans.startswith("k="):
            kt, vt = ans.split(" ")
            kk = by_tok.get(kt[2:])
            ans = "k=%s %s" % (kk.repr if kk else kt, vt)
        th = int(mf["th"])
        if mism is None and (ans != mans or st != mf["st"] or fr != mf["fr"] or fatals[pre + i] != th - th_prev):
            mism = (i, real_ans[pre + i] + (" fatal=%d" % fatals[pre + i]), m)
        th_prev = th
        sf = mf["st"].split(",")
        maxB = max(maxB, int(sf[2]))
        nov = max(nov, int(sf[3]))
        if int(sf[1]) & 8:
            same += 1
    res["mismatch"] = mism
    res["maxB"], res["sameSizeSteps"], res["maxNoverflow"] = maxB, same, nov
    res["first_clr"] = first_effective_clear(hist, real_ans, pre)
    res["real_sample"] = real_ans[pre + len(hist["ops"]) // 2] if len(real_ans) > pre + len(hist["ops"]) // 2 else None
    res["model_sample"] = model_ans[mpre + len(hist["ops"]) // 2] if len(model_ans) > mpre + len(hist["ops"]) // 2 else None
    return res


def first_effective_clear(hist, real_ans, pre):
    """index of the first clear() that the real code executed on a non-empty map (None if there is none)"""
    for i, o in enumerate(hist["ops"]):
        if o[0] == "clr" and i > 0 and pre + i - 1 < len(real_ans):
            try:
                if int(parse_real(real_ans[pre + i - 1])[2].split(",")[0]) > 0:
                    return i
            except ValueError:
                pass
    return None


# ------------------------------------------------------------------------------------------------ descriptor side
from vlib.c06_e2e import FIXED_TYPES


def gen_types(rng, n):
    """random comparable struct/array shapes (padding inside / at the tail, blank and zero-size fields, floats, complex,
    strings, interfaces, pointers, nested structs and arrays of structs)"""
    scal = ["int8", "uint8", "bool", "int16", "uint16", "int32", "uint32", "int64", "uint64", "int", "uintptr", "*int",
            "chan int", "float32", "float64", "complex64", "complex128", "string", "any", "interface{ M() }",
            "[2]int8", "[3]int16", "[0]int64", "[2]float32", "[1]string", "[4]uint8", "struct{}"]
    w = [6, 5, 3, 5, 2, 6, 3, 8, 3, 4, 2, 4, 1, 2, 2, 1, 1, 2, 1, 1, 3, 2, 2, 1, 1, 2, 1]
    decls = list(FIXED_TYPES)
    for i in range(n):
        name = "T%d" % i
        r = rng.random()
        prev = [d[0] for d in decls]
        if r < 0.08 and prev:
            decls.append((name, "[%d]%s" % (rng.choice([0, 1, 2, 3]), rng.choice(prev))))
            continue
        fields = []
        for j in range(rng.choice([1, 2, 2, 3, 3, 4, 5])):
            t = rng.choice(prev) if (prev and rng.random() < 0.12) else rng.choices(scal, w)[0]
            fields.append("%s %s" % ("_" if rng.random() < 0.06 else "F%d" % j, t))
        decls.append((name, "struct{ " + "; ".join(fields) + " }"))
    src = "package main\n\n" + "".join("type %s %s\n" % d for d in decls)
    src += "\nvar regNames = []string{%s}\n" % ", ".join('"%s"' % d[0] for d in decls)
    src += "var regTypes = []any{%s}\n" % ", ".join("%s{}" % d[0] for d in decls)
    return src, decls


def run_regmem(ctx, rng, n):
    """-> {type name: (gc, llgo, tflag)}; reports a type that llgo flags as regular memory although gc does not"""
    d = os.path.join(ctx.scratch, "regmem")
    shutil.rmtree(d, ignore_errors=True)
    os.makedirs(d)
    src, decls = gen_types(rng, n)
    open(os.path.join(d, "types_gen.go"), "w").write(src)
    shutil.copy(os.path.join(VERIF, "harness", "c06", "regmem_main.go.txt"), os.path.join(d, "main.go"))
    open(os.path.join(d, "go.mod"), "w").write(
        "module github.com/goplus/llgo/internal/vp06\n\ngo 1.24\n\nrequire github.com/goplus/llgo v0.0.0\n\n"
        "replace github.com/goplus/llgo => %s\n\nreplace github.com/goplus/llgo/runtime => %s/runtime\n" % (REPO, REPO))
    if os.path.exists(os.path.join(REPO, "go.sum")):
        shutil.copy(os.path.join(REPO, "go.sum"), os.path.join(d, "go.sum"))
    import vlib.common as vc
    p = vc.run(["go", "build", "-o", "regmem.bin", "."], cwd=d, env=go_env())
    if p.returncode != 0:
        raise HarnessBuildError("regular-memory harness does not build against ssa/abi of the working tree:\n" + (p.stdout + p.stderr)[-3000:])
    p = vc.run([os.path.join(d, "regmem.bin"), os.path.join(d, "types_gen.go")], cwd=d)
    if p.returncode != 0:
        raise HarnessBuildError("regular-memory harness failed:\n" + (p.stdout + p.stderr)[-3000:])
    decl = dict(decls)
    res, unsafe_flag, slower = {}, [], 0
    for ln in p.stdout.split("\n"):
        f = ln.split()
        if len(f) == 4:
            gc, ll, tf = (int(x.split("=")[1]) for x in f[1:])
            res[f[0]] = (gc, ll, tf)
            if (ll or tf) and not gc:
                unsafe_flag.append(f[0])
            elif gc and not ll:
                slower += 1
    for name in unsafe_flag[:3]:
        # expand nested names for the replay
        ctx.log("descriptor: llgo flags %s = %s as regular memory, the reference compiler does not" % (name, decl[name]))
        ctx.report("regmem:" + decl[name], "ssa/abi IsRegularMemory says regular memory for a type whose == / hash must not "
                   "look at all its bytes (padding, floats, strings, interfaces or blank fields inside): " + decl[name],
                   {"type": name, "decl": decl[name], "all_decls": {k: v for k, v in decls if k in decl[name] or k == name},
                    "gc_regular": 0, "llgo_regular": 1})
    return res, {"types": len(res), "llgo_regular_but_not_gc": len(unsafe_flag), "gc_regular_but_not_llgo (harmless)": slower,
                 "regular_by_both": sum(1 for v in res.values() if v[0] and v[1])}


def build_native(ctx):
    H = os.path.join(VERIF, "harness", "c06")
    extra = {"zz_support.go": native.RT_SUPPORT, "zz_c06.go": open(os.path.join(H, "rt_extra.go.txt")).read()}
    return native.make_native(ctx, RT_FILES, extra, {"main.go": open(os.path.join(H, "main.go.txt")).read()}, name="native-c06")


def run_e2e(ctx, rng, defect_clear, nops, small=False, gcflags=None):
    """End-to-end route: llgo-compiled interpreters using real map syntax, judged against the specification.
    Two batched programs per optimisation level: A = six key kinds without clear(); B = the same kinds with clear()
    and, last, the kind whose key and elem are larger than 128 bytes (stored indirectly)."""
    from vlib import e2e, c06_e2e
    e2e.build_llgo(ctx)
    kinds6 = ["int", "str", "f64", "any", "arr", "stc"]
    stats = {"programs": 0, "trace_lines": 0, "violating_kinds": 0}
    seen = set()
    # quick tier: ONE small program (all seven kinds, five short histories each, with clear + refill)
    bnd = c06_e2e.BOUNDARY          # key / elem sizes 127, 128, 129 bytes (inline vs indirect slots)
    pdd = c06_e2e.PADDED            # padded-struct keys with dirtied padding, complex64/128 keys, struct with a complex field
    programs = ((("Q", kinds6 + pdd + ["big"] + bnd, True),) if small else
                (("A", kinds6 + pdd, False), ("B", kinds6 + pdd + bnd + ["big"], True)))
    for (pname, kinds, with_clear) in programs:
        src, meta = c06_e2e.gen_program(rng, kinds, nops, with_clear, histories=5 if small else 1)
        d = os.path.join(ctx.scratch, "e2e-" + pname)
        e2e.write_module(d, {"main.go": src})
        for opt in ("-O0", "-O2"):
            exe = os.path.join(d, "prog" + opt)
            p = e2e.llgo_build(ctx, d, exe, opt=opt)
            if p.returncode != 0:
                ctx.log("e2e program %s %s does not compile:\n%s" % (pname, opt, (p.stdout + p.stderr)[-1500:]))
                ctx.report_broken("e2e C06 program %s %s: llgo build failed" % (pname, opt), (p.stdout + p.stderr)[-3000:])
                continue
            # the trace is on stderr; keep what was printed even if the program hangs
            pr = subprocess.Popen([exe], stdout=subprocess.DEVNULL, stderr=subprocess.PIPE)
            try:
                _, errb = pr.communicate(timeout=900)
                rc = pr.returncode
            except subprocess.TimeoutExpired:
                pr.kill()
                _, errb = pr.communicate()
                rc = "timeout"
            err = errb.decode("utf-8", "replace")
            stats["programs"] += 1
            lines = [l.split() for l in err.split("\n") if l.startswith("@ ")]
            stats["trace_lines"] += len(lines)
            # read-back of the TFlagRegularMemory bit the compiler emitted, against the reference compiler's descriptors
            for l in lines:
                if len(l) == 4 and l[1] == "tflag" and gcflags and l[2] in gcflags:
                    stats["tflag_readbacks"] = stats.get("tflag_readbacks", 0) + 1
                    if l[3] == "1" and not gcflags[l[2]][0]:
                        decl = dict(c06_e2e.FIXED_TYPES)[l[2]]
                        key = "regmem-emitted:" + decl
                        if key not in seen and sum(1 for x in seen if x.startswith("regmem-emitted:")) < 2:
                            seen.add(key)
                            ctx.log("e2e %s %s: the emitted descriptor of %s = %s carries TFlagRegularMemory, the reference compiler's does not" % (pname, opt, l[2], decl))
                            ctx.report(key, "llgo emits TFlagRegularMemory for a type that is not regular memory: " + decl,
                                       {"type": l[2], "decl": decl, "opt": opt, "emitted": 1, "gc": 0,
                                        "program": "any program containing `var x any = %s{}`; the flag is bit 3 of the byte at offset 20 of the type descriptor" % l[2]})
            for kind in kinds:
                kl = [l[2:] for l in lines if len(l) > 2 and l[1] == kind]
                bad = c06_e2e.judge_trace(kind, meta[kind], kl)
                if not bad:
                    continue
                stats["violating_kinds"] += 1
                msg, tag, cleared = bad[0]
                if kind == "big" and ctx.match_known(KNOWN_BIG) is not None:
                    key = KNOWN_BIG
                elif tag == "nan-stale":
                    key = KNOWN_NAN
                elif defect_clear and (cleared or (with_clear and "did not finish" in msg)):
                    key = KNOWN_CLEAR
                else:
                    key = "c06:e2e:%s%s:%s:%s" % (pname, opt, kind, msg[:50])
                if key in seen:
                    continue
                seen.add(key)
                ctx.log("e2e %s %s kind %s: specification violated (%d findings), first: %s; exit code %s" % (pname, opt, kind, len(bad), msg, rc))
                ctx.report(key, "llgo-compiled program violates the finite-map specification: " + msg,
                           {"program": "vlib/c06_e2e.gen_program(seed-derived rng, %r, %d, %r)" % (kinds, nops, with_clear),
                            "opt": opt, "kind": kind, "violations": [b[0] for b in bad[:8]], "exit": rc,
                            "main.go": src if len(src) < 200000 else src[:200000]})
    return stats


def minimise(binary, hist, tag="general", limit=80):
    """shrink a spec-violating history: shortest prefix, then drop chunks of ops (delta debugging, bounded)"""
    def fails(h):
        rl, pre = real_lines_of(h)
        ra, _, _, _, _ = run_real(binary, rl, timeout=4)
        return any(b[2] == tag for b in judge(h, ra, pre))
    rl, pre = real_lines_of(hist)
    ra, _, _, _, _ = run_real(binary, rl)
    bad = [b for b in judge(hist, ra, pre) if b[2] == tag]
    if not bad:
        return hist
    cur = dict(hist, ops=hist["ops"][:bad[0][0] + 1])
    chunk = max(1, len(cur["ops"]) // 4)
    runs = 0
    while chunk >= 1 and runs < limit:
        i, changed = 0, False
        while i < len(cur["ops"]) - 1 and runs < limit:
            cand_ops = cur["ops"][:i] + cur["ops"][i + chunk:]
            # an `itx` must keep its `itn`; keep mk
            if any(o[0] == "mk" for o in cur["ops"][i:i + chunk]):
                i += chunk
                continue
            cand = dict(cur, ops=cand_ops)
            runs += 1
            if fails(cand):
                cur, changed = cand, True
            else:
                i += chunk
        if not changed:
            chunk //= 2
    return cur


def run(ctx, args):
    rng = ctx.rng
    quick = ctx.tier == "quick"
    st = lean_check(ctx, ["LlgoVerif.Props.C06"], ["LlgoVerif/Props/C06.lean"],
                    extra_files=["LlgoVerif/Model/HMap.lean", "LlgoVerif/Spec/AssocList.lean", "LlgoVerif/Lemmas/HMap.lean", "Driver/C06.lean"],
                    leanchecker=not quick)
    modeld = build_driver(ctx, "modeld_c06")
    binary = build_native(ctx)
    ctx.log("native copy of the map runtime built from", REPO, "- memhash operand order:", detect_read_order(binary))

    hists = []
    # corpus first (minimised past failures / boundary cases)
    cdir = os.path.join(VERIF, "corpus", "C06")
    for fn in sorted(os.listdir(cdir)) if os.path.isdir(cdir) else []:
        if fn.endswith(".json"):
            h = load_hist(json.load(open(os.path.join(cdir, fn))))
            h["name"] = "corpus/" + fn
            hists.append(h)
    replay_hist = None
    if getattr(args, "replay", None):
        obj = json.load(open(args.replay))
        robj = obj.get("replay", obj)
        if "history" in robj or "ops" in robj:
            replay_hist = load_hist(robj["history"] if "history" in robj else robj)
        else:
            ctx.log("replay file has no operation history (an e2e replay carries its main.go; rerun with C06_E2E=1); running the normal check")
    if replay_hist is not None:
        replay_hist["name"] = "replay"
        hists = [h for h in hists if h["name"].startswith("corpus/clear-then-refill")] + [replay_hist]
    else:
        per_kind = 4 if quick else 60
        nops = 5000 if quick else 20000
        for kind in KINDS:
            for j in range(per_kind):
                with_clear = (j % 2 == 1)
                h = gen_history(rng, kind, nops if j else nops // 2, with_clear,
                                profile=["grow", "same-size", "sawtooth", "churn"][j] if j < 4 else None)
                h["name"] = "%s/%d/%s" % (kind, j, h["profile"])
                hists.append(h)
            for j in range(1 if quick else 10):
                h = gen_adversarial(rng, kind, binary, 2500 if quick else 8000)
                h["name"] = "%s/adv%d" % (kind, j)
                hists.append(h)
            for j in range((1 if kind in ("int", "str", "any") else 0) if quick else 4):
                h = gen_clear_in_grow(rng, kind, binary)
                if h is not None:
                    h["name"] = "%s/clear-in-grow%d" % (kind, j)
                    hists.append(h)

    total = 0
    unknown_reports = 0
    seen_keys = set()
    nontrivial = set()
    dist = {}
    spec_fail = 0
    defect_clear = False
    mismatches = []
    suspended = 0
    samples = []
    cov = {"maxB": 0, "sameSizeSteps": 0, "maxNoverflow": 0, "fatal_lines": 0}
    from concurrent.futures import ThreadPoolExecutor
    with ThreadPoolExecutor(max_workers=4) as pool:      # the work is in the two subprocesses
        results = list(pool.map(lambda hh: run_history(binary, modeld, hh), hists))
    for h, r in zip(hists, results):
        total += r["n"]
        dist[h["kind"] + ":" + h["profile"]] = dist.get(h["kind"] + ":" + h["profile"], 0) + r["n"]
        for (n, k, v, s) in h["ops"]:
            nontrivial.add((h["kind"], n, k.tok if k else s))
        for key in ("maxB", "maxNoverflow"):
            cov[key] = max(cov[key], r[key])
        cov["sameSizeSteps"] += r["sameSizeSteps"]
        cov["fatal_lines"] += r["fatal_lines"]
        if len(samples) < 3 and r["real_sample"]:
            samples.append({"history": h["name"], "real": r["real_sample"], "model": r["model_sample"]})
        fc = r["first_clr"]
        h["_first_clr"] = fc
        if r["spec"]:
            spec_fail += 1
        for tag in ("general", "nan-stale"):
            vs = [b for b in r["spec"] if b[2] == tag]
            if not vs:
                continue
            i, msg, _ = vs[0]
            if tag == "nan-stale":
                key = KNOWN_NAN
            elif fc is not None and fc < i and (defect_clear or h["name"].startswith("corpus/clear-then-refill")):
                # the clear defect is present in this tree (its corpus replay fails): violations after an effective
                # clear() belong to that class.  Once the replay passes, nothing is attributed to it any more.
                defect_clear = True
                key = KNOWN_CLEAR
            else:
                key = "c06:%s:%s" % (h["name"], msg[:60])
            if key in seen_keys and ctx.match_known(key) is not None:
                continue
            seen_keys.add(key)
            known = ctx.match_known(key) is not None
            if not known:
                unknown_reports += 1
                if unknown_reports > 3:
                    continue                              # three replays are enough to act on
            if known or len(h["ops"]) <= 60 or unknown_reports > 1:
                hm = dict(h, ops=h["ops"][:i + 1])      # known class: its minimised replay is in corpus/C06
            else:
                hm = minimise(binary, h, tag)
            ctx.log("specification violated by the real code in %s at op %d: %s (+%d more of this class); minimised to %d ops" % (h["name"], i, msg, len(vs) - 1, len(hm["ops"])))
            ctx.report(key, "map runtime violates the finite-map specification: " + msg,
                       {"history": hist_json(hm), "violations": vs[:5], "fatal_error_lines": r["fatal_lines"], "source": h["name"]})
        if r["mismatch"]:
            i = r["mismatch"][0]
            if fc is not None and fc < i and defect_clear:
                suspended += 1      # divergence after clear() while the clear defect is present: explained by the finding
            else:
                mismatches.append((h["name"], r["mismatch"], h))
    # a mismatch after clear seen BEFORE the defect was established is re-classified now
    still = []
    for (name, mm, h) in mismatches:
        fc = h.get("_first_clr")
        if defect_clear and fc is not None and fc < mm[0]:
            suspended += 1
        else:
            still.append((name, mm, h))
    mismatches = still
    if mismatches:
        name, mm, h = mismatches[0]
        ctx.log("correspondence mismatches in %d histories; first: %s op %d\n   real : %s\n   model: %s" % (len(mismatches), name, mm[0], mm[1], mm[2]))
        ctx.broken.append("correspondence real map.go vs Lean HMap model (%d histories differ), e.g. %s op %d" % (len(mismatches), name, mm[0]))
        if not ctx.violations:
            ctx.report_broken("correspondence C06 real-vs-model", {"history": hist_json(h, mm[0]), "op": mm[0], "real": mm[1], "model": mm[2], "source": name})
    # descriptor side: ssa/abi IsRegularMemory/TFlag vs the reference compiler's own descriptors
    regflags, reg_stats = run_regmem(ctx, rng, 300 if quick else 3000)
    ctx.log("regular-memory descriptors:", reg_stats)
    e2e_stats = None
    if os.environ.get("C06_E2E", "1") != "0":
        big = (not quick) or os.environ.get("C06_E2E") == "full"
        e2e_stats = run_e2e(ctx, rng, defect_clear, 1200 if not quick else (400 if big else 300), small=not big, gcflags=regflags)
        ctx.log("e2e:", e2e_stats)
    for name, s in st.items():
        if s != "ok":
            ctx.log("theorem", name, s)
    if any(s != "ok" for s in st.values()) and not ctx.violations:
        ctx.report_broken("Props/C06: " + ", ".join(n for n, s in st.items() if s != "ok"), st)

    ctx.coverage["samples"] = samples
    ctx.coverage["trusted_base"] += [
        "hand-written Lean model of map.go tied by differential run (%d operations, %d histories; real map.go/alg.go/hash64.go/z_map.go/stubs.go copied from the working tree and compiled natively)" % (total, len(hists)),
        "hand-built abi.MapType descriptors and key boxing in harness/c06/rt_extra.go.txt (what ssa/abitype.go emits is NOT exercised by this route)",
        "Python generator and the specification judge in checks/c06.py (association table + iteration rules)",
    ]
    ctx.assumptions += [
        "single goroutine: hashWriting is not modelled",
        "pointer identity of overflow buckets (makeBucketArray's preallocated pool) is outside the list model; it is exercised only by the correspondence run",
        "while the mapclear/memclr defect is present, model-vs-code comparison is suspended after the first clear() of a history (the specification is still judged there)" if defect_clear else
        "clear() histories compared in full (no clear defect observed in this run)",
    ]
    return ctx.finish("proof", {
        "evaluations": total, "distinct_nontrivial": len(nontrivial),
        "rule": "one evaluation = one map operation executed by the real code AND the model and compared; distinct = (kind, op, key token/slot)",
        "input_distribution": dist, "histories": len(hists), "spec_failures_on_real_code": spec_fail,
        "correspondence_mismatches": len(mismatches), "comparison_suspended_after_clear": suspended,
        "e2e": e2e_stats if e2e_stats else "switched off (C06_E2E=0)", "regular_memory_descriptors": reg_stats,
        "model_coverage": cov})
