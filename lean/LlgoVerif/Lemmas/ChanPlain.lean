import LlgoVerif.Lemmas.ChanLive
/-! C10, programs WITHOUT select (`noSelect progs`): every thread is at `start`, `done` or at one of the nine
    scheduling points of `ChanSend` / `ChanRecv` / `ChanClose`; no `selectOp` is ever registered, so `notifyOps` is
    empty, no mutex is held across a scheduling point, and a step that changes a channel broadcasts in the same
    step.  On top of that: the arming invariants of the unbuffered hand-off (fixed variant) and the link between
    the channel history (`sentBy`, `recvBy`) and the thread results. -/
namespace LlgoVerif.Chan

/-- the operation is not a select -/
def Op.plain : Op → Bool
  | .select .. => false
  | _ => true

/-- decidable hypothesis of the theorems of this file: no thread's program contains a select -/
def noSelect (progs : List (List Op)) : Bool := progs.all fun ops => ops.all Op.plain

/-- scheduling points of the plain operations (receive variable 0, second phase of `ChanRecv` not `chanTryRecv`) -/
def Point.plain : Point → Bool
  | .sendLock .. | .sendWaitU .. | .sendWaitB .. | .closeLock .. => true
  | .recvLock _ sl | .recvWaitU _ sl | .recvWaitB _ sl => sl == 0
  | .recv2Lock _ b _ | .recv2Wait _ b _ => !b
  | _ => false

def PC.plain : PC → Bool
  | .start | .done => true
  | .at p => p.plain
  | _ => false

/-- thread-local part of "no select anywhere" -/
structure PlainTh (th : Thread) : Prop where
  sel : th.sel = none
  ops : th.ops.all Op.plain = true
  pc : th.pc.plain = true

/-- entry pcs: what `startOps` produces for plain programs -/
def PC.entry : PC → Bool
  | .done => true
  | .at (.sendLock ..) | .at (.closeLock ..) => true
  | .at (.recvLock _ sl) => sl == 0
  | _ => false

theorem entry_plain {pc : PC} (h : pc.entry = true) : pc.plain = true := by
  cases pc with
  | «at» p => cases p <;> simp_all [PC.entry, PC.plain, Point.plain]
  | _ => simp_all [PC.entry, PC.plain]

/-- `startOps` on a plain program: no result is added, the thread sits at an entry pc, stays select-free -/
theorem startOps_plain (th : Thread) (ops : List Op) (h : ops.all Op.plain = true) :
    (startOps th ops).res = th.res ∧ (startOps th ops).pc.entry = true ∧ (startOps th ops).sel = none ∧
    (startOps th ops).ops.all Op.plain = true ∧ (startOps th ops).waiting = th.waiting ∧
    (∀ q, (startOps th ops).pc = .at q → (startOps th ops).rv = [0]) := by
  cases ops with
  | nil => simp [startOps, PC.entry]
  | cons op rest =>
    simp only [List.all_cons, Bool.and_eq_true] at h
    cases op with
    | send c v => simp [startOps, PC.entry, h.2]
    | recv c => simp [startOps, PC.entry, h.2]
    | close c => simp [startOps, PC.entry, h.2]
    | select cases b => simp [Op.plain] at h

theorem finishOp_plain (th : Thread) (r : Res) (h : th.ops.all Op.plain = true) :
    (finishOp th r).res = th.res ++ [r] ∧ (finishOp th r).pc.entry = true ∧ (finishOp th r).sel = none ∧
    (finishOp th r).ops.all Op.plain = true ∧ (finishOp th r).waiting = th.waiting ∧
    (∀ q, (finishOp th r).pc = .at q → (finishOp th r).rv = [0]) := by
  unfold finishOp
  exact startOps_plain _ _ h

/-- the result a plain thread records for a return value -/
def resOf (th : Thread) : Ret → Res
  | .sent c v => .sent c v
  | .closed => .closed
  | .recv c ok => .recv c (th.rv.getD 0 0) ok
  | _ => .panic

theorem onRet_plain (th : Thread) (r : Ret) (hs : th.sel = none) (h : th.ops.all Op.plain = true) :
    (onRet th r).res = th.res ++ [resOf th r] ∧ (onRet th r).pc.entry = true ∧ (onRet th r).sel = none ∧
    (onRet th r).ops.all Op.plain = true ∧ (onRet th r).waiting = th.waiting ∧
    (∀ q, (onRet th r).pc = .at q → (onRet th r).rv = [0]) := by
  unfold onRet
  rw [hs]
  cases r <;> exact finishOp_plain _ _ h

/-- an entry pc is never a second-phase point or a wait point -/
theorem entry_not_recv2 {pc : PC} (h : pc.entry = true) (c : Cid) (b : Bool) (seq : Nat) :
    pc ≠ .at (.recv2Lock c b seq) ∧ pc ≠ .at (.recv2Wait c b seq) := by
  constructor <;> (intro e; rw [e] at h; simp [PC.entry] at h)

theorem entry_notWaitPt {pc : PC} (h : pc.entry = true) : pc.isWaitPt = false := by
  cases pc with
  | «at» p => cases p <;> simp_all [PC.entry, PC.isWaitPt, Point.isWait]
  | _ => simp_all [PC.isWaitPt]

/-! ### reading threads after deliver / broadcast -/

/-- receive variables of thread `t'` after the `Memcpy` `d` -/
def rvAfter (d : Option (Target × Val)) (t' : Tid) (rv : List Val) : List Val :=
  match d with
  | some (tg, v) => if tg.tid = t' then rv.set tg.slot v else rv
  | none => rv

theorem applyDeliver_thread (s : State) (d : Option (Target × Val)) (t' : Tid) :
    (applyDeliver s d).thread t' = { s.thread t' with rv := rvAfter d t' (s.thread t').rv } := by
  cases d with
  | none => rfl
  | some x =>
    obtain ⟨tg, v⟩ := x
    simp only [applyDeliver, rvAfter]
    by_cases h : tg.tid = t'
    · subst h
      simp only [if_true]
      by_cases hl : tg.tid < s.threads.length
      · rw [thread_setThread_self _ _ _ hl]
      · have hle : s.threads.length ≤ tg.tid := Nat.le_of_not_lt hl
        have hno : s.setThread tg.tid { s.thread tg.tid with rv := (s.thread tg.tid).rv.set tg.slot v } = s := by
          simp only [State.setThread]
          rw [List.set_eq_of_length_le hle]
        have hd : s.thread tg.tid = dfltThread := by
          simp [State.thread, List.getD, List.getElem?_eq_none hle]
        rw [hno, hd]; rfl
    · simp only [h, if_false]
      rw [thread_setThread_ne _ _ _ _ h]

theorem broadcast_same (c : Cid) (ths : List Thread) (t : Tid) :
    ∃ w, (broadcast c ths).getD t dfltThread = { ths.getD t dfltThread with waiting := w } := by
  simp only [broadcast, List.getD, List.getElem?_map]
  cases ths[t]? with
  | none => exact ⟨false, rfl⟩
  | some th =>
    simp only [Option.map_some, Option.getD_some]
    split
    · split
      · exact ⟨false, rfl⟩
      · exact ⟨th.waiting, rfl⟩
    · exact ⟨th.waiting, rfl⟩

/-- all fields but `waiting` -/
structure SameBut (a b : Thread) : Prop where
  pc : a.pc = b.pc
  res : a.res = b.res
  rv : a.rv = b.rv
  sel : a.sel = b.sel
  ops : a.ops = b.ops

theorem SameBut.refl (a : Thread) : SameBut a a := ⟨rfl, rfl, rfl, rfl, rfl⟩
theorem SameBut.trans {a b c : Thread} (h1 : SameBut a b) (h2 : SameBut b c) : SameBut a c :=
  ⟨h1.pc.trans h2.pc, h1.res.trans h2.res, h1.rv.trans h2.rv, h1.sel.trans h2.sel, h1.ops.trans h2.ops⟩

/-- `Unlock; [Broadcast]`: the state in which `doAfter … (.finish bc n)` installs the acting thread's new record -/
def afterUnlock (s : State) (c : Cid) (bc : Bool) : State :=
  if bc then { (s.setOwner c none) with threads := broadcast c (s.setOwner c none).threads } else s.setOwner c none

theorem afterUnlock_thread (s : State) (c : Cid) (bc : Bool) (t' : Tid) :
    SameBut ((afterUnlock s c bc).thread t') (s.thread t') := by
  unfold afterUnlock
  split
  · obtain ⟨w, hw⟩ := broadcast_same c (s.setOwner c none).threads t'
    show SameBut ((broadcast c (s.setOwner c none).threads).getD t' dfltThread) _
    rw [hw]
    exact ⟨rfl, rfl, rfl, rfl, rfl⟩
  · exact SameBut.refl _

theorem afterUnlock_len (s : State) (c : Cid) (bc : Bool) : (afterUnlock s c bc).threads.length = s.threads.length := by
  unfold afterUnlock
  split
  · simp [broadcast_length]
  · rfl

theorem own_setOwner_none (s : State) (c c' : Cid) (h : s.own c' = none) : (s.setOwner c none).own c' = none := by
  by_cases hc : c = c'
  · subst hc
    by_cases hl : c < s.owner.length
    · exact own_setOwner_self _ _ _ hl
    · have hle : s.owner.length ≤ c := Nat.le_of_not_lt hl
      simp [State.own, State.setOwner, List.getD, List.getElem?_eq_none, hle]
  · rw [own_setOwner_ne _ _ _ _ hc]; exact h

/-! ### one step of a plain thread, with an empty `notifyOps` -/

/-- the acting thread after a return `r` (record `th` before, receive variables `rv1` after the deliver) -/
def RetAfter (th th' : Thread) (rv1 : List Val) (r : Ret) : Prop :=
  th'.res = th.res ++ [resOf { th with rv := rv1 } r] ∧ th'.pc.entry = true ∧ th'.sel = none ∧
    th'.ops.all Op.plain = true ∧ (∀ q, th'.pc = .at q → th'.rv = [0])

/-- the acting thread after its step, by the way the critical section ended -/
def SelfAfter (th th' : Thread) (c : Cid) (rv1 : List Val) : Out → Prop
  | .wait q => th'.pc = .at q ∧ th'.waiting = true ∧ th'.res = th.res ∧ th'.rv = rv1 ∧ th'.sel = th.sel ∧ th'.ops = th.ops
  | .notify (.wait q) =>
    th'.pc = .at q ∧ th'.waiting = true ∧ th'.res = th.res ∧ th'.rv = rv1 ∧ th'.sel = th.sel ∧ th'.ops = th.ops
  | .notify (.finish _ (.recv2 b seq)) =>
    th'.pc = .at (.recv2Lock c b seq) ∧ th'.res = th.res ∧ th'.rv = rv1 ∧ th'.sel = th.sel ∧ th'.ops = th.ops
  | .notify (.finish _ (.ret r)) => RetAfter th th' rv1 r
  | .unlock r => RetAfter th th' rv1 r
  | .panic => th'.pc = .done ∧ th'.res = th.res ++ [.panic] ∧ th'.sel = none ∧ th'.ops = []

theorem plain_exec (s : State) (t : Tid) (p : Point) (ht : t < s.threads.length) (hpc : (s.thread t).pc = .at p)
    (hsel : (s.thread t).sel = none) (hops : (s.thread t).ops.all Op.plain = true)
    (hsops : (body p t (s.chan p.chan)).ch.sops = []) :
    (∀ t', t' ≠ t → SameBut ((exec s t).thread t')
        { s.thread t' with rv := rvAfter (body p t (s.chan p.chan)).deliver t' (s.thread t').rv }) ∧
    SelfAfter (s.thread t) ((exec s t).thread t) p.chan
        (rvAfter (body p t (s.chan p.chan)).deliver t (s.thread t).rv) (body p t (s.chan p.chan)).out ∧
    ((∀ c', s.own c' = none) → ∀ c', (exec s t).own c' = none) := by
  unfold exec
  simp only [hpc]
  generalize hr : body p t (s.chan p.chan) = r
  rw [hr] at hsops
  let s1 := (s.setChan p.chan r.ch).setOwner p.chan (some t)
  let s2 := applyDeliver s1 r.deliver
  have hth2 : ∀ t', s2.thread t' = { s.thread t' with rv := rvAfter r.deliver t' (s.thread t').rv } := by
    intro t'; exact applyDeliver_thread s1 r.deliver t'
  have hl2 : t < s2.threads.length := by
    have e2 : Eff s s2 t p.chan :=
      ((eff_setChan s t p.chan p.chan r.ch).trans (eff_setOwner _ t p.chan (some t))).trans (eff_applyDeliver _ t p.chan _)
    rw [e2.tlen]; exact ht
  have hsel2 : (s2.thread t).sel = none := by rw [hth2]; exact hsel
  have hops2 : (s2.thread t).ops.all Op.plain = true := by rw [hth2]; exact hops
  have hsops2 : (s2.chan p.chan).sops = [] := by
    have : s2.chans = s.chans.set p.chan r.ch := by simp [s2, s1]
    rcases chan_after_set s s2 p.chan r.ch this p.chan with e | ⟨_, e⟩
    · by_cases hl : p.chan < s.chans.length
      · have : s2.chan p.chan = r.ch := by
          unfold State.chan; rw [‹s2.chans = _›]; exact getD_set_self _ _ _ _ hl
        rw [this]; exact hsops
      · have hle : s.chans.length ≤ p.chan := Nat.le_of_not_lt hl
        have : s.chan p.chan = dfltChan := by simp [State.chan, List.getD, List.getElem?_eq_none hle]
        rw [e, this]; rfl
    · rw [e]; exact hsops
  have hown2 : (∀ c', s.own c' = none) → ∀ c', c' ≠ p.chan → s2.own c' = none := by
    intro h c' hne
    show (applyDeliver s1 r.deliver).own c' = none
    rw [applyDeliver_own]
    show ((s.setChan p.chan r.ch).setOwner p.chan (some t)).own c' = none
    rw [own_setOwner_ne _ _ _ _ (Ne.symm hne)]; exact h c'
  have hown3 : (∀ c', s.own c' = none) → ∀ c', (s2.setOwner p.chan none).own c' = none := by
    intro h c'
    by_cases hc : c' = p.chan
    · rw [hc]
      by_cases hl : p.chan < s2.owner.length
      · exact own_setOwner_self _ _ _ hl
      · have hle : s2.owner.length ≤ p.chan := Nat.le_of_not_lt hl
        simp [State.own, State.setOwner, List.getD, List.getElem?_eq_none, hle]
    · rw [own_setOwner_ne _ _ _ _ (Ne.symm hc)]; exact hown2 h c' hc
  have hother : ∀ (x : State) (th' : Thread) (t' : Tid), t' ≠ t → (∀ u, SameBut (x.thread u) (s2.thread u)) →
      SameBut ((x.setThread t th').thread t') { s.thread t' with rv := rvAfter r.deliver t' (s.thread t').rv } := by
    intro x th' t' hne hx
    rw [thread_setThread_ne _ _ _ _ (Ne.symm hne), ← hth2]
    exact hx t'
  show (∀ t', t' ≠ t → SameBut ((match r.out with
      | .wait p' => (s2.setOwner p.chan none).setThread t { s2.thread t with pc := .at p', waiting := true }
      | .notify k => doNotify s2 t p.chan k
      | .unlock ret => (s2.setOwner p.chan none).setThread t (onRet (s2.thread t) ret)
      | .panic => (s2.setOwner p.chan none).setThread t
          { s2.thread t with pc := .done, ops := [], sel := none, res := (s2.thread t).res ++ [Res.panic] }).thread t') _) ∧
    SelfAfter (s.thread t) ((match r.out with
      | .wait p' => (s2.setOwner p.chan none).setThread t { s2.thread t with pc := .at p', waiting := true }
      | .notify k => doNotify s2 t p.chan k
      | .unlock ret => (s2.setOwner p.chan none).setThread t (onRet (s2.thread t) ret)
      | .panic => (s2.setOwner p.chan none).setThread t
          { s2.thread t with pc := .done, ops := [], sel := none, res := (s2.thread t).res ++ [Res.panic] }).thread t)
      p.chan (rvAfter r.deliver t (s.thread t).rv) r.out ∧
    ((∀ c', s.own c' = none) → ∀ c', (match r.out with
      | .wait p' => (s2.setOwner p.chan none).setThread t { s2.thread t with pc := .at p', waiting := true }
      | .notify k => doNotify s2 t p.chan k
      | .unlock ret => (s2.setOwner p.chan none).setThread t (onRet (s2.thread t) ret)
      | .panic => (s2.setOwner p.chan none).setThread t
          { s2.thread t with pc := .done, ops := [], sel := none, res := (s2.thread t).res ++ [Res.panic] }).own c' = none)
  have hret : ∀ (x : State) (ret : Ret), t < x.threads.length → SameBut (x.thread t) (s2.thread t) →
      RetAfter (s.thread t) ((x.setThread t (onRet (x.thread t) ret)).thread t)
        (rvAfter r.deliver t (s.thread t).rv) ret := by
    intro x ret hlx hx
    rw [thread_setThread_self _ _ _ hlx]
    have hselx : (x.thread t).sel = none := by rw [hx.sel]; exact hsel2
    have hopsx : (x.thread t).ops.all Op.plain = true := by rw [hx.ops]; exact hops2
    obtain ⟨h1, h2, h3, h4, _, h6⟩ := onRet_plain (x.thread t) ret hselx hopsx
    refine ⟨?_, h2, h3, h4, h6⟩
    rw [h1, hx.res, hth2]
    congr 2
    cases ret <;> simp [resOf, hx.rv, hth2]
  cases r.out with
  | wait p' =>
    refine ⟨fun t' hne => hother _ _ t' hne (fun u => SameBut.refl _), ?_, fun h c' => hown3 h c'⟩
    dsimp only [SelfAfter]
    rw [thread_setThread_self _ _ _ (by simpa using hl2), hth2]
    exact ⟨rfl, rfl, rfl, rfl, rfl, rfl⟩
  | unlock ret =>
    refine ⟨fun t' hne => hother _ _ t' hne (fun u => SameBut.refl _), ?_, fun h c' => hown3 h c'⟩
    dsimp only [SelfAfter]
    exact hret (s2.setOwner p.chan none) ret (by simpa using hl2) (SameBut.refl _)
  | panic =>
    refine ⟨fun t' hne => hother _ _ t' hne (fun u => SameBut.refl _), ?_, fun h c' => hown3 h c'⟩
    dsimp only [SelfAfter]
    rw [thread_setThread_self _ _ _ (by simpa using hl2), hth2]
    exact ⟨rfl, rfl, rfl, rfl⟩
  | notify k =>
    dsimp only
    have hdn : doNotify s2 t p.chan k = doAfter s2 t p.chan k := by
      unfold doNotify; rw [hsops2]
    rw [hdn]
    cases k with
    | wait q =>
      simp only [doAfter]
      refine ⟨fun t' hne => hother _ _ t' hne (fun u => SameBut.refl _), ?_, fun h c' => hown3 h c'⟩
      dsimp only [SelfAfter]
      rw [thread_setThread_self _ _ _ (by simpa using hl2)]
      simp [thread_setOwner, hth2]
    | finish bc n =>
      have hau : ∀ u, SameBut ((afterUnlock s2 p.chan bc).thread u) (s2.thread u) := afterUnlock_thread s2 p.chan bc
      have hlen : t < (afterUnlock s2 p.chan bc).threads.length := by rw [afterUnlock_len]; exact hl2
      have hownu : (∀ c', s.own c' = none) → ∀ c', (afterUnlock s2 p.chan bc).own c' = none := by
        intro h c'
        unfold afterUnlock
        split
        · exact hown3 h c'
        · exact hown3 h c'
      cases n with
      | ret ret =>
        show (∀ t', t' ≠ t → SameBut (((afterUnlock s2 p.chan bc).setThread t
            (onRet ((afterUnlock s2 p.chan bc).thread t) ret)).thread t') _) ∧
          SelfAfter _ (((afterUnlock s2 p.chan bc).setThread t (onRet ((afterUnlock s2 p.chan bc).thread t) ret)).thread t) _ _ _ ∧
          (_ → ∀ c', ((afterUnlock s2 p.chan bc).setThread t (onRet ((afterUnlock s2 p.chan bc).thread t) ret)).own c' = none)
        refine ⟨fun t' hne => hother _ _ t' hne hau, ?_, fun h c' => hownu h c'⟩
        dsimp only [SelfAfter]
        exact hret _ ret hlen (hau t)
      | recv2 b seq =>
        show (∀ t', t' ≠ t → SameBut (((afterUnlock s2 p.chan bc).setThread t
            { (afterUnlock s2 p.chan bc).thread t with pc := .at (.recv2Lock p.chan b seq) }).thread t') _) ∧
          SelfAfter _ (((afterUnlock s2 p.chan bc).setThread t
            { (afterUnlock s2 p.chan bc).thread t with pc := .at (.recv2Lock p.chan b seq) }).thread t) _ _ _ ∧
          (_ → ∀ c', ((afterUnlock s2 p.chan bc).setThread t
            { (afterUnlock s2 p.chan bc).thread t with pc := .at (.recv2Lock p.chan b seq) }).own c' = none)
        refine ⟨fun t' hne => hother _ _ t' hne hau, ?_, fun h c' => hownu h c'⟩
        dsimp only [SelfAfter]
        rw [thread_setThread_self _ _ _ hlen]
        have := hau t
        refine ⟨rfl, ?_, ?_, ?_, ?_⟩
        · show ((afterUnlock s2 p.chan bc).thread t).res = _
          rw [this.res, hth2]
        · show ((afterUnlock s2 p.chan bc).thread t).rv = _
          rw [this.rv, hth2]
        · show ((afterUnlock s2 p.chan bc).thread t).sel = _
          rw [this.sel, hth2]
        · show ((afterUnlock s2 p.chan bc).thread t).ops = _
          rw [this.ops, hth2]

/-! ### channel-level facts about the critical sections of plain points -/

/-- second-phase points, with their `seq` -/
def Point.secondPhase2 : Point → Option Nat
  | .recv2Lock _ _ seq | .recv2Wait _ _ seq => some seq
  | _ => none

theorem body_sops (p : Point) (t : Tid) (ch : Chan) (hp : p.plain = true) : (body p t ch).ch.sops = ch.sops := by
  have h : True := trivial
  cases p <;> simp only [body] at h ⊢
  case sendLock c v => (try unfold sendLoop at h); (try unfold sendLoop); (try simp only [Chan.handOff] at h ⊢); (repeat' (first | split at h | split)); all_goals (try simp_all [Point.plain]); all_goals (try subst_vars); all_goals (try simp_all [Chan.push, Chan.pop, Chan.handOff, Chan.bump, Chan.front, Point.plain, Point.chan, Point.secondPhase2])
  case sendWaitU c v => (try unfold sendLoop at h); (try unfold sendLoop); (try simp only [Chan.handOff] at h ⊢); (repeat' (first | split at h | split)); all_goals (try simp_all [Point.plain]); all_goals (try subst_vars); all_goals (try simp_all [Chan.push, Chan.pop, Chan.handOff, Chan.bump, Chan.front, Point.plain, Point.chan, Point.secondPhase2])
  case sendWaitB c v => (try unfold sendLoop at h); (try unfold sendLoop); (try simp only [Chan.handOff] at h ⊢); (repeat' (first | split at h | split)); all_goals (try simp_all [Point.plain]); all_goals (try subst_vars); all_goals (try simp_all [Chan.push, Chan.pop, Chan.handOff, Chan.bump, Chan.front, Point.plain, Point.chan, Point.secondPhase2])
  case recvLock c sl => (try unfold recvLoop at h); (try unfold recvLoop); (try simp only [Chan.handOff] at h ⊢); (repeat' (first | split at h | split)); all_goals (try simp_all [Point.plain]); all_goals (try subst_vars); all_goals (try simp_all [Chan.push, Chan.pop, Chan.handOff, Chan.bump, Chan.front, Point.plain, Point.chan, Point.secondPhase2])
  case recvWaitU c sl => (try unfold recvLoop at h); (try unfold recvLoop); (try simp only [Chan.handOff] at h ⊢); (repeat' (first | split at h | split)); all_goals (try simp_all [Point.plain]); all_goals (try subst_vars); all_goals (try simp_all [Chan.push, Chan.pop, Chan.handOff, Chan.bump, Chan.front, Point.plain, Point.chan, Point.secondPhase2])
  case recvWaitB c sl => (try unfold recvLoop at h); (try unfold recvLoop); (try simp only [Chan.handOff] at h ⊢); (repeat' (first | split at h | split)); all_goals (try simp_all [Point.plain]); all_goals (try subst_vars); all_goals (try simp_all [Chan.push, Chan.pop, Chan.handOff, Chan.bump, Chan.front, Point.plain, Point.chan, Point.secondPhase2])
  case recv2Lock c b sq => (try unfold recv2Loop at h); (try unfold recv2Loop); (try simp only [Chan.handOff] at h ⊢); (repeat' (first | split at h | split)); all_goals (try simp_all [Point.plain]); all_goals (try subst_vars); all_goals (try simp_all [Chan.push, Chan.pop, Chan.handOff, Chan.bump, Chan.front, Point.plain, Point.chan, Point.secondPhase2])
  case recv2Wait c b sq => (try unfold recv2Loop at h); (try unfold recv2Loop); (try simp only [Chan.handOff] at h ⊢); (repeat' (first | split at h | split)); all_goals (try simp_all [Point.plain]); all_goals (try subst_vars); all_goals (try simp_all [Chan.push, Chan.pop, Chan.handOff, Chan.bump, Chan.front, Point.plain, Point.chan, Point.secondPhase2])
  case closeLock c => (try unfold closeBody at h); (try unfold closeBody); (try simp only [Chan.handOff] at h ⊢); (repeat' (first | split at h | split)); all_goals (try simp_all [Point.plain]); all_goals (try subst_vars); all_goals (try simp_all [Chan.push, Chan.pop, Chan.handOff, Chan.bump, Chan.front, Point.plain, Point.chan, Point.secondPhase2])
  case trySendLock c v => simp [Point.plain] at hp
  case tryRecvLock c sl a => simp [Point.plain] at hp
  case prepLock c b => simp [Point.plain] at hp
  case endLock c b => simp [Point.plain] at hp

/-- where a plain thread goes to sleep / to the second phase: again plain points -/
theorem body_plain_wait (p q : Point) (t : Tid) (ch : Chan) (hp : p.plain = true)
    (h : (body p t ch).out = .wait q ∨ (body p t ch).out = .notify (.wait q)) : q.plain = true := by
  cases p <;> simp only [body] at h ⊢
  case sendLock c v => (try unfold sendLoop at h); (try unfold sendLoop); (try simp only [Chan.handOff] at h ⊢); (repeat' (first | split at h | split)); all_goals (try simp_all [Point.plain]); all_goals (try subst_vars); all_goals (try simp_all [Chan.push, Chan.pop, Chan.handOff, Chan.bump, Chan.front, Point.plain, Point.chan, Point.secondPhase2])
  case sendWaitU c v => (try unfold sendLoop at h); (try unfold sendLoop); (try simp only [Chan.handOff] at h ⊢); (repeat' (first | split at h | split)); all_goals (try simp_all [Point.plain]); all_goals (try subst_vars); all_goals (try simp_all [Chan.push, Chan.pop, Chan.handOff, Chan.bump, Chan.front, Point.plain, Point.chan, Point.secondPhase2])
  case sendWaitB c v => (try unfold sendLoop at h); (try unfold sendLoop); (try simp only [Chan.handOff] at h ⊢); (repeat' (first | split at h | split)); all_goals (try simp_all [Point.plain]); all_goals (try subst_vars); all_goals (try simp_all [Chan.push, Chan.pop, Chan.handOff, Chan.bump, Chan.front, Point.plain, Point.chan, Point.secondPhase2])
  case recvLock c sl => (try unfold recvLoop at h); (try unfold recvLoop); (try simp only [Chan.handOff] at h ⊢); (repeat' (first | split at h | split)); all_goals (try simp_all [Point.plain]); all_goals (try subst_vars); all_goals (try simp_all [Chan.push, Chan.pop, Chan.handOff, Chan.bump, Chan.front, Point.plain, Point.chan, Point.secondPhase2])
  case recvWaitU c sl => (try unfold recvLoop at h); (try unfold recvLoop); (try simp only [Chan.handOff] at h ⊢); (repeat' (first | split at h | split)); all_goals (try simp_all [Point.plain]); all_goals (try subst_vars); all_goals (try simp_all [Chan.push, Chan.pop, Chan.handOff, Chan.bump, Chan.front, Point.plain, Point.chan, Point.secondPhase2])
  case recvWaitB c sl => (try unfold recvLoop at h); (try unfold recvLoop); (try simp only [Chan.handOff] at h ⊢); (repeat' (first | split at h | split)); all_goals (try simp_all [Point.plain]); all_goals (try subst_vars); all_goals (try simp_all [Chan.push, Chan.pop, Chan.handOff, Chan.bump, Chan.front, Point.plain, Point.chan, Point.secondPhase2])
  case recv2Lock c b sq => (try unfold recv2Loop at h); (try unfold recv2Loop); (try simp only [Chan.handOff] at h ⊢); (repeat' (first | split at h | split)); all_goals (try simp_all [Point.plain]); all_goals (try subst_vars); all_goals (try simp_all [Chan.push, Chan.pop, Chan.handOff, Chan.bump, Chan.front, Point.plain, Point.chan, Point.secondPhase2])
  case recv2Wait c b sq => (try unfold recv2Loop at h); (try unfold recv2Loop); (try simp only [Chan.handOff] at h ⊢); (repeat' (first | split at h | split)); all_goals (try simp_all [Point.plain]); all_goals (try subst_vars); all_goals (try simp_all [Chan.push, Chan.pop, Chan.handOff, Chan.bump, Chan.front, Point.plain, Point.chan, Point.secondPhase2])
  case closeLock c => (try unfold closeBody at h); (try unfold closeBody); (try simp only [Chan.handOff] at h ⊢); (repeat' (first | split at h | split)); all_goals (try simp_all [Point.plain]); all_goals (try subst_vars); all_goals (try simp_all [Chan.push, Chan.pop, Chan.handOff, Chan.bump, Chan.front, Point.plain, Point.chan, Point.secondPhase2])
  case trySendLock c v => simp [Point.plain] at hp
  case tryRecvLock c sl a => simp [Point.plain] at hp
  case prepLock c b => simp [Point.plain] at hp
  case endLock c b => simp [Point.plain] at hp

/-- arming: the receiver found the channel un-armed and open, notes `seq = recvseq`, publishes its variable -/
theorem body_arm (p : Point) (t : Tid) (ch : Chan) (bc b : Bool) (seq : Nat) (hp : p.plain = true)
    (h : (body p t ch).out = .notify (.finish bc (.recv2 b seq))) :
    b = false ∧ seq = ch.recvseq ∧ ch.cap = 0 ∧ ch.getp ≠ hasRecv ∧ ch.closed = false ∧
    (body p t ch).ch.getp = hasRecv ∧ (body p t ch).ch.slot = some ⟨t, 0⟩ ∧ (body p t ch).ch.recvseq = ch.recvseq ∧
    (body p t ch).ch.cap = 0 ∧ (body p t ch).ch.closed = false ∧ (body p t ch).ch.sentBy = ch.sentBy ∧
    (body p t ch).ch.recvBy = ch.recvBy ∧ (body p t ch).deliver = none := by
  cases p <;> simp only [body] at h ⊢
  case sendLock c v => (try unfold sendLoop at h); (try unfold sendLoop); (try simp only [Chan.handOff] at h ⊢); (repeat' (first | split at h | split)); all_goals (try simp_all [Point.plain]); all_goals (try subst_vars); all_goals (try simp_all [Chan.push, Chan.pop, Chan.handOff, Chan.bump, Chan.front, Point.plain, Point.chan, Point.secondPhase2])
  case sendWaitU c v => (try unfold sendLoop at h); (try unfold sendLoop); (try simp only [Chan.handOff] at h ⊢); (repeat' (first | split at h | split)); all_goals (try simp_all [Point.plain]); all_goals (try subst_vars); all_goals (try simp_all [Chan.push, Chan.pop, Chan.handOff, Chan.bump, Chan.front, Point.plain, Point.chan, Point.secondPhase2])
  case sendWaitB c v => (try unfold sendLoop at h); (try unfold sendLoop); (try simp only [Chan.handOff] at h ⊢); (repeat' (first | split at h | split)); all_goals (try simp_all [Point.plain]); all_goals (try subst_vars); all_goals (try simp_all [Chan.push, Chan.pop, Chan.handOff, Chan.bump, Chan.front, Point.plain, Point.chan, Point.secondPhase2])
  case recvLock c sl => (try unfold recvLoop at h); (try unfold recvLoop); (try simp only [Chan.handOff] at h ⊢); (repeat' (first | split at h | split)); all_goals (try simp_all [Point.plain]); all_goals (try subst_vars); all_goals (try simp_all [Chan.push, Chan.pop, Chan.handOff, Chan.bump, Chan.front, Point.plain, Point.chan, Point.secondPhase2])
  case recvWaitU c sl => (try unfold recvLoop at h); (try unfold recvLoop); (try simp only [Chan.handOff] at h ⊢); (repeat' (first | split at h | split)); all_goals (try simp_all [Point.plain]); all_goals (try subst_vars); all_goals (try simp_all [Chan.push, Chan.pop, Chan.handOff, Chan.bump, Chan.front, Point.plain, Point.chan, Point.secondPhase2])
  case recvWaitB c sl => (try unfold recvLoop at h); (try unfold recvLoop); (try simp only [Chan.handOff] at h ⊢); (repeat' (first | split at h | split)); all_goals (try simp_all [Point.plain]); all_goals (try subst_vars); all_goals (try simp_all [Chan.push, Chan.pop, Chan.handOff, Chan.bump, Chan.front, Point.plain, Point.chan, Point.secondPhase2])
  case recv2Lock c b sq => (try unfold recv2Loop at h); (try unfold recv2Loop); (try simp only [Chan.handOff] at h ⊢); (repeat' (first | split at h | split)); all_goals (try simp_all [Point.plain]); all_goals (try subst_vars); all_goals (try simp_all [Chan.push, Chan.pop, Chan.handOff, Chan.bump, Chan.front, Point.plain, Point.chan, Point.secondPhase2])
  case recv2Wait c b sq => (try unfold recv2Loop at h); (try unfold recv2Loop); (try simp only [Chan.handOff] at h ⊢); (repeat' (first | split at h | split)); all_goals (try simp_all [Point.plain]); all_goals (try subst_vars); all_goals (try simp_all [Chan.push, Chan.pop, Chan.handOff, Chan.bump, Chan.front, Point.plain, Point.chan, Point.secondPhase2])
  case closeLock c => (try unfold closeBody at h); (try unfold closeBody); (try simp only [Chan.handOff] at h ⊢); (repeat' (first | split at h | split)); all_goals (try simp_all [Point.plain]); all_goals (try subst_vars); all_goals (try simp_all [Chan.push, Chan.pop, Chan.handOff, Chan.bump, Chan.front, Point.plain, Point.chan, Point.secondPhase2])
  case trySendLock c v => simp [Point.plain] at hp
  case tryRecvLock c sl a => simp [Point.plain] at hp
  case prepLock c b => simp [Point.plain] at hp
  case endLock c b => simp [Point.plain] at hp

/-- the critical section ended by arming the channel -/
def Out.isArm : Out → Bool
  | .notify (.finish _ (.recv2 ..)) => true
  | _ => false

/-- the critical section committed a send or a receive (history changes exactly then) -/
def Out.commits : Out → Bool
  | .notify (.finish _ (.ret (.sent ..))) | .notify (.finish _ (.ret (.recv ..))) => true
  | _ => false

def Ret.isRecvOn (c : Cid) : Ret → Bool
  | .recv c' _ => c' == c
  | _ => false

/-- fixed variant: an armed channel stays armed for the same receiver as long as no hand-off happens -/
theorem body_keeps_arm (p : Point) (t : Tid) (ch : Chan) (hp : p.plain = true) (hf : ch.fixed = true)
    (hcap : ch.cap = 0) (hg : ch.getp = hasRecv) (h : (body p t ch).ch.recvseq = ch.recvseq) :
    (body p t ch).ch.getp = hasRecv ∧ (body p t ch).ch.slot = ch.slot := by
  cases p <;> simp only [body] at h ⊢
  case sendLock c v => (try unfold sendLoop at h); (try unfold sendLoop); (try simp only [Chan.handOff] at h ⊢); (repeat' (first | split at h | split)); all_goals (try simp_all [Point.plain]); all_goals (try subst_vars); all_goals (try simp_all [Chan.push, Chan.pop, Chan.handOff, Chan.bump, Chan.front, Point.plain, Point.chan, Point.secondPhase2, Out.isArm, Out.commits, Ret.isRecvOn, hasRecv, noSendRecv])
  case sendWaitU c v => (try unfold sendLoop at h); (try unfold sendLoop); (try simp only [Chan.handOff] at h ⊢); (repeat' (first | split at h | split)); all_goals (try simp_all [Point.plain]); all_goals (try subst_vars); all_goals (try simp_all [Chan.push, Chan.pop, Chan.handOff, Chan.bump, Chan.front, Point.plain, Point.chan, Point.secondPhase2, Out.isArm, Out.commits, Ret.isRecvOn, hasRecv, noSendRecv])
  case sendWaitB c v => (try unfold sendLoop at h); (try unfold sendLoop); (try simp only [Chan.handOff] at h ⊢); (repeat' (first | split at h | split)); all_goals (try simp_all [Point.plain]); all_goals (try subst_vars); all_goals (try simp_all [Chan.push, Chan.pop, Chan.handOff, Chan.bump, Chan.front, Point.plain, Point.chan, Point.secondPhase2, Out.isArm, Out.commits, Ret.isRecvOn, hasRecv, noSendRecv])
  case recvLock c sl => (try unfold recvLoop at h); (try unfold recvLoop); (try simp only [Chan.handOff] at h ⊢); (repeat' (first | split at h | split)); all_goals (try simp_all [Point.plain]); all_goals (try subst_vars); all_goals (try simp_all [Chan.push, Chan.pop, Chan.handOff, Chan.bump, Chan.front, Point.plain, Point.chan, Point.secondPhase2, Out.isArm, Out.commits, Ret.isRecvOn, hasRecv, noSendRecv])
  case recvWaitU c sl => (try unfold recvLoop at h); (try unfold recvLoop); (try simp only [Chan.handOff] at h ⊢); (repeat' (first | split at h | split)); all_goals (try simp_all [Point.plain]); all_goals (try subst_vars); all_goals (try simp_all [Chan.push, Chan.pop, Chan.handOff, Chan.bump, Chan.front, Point.plain, Point.chan, Point.secondPhase2, Out.isArm, Out.commits, Ret.isRecvOn, hasRecv, noSendRecv])
  case recvWaitB c sl => (try unfold recvLoop at h); (try unfold recvLoop); (try simp only [Chan.handOff] at h ⊢); (repeat' (first | split at h | split)); all_goals (try simp_all [Point.plain]); all_goals (try subst_vars); all_goals (try simp_all [Chan.push, Chan.pop, Chan.handOff, Chan.bump, Chan.front, Point.plain, Point.chan, Point.secondPhase2, Out.isArm, Out.commits, Ret.isRecvOn, hasRecv, noSendRecv])
  case recv2Lock c b sq => (try unfold recv2Loop at h); (try unfold recv2Loop); (try simp only [Chan.handOff] at h ⊢); (repeat' (first | split at h | split)); all_goals (try simp_all [Point.plain]); all_goals (try subst_vars); all_goals (try simp_all [Chan.push, Chan.pop, Chan.handOff, Chan.bump, Chan.front, Point.plain, Point.chan, Point.secondPhase2, Out.isArm, Out.commits, Ret.isRecvOn, hasRecv, noSendRecv])
  case recv2Wait c b sq => (try unfold recv2Loop at h); (try unfold recv2Loop); (try simp only [Chan.handOff] at h ⊢); (repeat' (first | split at h | split)); all_goals (try simp_all [Point.plain]); all_goals (try subst_vars); all_goals (try simp_all [Chan.push, Chan.pop, Chan.handOff, Chan.bump, Chan.front, Point.plain, Point.chan, Point.secondPhase2, Out.isArm, Out.commits, Ret.isRecvOn, hasRecv, noSendRecv])
  case closeLock c => (try unfold closeBody at h); (try unfold closeBody); (try simp only [Chan.handOff] at h ⊢); (repeat' (first | split at h | split)); all_goals (try simp_all [Point.plain]); all_goals (try subst_vars); all_goals (try simp_all [Chan.push, Chan.pop, Chan.handOff, Chan.bump, Chan.front, Point.plain, Point.chan, Point.secondPhase2, Out.isArm, Out.commits, Ret.isRecvOn, hasRecv, noSendRecv])
  case trySendLock c v => simp [Point.plain] at hp
  case tryRecvLock c sl a => simp [Point.plain] at hp
  case prepLock c b => simp [Point.plain] at hp
  case endLock c b => simp [Point.plain] at hp

/-- `getp` becomes `chanHasRecv` only by arming -/
theorem body_getp_hasRecv (p : Point) (t : Tid) (ch : Chan) (hp : p.plain = true) (hcap : ch.cap = 0)
    (h : (body p t ch).ch.getp = hasRecv) (hg : ch.getp ≠ hasRecv) : (body p t ch).out.isArm = true := by
  cases p <;> simp only [body] at h ⊢
  case sendLock c v => (try unfold sendLoop at h); (try unfold sendLoop); (try simp only [Chan.handOff] at h ⊢); (repeat' (first | split at h | split)); all_goals (try simp_all [Point.plain]); all_goals (try subst_vars); all_goals (try simp_all [Chan.push, Chan.pop, Chan.handOff, Chan.bump, Chan.front, Point.plain, Point.chan, Point.secondPhase2, Out.isArm, Out.commits, Ret.isRecvOn, hasRecv, noSendRecv])
  case sendWaitU c v => (try unfold sendLoop at h); (try unfold sendLoop); (try simp only [Chan.handOff] at h ⊢); (repeat' (first | split at h | split)); all_goals (try simp_all [Point.plain]); all_goals (try subst_vars); all_goals (try simp_all [Chan.push, Chan.pop, Chan.handOff, Chan.bump, Chan.front, Point.plain, Point.chan, Point.secondPhase2, Out.isArm, Out.commits, Ret.isRecvOn, hasRecv, noSendRecv])
  case sendWaitB c v => (try unfold sendLoop at h); (try unfold sendLoop); (try simp only [Chan.handOff] at h ⊢); (repeat' (first | split at h | split)); all_goals (try simp_all [Point.plain]); all_goals (try subst_vars); all_goals (try simp_all [Chan.push, Chan.pop, Chan.handOff, Chan.bump, Chan.front, Point.plain, Point.chan, Point.secondPhase2, Out.isArm, Out.commits, Ret.isRecvOn, hasRecv, noSendRecv])
  case recvLock c sl => (try unfold recvLoop at h); (try unfold recvLoop); (try simp only [Chan.handOff] at h ⊢); (repeat' (first | split at h | split)); all_goals (try simp_all [Point.plain]); all_goals (try subst_vars); all_goals (try simp_all [Chan.push, Chan.pop, Chan.handOff, Chan.bump, Chan.front, Point.plain, Point.chan, Point.secondPhase2, Out.isArm, Out.commits, Ret.isRecvOn, hasRecv, noSendRecv])
  case recvWaitU c sl => (try unfold recvLoop at h); (try unfold recvLoop); (try simp only [Chan.handOff] at h ⊢); (repeat' (first | split at h | split)); all_goals (try simp_all [Point.plain]); all_goals (try subst_vars); all_goals (try simp_all [Chan.push, Chan.pop, Chan.handOff, Chan.bump, Chan.front, Point.plain, Point.chan, Point.secondPhase2, Out.isArm, Out.commits, Ret.isRecvOn, hasRecv, noSendRecv])
  case recvWaitB c sl => (try unfold recvLoop at h); (try unfold recvLoop); (try simp only [Chan.handOff] at h ⊢); (repeat' (first | split at h | split)); all_goals (try simp_all [Point.plain]); all_goals (try subst_vars); all_goals (try simp_all [Chan.push, Chan.pop, Chan.handOff, Chan.bump, Chan.front, Point.plain, Point.chan, Point.secondPhase2, Out.isArm, Out.commits, Ret.isRecvOn, hasRecv, noSendRecv])
  case recv2Lock c b sq => (try unfold recv2Loop at h); (try unfold recv2Loop); (try simp only [Chan.handOff] at h ⊢); (repeat' (first | split at h | split)); all_goals (try simp_all [Point.plain]); all_goals (try subst_vars); all_goals (try simp_all [Chan.push, Chan.pop, Chan.handOff, Chan.bump, Chan.front, Point.plain, Point.chan, Point.secondPhase2, Out.isArm, Out.commits, Ret.isRecvOn, hasRecv, noSendRecv])
  case recv2Wait c b sq => (try unfold recv2Loop at h); (try unfold recv2Loop); (try simp only [Chan.handOff] at h ⊢); (repeat' (first | split at h | split)); all_goals (try simp_all [Point.plain]); all_goals (try subst_vars); all_goals (try simp_all [Chan.push, Chan.pop, Chan.handOff, Chan.bump, Chan.front, Point.plain, Point.chan, Point.secondPhase2, Out.isArm, Out.commits, Ret.isRecvOn, hasRecv, noSendRecv])
  case closeLock c => (try unfold closeBody at h); (try unfold closeBody); (try simp only [Chan.handOff] at h ⊢); (repeat' (first | split at h | split)); all_goals (try simp_all [Point.plain]); all_goals (try subst_vars); all_goals (try simp_all [Chan.push, Chan.pop, Chan.handOff, Chan.bump, Chan.front, Point.plain, Point.chan, Point.secondPhase2, Out.isArm, Out.commits, Ret.isRecvOn, hasRecv, noSendRecv])
  case trySendLock c v => simp [Point.plain] at hp
  case tryRecvLock c sl a => simp [Point.plain] at hp
  case prepLock c b => simp [Point.plain] at hp
  case endLock c b => simp [Point.plain] at hp

/-- sleeping in the second phase: entered from a second-phase point with the same `seq`, channel untouched -/
theorem body_recv2_wait (p : Point) (t : Tid) (ch : Chan) (c : Cid) (b : Bool) (seq : Nat) (hp : p.plain = true)
    (h : (body p t ch).out = .wait (.recv2Wait c b seq)) :
    (body p t ch).ch = ch ∧ (body p t ch).deliver = none ∧ (p = .recv2Lock c b seq ∨ p = .recv2Wait c b seq) := by
  cases p <;> simp only [body] at h ⊢
  case sendLock c v => (try unfold sendLoop at h); (try unfold sendLoop); (try simp only [Chan.handOff] at h ⊢); (repeat' (first | split at h | split)); all_goals (try simp_all [Point.plain]); all_goals (try subst_vars); all_goals (try simp_all [Chan.push, Chan.pop, Chan.handOff, Chan.bump, Chan.front, Point.plain, Point.chan, Point.secondPhase2, Out.isArm, Out.commits, Ret.isRecvOn, hasRecv, noSendRecv])
  case sendWaitU c v => (try unfold sendLoop at h); (try unfold sendLoop); (try simp only [Chan.handOff] at h ⊢); (repeat' (first | split at h | split)); all_goals (try simp_all [Point.plain]); all_goals (try subst_vars); all_goals (try simp_all [Chan.push, Chan.pop, Chan.handOff, Chan.bump, Chan.front, Point.plain, Point.chan, Point.secondPhase2, Out.isArm, Out.commits, Ret.isRecvOn, hasRecv, noSendRecv])
  case sendWaitB c v => (try unfold sendLoop at h); (try unfold sendLoop); (try simp only [Chan.handOff] at h ⊢); (repeat' (first | split at h | split)); all_goals (try simp_all [Point.plain]); all_goals (try subst_vars); all_goals (try simp_all [Chan.push, Chan.pop, Chan.handOff, Chan.bump, Chan.front, Point.plain, Point.chan, Point.secondPhase2, Out.isArm, Out.commits, Ret.isRecvOn, hasRecv, noSendRecv])
  case recvLock c sl => (try unfold recvLoop at h); (try unfold recvLoop); (try simp only [Chan.handOff] at h ⊢); (repeat' (first | split at h | split)); all_goals (try simp_all [Point.plain]); all_goals (try subst_vars); all_goals (try simp_all [Chan.push, Chan.pop, Chan.handOff, Chan.bump, Chan.front, Point.plain, Point.chan, Point.secondPhase2, Out.isArm, Out.commits, Ret.isRecvOn, hasRecv, noSendRecv])
  case recvWaitU c sl => (try unfold recvLoop at h); (try unfold recvLoop); (try simp only [Chan.handOff] at h ⊢); (repeat' (first | split at h | split)); all_goals (try simp_all [Point.plain]); all_goals (try subst_vars); all_goals (try simp_all [Chan.push, Chan.pop, Chan.handOff, Chan.bump, Chan.front, Point.plain, Point.chan, Point.secondPhase2, Out.isArm, Out.commits, Ret.isRecvOn, hasRecv, noSendRecv])
  case recvWaitB c sl => (try unfold recvLoop at h); (try unfold recvLoop); (try simp only [Chan.handOff] at h ⊢); (repeat' (first | split at h | split)); all_goals (try simp_all [Point.plain]); all_goals (try subst_vars); all_goals (try simp_all [Chan.push, Chan.pop, Chan.handOff, Chan.bump, Chan.front, Point.plain, Point.chan, Point.secondPhase2, Out.isArm, Out.commits, Ret.isRecvOn, hasRecv, noSendRecv])
  case recv2Lock c b sq => (try unfold recv2Loop at h); (try unfold recv2Loop); (try simp only [Chan.handOff] at h ⊢); (repeat' (first | split at h | split)); all_goals (try simp_all [Point.plain]); all_goals (try subst_vars); all_goals (try simp_all [Chan.push, Chan.pop, Chan.handOff, Chan.bump, Chan.front, Point.plain, Point.chan, Point.secondPhase2, Out.isArm, Out.commits, Ret.isRecvOn, hasRecv, noSendRecv])
  case recv2Wait c b sq => (try unfold recv2Loop at h); (try unfold recv2Loop); (try simp only [Chan.handOff] at h ⊢); (repeat' (first | split at h | split)); all_goals (try simp_all [Point.plain]); all_goals (try subst_vars); all_goals (try simp_all [Chan.push, Chan.pop, Chan.handOff, Chan.bump, Chan.front, Point.plain, Point.chan, Point.secondPhase2, Out.isArm, Out.commits, Ret.isRecvOn, hasRecv, noSendRecv])
  case closeLock c => (try unfold closeBody at h); (try unfold closeBody); (try simp only [Chan.handOff] at h ⊢); (repeat' (first | split at h | split)); all_goals (try simp_all [Point.plain]); all_goals (try subst_vars); all_goals (try simp_all [Chan.push, Chan.pop, Chan.handOff, Chan.bump, Chan.front, Point.plain, Point.chan, Point.secondPhase2, Out.isArm, Out.commits, Ret.isRecvOn, hasRecv, noSendRecv])
  case trySendLock c v => simp [Point.plain] at hp
  case tryRecvLock c sl a => simp [Point.plain] at hp
  case prepLock c b => simp [Point.plain] at hp
  case endLock c b => simp [Point.plain] at hp

/-- a committed send on a buffered channel -/
theorem body_hist_push (p : Point) (t : Tid) (ch : Chan) (bc : Bool) (c' : Cid) (v' : Val) (hp : p.plain = true)
    (hcap : ch.cap ≠ 0) (h : (body p t ch).out = .notify (.finish bc (.ret (.sent c' v')))) :
    c' = p.chan ∧ (body p t ch).ch.sentBy = ch.sentBy ++ [(t, v')] ∧ (body p t ch).ch.recvBy = ch.recvBy ∧
    (body p t ch).deliver = none ∧ (body p t ch).ch.recvseq = ch.recvseq ∧ (body p t ch).ch.getp = ch.getp ∧
    (body p t ch).ch.slot = ch.slot := by
  cases p <;> simp only [body] at h ⊢
  case sendLock c v => (try unfold sendLoop at h); (try unfold sendLoop); (try simp only [Chan.handOff] at h ⊢); (repeat' (first | split at h | split)); all_goals (try simp_all [Point.plain]); all_goals (try subst_vars); all_goals (try simp_all [Chan.push, Chan.pop, Chan.handOff, Chan.bump, Chan.front, Point.plain, Point.chan, Point.secondPhase2, Out.isArm, Out.commits, Ret.isRecvOn, hasRecv, noSendRecv])
  case sendWaitU c v => (try unfold sendLoop at h); (try unfold sendLoop); (try simp only [Chan.handOff] at h ⊢); (repeat' (first | split at h | split)); all_goals (try simp_all [Point.plain]); all_goals (try subst_vars); all_goals (try simp_all [Chan.push, Chan.pop, Chan.handOff, Chan.bump, Chan.front, Point.plain, Point.chan, Point.secondPhase2, Out.isArm, Out.commits, Ret.isRecvOn, hasRecv, noSendRecv])
  case sendWaitB c v => (try unfold sendLoop at h); (try unfold sendLoop); (try simp only [Chan.handOff] at h ⊢); (repeat' (first | split at h | split)); all_goals (try simp_all [Point.plain]); all_goals (try subst_vars); all_goals (try simp_all [Chan.push, Chan.pop, Chan.handOff, Chan.bump, Chan.front, Point.plain, Point.chan, Point.secondPhase2, Out.isArm, Out.commits, Ret.isRecvOn, hasRecv, noSendRecv])
  case recvLock c sl => (try unfold recvLoop at h); (try unfold recvLoop); (try simp only [Chan.handOff] at h ⊢); (repeat' (first | split at h | split)); all_goals (try simp_all [Point.plain]); all_goals (try subst_vars); all_goals (try simp_all [Chan.push, Chan.pop, Chan.handOff, Chan.bump, Chan.front, Point.plain, Point.chan, Point.secondPhase2, Out.isArm, Out.commits, Ret.isRecvOn, hasRecv, noSendRecv])
  case recvWaitU c sl => (try unfold recvLoop at h); (try unfold recvLoop); (try simp only [Chan.handOff] at h ⊢); (repeat' (first | split at h | split)); all_goals (try simp_all [Point.plain]); all_goals (try subst_vars); all_goals (try simp_all [Chan.push, Chan.pop, Chan.handOff, Chan.bump, Chan.front, Point.plain, Point.chan, Point.secondPhase2, Out.isArm, Out.commits, Ret.isRecvOn, hasRecv, noSendRecv])
  case recvWaitB c sl => (try unfold recvLoop at h); (try unfold recvLoop); (try simp only [Chan.handOff] at h ⊢); (repeat' (first | split at h | split)); all_goals (try simp_all [Point.plain]); all_goals (try subst_vars); all_goals (try simp_all [Chan.push, Chan.pop, Chan.handOff, Chan.bump, Chan.front, Point.plain, Point.chan, Point.secondPhase2, Out.isArm, Out.commits, Ret.isRecvOn, hasRecv, noSendRecv])
  case recv2Lock c b sq => (try unfold recv2Loop at h); (try unfold recv2Loop); (try simp only [Chan.handOff] at h ⊢); (repeat' (first | split at h | split)); all_goals (try simp_all [Point.plain]); all_goals (try subst_vars); all_goals (try simp_all [Chan.push, Chan.pop, Chan.handOff, Chan.bump, Chan.front, Point.plain, Point.chan, Point.secondPhase2, Out.isArm, Out.commits, Ret.isRecvOn, hasRecv, noSendRecv])
  case recv2Wait c b sq => (try unfold recv2Loop at h); (try unfold recv2Loop); (try simp only [Chan.handOff] at h ⊢); (repeat' (first | split at h | split)); all_goals (try simp_all [Point.plain]); all_goals (try subst_vars); all_goals (try simp_all [Chan.push, Chan.pop, Chan.handOff, Chan.bump, Chan.front, Point.plain, Point.chan, Point.secondPhase2, Out.isArm, Out.commits, Ret.isRecvOn, hasRecv, noSendRecv])
  case closeLock c => (try unfold closeBody at h); (try unfold closeBody); (try simp only [Chan.handOff] at h ⊢); (repeat' (first | split at h | split)); all_goals (try simp_all [Point.plain]); all_goals (try subst_vars); all_goals (try simp_all [Chan.push, Chan.pop, Chan.handOff, Chan.bump, Chan.front, Point.plain, Point.chan, Point.secondPhase2, Out.isArm, Out.commits, Ret.isRecvOn, hasRecv, noSendRecv])
  case trySendLock c v => simp [Point.plain] at hp
  case tryRecvLock c sl a => simp [Point.plain] at hp
  case prepLock c b => simp [Point.plain] at hp
  case endLock c b => simp [Point.plain] at hp

/-- a committed send on an unbuffered channel: the hand-off -/
theorem body_hist_hand (p : Point) (t : Tid) (ch : Chan) (bc : Bool) (c' : Cid) (v' : Val) (tg : Target) (hp : p.plain = true)
    (hcap : ch.cap = 0) (hslot : ch.slot = some tg) (h : (body p t ch).out = .notify (.finish bc (.ret (.sent c' v')))) :
    c' = p.chan ∧ ch.getp = hasRecv ∧ ch.closed = false ∧ (body p t ch).ch.sentBy = ch.sentBy ++ [(t, v')] ∧
    (body p t ch).ch.recvBy = ch.recvBy ++ [(tg.tid, v')] ∧ (body p t ch).deliver = some (tg, v') ∧
    (ch.fixed = true → (body p t ch).ch.recvseq = ch.recvseq + 1) ∧ (body p t ch).ch.getp ≠ hasRecv := by
  cases p <;> simp only [body] at h ⊢
  case sendLock c v => (try unfold sendLoop at h); (try unfold sendLoop); (try simp only [Chan.handOff] at h ⊢); (repeat' (first | split at h | split)); all_goals (try simp_all [Point.plain]); all_goals (try subst_vars); all_goals (try simp_all [Chan.push, Chan.pop, Chan.handOff, Chan.bump, Chan.front, Point.plain, Point.chan, Point.secondPhase2, Out.isArm, Out.commits, Ret.isRecvOn, hasRecv, noSendRecv])
  case sendWaitU c v => (try unfold sendLoop at h); (try unfold sendLoop); (try simp only [Chan.handOff] at h ⊢); (repeat' (first | split at h | split)); all_goals (try simp_all [Point.plain]); all_goals (try subst_vars); all_goals (try simp_all [Chan.push, Chan.pop, Chan.handOff, Chan.bump, Chan.front, Point.plain, Point.chan, Point.secondPhase2, Out.isArm, Out.commits, Ret.isRecvOn, hasRecv, noSendRecv])
  case sendWaitB c v => (try unfold sendLoop at h); (try unfold sendLoop); (try simp only [Chan.handOff] at h ⊢); (repeat' (first | split at h | split)); all_goals (try simp_all [Point.plain]); all_goals (try subst_vars); all_goals (try simp_all [Chan.push, Chan.pop, Chan.handOff, Chan.bump, Chan.front, Point.plain, Point.chan, Point.secondPhase2, Out.isArm, Out.commits, Ret.isRecvOn, hasRecv, noSendRecv])
  case recvLock c sl => (try unfold recvLoop at h); (try unfold recvLoop); (try simp only [Chan.handOff] at h ⊢); (repeat' (first | split at h | split)); all_goals (try simp_all [Point.plain]); all_goals (try subst_vars); all_goals (try simp_all [Chan.push, Chan.pop, Chan.handOff, Chan.bump, Chan.front, Point.plain, Point.chan, Point.secondPhase2, Out.isArm, Out.commits, Ret.isRecvOn, hasRecv, noSendRecv])
  case recvWaitU c sl => (try unfold recvLoop at h); (try unfold recvLoop); (try simp only [Chan.handOff] at h ⊢); (repeat' (first | split at h | split)); all_goals (try simp_all [Point.plain]); all_goals (try subst_vars); all_goals (try simp_all [Chan.push, Chan.pop, Chan.handOff, Chan.bump, Chan.front, Point.plain, Point.chan, Point.secondPhase2, Out.isArm, Out.commits, Ret.isRecvOn, hasRecv, noSendRecv])
  case recvWaitB c sl => (try unfold recvLoop at h); (try unfold recvLoop); (try simp only [Chan.handOff] at h ⊢); (repeat' (first | split at h | split)); all_goals (try simp_all [Point.plain]); all_goals (try subst_vars); all_goals (try simp_all [Chan.push, Chan.pop, Chan.handOff, Chan.bump, Chan.front, Point.plain, Point.chan, Point.secondPhase2, Out.isArm, Out.commits, Ret.isRecvOn, hasRecv, noSendRecv])
  case recv2Lock c b sq => (try unfold recv2Loop at h); (try unfold recv2Loop); (try simp only [Chan.handOff] at h ⊢); (repeat' (first | split at h | split)); all_goals (try simp_all [Point.plain]); all_goals (try subst_vars); all_goals (try simp_all [Chan.push, Chan.pop, Chan.handOff, Chan.bump, Chan.front, Point.plain, Point.chan, Point.secondPhase2, Out.isArm, Out.commits, Ret.isRecvOn, hasRecv, noSendRecv])
  case recv2Wait c b sq => (try unfold recv2Loop at h); (try unfold recv2Loop); (try simp only [Chan.handOff] at h ⊢); (repeat' (first | split at h | split)); all_goals (try simp_all [Point.plain]); all_goals (try subst_vars); all_goals (try simp_all [Chan.push, Chan.pop, Chan.handOff, Chan.bump, Chan.front, Point.plain, Point.chan, Point.secondPhase2, Out.isArm, Out.commits, Ret.isRecvOn, hasRecv, noSendRecv])
  case closeLock c => (try unfold closeBody at h); (try unfold closeBody); (try simp only [Chan.handOff] at h ⊢); (repeat' (first | split at h | split)); all_goals (try simp_all [Point.plain]); all_goals (try subst_vars); all_goals (try simp_all [Chan.push, Chan.pop, Chan.handOff, Chan.bump, Chan.front, Point.plain, Point.chan, Point.secondPhase2, Out.isArm, Out.commits, Ret.isRecvOn, hasRecv, noSendRecv])
  case trySendLock c v => simp [Point.plain] at hp
  case tryRecvLock c sl a => simp [Point.plain] at hp
  case prepLock c b => simp [Point.plain] at hp
  case endLock c b => simp [Point.plain] at hp

/-- a committed receive (buffered channel): the value goes to the receiver's variable 0 and is returned with `ok` -/
theorem body_hist_pop (p : Point) (t : Tid) (ch : Chan) (bc : Bool) (c' : Cid) (ok : Bool) (hp : p.plain = true)
    (h : (body p t ch).out = .notify (.finish bc (.ret (.recv c' ok)))) :
    c' = p.chan ∧ ok = true ∧ ch.cap ≠ 0 ∧ (body p t ch).ch.recvBy = ch.recvBy ++ [(t, ch.front)] ∧
    (body p t ch).deliver = some (⟨t, 0⟩, ch.front) ∧ (body p t ch).ch.sentBy = ch.sentBy ∧
    (body p t ch).ch.recvseq = ch.recvseq ∧ p.secondPhase2 = none := by
  cases p <;> simp only [body] at h ⊢
  case sendLock c v => (try unfold sendLoop at h); (try unfold sendLoop); (try simp only [Chan.handOff] at h ⊢); (repeat' (first | split at h | split)); all_goals (try simp_all [Point.plain]); all_goals (try subst_vars); all_goals (try simp_all [Chan.push, Chan.pop, Chan.handOff, Chan.bump, Chan.front, Point.plain, Point.chan, Point.secondPhase2, Out.isArm, Out.commits, Ret.isRecvOn, hasRecv, noSendRecv])
  case sendWaitU c v => (try unfold sendLoop at h); (try unfold sendLoop); (try simp only [Chan.handOff] at h ⊢); (repeat' (first | split at h | split)); all_goals (try simp_all [Point.plain]); all_goals (try subst_vars); all_goals (try simp_all [Chan.push, Chan.pop, Chan.handOff, Chan.bump, Chan.front, Point.plain, Point.chan, Point.secondPhase2, Out.isArm, Out.commits, Ret.isRecvOn, hasRecv, noSendRecv])
  case sendWaitB c v => (try unfold sendLoop at h); (try unfold sendLoop); (try simp only [Chan.handOff] at h ⊢); (repeat' (first | split at h | split)); all_goals (try simp_all [Point.plain]); all_goals (try subst_vars); all_goals (try simp_all [Chan.push, Chan.pop, Chan.handOff, Chan.bump, Chan.front, Point.plain, Point.chan, Point.secondPhase2, Out.isArm, Out.commits, Ret.isRecvOn, hasRecv, noSendRecv])
  case recvLock c sl => (try unfold recvLoop at h); (try unfold recvLoop); (try simp only [Chan.handOff] at h ⊢); (repeat' (first | split at h | split)); all_goals (try simp_all [Point.plain]); all_goals (try subst_vars); all_goals (try simp_all [Chan.push, Chan.pop, Chan.handOff, Chan.bump, Chan.front, Point.plain, Point.chan, Point.secondPhase2, Out.isArm, Out.commits, Ret.isRecvOn, hasRecv, noSendRecv])
  case recvWaitU c sl => (try unfold recvLoop at h); (try unfold recvLoop); (try simp only [Chan.handOff] at h ⊢); (repeat' (first | split at h | split)); all_goals (try simp_all [Point.plain]); all_goals (try subst_vars); all_goals (try simp_all [Chan.push, Chan.pop, Chan.handOff, Chan.bump, Chan.front, Point.plain, Point.chan, Point.secondPhase2, Out.isArm, Out.commits, Ret.isRecvOn, hasRecv, noSendRecv])
  case recvWaitB c sl => (try unfold recvLoop at h); (try unfold recvLoop); (try simp only [Chan.handOff] at h ⊢); (repeat' (first | split at h | split)); all_goals (try simp_all [Point.plain]); all_goals (try subst_vars); all_goals (try simp_all [Chan.push, Chan.pop, Chan.handOff, Chan.bump, Chan.front, Point.plain, Point.chan, Point.secondPhase2, Out.isArm, Out.commits, Ret.isRecvOn, hasRecv, noSendRecv])
  case recv2Lock c b sq => (try unfold recv2Loop at h); (try unfold recv2Loop); (try simp only [Chan.handOff] at h ⊢); (repeat' (first | split at h | split)); all_goals (try simp_all [Point.plain]); all_goals (try subst_vars); all_goals (try simp_all [Chan.push, Chan.pop, Chan.handOff, Chan.bump, Chan.front, Point.plain, Point.chan, Point.secondPhase2, Out.isArm, Out.commits, Ret.isRecvOn, hasRecv, noSendRecv])
  case recv2Wait c b sq => (try unfold recv2Loop at h); (try unfold recv2Loop); (try simp only [Chan.handOff] at h ⊢); (repeat' (first | split at h | split)); all_goals (try simp_all [Point.plain]); all_goals (try subst_vars); all_goals (try simp_all [Chan.push, Chan.pop, Chan.handOff, Chan.bump, Chan.front, Point.plain, Point.chan, Point.secondPhase2, Out.isArm, Out.commits, Ret.isRecvOn, hasRecv, noSendRecv])
  case closeLock c => (try unfold closeBody at h); (try unfold closeBody); (try simp only [Chan.handOff] at h ⊢); (repeat' (first | split at h | split)); all_goals (try simp_all [Point.plain]); all_goals (try subst_vars); all_goals (try simp_all [Chan.push, Chan.pop, Chan.handOff, Chan.bump, Chan.front, Point.plain, Point.chan, Point.secondPhase2, Out.isArm, Out.commits, Ret.isRecvOn, hasRecv, noSendRecv])
  case trySendLock c v => simp [Point.plain] at hp
  case tryRecvLock c sl a => simp [Point.plain] at hp
  case prepLock c b => simp [Point.plain] at hp
  case endLock c b => simp [Point.plain] at hp

/-- a receive that returns without committing in this critical section -/
theorem body_unlock_ret (p : Point) (t : Tid) (ch : Chan) (r : Ret) (hp : p.plain = true)
    (h : (body p t ch).out = .unlock r) :
    (body p t ch).ch = ch ∧ (body p t ch).deliver = none ∧ r.isRecvOn p.chan = true ∧
    (match p.secondPhase2 with
     | some seq => ch.fixed = true → r = .recv p.chan (ch.recvseq != seq)
     | none => r = .recv p.chan false) := by
  cases p <;> simp only [body] at h ⊢
  case sendLock c v => (try unfold sendLoop at h); (try unfold sendLoop); (try simp only [Chan.handOff] at h ⊢); (repeat' (first | split at h | split)); all_goals (try simp_all [Point.plain]); all_goals (try subst_vars); all_goals (try simp_all [Chan.push, Chan.pop, Chan.handOff, Chan.bump, Chan.front, Point.plain, Point.chan, Point.secondPhase2, Out.isArm, Out.commits, Ret.isRecvOn, hasRecv, noSendRecv])
  case sendWaitU c v => (try unfold sendLoop at h); (try unfold sendLoop); (try simp only [Chan.handOff] at h ⊢); (repeat' (first | split at h | split)); all_goals (try simp_all [Point.plain]); all_goals (try subst_vars); all_goals (try simp_all [Chan.push, Chan.pop, Chan.handOff, Chan.bump, Chan.front, Point.plain, Point.chan, Point.secondPhase2, Out.isArm, Out.commits, Ret.isRecvOn, hasRecv, noSendRecv])
  case sendWaitB c v => (try unfold sendLoop at h); (try unfold sendLoop); (try simp only [Chan.handOff] at h ⊢); (repeat' (first | split at h | split)); all_goals (try simp_all [Point.plain]); all_goals (try subst_vars); all_goals (try simp_all [Chan.push, Chan.pop, Chan.handOff, Chan.bump, Chan.front, Point.plain, Point.chan, Point.secondPhase2, Out.isArm, Out.commits, Ret.isRecvOn, hasRecv, noSendRecv])
  case recvLock c sl => (try unfold recvLoop at h); (try unfold recvLoop); (try simp only [Chan.handOff] at h ⊢); (repeat' (first | split at h | split)); all_goals (try simp_all [Point.plain]); all_goals (try subst_vars); all_goals (try simp_all [Chan.push, Chan.pop, Chan.handOff, Chan.bump, Chan.front, Point.plain, Point.chan, Point.secondPhase2, Out.isArm, Out.commits, Ret.isRecvOn, hasRecv, noSendRecv])
  case recvWaitU c sl => (try unfold recvLoop at h); (try unfold recvLoop); (try simp only [Chan.handOff] at h ⊢); (repeat' (first | split at h | split)); all_goals (try simp_all [Point.plain]); all_goals (try subst_vars); all_goals (try simp_all [Chan.push, Chan.pop, Chan.handOff, Chan.bump, Chan.front, Point.plain, Point.chan, Point.secondPhase2, Out.isArm, Out.commits, Ret.isRecvOn, hasRecv, noSendRecv])
  case recvWaitB c sl => (try unfold recvLoop at h); (try unfold recvLoop); (try simp only [Chan.handOff] at h ⊢); (repeat' (first | split at h | split)); all_goals (try simp_all [Point.plain]); all_goals (try subst_vars); all_goals (try simp_all [Chan.push, Chan.pop, Chan.handOff, Chan.bump, Chan.front, Point.plain, Point.chan, Point.secondPhase2, Out.isArm, Out.commits, Ret.isRecvOn, hasRecv, noSendRecv])
  case recv2Lock c b sq => (try unfold recv2Loop at h); (try unfold recv2Loop); (try simp only [Chan.handOff] at h ⊢); (repeat' (first | split at h | split)); all_goals (try simp_all [Point.plain]); all_goals (try subst_vars); all_goals (try simp_all [Chan.push, Chan.pop, Chan.handOff, Chan.bump, Chan.front, Point.plain, Point.chan, Point.secondPhase2, Out.isArm, Out.commits, Ret.isRecvOn, hasRecv, noSendRecv])
  case recv2Wait c b sq => (try unfold recv2Loop at h); (try unfold recv2Loop); (try simp only [Chan.handOff] at h ⊢); (repeat' (first | split at h | split)); all_goals (try simp_all [Point.plain]); all_goals (try subst_vars); all_goals (try simp_all [Chan.push, Chan.pop, Chan.handOff, Chan.bump, Chan.front, Point.plain, Point.chan, Point.secondPhase2, Out.isArm, Out.commits, Ret.isRecvOn, hasRecv, noSendRecv])
  case closeLock c => (try unfold closeBody at h); (try unfold closeBody); (try simp only [Chan.handOff] at h ⊢); (repeat' (first | split at h | split)); all_goals (try simp_all [Point.plain]); all_goals (try subst_vars); all_goals (try simp_all [Chan.push, Chan.pop, Chan.handOff, Chan.bump, Chan.front, Point.plain, Point.chan, Point.secondPhase2, Out.isArm, Out.commits, Ret.isRecvOn, hasRecv, noSendRecv])
  case trySendLock c v => simp [Point.plain] at hp
  case tryRecvLock c sl a => simp [Point.plain] at hp
  case prepLock c b => simp [Point.plain] at hp
  case endLock c b => simp [Point.plain] at hp

/-- no commit: the history, the counter and the variables are untouched -/
theorem body_hist_same (p : Point) (t : Tid) (ch : Chan) (hp : p.plain = true)
    (h : (body p t ch).out.commits = false) :
    (body p t ch).ch.sentBy = ch.sentBy ∧ (body p t ch).ch.recvBy = ch.recvBy ∧ (body p t ch).deliver = none ∧
    (body p t ch).ch.recvseq = ch.recvseq := by
  cases p <;> simp only [body] at h ⊢
  case sendLock c v => (try unfold sendLoop at h); (try unfold sendLoop); (try simp only [Chan.handOff] at h ⊢); (repeat' (first | split at h | split)); all_goals (try simp_all [Point.plain]); all_goals (try subst_vars); all_goals (try simp_all [Chan.push, Chan.pop, Chan.handOff, Chan.bump, Chan.front, Point.plain, Point.chan, Point.secondPhase2, Out.isArm, Out.commits, Ret.isRecvOn, hasRecv, noSendRecv])
  case sendWaitU c v => (try unfold sendLoop at h); (try unfold sendLoop); (try simp only [Chan.handOff] at h ⊢); (repeat' (first | split at h | split)); all_goals (try simp_all [Point.plain]); all_goals (try subst_vars); all_goals (try simp_all [Chan.push, Chan.pop, Chan.handOff, Chan.bump, Chan.front, Point.plain, Point.chan, Point.secondPhase2, Out.isArm, Out.commits, Ret.isRecvOn, hasRecv, noSendRecv])
  case sendWaitB c v => (try unfold sendLoop at h); (try unfold sendLoop); (try simp only [Chan.handOff] at h ⊢); (repeat' (first | split at h | split)); all_goals (try simp_all [Point.plain]); all_goals (try subst_vars); all_goals (try simp_all [Chan.push, Chan.pop, Chan.handOff, Chan.bump, Chan.front, Point.plain, Point.chan, Point.secondPhase2, Out.isArm, Out.commits, Ret.isRecvOn, hasRecv, noSendRecv])
  case recvLock c sl => (try unfold recvLoop at h); (try unfold recvLoop); (try simp only [Chan.handOff] at h ⊢); (repeat' (first | split at h | split)); all_goals (try simp_all [Point.plain]); all_goals (try subst_vars); all_goals (try simp_all [Chan.push, Chan.pop, Chan.handOff, Chan.bump, Chan.front, Point.plain, Point.chan, Point.secondPhase2, Out.isArm, Out.commits, Ret.isRecvOn, hasRecv, noSendRecv])
  case recvWaitU c sl => (try unfold recvLoop at h); (try unfold recvLoop); (try simp only [Chan.handOff] at h ⊢); (repeat' (first | split at h | split)); all_goals (try simp_all [Point.plain]); all_goals (try subst_vars); all_goals (try simp_all [Chan.push, Chan.pop, Chan.handOff, Chan.bump, Chan.front, Point.plain, Point.chan, Point.secondPhase2, Out.isArm, Out.commits, Ret.isRecvOn, hasRecv, noSendRecv])
  case recvWaitB c sl => (try unfold recvLoop at h); (try unfold recvLoop); (try simp only [Chan.handOff] at h ⊢); (repeat' (first | split at h | split)); all_goals (try simp_all [Point.plain]); all_goals (try subst_vars); all_goals (try simp_all [Chan.push, Chan.pop, Chan.handOff, Chan.bump, Chan.front, Point.plain, Point.chan, Point.secondPhase2, Out.isArm, Out.commits, Ret.isRecvOn, hasRecv, noSendRecv])
  case recv2Lock c b sq => (try unfold recv2Loop at h); (try unfold recv2Loop); (try simp only [Chan.handOff] at h ⊢); (repeat' (first | split at h | split)); all_goals (try simp_all [Point.plain]); all_goals (try subst_vars); all_goals (try simp_all [Chan.push, Chan.pop, Chan.handOff, Chan.bump, Chan.front, Point.plain, Point.chan, Point.secondPhase2, Out.isArm, Out.commits, Ret.isRecvOn, hasRecv, noSendRecv])
  case recv2Wait c b sq => (try unfold recv2Loop at h); (try unfold recv2Loop); (try simp only [Chan.handOff] at h ⊢); (repeat' (first | split at h | split)); all_goals (try simp_all [Point.plain]); all_goals (try subst_vars); all_goals (try simp_all [Chan.push, Chan.pop, Chan.handOff, Chan.bump, Chan.front, Point.plain, Point.chan, Point.secondPhase2, Out.isArm, Out.commits, Ret.isRecvOn, hasRecv, noSendRecv])
  case closeLock c => (try unfold closeBody at h); (try unfold closeBody); (try simp only [Chan.handOff] at h ⊢); (repeat' (first | split at h | split)); all_goals (try simp_all [Point.plain]); all_goals (try subst_vars); all_goals (try simp_all [Chan.push, Chan.pop, Chan.handOff, Chan.bump, Chan.front, Point.plain, Point.chan, Point.secondPhase2, Out.isArm, Out.commits, Ret.isRecvOn, hasRecv, noSendRecv])
  case trySendLock c v => simp [Point.plain] at hp
  case tryRecvLock c sl a => simp [Point.plain] at hp
  case prepLock c b => simp [Point.plain] at hp
  case endLock c b => simp [Point.plain] at hp

/-! ### the select-free world is closed under steps -/

structure PlainInv (s : State) : Prop where
  th : ∀ t, PlainTh (s.thread t)
  sops : ∀ c, (s.chan c).sops = []
  free : ∀ c, s.own c = none

theorem runnable_pc {s : State} {t : Tid} (h : runnable s t = true) : (s.thread t).pc ≠ .done ∧ (s.thread t).waiting = false := by
  simp only [runnable, Bool.and_eq_true, bne_iff_ne, ne_eq, Bool.not_eq_true', decide_eq_true_eq] at h
  exact ⟨h.1.1.2, h.1.2⟩

/-- the pc of a runnable plain thread -/
theorem plain_pc_cases {s : State} {t : Tid} (h : PlainInv s) (hr : runnable s t = true) :
    (s.thread t).pc = .start ∨ ∃ p, (s.thread t).pc = .at p ∧ p.plain = true := by
  have hp := (h.th t).pc
  have hd := (runnable_pc hr).1
  cases hpc : (s.thread t).pc with
  | start => left; rfl
  | done => exact absurd hpc hd
  | «at» p => right; rw [hpc] at hp; exact ⟨p, rfl, hp⟩
  | notify c r k => rw [hpc] at hp; cases hp
  | selLock => rw [hpc] at hp; cases hp
  | selWait => rw [hpc] at hp; cases hp

theorem exec_start (s : State) (t : Tid) (hpc : (s.thread t).pc = .start) :
    exec s t = s.setThread t (startOps (s.thread t) (s.thread t).ops) := by
  unfold exec
  simp only [hpc]

theorem exec_plainInv {s : State} {t : Tid} (h : PlainInv s) (hr : runnable s t = true) : PlainInv (exec s t) := by
  have ht := runnable_lt hr
  rcases plain_pc_cases h hr with hpc | ⟨p, hpc, hpl⟩
  · rw [exec_start s t hpc]
    obtain ⟨_, h2, h3, h4, _⟩ := startOps_plain (s.thread t) (s.thread t).ops (h.th t).ops
    refine ⟨fun t' => ?_, h.sops, h.free⟩
    by_cases htt : t' = t
    · rw [htt, thread_setThread_self _ _ _ ht]
      exact ⟨h3, h4, entry_plain h2⟩
    · rw [thread_setThread_ne _ _ _ _ (Ne.symm htt)]; exact h.th t'
  · have hso : (body p t (s.chan p.chan)).ch.sops = [] := by rw [body_sops p t _ hpl]; exact h.sops _
    obtain ⟨hoth, hself, hown⟩ := plain_exec s t p ht hpc (h.th t).sel (h.th t).ops hso
    obtain ⟨hch, _, _, _⟩ := exec_at_detail s t p ht hpc
    refine ⟨fun t' => ?_, fun c => ?_, hown h.free⟩
    · by_cases htt : t' = t
      · rw [htt]
        have hb := body_plain_wait p
        cases hout : (body p t (s.chan p.chan)).out with
        | wait q =>
          rw [hout] at hself
          obtain ⟨e1, _, _, _, e5, e6⟩ := hself
          exact ⟨by rw [e5]; exact (h.th t).sel, by rw [e6]; exact (h.th t).ops,
            by rw [e1]; exact hb q t _ hpl (Or.inl hout)⟩
        | unlock r =>
          rw [hout] at hself
          obtain ⟨_, e2, e3, e4, _⟩ := hself
          exact ⟨e3, e4, entry_plain e2⟩
        | panic =>
          rw [hout] at hself
          obtain ⟨e1, _, e3, e4⟩ := hself
          exact ⟨e3, by rw [e4]; rfl, by rw [e1]; rfl⟩
        | notify k =>
          rw [hout] at hself
          cases k with
          | wait q =>
            obtain ⟨e1, _, _, _, e5, e6⟩ := hself
            exact ⟨by rw [e5]; exact (h.th t).sel, by rw [e6]; exact (h.th t).ops,
              by rw [e1]; exact hb q t _ hpl (Or.inr hout)⟩
          | finish bc n =>
            cases n with
            | ret r =>
              obtain ⟨_, e2, e3, e4, _⟩ := hself
              exact ⟨e3, e4, entry_plain e2⟩
            | recv2 b seq =>
              obtain ⟨e1, _, _, e5, e6⟩ := hself
              have hb0 := (body_arm p t _ bc b seq hpl hout).1
              exact ⟨by rw [e5]; exact (h.th t).sel, by rw [e6]; exact (h.th t).ops,
                by rw [e1, hb0]; rfl⟩
      · have := hoth t' htt
        exact ⟨by rw [this.sel]; exact (h.th t').sel, by rw [this.ops]; exact (h.th t').ops,
          by rw [this.pc]; exact (h.th t').pc⟩
    · rcases chan_after_set s _ p.chan _ hch c with e | ⟨_, e⟩
      · rw [e]; exact h.sops c
      · rw [e]; exact hso

theorem init_plainInv (cfg : Cfg) (caps : List Nat) (progs : List (List Op)) (hns : noSelect progs = true) :
    PlainInv (init cfg caps progs) := by
  refine ⟨fun t => ?_, fun c => ?_, fun c => ?_⟩
  · simp only [State.thread, init, List.getD, List.getElem?_map]
    cases hp : progs[t]? with
    | none => exact ⟨rfl, rfl, rfl⟩
    | some ops =>
      simp only [Option.map_some, Option.getD_some]
      refine ⟨rfl, ?_, rfl⟩
      have := List.mem_of_getElem? hp
      simp only [noSelect, List.all_eq_true] at hns
      show ops.all Op.plain = true
      rw [List.all_eq_true]
      exact hns ops this
  · simp only [State.chan, init, List.getD, List.getElem?_map]
    cases caps[c]? <;> rfl
  · simp only [State.own, init, List.getD, List.getElem?_map]
    cases caps[c]? <;> rfl

theorem wake_plainInv {s : State} (h : PlainInv s) (t : Tid) :
    PlainInv (s.setThread t { s.thread t with waiting := false }) := by
  refine ⟨fun t' => ?_, h.sops, h.free⟩
  rcases thread_setThread_cases s t t' { s.thread t with waiting := false } with e | e
  · rw [e]; exact ⟨(h.th t).sel, (h.th t).ops, (h.th t).pc⟩
  · rw [e]; exact h.th t'

theorem reachable_plainInv {cfg : Cfg} {caps : List Nat} {progs : List (List Op)} {s : State}
    (hns : noSelect progs = true) (h : Reachable (init cfg caps progs) s) : PlainInv s := by
  induction h with
  | init => exact init_plainInv cfg caps progs hns
  | next ch _ hs ih =>
    cases ch with
    | step t =>
      simp only [apply, step] at hs
      split at hs
      · rename_i hr; cases hs; exact exec_plainInv ih hr
      · cases hs
    | wake t =>
      simp only [apply, wake] at hs
      split at hs
      · cases hs; exact wake_plainInv ih t
      · cases hs

end LlgoVerif.Chan
