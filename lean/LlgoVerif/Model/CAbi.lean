/-!
# C09 — executable model of llgo's x86-64 C ABI classification (`internal/cabi`)

Mirrors, branch by branch, `/repo/internal/cabi/arch.go` `TypeInfoAmd64.GetTypeInfo` (+ `elementTypes`,
`elementTypesCount`, `elementOffsets`) and the empty-type rules of `/repo/internal/cabi/cabi.go`
(`getEmptyType`, `transformFuncType`), *including their defects*:

* every parameter is classified **in isolation** (`lowerParamC`): nothing tracks how many INTEGER / SSE
  registers are still free (`implPlace`).

Two configurations (`Cfg`):

* `Cfg.repaired` — the code as it is NOW (after "fix: split two-eightbyte aggregates at the real element
  offsets"): the split index of a two-eightbyte aggregate is the first scalar whose REAL offset
  (`elementOffsets`) is ≥ 8 and the second half is `IntType((Size-8)*8)`  (`getTypeInfo`, `classifyV`, `classify`);
* `Cfg.legacy` — the code before that fix: the split index came from a **running offset over the flattened
  scalar list** (`offset = (offset + Sizeof(et) + align-1) &^ (align-1)`), which ignores the padding a nested
  struct or an array of structs introduces (`splitLoop`, `getTypeInfoLegacy`, `classifyLegacyV`).  Kept so
  that the counterexample stays checked and so that the check can tell which of the two a tree implements.

The universe: C-compatible value types built from `{i8,i16,i32,i64,ptr,f32,f64}`, nested structs and
arrays, laid out as LLVM's `DataLayout` does for the x86-64 triple (natural alignment, tail padding).

The second half models what happens to the rewritten *scalar* parameter list: LLVM's x86-64 calling
convention for scalars and `byval` pointers (`ccArg`).  That half is not llgo code; it is part of the
implementation-side pipeline and is validated by execution (see design/C09.md).

Core Lean only.
-/
namespace LlgoVerif.CAbi

/-! ## Types and layout -/

inductive Scalar where
  | i8 | i16 | i32 | i64 | ptr | f32 | f64
deriving DecidableEq, Repr, Inhabited

/-- size = ABI alignment for every scalar of the universe on x86-64 -/
def Scalar.size : Scalar → Nat
  | .i8 => 1 | .i16 => 2 | .i32 => 4 | .i64 => 8 | .ptr => 8 | .f32 => 4 | .f64 => 8

def Scalar.isSSE : Scalar → Bool
  | .f32 => true | .f64 => true | _ => false

inductive CType where
  | sc (s : Scalar)
  | struct (fs : List CType)
  | array (n : Nat) (t : CType)
deriving Repr, Inhabited

/-- round `x` up to a multiple of `a`; for a power of two `a` this is Go's `(x + a - 1) &^ (a - 1)` -/
def alignUp (x a : Nat) : Nat := (x + a - 1) / a * a

mutual
def CType.align : CType → Nat
  | .sc s => s.size
  | .struct fs => alignL fs
  | .array _ t => t.align
def alignL : List CType → Nat
  | [] => 1
  | f :: fs => max f.align (alignL fs)
end

mutual
/-- `TargetData.TypeAllocSize` -/
def CType.size : CType → Nat
  | .sc s => s.size
  | .struct fs => alignUp (endL fs 0) (alignL fs)
  | .array n t => n * t.size
/-- offset after the last field when the fields are placed from `cur` on -/
def endL : List CType → Nat → Nat
  | [], cur => cur
  | f :: fs, cur => endL fs (alignUp cur f.align + f.size)
end

def repeatL (n : Nat) (l : List Scalar) : List Scalar :=
  match n with
  | 0 => []
  | n + 1 => l ++ repeatL n l

mutual
/-- `elementTypes`: the scalar leaves in order (empty structs contribute nothing) -/
def CType.flatten : CType → List Scalar
  | .sc s => [s]
  | .struct fs => flattenL fs
  | .array n t => repeatL n t.flatten
def flattenL : List CType → List Scalar
  | [] => []
  | f :: fs => f.flatten ++ flattenL fs
end

abbrev Elem := Nat × Scalar

def shift (d : Nat) (l : List Elem) : List Elem := l.map fun p => (p.1 + d, p.2)

def arrElems (n sz : Nat) (e : List Elem) (base : Nat) : List Elem :=
  match n with
  | 0 => []
  | n + 1 => shift base e ++ arrElems n sz e (base + sz)

mutual
/-- the scalar leaves with their REAL byte offsets (relative to the start of the value) -/
def CType.elems : CType → List Elem
  | .sc s => [(0, s)]
  | .struct fs => elemsL fs 0
  | .array n t => arrElems n t.size t.elems 0
def elemsL : List CType → Nat → List Elem
  | [], _ => []
  | f :: fs, cur => shift (alignUp cur f.align) f.elems ++ elemsL fs (alignUp cur f.align + f.size)
end

/-- what the classifier looks at: `Sizeof(typ)`, `Alignof(typ)`, `elementTypes(typ)`; `elems` (the real
    offsets) is what the *specification* looks at -/
structure View where
  size : Nat
  align : Nat
  types : List Scalar
  elems : List Elem
deriving Repr

def CType.view (t : CType) : View := ⟨t.size, t.align, t.flatten, t.elems⟩

/-! ## Natural layout of a flat scalar list (what the classifier's running offset assumes) -/

def natLayout : List Scalar → Nat → List Elem
  | [], _ => []
  | s :: r, cur => (alignUp cur s.size, s) :: natLayout r (alignUp cur s.size + s.size)

def natEnd : List Scalar → Nat → Nat
  | [], cur => cur
  | s :: r, cur => natEnd r (alignUp cur s.size + s.size)

def maxAlign : List Scalar → Nat
  | [] => 1
  | s :: r => max s.size (maxAlign r)

/-- the flattened scalar list, laid out naturally, reproduces the real layout (no padding introduced by
    nesting).  True for every flat struct (`Lemmas/CAbi.lean: natural_flat`). -/
def View.natural (v : View) : Prop :=
  v.elems = natLayout v.types 0 ∧ v.size = alignUp (natEnd v.types 0) v.align ∧ v.align = maxAlign v.types

instance (v : View) : Decidable v.natural := by unfold View.natural; infer_instance

/-! ## LLVM types llgo coerces to -/

inductive RegTy where
  | int (bytes : Nat)      -- `ctx.IntType(bytes*8)`
  | ptr | f32 | f64
  | v2f32                  -- `<2 x float>`
deriving DecidableEq, Repr, Inhabited

def Scalar.regTy : Scalar → RegTy
  | .i8 => .int 1 | .i16 => .int 2 | .i32 => .int 4 | .i64 => .int 8 | .ptr => .ptr | .f32 => .f32 | .f64 => .f64

def RegTy.isSSE : RegTy → Bool
  | .f32 => true | .f64 => true | .v2f32 => true | _ => false

/-- bytes a load/store of the type touches -/
def RegTy.bytes : RegTy → Nat
  | .int n => n | .ptr => 8 | .f32 => 4 | .f64 => 8 | .v2f32 => 8

/-- LLVM ABI alignment (x86-64 data layout: i8:8 i16:16 i32:32 i64:64, other widths use the next larger one) -/
def RegTy.abiAlign : RegTy → Nat
  | .int n => if n ≤ 1 then 1 else if n ≤ 2 then 2 else if n ≤ 4 then 4 else 8
  | .ptr => 8 | .f32 => 4 | .f64 => 8 | .v2f32 => 8

def RegTy.allocSize (r : RegTy) : Nat := alignUp r.bytes r.abiAlign

/-- offset of the second member of the literal struct `{t1, t2}` through which llgo loads/stores the two halves -/
def off2 (r1 r2 : RegTy) : Nat := alignUp r1.allocSize r2.abiAlign

/-! ## `TypeInfoAmd64.GetTypeInfo` — shared pieces and the LEGACY split (before the fix) -/

inductive PassKind where
  | void                       -- AttrVoid: zero-size parameter, dropped
  | direct                     -- AttrNone: type unchanged
  | coerce (t : RegTy)         -- AttrWidthType
  | coerce2 (t1 t2 : RegTy)    -- AttrWidthType2
  | memory                     -- AttrPointer: byval parameter / sret result
deriving DecidableEq, Repr, Inhabited

/-- the `for i, et := range types` loop; the result is `index` at loop exit (0 when the loop runs off the end).
    `offset` is the RUNNING offset over the flattened list. -/
def splitLoop : List Scalar → Nat → Nat → Nat
  | [], _, _ => 0
  | et :: rest, offset, i =>
    if alignUp (offset + et.size) et.size < 8 then splitLoop rest (alignUp (offset + et.size) et.size) (i + 1)
    else if alignUp (offset + et.size) et.size > 8 then i
    else i + 1

/-- the `for _, sub := range subs` loop of `subType` -/
def subFold : List Scalar → Nat → Nat
  | [], n => n
  | s :: r, n => subFold r (alignUp (n + s.size) s.size)

/-- (legacy) the closure `subType(subs, left)`; `structAlign` is `info.Align` -/
def subTypeLegacy (structAlign : Nat) (subs : List Scalar) (left : Bool) : RegTy :=
  match subs with
  | [s] => s.regTy
  | _ =>
    if subs = [.f32, .f32] then .v2f32
    else if left then .int 8
    else .int (alignUp (subFold subs 0) structAlign)

/-- (legacy) the general 8 < size ≤ 16 branch -/
def splitClassifyLegacy (align : Nat) (types : List Scalar) : PassKind :=
  .coerce2 (subTypeLegacy align (types.take (splitLoop types 0 0)) true)
           (subTypeLegacy align (types.drop (splitLoop types 0 0)) false)

/-- the size ≤ 8 branch: `IntType(size*8)` unless `types[0]` and `types[1]` are both `float` -/
def smallClassify (size : Nat) (types : List Scalar) : PassKind :=
  match types with
  | .f32 :: .f32 :: _ => .coerce .v2f32
  | _ => .coerce (.int size)

def getTypeInfoLegacy (size align : Nat) (types : List Scalar) : PassKind :=
  if types.length ≥ 2 then
    if size > 16 then .memory
    else if size ≤ 8 then smallClassify size types
    else
      match types with
      | [a, b] =>
        if a.size = 8 ∨ b.size = 8 then .coerce2 a.regTy b.regTy
        else splitClassifyLegacy align types
      | _ => splitClassifyLegacy align types
  else .direct

/-- (legacy) `Transformer.GetTypeInfo` for amd64 -/
def classifyLegacyV (v : View) (isRet : Bool) : PassKind :=
  if v.size = 0 then (if isRet then .direct else .void)
  else getTypeInfoLegacy v.size v.align v.types

def classifyLegacy (t : CType) (isRet : Bool) : PassKind := classifyLegacyV t.view isRet

/-- a coerce type llgo cannot build: `ctx.IntType(0)` (LLVM crashes in code generation) -/
def PassKind.wellFormed : PassKind → Bool
  | .coerce (.int 0) => false
  | .coerce2 (.int 0) _ => false
  | .coerce2 _ (.int 0) => false
  | _ => true


/-! ## `TypeInfoAmd64.GetTypeInfo` as it is now (`Cfg.repaired`)

The two-eightbyte split is taken at the first scalar whose REAL offset (`elementOffsets`) is ≥ 8 and the second
half is `IntType((Size-8)*8)`. -/

/-- `for i, offset := range elementOffsets(..) { if offset >= 8 { index = i; break } }` (`len(types)` if none) -/
def splitIndex (elems : List Elem) : Nat := (elems.takeWhile fun e => e.1 < 8).length

/-- the closure `subType(subs, left)`; `size` is `info.Size` -/
def subType (size : Nat) (subs : List Scalar) (left : Bool) : RegTy :=
  match subs with
  | [s] => s.regTy
  | _ =>
    if subs = [.f32, .f32] then .v2f32
    else if left then .int 8
    else .int (size - 8)

def splitClassify (v : View) : PassKind :=
  .coerce2 (subType v.size (v.types.take (splitIndex v.elems)) true)
           (subType v.size (v.types.drop (splitIndex v.elems)) false)

def getTypeInfo (v : View) : PassKind :=
  if v.types.length ≥ 2 then
    if v.size > 16 then .memory
    else if v.size ≤ 8 then smallClassify v.size v.types
    else
      match v.types with
      | [a, b] =>
        if a.size = 8 ∨ b.size = 8 then .coerce2 a.regTy b.regTy
        else splitClassify v
      | _ => splitClassify v
  else .direct

/-- `Transformer.GetTypeInfo` for amd64 (`SkipEmptyParams() = true`): zero-size types first, then the classifier -/
def classifyV (v : View) (isRet : Bool) : PassKind :=
  if v.size = 0 then (if isRet then .direct else .void)
  else getTypeInfo v

def classify (t : CType) (isRet : Bool) : PassKind := classifyV t.view isRet

inductive Cfg where
  | repaired | legacy
deriving DecidableEq, Repr

def classifyC : Cfg → View → Bool → PassKind
  | .repaired => classifyV
  | .legacy => classifyLegacyV

mutual
/-- C-compatible value types of the universe: no zero-length arrays -/
def CType.wf : CType → Bool
  | .sc _ => true
  | .struct fs => wfL fs
  | .array n t => decide (0 < n) && t.wf
def wfL : List CType → Bool
  | [] => true
  | f :: fs => f.wf && wfL fs
end

/-! ## The rewritten signature (`transformFuncType`) and LLVM's x86-64 convention for it -/

structure Sig where
  ret : Option CType
  params : List CType
deriving Repr

inductive LArg where
  | scalar (r : RegTy)
  | byval (size align : Nat)
deriving DecidableEq, Repr

/-- parameters that replace one original parameter, for a classifier `cls` -/
def lowerParamC (cls : View → Bool → PassKind) (v : View) : List LArg :=
  match cls v false with
  | .void => []
  | .direct => v.types.map fun s => .scalar s.regTy     -- LLVM passes a first-class aggregate leaf by leaf (≤ 1 leaf here)
  | .coerce r => [.scalar r]
  | .coerce2 r1 r2 => [.scalar r1, .scalar r2]
  | .memory => [.byval v.size v.align]

inductive LRet where
  | void | sret | regs (rs : List RegTy)
deriving DecidableEq, Repr

def lowerRetC (cls : View → Bool → PassKind) (v : View) : LRet :=
  match cls v true with
  | .void => .regs []                                   -- (unreachable: results are never AttrVoid here)
  | .direct => .regs (v.types.map Scalar.regTy)
  | .coerce r => .regs [r]
  | .coerce2 r1 r2 => .regs [r1, r2]
  | .memory => .sret

inductive Loc where
  | gpr (i : Nat)      -- parameters: i-th of RDI RSI RDX RCX R8 R9; results: i-th of RAX RDX
  | xmm (i : Nat)
  | stack (off : Nat)  -- byte offset in the outgoing argument area
deriving DecidableEq, Repr

structure St where
  gpr : Nat
  sse : Nat
  stack : Nat
deriving DecidableEq, Repr

/-- an aggregate passed in memory: 8-byte (or its own, if larger) aligned, size rounded up to 8; one
    location per eightbyte -/
def toStack (size align : Nat) (st : St) : List Loc × St :=
  ((List.range ((size + 7) / 8)).map (fun k => Loc.stack (alignUp st.stack (max 8 align) + 8 * k)),
   { st with stack := alignUp st.stack (max 8 align) + alignUp size 8 })

/-- LLVM x86-64 C calling convention for one lowered argument -/
def ccArg (a : LArg) (st : St) : List Loc × St :=
  match a with
  | .scalar r =>
    if r.isSSE then
      if st.sse < 8 then ([.xmm st.sse], { st with sse := st.sse + 1 })
      else ([.stack (alignUp st.stack 8)], { st with stack := alignUp st.stack 8 + 8 })
    else
      if st.gpr < 6 then ([.gpr st.gpr], { st with gpr := st.gpr + 1 })
      else ([.stack (alignUp st.stack 8)], { st with stack := alignUp st.stack 8 + 8 })
  | .byval size align => toStack size align st

def ccArgs : List LArg → St → List Loc × St
  | [], st => ([], st)
  | a :: as, st => ((ccArg a st).1 ++ (ccArgs as (ccArg a st).2).1, (ccArgs as (ccArg a st).2).2)

def implPlaceArgsC (cls : View → Bool → PassKind) : List View → St → List (List Loc)
  | [], _ => []
  | v :: vs, st => (ccArgs (lowerParamC cls v) st).1 :: implPlaceArgsC cls vs (ccArgs (lowerParamC cls v) st).2

inductive RetPlace where
  | void | sret | regs (l : List Loc)
deriving DecidableEq, Repr

structure Placement where
  ret : RetPlace
  args : List (List Loc)     -- per original parameter: one location per eightbyte
deriving DecidableEq, Repr

def implRetC (cls : View → Bool → PassKind) (r : Option View) : RetPlace :=
  match r with
  | none => .void
  | some v =>
    match lowerRetC cls v with
    | .void => .void
    | .sret => .sret
    | .regs rs => .regs (ccArgs (rs.map .scalar) ⟨0, 0, 0⟩).1

/-- where every eightbyte of every argument ends up, for a classifier `cls` -/
def implPlaceC (cls : View → Bool → PassKind) (sig : Sig) : Placement :=
  { ret := implRetC cls (sig.ret.map CType.view),
    args := implPlaceArgsC cls (sig.params.map CType.view)
      ⟨(if implRetC cls (sig.ret.map CType.view) = .sret then 1 else 0), 0, 0⟩ }

/-- where every eightbyte of every argument ends up on the current tree -/
def implPlace (sig : Sig) : Placement := implPlaceC classifyV sig

/-! ## arm64: `TypeInfoArm64.GetTypeInfo` (no host to execute; tied by in-process classification and clang only)

`SupportByVal() = false` (a large aggregate is passed as a plain pointer to a caller-made copy), `SkipEmptyParams() = true`.
Sizes and alignments of the universe's scalars are the same as on x86-64, so `View` is shared. -/

inductive PassKind64 where
  | void                      -- AttrVoid
  | direct                    -- AttrNone: type unchanged (LLVM passes the leaves of the aggregate one by one)
  | coerceInt (bytes : Nat)   -- AttrWidthType, result: `IntType(Size*8)`
  | coerceI64                 -- AttrWidthType, parameter: `i64`
  | coerceI64x2               -- AttrWidthType: `[2 x i64]`
  | memory                    -- AttrPointer: pointer to a copy / sret (x8)
deriving DecidableEq, Repr, Inhabited

def CType.isAgg : CType → Bool
  | .sc _ => false
  | _ => true

def isPtrOrI64 : Scalar → Bool
  | .i64 => true | .ptr => true | _ => false

/-- `checkTypes(types, typ)` -/
def allEq (l : List Scalar) (s : Scalar) : Bool := l.all (· == s)

/-- "skip (i64/ptr,i64/ptr)": exactly two leaves, each a pointer or an `i64` -/
def twoPtrOrI64 (types : List Scalar) : Bool :=
  match types with
  | [a, b] => isPtrOrI64 a && isPtrOrI64 b
  | _ => false

def getTypeInfoArm64 (v : View) (isAgg bret : Bool) : PassKind64 :=
  if !isAgg then .direct                                   -- `switch kind { case Struct, Array: … }` not entered
  else if bret && v.types.length == 1 then .direct
  else if twoPtrOrI64 v.types then .direct
  else if decide (v.types.length ≤ 4) && (allEq v.types .f32 || allEq v.types .f64) then .direct
  else if v.size > 16 then .memory
  else if v.size ≤ 8 then (if bret then .coerceInt v.size else .coerceI64)
  else .coerceI64x2

def classifyArm64V (v : View) (isAgg isRet : Bool) : PassKind64 :=
  if v.size = 0 then (if isRet then .direct else .void)
  else getTypeInfoArm64 v isAgg isRet

def classifyArm64 (t : CType) (isRet : Bool) : PassKind64 := classifyArm64V t.view t.isAgg isRet

/-! ## C strings (`runtime/internal/runtime/z_string.go`: `CStrCopy`, `StringFromCStr`, `StringFrom`; `c.Strlen`) -/

abbrev Mem := List UInt8

/-- `c.Memcpy(dest, src, n)` into a flat memory; `none` = out of bounds -/
def memWrite (m : Mem) (dst : Nat) (src : List UInt8) : Option Mem :=
  if dst + src.length ≤ m.length then some (m.take dst ++ src ++ m.drop (dst + src.length)) else none

/-- `CStrCopy(dest, s)`: `Memcpy(dest, s.data, n); dest[n] = 0` -/
def cstrCopy (m : Mem) (dest : Nat) (s : List UInt8) : Option Mem :=
  match memWrite m dest s with
  | none => none
  | some m1 => memWrite m1 (dest + s.length) [0]

/-- `strlen`: index of the first NUL at or after `p`; `none` = ran off the memory (undefined behaviour) -/
def strlenFrom : List UInt8 → Option Nat
  | [] => none
  | b :: r => if b = 0 then some 0 else (strlenFrom r).map (· + 1)

def strlen (m : Mem) (p : Nat) : Option Nat := if p ≤ m.length then strlenFrom (m.drop p) else none

/-- `StringFromCStr(cstr)`: `StringFrom(cstr, Strlen(cstr))` — a fresh copy of the bytes before the first NUL -/
def stringFromCStr (m : Mem) (p : Nat) : Option (List UInt8) :=
  match strlen m p with
  | none => none
  | some n => some ((m.drop p).take n)

end LlgoVerif.CAbi
